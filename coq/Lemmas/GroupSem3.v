(* C13, semantic side, third part.

   A. the instance theorems of GroupSem / GroupSem2 (rekey-to, can-close-account, can-close-asset, is-updatable,
      is-deletable, unprotected-updatable, unprotected-deletable) read on the REPORTED LIST ([.._verdict_partial]:
      the id of t is in group_verdict) and contrapositively ([.._cleared_sound_partial]: a transaction the verdict
      does not list cannot carry the dangerous value in any consistent concrete group that every configured
      contract approves).  `_partial` for the same reason as the theorems they follow from: the hypotheses
      group_kind_ok (type_leaves_ok: D16, fragment of Spec/Eval.v), addr_side (addr_leaves_ok: D19, creator
      literal; freshness of the address) and group_base_ok (int_leaves_ok: D2).
   B. group-size-check has no group-mode verdict (it is not an instance of txn_vulnerable): [groupsize_not_a_group_check].
   C. one transaction running one contract: the group verdict against the single-contract verdict
      (run_detector of Model/Detect.v, the subject of C01/C03):
        [single_contract_leaf]                  reported iff some exit of the contract is unvalidated (logic-sig or application)
        [single_group_reports_when_path]        single-contract path reported  =>  the transaction is reported (all nine names)
        [single_group_cleared_no_path]          contrapositive
        [single_group_eq_contract_partial]      equality of the verdicts under [leaves_justified]
        [single_group_eq_contract_exact]        ... and [leaves_justified] is exactly the condition under which they are equal
        [single_group_eq_contract_refuted]      the equality is FALSE of the faithful model without it: a parsed
                                                logic-sig, analysed by run_all, on which can-close-account reports
                                                no path while the group verdict reports the transaction
        [single_group_absolute]                 the same transaction configured WITH an absolute index
        [leaves_justified_subroutine_free]      without callsub/retsub, leaves_justified = some exit is reachable from the entry
                                                through unvalidated blocks (plain reachability [UReach]; loops cut, no call stack)
   D. non-vacuity: two-member groups of application calls for is-updatable / is-deletable /
      unprotected-updatable / unprotected-deletable (the close-to detectors have theirs in GroupSem2.CloseGroupWitness),
      and the one-transaction group on which both verdicts report.
   E. ONE statement for all eight detectors the driver runs in group mode: [danger_table] (what each detector looks
      for), [txn_dangerous], [group_side] (the side conditions, per domain needed), [group_no_miss_all_partial],
      [group_verdict_all_partial], [group_cleared_all_partial]. *)
From Coq Require Import String List NArith ZArith Bool Arith Lia Permutation.
From Tealer Require Import Tables LeafPrelude Leaves Syntax Parse Cfg StackAst Keys Analysis Domains Detect Group Driver.
From Tealer Require Import Paths Runs Eval Exec LeafLemmas StackLemmas SingleLemmas SolverLemmas SearchLemmas ExecLemmas TypeLemmas
                           GraphWf GraphOk NoMiss TypeExec NoMiss2.
From Tealer Require Import GroupLemmas GroupSem GroupSem2.
Import ListNotations.
Open Scope string_scope.
Open Scope list_scope.

(* ====================================================================== *)
(* A. reported list and "cleared" readings of the instance theorems         *)
(* ====================================================================== *)
Lemma verdict_of_vulnerable funcs checks dtype vtypes group t :
  In t group -> txn_vulnerable funcs checks dtype vtypes group t = true ->
  In (g_id t) (group_verdict funcs checks dtype vtypes group).
Proof.
  intros Ht Hv. apply group_verdict_spec. exists t. split; [exact Ht|]. split; [reflexivity | exact Hv].
Qed.

(* with distinct ids the converse holds too: the list names exactly the vulnerable transactions *)
Lemma verdict_iff_vulnerable funcs checks dtype vtypes group t :
  NoDup (map g_id group) -> In t group ->
  (In (g_id t) (group_verdict funcs checks dtype vtypes group) <->
   txn_vulnerable funcs checks dtype vtypes group t = true).
Proof.
  intros Hnd Ht. split; [|exact (verdict_of_vulnerable funcs checks dtype vtypes group t Ht)].
  intros H. apply group_verdict_spec in H. destruct H as (t' & Ht' & E & Hv).
  assert (t' = t) as <-; [|exact Hv].
  pose proof (find_by_id group t' Hnd Ht') as F1. pose proof (find_by_id group t Hnd Ht) as F2.
  rewrite E in F1. congruence.
Qed.

Lemma not_true_false b : b <> true -> b = false.
Proof. destruct b; congruence. Qed.

(* ---------------------------------------------------------------- rekey-to *)
Section RekeyReadings.
  Variable funcs : list (func * fn_result).
  Variable group : list gtxn.
  Variable G : cgroup.
  Variable posn : string -> N.
  Variable a : string.
  Variable t : gtxn.
  Hypothesis Hcons : consistent_with (rekey_side funcs group posn a) funcs group G posn.
  Hypothesis Hok : group_base_ok funcs group.
  Hypothesis Ht : In t group.
  Hypothesis Hz : a <> "ZERO".
  Hypothesis Hm : is_marker a = false.
  Hypothesis Hls : g_has_logic_sig t = true.

  Theorem group_rekey_verdict_partial :
    cg_field G (posn (g_id t)) "RekeyTo" = VAddr a ->
    In (g_id t) (group_verdict funcs checks_rekey_to "STATELESS" None group).
  Proof.
    intros Hfld. apply (verdict_of_vulnerable _ _ _ _ _ t Ht).
    exact (group_rekey_no_miss_partial funcs group G posn a Hcons Hok t Ht Hfld Hz Hm Hls).
  Qed.

  (* a transaction that is not reported is not rekeyed to a in this concrete group *)
  Theorem group_rekey_cleared_sound_partial :
    txn_vulnerable funcs checks_rekey_to "STATELESS" None group t = false ->
    cg_field G (posn (g_id t)) "RekeyTo" <> VAddr a.
  Proof.
    intros Hv Hfld.
    rewrite (group_rekey_no_miss_partial funcs group G posn a Hcons Hok t Ht Hfld Hz Hm Hls) in Hv. discriminate.
  Qed.
End RekeyReadings.

(* ---------------------------------------------------------------- can-close-account / can-close-asset *)
Section CloseReadings.
  Variable funcs : list (func * fn_result).
  Variable group : list gtxn.
  Variable G : cgroup.
  Variable posn : string -> N.
  Variable a : string.
  Variable t : gtxn.
  Hypothesis Hok : group_base_ok funcs group.
  Hypothesis Ht : In t group.
  Hypothesis Hz : a <> "ZERO".
  Hypothesis Hm : is_marker a = false.
  Hypothesis Hls : g_has_logic_sig t = true.

  Theorem group_closeto_verdict_partial :
    consistent_with (addr_side funcs group posn "CloseRemainderTo" a) funcs group G posn ->
    group_kind_ok funcs group posn "Pay" 1 0 0 ->
    In (g_type t) ["Any"; "Unknown"; "Pay"] ->
    cg_kind G (posn (g_id t)) 1 0 0 ->
    cg_field G (posn (g_id t)) "CloseRemainderTo" = VAddr a ->
    In (g_id t) (group_verdict funcs checks_can_close_account "STATELESS" (Some ["Any"; "Unknown"; "Pay"]) group).
  Proof.
    intros Hcons Hkind Hty Hkf Hfld. apply (verdict_of_vulnerable _ _ _ _ _ t Ht).
    exact (group_closeto_no_miss_partial funcs group G posn a t Hok Ht Hz Hm Hls Hcons Hkind Hty Hkf Hfld).
  Qed.

  (* a transaction of an eligible configured type that is not reported: whenever it is a payment in an approved
     consistent concrete group, it does not close to a *)
  Theorem group_closeto_cleared_sound_partial :
    consistent_with (addr_side funcs group posn "CloseRemainderTo" a) funcs group G posn ->
    group_kind_ok funcs group posn "Pay" 1 0 0 ->
    In (g_type t) ["Any"; "Unknown"; "Pay"] ->
    txn_vulnerable funcs checks_can_close_account "STATELESS" (Some ["Any"; "Unknown"; "Pay"]) group t = false ->
    cg_kind G (posn (g_id t)) 1 0 0 ->
    cg_field G (posn (g_id t)) "CloseRemainderTo" <> VAddr a.
  Proof.
    intros Hcons Hkind Hty Hv Hkf Hfld.
    rewrite (group_closeto_no_miss_partial funcs group G posn a t Hok Ht Hz Hm Hls Hcons Hkind Hty Hkf Hfld) in Hv.
    discriminate.
  Qed.

  Theorem group_assetcloseto_verdict_partial :
    consistent_with (addr_side funcs group posn "AssetCloseTo" a) funcs group G posn ->
    group_kind_ok funcs group posn "Axfer" 4 0 0 ->
    In (g_type t) ["Any"; "Unknown"; "Axfer"] ->
    cg_kind G (posn (g_id t)) 4 0 0 ->
    cg_field G (posn (g_id t)) "AssetCloseTo" = VAddr a ->
    In (g_id t) (group_verdict funcs checks_can_close_asset "STATELESS" (Some ["Any"; "Unknown"; "Axfer"]) group).
  Proof.
    intros Hcons Hkind Hty Hkf Hfld. apply (verdict_of_vulnerable _ _ _ _ _ t Ht).
    exact (group_assetcloseto_no_miss_partial funcs group G posn a t Hok Ht Hz Hm Hls Hcons Hkind Hty Hkf Hfld).
  Qed.

  Theorem group_assetcloseto_cleared_sound_partial :
    consistent_with (addr_side funcs group posn "AssetCloseTo" a) funcs group G posn ->
    group_kind_ok funcs group posn "Axfer" 4 0 0 ->
    In (g_type t) ["Any"; "Unknown"; "Axfer"] ->
    txn_vulnerable funcs checks_can_close_asset "STATELESS" (Some ["Any"; "Unknown"; "Axfer"]) group t = false ->
    cg_kind G (posn (g_id t)) 4 0 0 ->
    cg_field G (posn (g_id t)) "AssetCloseTo" <> VAddr a.
  Proof.
    intros Hcons Hkind Hty Hv Hkf Hfld.
    rewrite (group_assetcloseto_no_miss_partial funcs group G posn a t Hok Ht Hz Hm Hls Hcons Hkind Hty Hkf Hfld) in Hv.
    discriminate.
  Qed.
End CloseReadings.

(* ---------------------------------------------------------------- is-updatable / is-deletable *)
Section KindOnlyReadings.
  Variable funcs : list (func * fn_result).
  Variable group : list gtxn.
  Variable G : cgroup.
  Variable posn : string -> N.
  Variable t : gtxn.
  Variable kapp : nat.
  Variable ap : N.
  Hypothesis Hcons : consistent funcs group G posn.
  Hypothesis Hok : group_base_ok funcs group.
  Hypothesis Ht : In t group.
  Hypothesis Happ : g_application t = Some kapp.

  Theorem group_updatable_verdict_partial :
    group_kind_ok funcs group posn "ApplUpdateApplication" 6 4 ap ->
    cg_kind G (posn (g_id t)) 6 4 ap ->
    In (g_id t) (group_verdict funcs checks_is_updatable "STATEFULL" None group).
  Proof.
    intros Hkind Hkf. apply (verdict_of_vulnerable _ _ _ _ _ t Ht).
    exact (group_updatable_no_miss_partial funcs group G posn t kapp ap Hcons Hok Ht Happ Hkind Hkf).
  Qed.

  (* a cleared application call is not an UpdateApplication call (of application ap) in any approved consistent group *)
  Theorem group_updatable_cleared_sound_partial :
    group_kind_ok funcs group posn "ApplUpdateApplication" 6 4 ap ->
    txn_vulnerable funcs checks_is_updatable "STATEFULL" None group t = false ->
    ~ cg_kind G (posn (g_id t)) 6 4 ap.
  Proof.
    intros Hkind Hv Hkf.
    rewrite (group_updatable_no_miss_partial funcs group G posn t kapp ap Hcons Hok Ht Happ Hkind Hkf) in Hv. discriminate.
  Qed.

  Theorem group_deletable_verdict_partial :
    group_kind_ok funcs group posn "ApplDeleteApplication" 6 5 ap ->
    cg_kind G (posn (g_id t)) 6 5 ap ->
    In (g_id t) (group_verdict funcs checks_is_deletable "STATEFULL" None group).
  Proof.
    intros Hkind Hkf. apply (verdict_of_vulnerable _ _ _ _ _ t Ht).
    exact (group_deletable_no_miss_partial funcs group G posn t kapp ap Hcons Hok Ht Happ Hkind Hkf).
  Qed.

  Theorem group_deletable_cleared_sound_partial :
    group_kind_ok funcs group posn "ApplDeleteApplication" 6 5 ap ->
    txn_vulnerable funcs checks_is_deletable "STATEFULL" None group t = false ->
    ~ cg_kind G (posn (g_id t)) 6 5 ap.
  Proof.
    intros Hkind Hv Hkf.
    rewrite (group_deletable_no_miss_partial funcs group G posn t kapp ap Hcons Hok Ht Happ Hkind Hkf) in Hv. discriminate.
  Qed.
End KindOnlyReadings.

(* ---------------------------------------------------------------- unprotected-updatable / unprotected-deletable *)
Section KindSenderReadings.
  Variable funcs : list (func * fn_result).
  Variable group : list gtxn.
  Variable G : cgroup.
  Variable posn : string -> N.
  Variable a : string.
  Variable t : gtxn.
  Variable kapp : nat.
  Variable ap : N.
  Hypothesis Hcons : consistent_with (addr_side funcs group posn "Sender" a) funcs group G posn.
  Hypothesis Hok : group_base_ok funcs group.
  Hypothesis Ht : In t group.
  Hypothesis Happ : g_application t = Some kapp.
  Hypothesis Hz : a <> "ZERO".
  Hypothesis Hm : is_marker a = false.

  Theorem group_unprotected_updatable_verdict_partial :
    cg_field G (posn (g_id t)) "Sender" = VAddr a ->
    group_kind_ok funcs group posn "ApplUpdateApplication" 6 4 ap ->
    cg_kind G (posn (g_id t)) 6 4 ap ->
    In (g_id t) (group_verdict funcs checks_unprotected_updatable "STATEFULL" None group).
  Proof.
    intros Hfld Hkind Hkf. apply (verdict_of_vulnerable _ _ _ _ _ t Ht).
    exact (group_unprotected_updatable_no_miss_partial funcs group G posn a t kapp ap Hcons Hok Ht Happ Hfld Hz Hm Hkind Hkf).
  Qed.

  (* a cleared application call: in an approved consistent group it is not an UpdateApplication call sent by a *)
  Theorem group_unprotected_updatable_cleared_sound_partial :
    group_kind_ok funcs group posn "ApplUpdateApplication" 6 4 ap ->
    txn_vulnerable funcs checks_unprotected_updatable "STATEFULL" None group t = false ->
    cg_kind G (posn (g_id t)) 6 4 ap ->
    cg_field G (posn (g_id t)) "Sender" <> VAddr a.
  Proof.
    intros Hkind Hv Hkf Hfld.
    rewrite (group_unprotected_updatable_no_miss_partial funcs group G posn a t kapp ap Hcons Hok Ht Happ Hfld Hz Hm Hkind Hkf)
      in Hv. discriminate.
  Qed.

  Theorem group_unprotected_deletable_verdict_partial :
    cg_field G (posn (g_id t)) "Sender" = VAddr a ->
    group_kind_ok funcs group posn "ApplDeleteApplication" 6 5 ap ->
    cg_kind G (posn (g_id t)) 6 5 ap ->
    In (g_id t) (group_verdict funcs checks_unprotected_deletable "STATEFULL" None group).
  Proof.
    intros Hfld Hkind Hkf. apply (verdict_of_vulnerable _ _ _ _ _ t Ht).
    exact (group_unprotected_deletable_no_miss_partial funcs group G posn a t kapp ap Hcons Hok Ht Happ Hfld Hz Hm Hkind Hkf).
  Qed.

  Theorem group_unprotected_deletable_cleared_sound_partial :
    group_kind_ok funcs group posn "ApplDeleteApplication" 6 5 ap ->
    txn_vulnerable funcs checks_unprotected_deletable "STATEFULL" None group t = false ->
    cg_kind G (posn (g_id t)) 6 5 ap ->
    cg_field G (posn (g_id t)) "Sender" <> VAddr a.
  Proof.
    intros Hkind Hv Hkf Hfld.
    rewrite (group_unprotected_deletable_no_miss_partial funcs group G posn a t kapp ap Hcons Hok Ht Happ Hfld Hz Hm Hkind Hkf)
      in Hv. discriminate.
  Qed.
End KindSenderReadings.

(* ====================================================================== *)
(* B. group-size-check                                                     *)
(* ====================================================================== *)
(* groupsize.py calls detect_missing_tx_field_validations_group, which runs the SINGLE-contract path search on
   every contract of the configuration and returns execution paths (the subject of C01: NoMiss2.
   C01_groupsize_no_miss_partial), not detect_missing_tx_field_validations_group_complete: there is no
   transaction verdict for it, and Driver.handle_group does not compute one. *)
Lemma groupsize_not_a_group_check :
  Parse.assoc "group-size-check" group_checks = None /\
  map fst group_checks = filter (fun n => negb (n =? "group-size-check")) (map fst detectors) /\
  length group_checks = 8.
Proof. repeat split; vm_compute; reflexivity. Qed.

(* ====================================================================== *)
(* C. one transaction, one contract                                        *)
(* ====================================================================== *)
(* t runs function k and nothing else *)
Definition single_contract (t : gtxn) (k : nat) : Prop :=
  (g_logic_sig t = Some k /\ g_application t = None) \/ (g_application t = Some k /\ g_logic_sig t = None).

(* the single-contract entry point with the group's validation predicate *)
Definition contract_validated (r : fn_result) (checks : bctx -> bool) : nat -> bool := validated_in_block r checks None.

(* every unvalidated exit is witnessed by an execution path of unvalidated blocks (Spec/Paths.GoodPath: the paths
   the single-contract search enumerates).  The group verdict looks at the exits only. *)
Definition leaves_justified (f : func) (r : fn_result) (checks : bctx -> bool) : Prop :=
  (exists b, fn_leaf_block f b /\ contract_validated r checks b = false) ->
  exists p, GoodPath f (contract_validated r checks) p.

Section SingleContract.
  Variable funcs : list (func * fn_result).
  Variable checks : bctx -> bool.
  Variable dtype : string.
  Variable vtypes : option (list string).
  Variable t : gtxn.
  Variable k : nat.
  Variable f : func.
  Variable r : fn_result.
  Hypothesis Hone : single_contract t k.
  Hypothesis Hfun : nth_error funcs k = Some (f, r).
  Hypothesis Hself : relative_accessors [t] t = [].
  Hypothesis Hel : eligible dtype vtypes t.

  (* GroupLemmas.single_logic_sig and single_application in one statement *)
  Theorem single_contract_leaf :
    g_abs t = None ->
    (txn_vulnerable funcs checks dtype vtypes [t] t = true <->
     exists b, fn_leaf_block f b /\ validated_in_block r checks None b = false).
  Proof.
    intros Habs. destruct Hone as [[El Ea] | [Ea El]].
    - exact (single_logic_sig funcs checks dtype vtypes t k f r El Ea Hfun Habs Hself Hel).
    - exact (single_application funcs checks dtype vtypes t k f r Ea El Hfun Habs Hself Hel).
  Qed.

  Lemma good_path_leaf p :
    GoodPath f (contract_validated r checks) p ->
    exists b, fn_leaf_block f b /\ validated_in_block r checks None b = false.
  Proof.
    intros HG. unfold GoodPath in HG.
    destruct (GoodPathFrom_head f _ _ _ _ HG) as [rest ->].
    destruct (GoodPathFrom_ends_in_leaf f _ _ _ _ HG) as (blk & Hb & Hl).
    pose proof (GoodPathFrom_not_validated f _ _ _ _ HG) as Hall. rewrite Forall_forall in Hall.
    exists (last (fn_entry f :: rest) 0). split.
    - exists blk. split; [exact (fblock_In f _ blk Hb)|]. split; [exact Hl | exact (fblock_idx f _ blk Hb)].
    - apply Hall. apply last_In. discriminate.
  Qed.

  (* SOUND direction, for every detector name (group-size-check included) and every fuel: a path reported by the
     single-contract detector on (f, r) makes the one-transaction group report the transaction *)
  Theorem single_group_reports_when_path fuel name ps p :
    g_abs t = None ->
    run_detector f r fuel name checks = Done ps -> In p ps ->
    txn_vulnerable funcs checks dtype vtypes [t] t = true.
  Proof.
    intros Habs Hrun Hin. apply (single_contract_leaf Habs).
    unfold run_detector in Hrun.
    destruct (detect_paths_sound f _ _ fuel ps Hrun p Hin) as [HG _].
    exact (good_path_leaf p HG).
  Qed.

  Corollary single_group_cleared_no_path fuel name ps :
    g_abs t = None ->
    txn_vulnerable funcs checks dtype vtypes [t] t = false ->
    run_detector f r fuel name checks = Done ps -> ps = [].
  Proof.
    intros Habs Hv Hrun. destruct ps as [|p ps]; [reflexivity|]. exfalso.
    rewrite (single_group_reports_when_path fuel name (p :: ps) p Habs Hrun (or_introl eq_refl)) in Hv. discriminate.
  Qed.

  (* the path-reporting detectors other than group-size-check report every GoodPath *)
  Lemma run_detector_plain fuel name :
    name <> "group-size-check" ->
    run_detector f r fuel name checks = detect_paths f (contract_validated r checks) (fun _ => true) fuel.
  Proof.
    intros Hn. unfold run_detector. destruct (name =? "group-size-check") eqn:E; [|reflexivity].
    apply String.eqb_eq in E. contradiction.
  Qed.

  (* EQUALITY of the two verdicts, partial: under leaves_justified *)
  Theorem single_group_eq_contract_partial fuel name ps :
    name <> "group-size-check" -> g_abs t = None ->
    leaves_justified f r checks ->
    run_detector f r fuel name checks = Done ps ->
    (txn_vulnerable funcs checks dtype vtypes [t] t = true <-> ps <> []).
  Proof.
    intros Hn Habs Hj Hrun. split.
    - intros Hv Hnil. apply (single_contract_leaf Habs) in Hv. destruct (Hj Hv) as [p HG].
      rewrite (run_detector_plain fuel name Hn) in Hrun.
      pose proof (detect_paths_complete f _ _ fuel ps p HG eq_refl Hrun) as Hin. rewrite Hnil in Hin. destruct Hin.
    - intros Hne. destruct ps as [|p ps']; [congruence|].
      exact (single_group_reports_when_path fuel name (p :: ps') p Habs Hrun (or_introl eq_refl)).
  Qed.

  (* ... and the side condition is exact: whenever the single-contract search answers, the verdicts agree iff
     leaves_justified holds *)
  Theorem single_group_eq_contract_exact fuel name ps :
    name <> "group-size-check" -> g_abs t = None ->
    run_detector f r fuel name checks = Done ps ->
    ((txn_vulnerable funcs checks dtype vtypes [t] t = true <-> ps <> []) <-> leaves_justified f r checks).
  Proof.
    intros Hn Habs Hrun. split.
    - intros Hiff Hleaf. apply (single_contract_leaf Habs) in Hleaf. apply Hiff in Hleaf.
      destruct ps as [|p ps']; [congruence|]. exists p.
      rewrite (run_detector_plain fuel name Hn) in Hrun.
      exact (proj1 (detect_paths_sound f _ _ fuel (p :: ps') Hrun p (or_introl eq_refl))).
    - intros Hj. exact (single_group_eq_contract_partial fuel name ps Hn Habs Hj Hrun).
  Qed.

  (* the same transaction configured WITH an absolute index i: its own exits are judged in the context of index i
     only (not of every index the program may run at), and its contract may additionally clear it through `gtxn i` *)
  Theorem single_group_absolute i :
    g_abs t = Some i ->
    (txn_vulnerable funcs checks dtype vtypes [t] t = true <->
     (exists b, fn_leaf_block f b /\ validated_in_block r checks (Some i) b = false) /\
     (exists b, fn_leaf_block f b /\ checks (ctx_of r b (KAbs i)) = false)).
  Proof.
    intros Habs. rewrite vulnerable_iff.
    assert (Hown : own_cleared funcs checks t <-> checks_its_field funcs checks k (Some i) = true).
    { unfold own_cleared. rewrite Habs. destruct Hone as [[El Ea] | [Ea El]]; rewrite El, Ea; split.
      - intros [(k' & E & H)|(k' & E & _)]; [inversion E; subst; exact H | discriminate].
      - intros H. left. eauto.
      - intros [(k' & E & _)|(k' & E & H)]; [discriminate | inversion E; subst; exact H].
      - intros H. right. eauto. }
    assert (Habsc : abs_cleared funcs checks [t] t <-> checks_abs funcs checks k i = true).
    { unfold abs_cleared. rewrite Habs. split.
      - intros (i' & other & E & [<-|[]] & H). inversion E; subst i'.
        destruct Hone as [[El Ea] | [Ea El]]; rewrite El, Ea in H;
          destruct H as [(k' & E' & H)|(k' & E' & H)]; try discriminate; inversion E'; subst; exact H.
      - intros H. exists i, t. split; [reflexivity|]. split; [left; reflexivity|].
        destruct Hone as [[El Ea] | [Ea El]]; [left | right]; eauto. }
    assert (Hrel : ~ rel_cleared funcs checks [t] t).
    { unfold rel_cleared. rewrite Hself. intros (oid & off & other & [] & _). }
    rewrite Hown, Habsc.
    rewrite <- (checks_its_field_false funcs checks k (Some i) f r Hfun).
    assert (Hca : checks_abs funcs checks k i = false <-> exists b, fn_leaf_block f b /\ checks (ctx_of r b (KAbs i)) = false).
    { unfold checks_abs. rewrite Hfun, forallb_false. split; intros (b & Hb & H); exists b; (split; [apply fn_leaves_In; exact Hb | exact H]). }
    rewrite <- Hca.
    destruct (checks_its_field funcs checks k (Some i)), (checks_abs funcs checks k i); intuition congruence.
  Qed.
End SingleContract.

(* ---------------------------------------------------------------- leaves_justified without subroutines *)
(* For a function without callsub / retsub the paths of Spec/Paths.v need no call stack and no visited sets:
   leaves_justified says that some exit is reachable from the entry through unvalidated blocks only (plain graph
   reachability, [UReach]) as soon as some exit is unvalidated. *)
Section PlainReach.
  Variable f : func.
  Variable v : nat -> bool.

  Definition subroutine_free : Prop :=
    forall n blk, fblock f n = Some blk -> f_is_callsub f blk = false /\ f_is_retsub f blk = false.

  Inductive UReach : nat -> Prop :=
  | UR_entry : v (fn_entry f) = false -> UReach (fn_entry f)
  | UR_step p pb b : UReach p -> fblock f p = Some pb -> In b (b_next pb) -> v b = false -> UReach b.

  (* a walk over edges of the graph through unvalidated blocks *)
  Inductive Walk : nat -> list nat -> Prop :=
  | W_one a : v a = false -> Walk a [a]
  | W_cons a blk b l : v a = false -> fblock f a = Some blk -> In b (b_next blk) -> Walk b l -> Walk a (a :: l).

  Lemma Walk_head a l : Walk a l -> exists l', l = a :: l'.
  Proof. intros H. inversion H; subst; eexists; reflexivity. Qed.

  Lemma Walk_snoc : forall a0 l0, Walk a0 l0 -> forall pb b,
    fblock f (last l0 0) = Some pb -> In b (b_next pb) -> v b = false -> Walk a0 (l0 ++ [b]).
  Proof.
    intros a0 l0 H0. induction H0 as [a Ha | a blk b' l Ha Hblk Hin Hw IH]; intros pb b Hpb Hb Hvb.
    - cbn [last] in Hpb. cbn [app]. exact (W_cons a pb b [b] Ha Hpb Hb (W_one b Hvb)).
    - destruct (Walk_head _ _ Hw) as [l' ->]. change (last (a :: b' :: l') 0) with (last (b' :: l') 0) in Hpb.
      cbn [app]. exact (W_cons a blk b' _ Ha Hblk Hin (IH pb b Hpb Hb Hvb)).
  Qed.

  Lemma Walk_prefix_aux : forall a0 l0, Walk a0 l0 -> forall l1 x l2, l0 = l1 ++ x :: l2 -> Walk a0 (l1 ++ [x]).
  Proof.
    intros a0 l0 H0. induction H0 as [a Ha | a blk b l Ha Hblk Hin Hw IH]; intros l1 x l2 E.
    - destruct l1 as [|y l1]; cbn [app] in E.
      + inversion E; subst. exact (W_one x Ha).
      + inversion E as [[E1 E2]]. destruct l1; discriminate E2.
    - destruct l1 as [|y l1]; cbn [app] in E.
      + inversion E; subst. exact (W_one x Ha).
      + inversion E as [[E1 E2]]. cbn [app]. rewrite <- E1. exact (W_cons a blk b _ Ha Hblk Hin (IH l1 x l2 E2)).
  Qed.

  Lemma Walk_prefix l1 a x l2 : Walk a (l1 ++ x :: l2) -> Walk a (l1 ++ [x]).
  Proof. intros H. exact (Walk_prefix_aux a _ H l1 x l2 eq_refl). Qed.

  Lemma Walk_unvalidated : forall a0 l0, Walk a0 l0 -> forall x, In x l0 -> v x = false.
  Proof.
    intros a0 l0 H0. induction H0 as [a Ha | a blk b l Ha Hblk Hin Hw IH]; intros x Hx.
    - destruct Hx as [<-|[]]. exact Ha.
    - destruct Hx as [<-|Hx]; [exact Ha | exact (IH x Hx)].
  Qed.

  Lemma NoDup_app_l {A} : forall (l l' : list A), NoDup (l ++ l') -> NoDup l.
  Proof.
    induction l as [|y l IH]; intros l' H; [constructor|]. cbn [app] in H. inversion H as [|y' l0 Hn Hd]; subst.
    constructor; [intros Hin; apply Hn; apply in_or_app; left; exact Hin | exact (IH l' Hd)].
  Qed.

  (* loops can be cut: a reachable block is the end of a walk without repetition *)
  Lemma ureach_simple : forall b0, UReach b0 -> exists l, Walk (fn_entry f) l /\ NoDup l /\ last l 0 = b0.
  Proof.
    intros b0 H0. induction H0 as [He | p pb b Hp IH Hpb Hb Hvb].
    - exists [fn_entry f]. split; [exact (W_one _ He)|]. split; [repeat constructor; intros []| reflexivity].
    - destruct IH as (l & Hw & Hnd & Hl). destruct (in_dec Nat.eq_dec b l) as [Hin|Hnin].
      + apply in_split in Hin. destruct Hin as (l1 & l2 & ->). exists (l1 ++ [b]).
        split; [exact (Walk_prefix l1 _ b l2 Hw)|]. split; [|apply last_last].
        replace (l1 ++ b :: l2) with ((l1 ++ [b]) ++ l2) in Hnd by (rewrite <- app_assoc; reflexivity).
        exact (NoDup_app_l _ _ Hnd).
      + exists (l ++ [b]). split; [rewrite <- Hl in Hpb; exact (Walk_snoc _ l Hw pb b Hpb Hb Hvb)|].
        split; [|apply last_last].
        apply (Permutation_NoDup (Permutation_cons_append l b)). constructor; assumption.
  Qed.

  Lemma last_visit ex a : last (visit ex a) [] = last ex [] ++ [a].
  Proof. unfold visit. apply last_last. Qed.

  (* a walk without repetition that ends at an exit is a path of Spec/Paths.v, in any configuration whose innermost
     activation has visited none of its blocks *)
  Lemma walk_good : subroutine_free -> forall a l, Walk a l -> forall st ex,
    NoDup l -> (forall x, In x l -> ~ In x (last ex [])) ->
    (exists blk, fblock f (last l 0) = Some blk /\ leaf_global f blk = true) ->
    GoodPathFrom f v (st, ex) a l.
  Proof.
    intros Hsf a0 l0 Hw0. induction Hw0 as [a Ha | a blk b l Ha Hblk Hin Hw IH]; intros st ex Hnd Hfresh (lb & Hlb & Hleaf).
    - cbn [last] in Hlb. apply (GP_leaf f v (st, ex) a lb); [|exact Hlb | exact Hleaf].
      split; [exact Ha | apply Hfresh; left; reflexivity].
    - destruct (Walk_head _ _ Hw) as [l' ->].
      apply (GP_step f v (st, ex) a (st, visit ex a) b).
      + apply (PS_edge f v st ex a blk b); [|exact Hblk | exact (leaf_false_edge f blk b Hin)
                                            | exact (proj1 (Hsf a blk Hblk)) | exact (proj2 (Hsf a blk Hblk)) | exact Hin].
        split; [exact Ha | apply Hfresh; left; reflexivity].
      + apply IH.
        * inversion Hnd; assumption.
        * intros x Hx. rewrite last_visit, in_app_iff. intros [H|[<-|[]]].
          -- exact (Hfresh x (or_intror Hx) H).
          -- inversion Hnd; contradiction.
        * exists lb. split; [exact Hlb | exact Hleaf].
  Qed.

  Theorem ureach_good_path b blk :
    subroutine_free -> UReach b -> fblock f b = Some blk -> leaf_global f blk = true ->
    exists p, GoodPath f v p /\ last p 0 = b.
  Proof.
    intros Hsf Hr Hb Hleaf. destruct (ureach_simple b Hr) as (l & Hw & Hnd & Hl). exists l. split; [|exact Hl].
    apply (walk_good Hsf _ l Hw); [exact Hnd | intros x _ [] |]. exists blk. rewrite Hl. auto.
  Qed.

  (* conversely, without subroutines every path of Spec/Paths.v is a walk *)
  Lemma good_walk : subroutine_free -> forall c a l, GoodPathFrom f v c a l -> Walk a l.
  Proof.
    intros Hsf c0 a0 l0 H0. induction H0 as [c b blk Hent Hb Hleaf | c b c' b' rest Hstep HG IH].
    - exact (W_one b (proj1 Hent)).
    - inversion Hstep as [st ex b1 blk l0 s Hent Hb Hleaf Hop Hst Hs
                         | st ex b1 blk cs name cb rp Hent Hb Hleaf Hop Hlast Hcb Hrp
                         | st ex b1 blk b1' Hent Hb Hleaf Hc Hr Hnext]; subst.
      + destruct (Hsf b blk Hb) as [Hc _]. unfold f_is_callsub in Hc. rewrite Hop in Hc. discriminate.
      + destruct (Hsf b blk Hb) as [_ Hr]. unfold f_is_retsub in Hr. rewrite Hop in Hr. discriminate.
      + exact (W_cons b blk b' rest (proj1 Hent) Hb Hnext IH).
  Qed.

  Lemma walk_ureach : forall a0 l0, Walk a0 l0 -> UReach a0 -> UReach (last l0 0).
  Proof.
    intros a0 l0 H0. induction H0 as [a Ha | a blk b l Ha Hblk Hin Hw IH]; intros Hr; [exact Hr|].
    destruct (Walk_head _ _ Hw) as [l' ->]. change (last (a :: b :: l') 0) with (last (b :: l') 0).
    apply IH. apply (UR_step a blk b Hr Hblk Hin). apply (Walk_unvalidated _ _ Hw). left. reflexivity.
  Qed.

  Theorem good_path_ureach p :
    subroutine_free -> GoodPath f v p ->
    exists blk, UReach (last p 0) /\ fblock f (last p 0) = Some blk /\ leaf_global f blk = true.
  Proof.
    intros Hsf HG. unfold GoodPath in HG.
    destruct (GoodPathFrom_ends_in_leaf f v _ _ _ HG) as (blk & Hb & Hl). exists blk. split; [|auto].
    pose proof (good_walk Hsf _ _ _ HG) as Hw. apply (walk_ureach _ _ Hw).
    apply UR_entry. apply (Walk_unvalidated _ _ Hw). destruct (Walk_head _ _ Hw) as [l' ->]. left. reflexivity.
  Qed.
End PlainReach.

(* leaves_justified for subroutine-free functions, in terms of plain reachability *)
Theorem leaves_justified_subroutine_free f r checks :
  subroutine_free f ->
  (leaves_justified f r checks <->
   ((exists b, fn_leaf_block f b /\ contract_validated r checks b = false) ->
    exists b blk, UReach f (contract_validated r checks) b /\ fblock f b = Some blk /\ leaf_global f blk = true)).
Proof.
  intros Hsf. unfold leaves_justified. split; intros H Hleaf; specialize (H Hleaf).
  - destruct H as [p HG]. destruct (good_path_ureach f _ p Hsf HG) as (blk & H1 & H2 & H3). exists (last p 0), blk. auto.
  - destruct H as (b & blk & Hr & Hb & Hl). destruct (ureach_good_path f _ b blk Hsf Hr Hb Hl) as (p & HG & _). exists p. exact HG.
Qed.

Definition subroutine_freeb (f : func) : bool :=
  forallb (fun b => negb (f_is_callsub f b) && negb (f_is_retsub f b)) (fn_blocks f).

Lemma subroutine_freeb_sound f : subroutine_freeb f = true -> subroutine_free f.
Proof.
  intros H n blk Hb. unfold subroutine_freeb in H. rewrite forallb_forall in H.
  specialize (H blk (fblock_In f n blk Hb)). apply andb_true_iff in H. destruct H as [H1 H2].
  apply negb_true_iff in H1. apply negb_true_iff in H2. auto.
Qed.

(* ====================================================================== *)
(* D. non-vacuity                                                          *)
(* ====================================================================== *)
(* D1. is-updatable / is-deletable / unprotected-updatable / unprotected-deletable on a TWO-member group.
       The application
         txn ApplicationID; bz create; int 1; return; create: int 1; return        ("approves every call")
       is called by U1 (configured at absolute index 0) and by U2 (whose relative index -1 is U1); in the concrete
       group both members are application calls (TypeEnum 6) of application 7 with OnCompletion oc
       (4: UpdateApplication, 5: DeleteApplication) sent by "S". *)
Module AppGroupWitness.
  Definition linesA : list string :=
    ["#pragma version 6"; "txn ApplicationID"; "bz create"; "int 1"; "return"; "create:"; "int 1"; "return"].
  Definition pA : prog := Eval vm_compute in match parse_program (unlines linesA) with Ok p => p | Err _ => [] end.
  Definition tA : teal :=
    Eval vm_compute in
      match parse_teal pA with Ok t => t | Err _ => mkTeal 0 MAny [] [] [] (mkSub "" 0 [] []) [] None end.
  Definition fA : func := whole_function tA.
  Example tA_parses : parse_program (unlines linesA) = Ok pA /\ parse_teal pA = Ok tA.
  Proof. split; vm_compute; reflexivity. Qed.
  Lemma w_graph_ok : graph_ok fA.
  Proof. apply (graph_ok_whole_function_b pA tA (proj2 tA_parses)). vm_compute. reflexivity. Qed.

  Definition resA : fn_result :=
    Eval vm_compute in match run_all fA 100 with Done r => r | _ => mkRes [] [] [] [] [] end.
  Lemma w_run_all : run_all fA 100 = Done resA.
  Proof. vm_compute. reflexivity. Qed.
  Lemma w_int : forall sz, int_leaves_ok fA sz.
  Proof. intros [|]; apply int_leaves_ok_b; vm_compute; reflexivity. Qed.

  Definition U1 : gtxn := mkTxn "U1" "Appl" false None (Some 0) (Some 0%N) [].
  Definition U2 : gtxn := mkTxn "U2" "Appl" false None (Some 0) None [((-1)%Z, "U1")].
  Definition grpA : list gtxn := [U1; U2].
  Definition funcsA : list (func * fn_result) := [(fA, resA)].
  Definition fieldsA (oc : Z) : N -> string -> value :=
    fun _ fld => if fld =? "TypeEnum" then VInt 6 else if fld =? "OnCompletion" then VInt oc
                 else if fld =? "ApplicationID" then VInt 7 else if fld =? "Sender" then VAddr "S" else VOther.
  Definition GA (oc : Z) : cgroup := mkCG 2 (fieldsA oc).
  Definition posnA : string -> N := fun id => if id =? "U2" then 1%N else 0%N.
  Definition eA (oc : Z) (own : N) : env := mkEnv 2 own (fieldsA oc) "C" None.

  Definition runA : list rconfig := [(0, []); (1, [])].
  Definition A0 := mkBlock 0 [0; 1; 2] [1; 2] [].
  Definition A1 := mkBlock 1 [3; 4] [] [0].
  Example A_blocks : fblock fA 0 = Some A0 /\ fblock fA 1 = Some A1.
  Proof. split; reflexivity. Qed.

  Definition out0 (oc : Z) (own : N) : trace cval * list cval :=
    match crun_tr cval (sem_ref (eA oc own)) pA (b_ins A0) [] with Some r => r | None => ([], []) end.
  Definition out1 (oc : Z) (own : N) : trace cval * list cval :=
    match crun_tr cval (sem_ref (eA oc own)) pA (b_ins A1) (snd (out0 oc own)) with Some r => r | None => ([], []) end.

  Lemma w_run : Run fA runA.
  Proof.
    eapply RF_step; [apply (RS_edge fA 0 [] A0 1); [reflexivity|reflexivity|reflexivity|simpl; auto]|]. apply RF_one.
  Qed.

  Lemma w_accepts oc own : (oc = 4%Z \/ oc = 5%Z) -> (own = 0%N \/ own = 1%N) ->
    Accepts (eA oc own) (sem_ref (eA oc own)) fA runA.
  Proof.
    intros Hoc Hown. split; [|split; [|split]].
    - unfold Exec, runA.
      apply (EF_step (eA oc own) (sem_ref (eA oc own)) fA (0, []) (1, []) [(1, [])] [] A0 (fst (out0 oc own)) (snd (out0 oc own))).
      + reflexivity.
      + destruct Hoc as [-> | ->]; destruct Hown as [-> | ->];
          (split; [vm_compute; reflexivity | apply no_fail_b_sound; vm_compute; reflexivity]).
      + apply (RS_edge fA 0 [] A0 1); [reflexivity|reflexivity|reflexivity|simpl; auto].
      + destruct Hoc as [-> | ->]; destruct Hown as [-> | ->]; vm_compute; reflexivity.
      + apply (EF_last (eA oc own) (sem_ref (eA oc own)) fA (1, []) (snd (out0 oc own)) A1 (fst (out1 oc own)) (snd (out1 oc own))).
        * reflexivity.
        * destruct Hoc as [-> | ->]; destruct Hown as [-> | ->];
            (split; [vm_compute; reflexivity | apply no_fail_b_sound; vm_compute; reflexivity]).
    - split; [exact w_run|]. exists A1. split; reflexivity.
    - reflexivity.
    - exists A1. split; reflexivity.
  Qed.

  Lemma in_grp t : In t grpA -> t = U1 \/ t = U2.
  Proof. intros [<-|[<-|[]]]; auto. Qed.

  Lemma runs_grp t k f r : In t grpA -> runs t k -> nth_error funcsA k = Some (f, r) -> k = 0 /\ f = fA /\ r = resA.
  Proof.
    intros Ht Hk E. apply in_grp in Ht.
    assert (k = 0) as -> by (destruct Ht; subst t; destruct Hk as [Hk|Hk]; cbn in Hk; congruence).
    cbn in E. inversion E. auto.
  Qed.

  Lemma fam_used_grp o fam : In o grpA -> fam_used grpA posnA o fam ->
    In fam [KSelf; KAtIndex 0; KAtIndex 1; KAbs 0; KRel (-1)].
  Proof.
    intros Ho [->|[->|[(t' & i & Hin & Ea & ->)|(t' & off & Hin & Hr & ->)]]].
    - simpl. auto.
    - apply in_grp in Ho. destruct Ho; subst o; simpl; auto.
    - apply in_grp in Hin. destruct Hin; subst t'; cbn in Ea; [inversion Ea; simpl; auto | discriminate].
    - apply in_grp in Ho. destruct Ho; subst o; cbn in Hr; [contradiction|].
      destruct Hr as [E|[]]. inversion E. simpl. auto 6.
  Qed.

  (* the concrete group is consistent with the configuration and the application approves for both members;
     Q: any side condition that holds of the four envs *)
  Lemma w_consistent_with (Q : gtxn -> nat -> env -> Prop) oc : (oc = 4%Z \/ oc = 5%Z) ->
    (forall t own, In t grpA -> own = posnA (g_id t) -> Q t 0 (eA oc own)) ->
    consistent_with Q funcsA grpA (GA oc) posnA.
  Proof.
    intros Hoc HQ. constructor.
    - cbn. repeat constructor; cbn; intuition discriminate.
    - intros t Ht. apply in_grp in Ht. destruct Ht; subst t; reflexivity.
    - intros t i Ht E. apply in_grp in Ht. destruct Ht; subst t; cbn in E; [inversion E; reflexivity | discriminate].
    - intros t off oid Ht Hin. apply in_grp in Ht. destruct Ht; subst t; cbn in Hin; [contradiction|].
      destruct Hin as [E|[]]. inversion E; subst. reflexivity.
    - intros t k f r Ht Hk E. destruct (runs_grp t k f r Ht Hk E) as (-> & -> & ->).
      assert (Hp : posnA (g_id t) = 0%N \/ posnA (g_id t) = 1%N)
        by (apply in_grp in Ht; destruct Ht; subst t; [left | right]; reflexivity).
      pose proof (HQ t (posnA (g_id t)) Ht eq_refl) as HQt.
      remember (posnA (g_id t)) as own eqn:Eown.
      exists (eA oc own), (sem_ref (eA oc own)), runA.
      split; [split; [reflexivity|]; split; reflexivity|].
      split; [split; cbn [e_size e_own eA]; destruct Hp as [Hp | Hp]; try rewrite Hp; lia|].
      split; [apply sem_ref_ok|]. split; [reflexivity|]. split; [exact (w_accepts oc own Hoc Hp) | exact HQt].
  Qed.

  Lemma w_consistent oc : (oc = 4%Z \/ oc = 5%Z) -> consistent funcsA grpA (GA oc) posnA.
  Proof. intros Hoc. apply (w_consistent_with _ oc Hoc). intros; exact I. Qed.

  Lemma w_consistent_sender oc : (oc = 4%Z \/ oc = 5%Z) ->
    consistent_with (addr_side funcsA grpA posnA "Sender" "S") funcsA grpA (GA oc) posnA.
  Proof.
    intros Hoc. apply (w_consistent_with _ oc Hoc). intros t own Ht Eown f r E'. cbn in E'. inversion E'; subst f r. split.
    - intros fam Hfam. pose proof (fam_used_grp t fam Ht Hfam) as Hin. simpl in Hin.
      repeat (destruct Hin as [<-|Hin]; [apply addr_leaves_ok_plain; vm_compute; reflexivity|]); contradiction.
    - apply fresh_in_b. vm_compute. reflexivity.
  Qed.

  Lemma w_base_ok : group_base_ok funcsA grpA.
  Proof.
    constructor; intros o k f r Ho Hk E; destruct (runs_grp o k f r Ho Hk E) as (-> & -> & ->).
    - exists 100. exact w_run_all.
    - exact w_graph_ok.
    - exact (w_int true).
    - exact (w_int false).
  Qed.

  Lemma w_kind_ok L oc : (L = "ApplUpdateApplication" /\ oc = 4%N) \/ (L = "ApplDeleteApplication" /\ oc = 5%N) ->
    group_kind_ok funcsA grpA posnA L 6 oc 7.
  Proof.
    intros HL o k f r fam Ho Hk E Hfam. destruct (runs_grp o k f r Ho Hk E) as (-> & -> & ->).
    pose proof (fam_used_grp o fam Ho Hfam) as Hin. simpl in Hin.
    destruct HL as [[-> ->] | [-> ->]];
      repeat (destruct Hin as [<-|Hin]; [apply type_leaves_okb_sound; vm_compute; reflexivity|]); contradiction.
  Qed.

  Lemma w_app t : In t grpA -> g_application t = Some 0.
  Proof. intros Ht. apply in_grp in Ht. destruct Ht; subst t; reflexivity. Qed.

  (* all hypotheses of the four instance theorems hold, for BOTH members *)
  Theorem w_updatable t : In t grpA -> txn_vulnerable funcsA checks_is_updatable "STATEFULL" None grpA t = true.
  Proof.
    intros Ht.
    apply (group_updatable_no_miss_partial funcsA grpA (GA 4) posnA t 0 7 (w_consistent 4 (or_introl eq_refl)) w_base_ok Ht
             (w_app t Ht) (w_kind_ok _ 4 (or_introl (conj eq_refl eq_refl)))).
    repeat split.
  Qed.

  Theorem w_deletable t : In t grpA -> txn_vulnerable funcsA checks_is_deletable "STATEFULL" None grpA t = true.
  Proof.
    intros Ht.
    apply (group_deletable_no_miss_partial funcsA grpA (GA 5) posnA t 0 7 (w_consistent 5 (or_intror eq_refl)) w_base_ok Ht
             (w_app t Ht) (w_kind_ok _ 5 (or_intror (conj eq_refl eq_refl)))).
    repeat split.
  Qed.

  Theorem w_unprotected_updatable t :
    In t grpA -> txn_vulnerable funcsA checks_unprotected_updatable "STATEFULL" None grpA t = true.
  Proof.
    intros Ht.
    apply (group_unprotected_updatable_no_miss_partial funcsA grpA (GA 4) posnA "S" t 0 7
             (w_consistent_sender 4 (or_introl eq_refl)) w_base_ok Ht (w_app t Ht)).
    - reflexivity.
    - discriminate.
    - reflexivity.
    - exact (w_kind_ok _ 4 (or_introl (conj eq_refl eq_refl))).
    - repeat split.
  Qed.

  Theorem w_unprotected_deletable t :
    In t grpA -> txn_vulnerable funcsA checks_unprotected_deletable "STATEFULL" None grpA t = true.
  Proof.
    intros Ht.
    apply (group_unprotected_deletable_no_miss_partial funcsA grpA (GA 5) posnA "S" t 0 7
             (w_consistent_sender 5 (or_intror eq_refl)) w_base_ok Ht (w_app t Ht)).
    - reflexivity.
    - discriminate.
    - reflexivity.
    - exact (w_kind_ok _ 5 (or_intror (conj eq_refl eq_refl))).
    - repeat split.
  Qed.

  (* and the contrapositive readings are not vacuous either: instantiated on this group they say that U1 cannot be
     cleared *)
  Example w_cleared_reading :
    txn_vulnerable funcsA checks_is_deletable "STATEFULL" None grpA U1 <> false.
  Proof.
    intros Hv.
    apply (group_deletable_cleared_sound_partial funcsA grpA (GA 5) posnA U1 0 7 (w_consistent 5 (or_intror eq_refl)) w_base_ok
             (or_introl eq_refl) eq_refl (w_kind_ok _ 5 (or_intror (conj eq_refl eq_refl))) Hv).
    repeat split.
  Qed.

  (* the tool's verdicts on the group, computed *)
  Example w_verdicts_computed :
    group_verdict funcsA checks_is_updatable "STATEFULL" None grpA = ["U1"; "U2"] /\
    group_verdict funcsA checks_is_deletable "STATEFULL" None grpA = ["U1"; "U2"] /\
    group_verdict funcsA checks_unprotected_updatable "STATEFULL" None grpA = ["U1"; "U2"] /\
    group_verdict funcsA checks_unprotected_deletable "STATEFULL" None grpA = ["U1"; "U2"] /\
    group_verdict funcsA checks_can_close_account "STATELESS" (Some ["Any"; "Unknown"; "Pay"]) grpA = [].
  Proof. repeat split; vm_compute; reflexivity. Qed.

  (* D2. one transaction, one contract: both verdicts report, leaves_justified holds *)
  Definition V : gtxn := mkTxn "V" "Appl" false None (Some 0) None [].

  Lemma w_single_hyps :
    single_contract V 0 /\ nth_error funcsA 0 = Some (fA, resA) /\ relative_accessors [V] V = [] /\
    eligible "STATEFULL" None V /\ g_abs V = None.
  Proof.
    split; [right; split; reflexivity|]. split; [reflexivity|]. split; [reflexivity|].
    split; [exact (eligible_statefull V 0 eq_refl) | reflexivity].
  Qed.

  Example w_single_both_report :
    run_detector fA resA 100 "is-deletable" checks_is_deletable = Done [[0; 1]] /\
    txn_vulnerable funcsA checks_is_deletable "STATEFULL" None [V] V = true.
  Proof. split; vm_compute; reflexivity. Qed.

  Example w_single_eq :
    txn_vulnerable funcsA checks_is_deletable "STATEFULL" None [V] V = true <-> [[0; 1]] <> ([] : list (list nat)).
  Proof.
    destruct w_single_hyps as (H1 & H2 & H3 & H4 & H5).
    apply (single_group_eq_contract_partial funcsA checks_is_deletable "STATEFULL" None V 0 fA resA H1 H2 H3 H4 100
             "is-deletable" [[0; 1]]); [discriminate | exact H5 | | exact (proj1 w_single_both_report)].
    intros _. exists [0; 1].
    pose proof (proj1 w_single_both_report) as Hrun. unfold run_detector in Hrun.
    exact (proj1 (detect_paths_sound fA _ _ 100 _ Hrun [0; 1] (or_introl eq_refl))).
  Qed.
End AppGroupWitness.

(* D3. the two verdicts DIFFER on a parsed, analysed logic-sig.
     txn TypeEnum; int 1; ==; bnz pay; b done; pay: txn CloseRemainderTo; global ZeroAddress; ==; assert; done: int 1; return
   A payment must not close (block `pay`), any other kind passes.  The contract is safe and can-close-account reports
   no path: on `pay` the close-to address is pinned to zero, on the other branch the kind Pay is excluded, so every
   path crosses a validated block.  At the common exit `done` the two independently tracked keys are joined again
   (kinds: all, close-to: any) and the exit is unvalidated: the group verdict reports the transaction.  (The source
   says so itself for the two-field detectors: detectors/utils.py, docstring of
   detect_missing_tx_field_validations_group_complete.) *)
Module SingleRefuted.
  Definition linesR : list string :=
    ["#pragma version 6"; "txn TypeEnum"; "int 1"; "=="; "bnz pay"; "b done";
     "pay:"; "txn CloseRemainderTo"; "global ZeroAddress"; "=="; "assert";
     "done:"; "int 1"; "return"].
  Definition pR : prog := Eval vm_compute in match parse_program (unlines linesR) with Ok p => p | Err _ => [] end.
  Definition tR : teal :=
    Eval vm_compute in
      match parse_teal pR with Ok t => t | Err _ => mkTeal 0 MAny [] [] [] (mkSub "" 0 [] []) [] None end.
  Definition fR : func := whole_function tR.
  Example tR_parses : parse_program (unlines linesR) = Ok pR /\ parse_teal pR = Ok tR.
  Proof. split; vm_compute; reflexivity. Qed.
  Lemma w_graph_ok : graph_ok fR.
  Proof. apply (graph_ok_whole_function_b pR tR (proj2 tR_parses)). vm_compute. reflexivity. Qed.
  Definition resR : fn_result :=
    Eval vm_compute in match run_all fR 100 with Done r => r | _ => mkRes [] [] [] [] [] end.
  Lemma w_run_all : run_all fR 100 = Done resR.
  Proof. vm_compute. reflexivity. Qed.

  Definition TR : gtxn := mkTxn "T" "Pay" true (Some 0) None None [].
  Definition vt : option (list string) := Some ["Any"; "Unknown"; "Pay"].

  Example w_validated :
    map (fun b => (b_idx b, validated_in_block resR checks_can_close_account None (b_idx b))) (fn_blocks fR) =
    [(0, false); (2, true); (3, false); (1, true)].
  Proof. vm_compute. reflexivity. Qed.

  Example w_differ :
    run_detector fR resR 100 "can-close-account" checks_can_close_account = Done [] /\
    txn_vulnerable [(fR, resR)] checks_can_close_account "STATELESS" vt [TR] TR = true.
  Proof. split; vm_compute; reflexivity. Qed.
End SingleRefuted.

Import SingleRefuted.

(* the equality of the verdicts, stated without leaves_justified, is false: all other hypotheses of
   single_group_eq_contract_partial hold, the function is a parsed contract with a well-formed graph and r is the
   result of run_all on it *)
Theorem single_group_eq_contract_refuted :
  ~ (forall funcs checks dtype vtypes t k f r fuel name ps,
       single_contract t k -> nth_error funcs k = Some (f, r) -> relative_accessors [t] t = [] ->
       eligible dtype vtypes t -> name <> "group-size-check" -> g_abs t = None ->
       graph_ok f -> (exists fuelr, run_all f fuelr = Done r) ->
       In (name, checks) detectors ->
       run_detector f r fuel name checks = Done ps ->
       (txn_vulnerable funcs checks dtype vtypes [t] t = true <-> ps <> [])).
Proof.
  intros H.
  assert (Hel : eligible "STATELESS" vt TR).
  { apply eligible_stateless_types; [reflexivity | simpl; auto]. }
  destruct (H [(fR, resR)] checks_can_close_account "STATELESS" vt TR 0 fR resR 100 "can-close-account" []
              (or_introl (conj eq_refl eq_refl)) eq_refl eq_refl Hel) as [H1 _].
  - discriminate.
  - reflexivity.
  - exact w_graph_ok.
  - exists 100. exact w_run_all.
  - simpl. auto.
  - exact (proj1 w_differ).
  - exact (H1 (proj2 w_differ) eq_refl).
Qed.

(* hence leaves_justified fails there *)
Corollary leaves_justified_refuted :
  ~ leaves_justified SingleRefuted.fR SingleRefuted.resR checks_can_close_account.
Proof.
  intros Hj.
  assert (Hel : eligible "STATELESS" vt TR).
  { apply eligible_stateless_types; [reflexivity | simpl; auto]. }
  pose proof (single_group_eq_contract_partial [(fR, resR)] checks_can_close_account "STATELESS" vt TR 0 fR resR
                (or_introl (conj eq_refl eq_refl)) eq_refl eq_refl Hel 100 "can-close-account" []) as H.
  assert (Hn : "can-close-account" <> "group-size-check") by discriminate.
  destruct (H Hn eq_refl Hj (proj1 w_differ)) as [H1 _]. exact (H1 (proj2 w_differ) eq_refl).
Qed.

(* read through leaves_justified_subroutine_free: in the refuting contract no exit can be reached from the entry through
   unvalidated blocks, although the exit `done` itself is unvalidated *)
Corollary refuted_exit_not_reachable :
  subroutine_free SingleRefuted.fR /\
  (exists b, fn_leaf_block SingleRefuted.fR b /\ contract_validated SingleRefuted.resR checks_can_close_account b = false) /\
  ~ (exists b blk, UReach SingleRefuted.fR (contract_validated SingleRefuted.resR checks_can_close_account) b /\
                   fblock SingleRefuted.fR b = Some blk /\ leaf_global SingleRefuted.fR blk = true).
Proof.
  assert (Hsf : subroutine_free fR) by (apply subroutine_freeb_sound; vm_compute; reflexivity).
  assert (Hleaf : exists b, fn_leaf_block fR b /\ contract_validated resR checks_can_close_account b = false).
  { exists 3. split; [|vm_compute; reflexivity].
    exists (mkBlock 3 [11; 12; 13] [] [2; 1]). split; [vm_compute; auto 6|]. split; vm_compute; reflexivity. }
  split; [exact Hsf|]. split; [exact Hleaf|]. intros Hr. apply leaves_justified_refuted.
  apply (leaves_justified_subroutine_free fR resR checks_can_close_account Hsf). intros _. exact Hr.
Qed.

(* ====================================================================== *)
(* E. one statement for every detector the driver runs in group mode        *)
(* ====================================================================== *)
(* what a detector looks for: a transaction kind (label of the kind domain, TypeEnum, OnCompletion), a non-zero
   address in a field, a fee above MAX_TRANSACTION_COST *)
Record danger := mkDanger { d_kind : option (string * N * N); d_addr : option string; d_fee : bool }.

Definition danger_table : list (string * danger) :=
  [("rekey-to", mkDanger None (Some "RekeyTo") false);
   ("can-close-account", mkDanger (Some ("Pay", 1%N, 0%N)) (Some "CloseRemainderTo") false);
   ("can-close-asset", mkDanger (Some ("Axfer", 4%N, 0%N)) (Some "AssetCloseTo") false);
   ("missing-fee-check", mkDanger None None true);
   ("is-updatable", mkDanger (Some ("ApplUpdateApplication", 6%N, 4%N)) None false);
   ("is-deletable", mkDanger (Some ("ApplDeleteApplication", 6%N, 5%N)) None false);
   ("unprotected-updatable", mkDanger (Some ("ApplUpdateApplication", 6%N, 4%N)) (Some "Sender") false);
   ("unprotected-deletable", mkDanger (Some ("ApplDeleteApplication", 6%N, 5%N)) (Some "Sender") false)].

(* the table has one row per group-mode detector, in the driver's order *)
Lemma danger_table_names : map fst danger_table = map fst group_checks.
Proof. vm_compute. reflexivity. Qed.

(* only application calls have an ApplicationID that matters *)
Definition kind_ap (ty ap : N) : N := if (ty =? 6)%N then ap else 0%N.

(* member p of the concrete group G carries the dangerous value d (a: the address, ap: the application, fee) *)
Definition txn_dangerous (d : danger) (G : cgroup) (p : N) (a : string) (ap : N) (fee : Z) : Prop :=
  (forall L ty oc, d_kind d = Some (L, ty, oc) -> cg_kind G p ty oc (kind_ap ty ap)) /\
  (forall fld, d_addr d = Some fld -> cg_field G p fld = VAddr a /\ a <> "ZERO" /\ is_marker a = false) /\
  (d_fee d = true -> cg_field G p "Fee" = VInt fee /\ (MAX_TRANSACTION_COSTz < fee <= MAX_UINT64z)%Z).

(* the hypotheses under which the analyses are sound on the configured contracts (the known findings D2, D16, D19
   and the fragment of Spec/Eval.v excluded), for the domains d needs; the concrete group is consistent with the
   configuration and every configured contract approves it *)
Definition group_side (d : danger) (funcs : list (func * fn_result)) (group : list gtxn) (G : cgroup)
           (posn : string -> N) (a : string) (ap : N) : Prop :=
  group_base_ok funcs group /\
  (forall L ty oc, d_kind d = Some (L, ty, oc) -> group_kind_ok funcs group posn L ty oc (kind_ap ty ap)) /\
  (d_fee d = true -> forall o k f r fam, In o group -> runs o k -> nth_error funcs k = Some (f, r) ->
                                         fam_used group posn o fam -> fee_leaves_ok f fam) /\
  consistent_with (match d_addr d with
                   | Some fld => addr_side funcs group posn fld a
                   | None => fun _ _ _ => True
                   end) funcs group G posn.

Lemma eligible_stateless_inv vt t :
  eligible "STATELESS" vt t -> g_has_logic_sig t = true /\ forall l, vt = Some l -> In (g_type t) l.
Proof.
  intros (H1 & _ & H3). split; [|exact H3].
  destruct (g_has_logic_sig t); [reflexivity|]. exfalso. apply H1. auto.
Qed.

Lemma eligible_statefull_inv vt t : eligible "STATEFULL" vt t -> exists kapp, g_application t = Some kapp.
Proof.
  intros (_ & H2 & _). destruct (g_application t) as [kapp|]; [eauto|]. exfalso. apply H2. auto.
Qed.

Section AllDetectors.
  Variable funcs : list (func * fn_result).
  Variable group : list gtxn.
  Variable G : cgroup.
  Variable posn : string -> N.
  Variable t : gtxn.
  Variable a : string.
  Variable ap : N.
  Variable fee : Z.
  Hypothesis Ht : In t group.

  (* SEMANTIC CLAUSE OF C13, every group-mode detector: name is a detector of Driver.group_checks, (dtype, vt) its row
     of the regenerated detector_table, d its row of danger_table *)
  Theorem group_no_miss_all_partial name checks dtype vt d :
    In (name, checks) group_checks ->
    Parse.assoc name detector_table = Some (dtype, vt) ->
    Parse.assoc name danger_table = Some d ->
    group_side d funcs group G posn a ap ->
    eligible dtype vt t ->
    txn_dangerous d G (posn (g_id t)) a ap fee ->
    txn_vulnerable funcs checks dtype vt group t = true.
  Proof.
    intros Hin Htab Hd (Hok & Hkind & Hfee & Hcons) Hel (Dk & Da & Df).
    unfold group_checks, detectors in Hin. cbn [filter String.eqb Ascii.eqb Bool.eqb negb] in Hin. simpl in Hin.
    destruct Hin as [E|[E|[E|[E|[E|[E|[E|[E|[]]]]]]]]]; inversion E; subst name checks; clear E;
      vm_compute in Htab; inversion Htab; subst dtype vt; clear Htab;
      vm_compute in Hd; inversion Hd; subst d; clear Hd;
      cbn [d_kind d_addr d_fee] in Hkind, Hfee, Hcons, Dk, Da, Df.
    - (* rekey-to *)
      destruct (Da _ eq_refl) as (Hfld & Hz & Hm). destruct (eligible_stateless_inv _ _ Hel) as [Hls _].
      exact (group_rekey_no_miss_partial funcs group G posn a Hcons Hok t Ht Hfld Hz Hm Hls).
    - (* can-close-account *)
      destruct (Da _ eq_refl) as (Hfld & Hz & Hm). destruct (eligible_stateless_inv _ _ Hel) as [Hls Hty].
      exact (group_closeto_no_miss_partial funcs group G posn a t Hok Ht Hz Hm Hls Hcons (Hkind _ _ _ eq_refl)
               (Hty _ eq_refl) (Dk _ _ _ eq_refl) Hfld).
    - (* can-close-asset *)
      destruct (Da _ eq_refl) as (Hfld & Hz & Hm). destruct (eligible_stateless_inv _ _ Hel) as [Hls Hty].
      exact (group_assetcloseto_no_miss_partial funcs group G posn a t Hok Ht Hz Hm Hls Hcons (Hkind _ _ _ eq_refl)
               (Hty _ eq_refl) (Dk _ _ _ eq_refl) Hfld).
    - (* missing-fee-check *)
      destruct (Df eq_refl) as [Hf Hr]. destruct (eligible_stateless_inv _ _ Hel) as [Hls _].
      assert (Hgo : group_ok funcs group posn).
      { destruct Hok as [H1 H2 H3 H4]. constructor; try assumption. exact (Hfee eq_refl). }
      exact (group_fee_no_miss funcs group G posn t fee Hcons Hgo Ht Hls Hf Hr).
    - (* is-updatable *)
      destruct (eligible_statefull_inv _ _ Hel) as [kapp Happ].
      exact (group_updatable_no_miss_partial funcs group G posn t kapp ap Hcons Hok Ht Happ (Hkind _ _ _ eq_refl)
               (Dk _ _ _ eq_refl)).
    - (* is-deletable *)
      destruct (eligible_statefull_inv _ _ Hel) as [kapp Happ].
      exact (group_deletable_no_miss_partial funcs group G posn t kapp ap Hcons Hok Ht Happ (Hkind _ _ _ eq_refl)
               (Dk _ _ _ eq_refl)).
    - (* unprotected-updatable *)
      destruct (Da _ eq_refl) as (Hfld & Hz & Hm). destruct (eligible_statefull_inv _ _ Hel) as [kapp Happ].
      exact (group_unprotected_updatable_no_miss_partial funcs group G posn a t kapp ap Hcons Hok Ht Happ Hfld Hz Hm
               (Hkind _ _ _ eq_refl) (Dk _ _ _ eq_refl)).
    - (* unprotected-deletable *)
      destruct (Da _ eq_refl) as (Hfld & Hz & Hm). destruct (eligible_statefull_inv _ _ Hel) as [kapp Happ].
      exact (group_unprotected_deletable_no_miss_partial funcs group G posn a t kapp ap Hcons Hok Ht Happ Hfld Hz Hm
               (Hkind _ _ _ eq_refl) (Dk _ _ _ eq_refl)).
  Qed.

  (* ... t is in the reported list *)
  Corollary group_verdict_all_partial name checks dtype vt d :
    In (name, checks) group_checks ->
    Parse.assoc name detector_table = Some (dtype, vt) ->
    Parse.assoc name danger_table = Some d ->
    group_side d funcs group G posn a ap ->
    eligible dtype vt t ->
    txn_dangerous d G (posn (g_id t)) a ap fee ->
    In (g_id t) (group_verdict funcs checks dtype vt group).
  Proof.
    intros Hin Htab Hd Hside Hel Hdang. apply (verdict_of_vulnerable _ _ _ _ _ t Ht).
    exact (group_no_miss_all_partial name checks dtype vt d Hin Htab Hd Hside Hel Hdang).
  Qed.

  (* ... and a transaction that is eligible but not reported does not carry the dangerous value in any such group *)
  Corollary group_cleared_all_partial name checks dtype vt d :
    In (name, checks) group_checks ->
    Parse.assoc name detector_table = Some (dtype, vt) ->
    Parse.assoc name danger_table = Some d ->
    group_side d funcs group G posn a ap ->
    eligible dtype vt t ->
    txn_vulnerable funcs checks dtype vt group t = false ->
    ~ txn_dangerous d G (posn (g_id t)) a ap fee.
  Proof.
    intros Hin Htab Hd Hside Hel Hv Hdang.
    rewrite (group_no_miss_all_partial name checks dtype vt d Hin Htab Hd Hside Hel Hdang) in Hv. discriminate.
  Qed.
End AllDetectors.

(* non-vacuity of the uniform statement: unprotected-deletable on the two-member group of D1 *)
Import AppGroupWitness.
Example group_no_miss_all_witness :
  In "U2" (group_verdict AppGroupWitness.funcsA checks_unprotected_deletable "STATEFULL" None AppGroupWitness.grpA).
Proof.
  assert (Ht : In U2 grpA) by (right; left; reflexivity).
  apply (group_verdict_all_partial funcsA grpA (GA 5) posnA U2 "S" 7 0 Ht "unprotected-deletable"
           checks_unprotected_deletable "STATEFULL" None (mkDanger (Some ("ApplDeleteApplication", 6%N, 5%N)) (Some "Sender") false)).
  - unfold group_checks, detectors. simpl. auto 12.
  - reflexivity.
  - reflexivity.
  - split; [exact w_base_ok|]. split; [|split].
    + intros L ty oc E. inversion E; subst. exact (w_kind_ok _ 5 (or_intror (conj eq_refl eq_refl))).
    + discriminate.
    + exact (w_consistent_sender 5 (or_intror eq_refl)).
  - exact (eligible_statefull U2 0 eq_refl).
  - split; [|split].
    + intros L ty oc E. inversion E; subst. repeat split.
    + intros fld E. inversion E; subst. split; [reflexivity|]. split; [discriminate | reflexivity].
    + discriminate.
Qed.

Print Assumptions group_rekey_verdict_partial.
Print Assumptions group_rekey_cleared_sound_partial.
Print Assumptions group_closeto_verdict_partial.
Print Assumptions group_closeto_cleared_sound_partial.
Print Assumptions group_assetcloseto_verdict_partial.
Print Assumptions group_assetcloseto_cleared_sound_partial.
Print Assumptions group_updatable_verdict_partial.
Print Assumptions group_updatable_cleared_sound_partial.
Print Assumptions group_deletable_verdict_partial.
Print Assumptions group_deletable_cleared_sound_partial.
Print Assumptions group_unprotected_updatable_verdict_partial.
Print Assumptions group_unprotected_updatable_cleared_sound_partial.
Print Assumptions group_unprotected_deletable_verdict_partial.
Print Assumptions group_unprotected_deletable_cleared_sound_partial.
Print Assumptions groupsize_not_a_group_check.
Print Assumptions single_contract_leaf.
Print Assumptions single_group_reports_when_path.
Print Assumptions single_group_cleared_no_path.
Print Assumptions single_group_eq_contract_partial.
Print Assumptions single_group_eq_contract_exact.
Print Assumptions single_group_absolute.
Print Assumptions ureach_good_path.
Print Assumptions good_path_ureach.
Print Assumptions leaves_justified_subroutine_free.
Print Assumptions AppGroupWitness.w_updatable.
Print Assumptions AppGroupWitness.w_deletable.
Print Assumptions AppGroupWitness.w_unprotected_updatable.
Print Assumptions AppGroupWitness.w_unprotected_deletable.
Print Assumptions AppGroupWitness.w_single_eq.
Print Assumptions single_group_eq_contract_refuted.
Print Assumptions leaves_justified_refuted.
Print Assumptions refuted_exit_not_reachable.
Print Assumptions group_no_miss_all_partial.
Print Assumptions group_verdict_all_partial.
Print Assumptions group_cleared_all_partial.
Print Assumptions group_no_miss_all_witness.
