(* End-to-end soundness of the transaction-kind domain (txn_types, Domains.type_single) along concrete
   approving executions (Spec/Exec.v), in the style of ExecLemmas.fee_analysis_sound / addr_analysis_sound.

   Part I   the generic lemmas of ExecLemmas (sections D, E, G) re-proved for a WEAKER obligation per leaf
            (leaf_hyp2): the side selected by the truth the leaf actually has in the executed trace contains
            the concrete value.  ExecLemmas.leaf_hyp asks for both sides whenever Eval.leaf_truth is undefined,
            which is always the case for the bare condition `txn ApplicationID` (its truth is the truthiness
            of the value read, not a comparison): with leaf_hyp the kind domain could not accept the idiom
            `txn ApplicationID; bz create` at all.  leaf_hyp implies leaf_hyp2 (leaf_hyp_hyp2).
   Part II  the leaves of the kind domain: classification against the pattern table of TypeLemmas, the
            hypothesis type_leaves_ok (exactly: no D16 triple that the governed transaction would take, and
            the comparison lies in the fragment of Spec/Eval.v), and its soundness.
   Part III type_analysis_sound, C10 for kinds (run_family), and the result of Domains.run_all
            (run_all_type_sound_partial, own_kind_in_ctx).
   Part IV  boolean checks of the hypotheses on concrete programs (all_leaves, type_leaves_okb, no_fail_b).
   Part V   a worked example (TypeWitness). *)
From Coq Require Import String List NArith ZArith Bool Arith Lia.
From Tealer Require Import Tables LeafPrelude Leaves Syntax Parse Cfg StackAst Keys Analysis Domains Detect.
From Tealer Require Import LeafLemmas AssertedLemmas StackLemmas SolverLemmas Instances Eval SingleLemmas.
From Tealer Require Import Runs RunLemmas Exec ExecLemmas TypeLemmas GraphWf GraphOk PathCut.
Import ListNotations.
Open Scope list_scope.

(* ====================================================================== *)
(* I. generic lemmas for the trace-relative leaf obligation                 *)
(* ====================================================================== *)
(* every entry of the trace is an instruction of the program applied by sem (ExecLemmas.crun_tr_sem) *)
Definition trace_ok (sem : opsem) (p : prog) (tr : trace cval) : Prop :=
  forall k a o, In (k, a, o) tr -> exists op, op_at p k = Some op /\ o = sem op k a.

Section Generic2.
  Variable T : Type.
  Variable univ null : T.
  Variable union inter : T -> T -> T.
  Variable single : instr -> nat -> list sval -> T * T.
  Variable V : Type.
  Variable gamma : T -> V -> Prop.
  Hypothesis gamma_univ : forall x, gamma univ x.
  Hypothesis gamma_union_l : forall a b x, gamma a x -> gamma (union a b) x.
  Hypothesis gamma_union_r : forall a b x, gamma b x -> gamma (union a b) x.
  Hypothesis gamma_inter : forall a b x, gamma a x -> gamma b x -> gamma (inter a b) x.

  Variable e : env.
  Variable sem : opsem.
  Hypothesis Hsem : sem_ok e sem.
  Variable f : func.
  Hypothesis Hintcs : fn_intcs f = e_intcs e.
  Variable x : V.

  Notation p := (fn_prog f).
  Notation ass := (asserted T univ null union inter single).
  Notation bcst := (block_constraint T univ null union inter single f).
  Notation ecst := (edge_constraint T univ null union inter single f).

  (* what the domain must provide for a leaf: in every non-failing trace of the program, the side selected by
     the truthiness of the value the leaf pushed (ExecLemmas.Lf) contains x *)
  Definition leaf_hyp2 (op : instr) (pos : nat) (args : list sval) : Prop :=
    forall tr b, trace_ok sem p tr -> no_fail e p tr -> Lf p tr op pos args b ->
      gamma (if b then fst (single op pos args) else snd (single op pos args)) x.

  (* the obligation of ExecLemmas is stronger *)
  Lemma leaf_hyp_hyp2 op pos args : leaf_hyp T single V gamma e x op pos args -> leaf_hyp2 op pos args.
  Proof.
    intros Hh tr b Htr _ HL. apply Hh. intros E.
    pose proof (Lf_leaf_truth e sem Hsem p tr Htr _ _ _ _ _ HL E) as E'. destruct b; discriminate.
  Qed.

  Section Block.
    Variable blk : block.
    Variable cs cs' : list cval.
    Variable tr : trace cval.
    Hypothesis Hex : bexec e sem p blk cs tr cs'.
    Hypothesis Hleaves : forall op pos args, block_leaf f blk op pos args -> leaf_hyp2 op pos args.
    Variable ast : list (nat * instr * list sval).
    Hypothesis Hast : emulate p (b_ins blk) [] = Some ast.

    Let Htr : trace_ok sem p tr := crun_tr_sem sem p _ _ _ _ (proj1 Hex).
    Let Hnf := proj2 Hex.

    (* the first operand of a checking instruction: the analysed condition evaluates to its truthiness *)
    Lemma check_sound2 k o a rest : In (k, o, a :: rest) ast -> is_check o = true ->
      exists c crest couts, In (k, c :: crest, couts) tr /\ op_at p k = Some o /\ fails e o (c :: crest) = false /\
        den cval tr a c /\ opsok p a /\ length crest = length rest /\
        (if truthy c then gamma (fst (ass (cond_of a))) x else gamma (snd (ass (cond_of a))) x).
    Proof.
      intros Hin Hck.
      destruct (ins_sound e sem Hsem f blk cs cs' tr Hex ast Hast k o (a :: rest) Hin)
        as (cargs & couts & Hi & Hop & Hf & HD & HO).
      inversion HD as [|? c ? crest Hd HD']; subst. inversion HO as [|? ? Oa _]; subst.
      exists c, crest, couts. repeat split; auto.
      - symmetry. exact (Forall2_length' _ _ _ HD').
      - apply (asserted_sound_rel T univ null union inter single V gamma gamma_univ gamma_union_l
                 gamma_union_r gamma_inter x (Lf p tr)).
        + intros op pos args b Hl HL.
          assert (Hh : leaf_hyp2 op pos args).
          { apply Hleaves. exists ast, k, o, a, rest. auto. }
          unfold sound, Pt, Pf. specialize (Hh tr b Htr Hnf HL). destruct b; exact Hh.
        + exact (cond_sound e sem Hsem p tr Htr Hnf a Oa c Hd).
    Qed.

    (* (2) *)
    Theorem block_constraint_sound2 : forall c, bcst blk = Some c -> gamma c x.
    Proof.
      intros c. unfold block_constraint. rewrite Hast. intros H; inversion H; subst c; clear H.
      assert (G : forall l acc, incl l ast -> gamma acc x ->
                gamma (fold_left
                  (fun acc '(pos, op, args) =>
                     match op with
                     | IAssert => match args with SUnknown :: _ => acc | a :: _ => inter acc (fst (ass (cond_of a))) | [] => acc end
                     | IReturn =>
                         match args with
                         | SUnknown :: _ => acc
                         | (SKnown aop _ _ _ as a) :: _ =>
                             match is_int_push_ins (fn_intcs f) aop with
                             | IntNum 0 => null
                             | _ => inter acc (fst (ass (cond_of a)))
                             end
                         | [] => acc
                         end
                     | IErr | ICustomErr => null
                     | _ => acc
                     end) l acc) x).
      { induction l as [|[[k o] args] l IH]; intros acc Hl Hacc; [exact Hacc|].
        cbn [fold_left]. apply IH; [intros z Hz; apply Hl; right; exact Hz|].
        assert (Hin : In (k, o, args) ast) by (apply Hl; left; reflexivity).
        destruct o; try exact Hacc.
        - (* assert *)
          destruct args as [|a rest]; [exact Hacc|].
          destruct (check_sound2 k IAssert a rest Hin eq_refl) as (c & crest & couts & _ & _ & Hf & _ & _ & _ & Hg).
          simpl in Hf. rewrite (forallb_truthy_cons _ _ Hf) in Hg.
          destruct a; [exact Hacc | apply gamma_inter; auto].
        - (* err *)
          destruct (ins_sound e sem Hsem f blk cs cs' tr Hex ast Hast k IErr args Hin) as (cargs & couts & _ & _ & Hf & _).
          discriminate.
        - (* return *)
          destruct args as [|a rest]; [exact Hacc|].
          destruct (check_sound2 k IReturn a rest Hin eq_refl) as (c & crest & couts & _ & _ & Hf & Hd & Oa & _ & Hg).
          simpl in Hf. pose proof (forallb_truthy_cons _ _ Hf) as Ht. rewrite Ht in Hg.
          destruct a as [|aop ap aa au]; [exact Hacc|].
          destruct (is_int_push_ins (fn_intcs f) aop) as [| |[|n]|] eqn:Ei; try (apply gamma_inter; auto).
          exfalso. rewrite Hintcs in Ei.
          pose proof (int_push_eval e aop ap aa au 0%N Ei) as Ev.
          rewrite (tree_value e sem Hsem p tr Htr _ Oa c _ Hd Ev) in Ht. discriminate.
        - (* custom err *)
          destruct (ins_sound e sem Hsem f blk cs cs' tr Hex ast Hast k ICustomErr args Hin)
            as (cargs & couts & _ & _ & Hf & _).
          discriminate. }
      apply G; [apply incl_refl | apply gamma_univ].
    Qed.

    (* (3) *)
    Theorem edge_constraint_sound2 :
      NoDup (b_ins blk) -> NoDup (b_next blk) ->
      (forall l, fexit_op f blk = Some (IBZ l) \/ fexit_op f blk = Some (IBNZ l) -> find_label p l <> None) ->
      forall b' c, branch_ok f blk tr b' -> ecst blk b' = Some c -> gamma c x.
    Proof.
      intros Hnd Hnn Hlab b' c Hbr. unfold edge_constraint.
      destruct (next_global f blk) as [nx|]; [|discriminate].
      destruct (negb (nat_mem b' nx)); [discriminate|].
      assert (U : Some univ = Some c -> gamma c x) by (intros E; inversion E; subst; apply gamma_univ).
      destruct (fexit_op f blk) as [xop|] eqn:Ex; [|exact U].
      destruct (fexit_op_inv _ _ _ Ex) as [Hne Hop].
      rewrite Hast.
      assert (Main : forall l, xop = IBZ l \/ xop = IBNZ l ->
        match args_of ast (last (b_ins blk) 0) with
        | Some (SUnknown :: _) | Some [] | None => Some univ
        | Some (a :: _) =>
            let '(tv, fv) := ass (cond_of a) in
            let is_bz := match xop with IBZ _ => true | _ => false end in
            match b_next blk with
            | [j] =>
                if branch_to_next p xop (last (b_ins blk) 0) then Some univ
                else if Nat.eqb b' j then Some (if is_bz then fv else tv) else Some univ
            | d :: j :: _ =>
                if Nat.eqb b' d then Some (if is_bz then tv else fv)
                else if Nat.eqb b' j then Some (if is_bz then fv else tv)
                else Some univ
            | [] => None
            end
        end = Some c -> gamma c x).
      { intros l Hl.
        assert (Hfl : find_label p l <> None) by (apply Hlab; destruct Hl; subst; auto).
        destruct (args_of ast (last (b_ins blk) 0)) as [[|a rest]|] eqn:Ea; try exact U.
        destruct (args_of_In _ _ _ Ea) as (o & Hin).
        pose proof (emulate_ops p _ _ _ Hast _ _ _ Hin) as Hop'. rewrite Hop in Hop'. inversion Hop'; subst o.
        assert (Hck : is_check xop = true) by (destruct Hl; subst; reflexivity).
        destruct (check_sound2 _ _ _ _ Hin Hck) as (c0 & crest & couts & Hi & _ & _ & _ & _ & Hlen & Hg).
        pose proof (emulate_args_length_gen p _ _ _ Hast _ _ _ Hin) as Har.
        assert (Hr : rest = []).
        { assert (Hp1 : stack_pop_size xop = Some 1) by (destruct Hl; subst xop; reflexivity).
          rewrite Hp1 in Har. inversion Har as [E0]. destruct rest; [reflexivity | discriminate]. }
        subst rest. destruct crest; [|discriminate].
        destruct (crun_tr_last sem p _ _ _ _ (proj1 Hex) Hne) as (a' & o' & El & Hil).
        destruct (crun_tr_functional cval sem p _ _ _ _ Hnd (proj1 Hex) _ _ _ _ _ Hi Hil) as [<- <-].
        assert (Hpop : popped tr = [c0]) by (unfold popped; rewrite El; reflexivity).
        unfold branch_ok in Hbr. rewrite Ex, Hpop in Hbr.
        destruct a as [|aop ap aa au]; [exact U|].
        destruct (ass (cond_of (SKnown aop ap aa au))) as [tv fv]. cbn [fst snd] in Hg. cbv beta iota zeta.
        set (z := match xop with IBZ _ => true | _ => false end).
        set (jumped := if z then negb (truthy c0) else truthy c0).
        assert (Hj : jump_ok f blk jumped b').
        { unfold jumped, z. destruct Hl; subst xop; exact Hbr. }
        assert (Hg' : gamma (if jumped then (if z then fv else tv) else (if z then tv else fv)) x).
        { unfold jumped, z. destruct Hl; subst xop; destruct (truthy c0); exact Hg. }
        clearbody jumped z. clear Hbr Hg. unfold jump_ok in Hj.
        destruct (b_next blk) as [|d [|j r]] eqn:En; [discriminate| |].
        - (* one successor *)
          destruct (branch_to_next p xop (last (b_ins blk) 0)) eqn:Ei; [exact U|].
          destruct (Nat.eqb b' d); [|exact U].
          assert (Hnn' : exit_to_next f blk = false) by (unfold exit_to_next; rewrite Ex; exact Ei).
          rewrite (Hj Hnn') in Hg'. intros E; inversion E; subst c; exact Hg'.
        - (* fall-through d, jump target j *)
          pose proof (nodup2 _ _ _ Hnn) as Hdj.
          destruct jumped; subst b'.
          + destruct (Nat.eqb_spec j d) as [E|_]; [congruence|]. rewrite Nat.eqb_refl.
            intros E; inversion E; subst; exact Hg'.
          + rewrite Nat.eqb_refl. intros E; inversion E; subst; exact Hg'. }
      destruct xop; try exact U; eapply Main; eauto.
    Qed.
  End Block.
End Generic2.

(* ---------------------------------------------------------------- executions pass the constraints *)
Section GenericRun2.
  Variable T : Type.
  Variable t_eqb : T -> T -> bool.
  Variable univ null : T.
  Variable union inter : T -> T -> T.
  Variable single : instr -> nat -> list sval -> T * T.
  Variable V : Type.
  Variable gamma : T -> V -> Prop.
  Hypothesis gamma_univ : forall x, gamma univ x.
  Hypothesis gamma_union_l : forall a b x, gamma a x -> gamma (union a b) x.
  Hypothesis gamma_union_r : forall a b x, gamma b x -> gamma (union a b) x.
  Hypothesis gamma_inter : forall a b x, gamma a x -> gamma b x -> gamma (inter a b) x.
  Hypothesis gamma_eqb : forall a b x, t_eqb a b = true -> (gamma a x <-> gamma b x).
  Hypothesis teq_refl : forall a, t_eqb a a = true.

  Variable e : env.
  Variable sem : opsem.
  Hypothesis Hsem : sem_ok e sem.
  Variable f : func.
  Hypothesis Hintcs : fn_intcs f = e_intcs e.
  Hypothesis Hg : graph_ok f.
  Variable x : V.
  Hypothesis Hleaves : forall op pos args, prog_leaf f op pos args ->
    leaf_hyp2 T single V gamma e sem f x op pos args.

  Notation p := (fn_prog f).
  Notation bcst := (block_constraint T univ null union inter single f).
  Notation okb' := (okb T V gamma x).
  Notation oke' := (oke T univ null union inter single f V gamma x).

  Lemma block_leaves2 b blk : fblock f b = Some blk ->
    forall op pos args, block_leaf f blk op pos args -> leaf_hyp2 T single V gamma e sem f x op pos args.
  Proof. intros Hb op pos args H. apply Hleaves. exists b, blk. auto. Qed.

  Lemma exec_block_constraint2 b blk cs tr cs' c :
    fblock f b = Some blk -> bexec e sem p blk cs tr cs' -> bcst blk = Some c -> gamma c x.
  Proof.
    intros Hb Hex Hc. destruct (crun_emulate sem p _ _ _ _ (proj1 Hex) []) as [ast Hast].
    exact (block_constraint_sound2 T univ null union inter single V gamma gamma_univ gamma_union_l gamma_union_r
             gamma_inter e sem Hsem f Hintcs x blk cs cs' tr Hex (block_leaves2 b blk Hb) ast Hast c Hc).
  Qed.

  Lemma exec_edge_constraint2 b blk cs tr cs' b' :
    fblock f b = Some blk -> bexec e sem p blk cs tr cs' -> branch_ok f blk tr b' -> oke' b b'.
  Proof.
    intros Hb Hex Hbr pb c Hpb Hc. rewrite Hb in Hpb. inversion Hpb; subst pb.
    destruct (crun_emulate sem p _ _ _ _ (proj1 Hex) []) as [ast Hast].
    refine (edge_constraint_sound2 T univ null union inter single V gamma gamma_univ gamma_union_l gamma_union_r
             gamma_inter e sem Hsem f x blk cs cs' tr Hex (block_leaves2 b blk Hb) ast Hast
             (g_ins_nodup f Hg b blk Hb) (g_next_nodup f Hg b blk Hb) _ b' c Hbr Hc).
    intros l Hl. exact (g_branch_labels f Hg b blk l Hb Hl).
  Qed.

  Variable bc : list (nat * T).
  Notation blocks_pass' := (blocks_pass T V gamma e sem f x bc).

  Theorem exec_run_passes2 : forall c cs cfgs, ExecFrom e sem f c cs cfgs -> blocks_pass' cfgs ->
    run_passes (okb' bc) oke' cfgs.
  Proof.
    induction 1 as [c cs blk tr cs' Hb Hex | c c' rest cs blk tr cs' Hb Hex Hstep Hbr Hrest IH]; intros Hbc.
    - apply passes_one. eapply Hbc; eauto. left; reflexivity.
    - destruct (ExecFrom_head _ _ _ _ _ _ Hrest) as [rest' ->].
      apply (passes_cons f); auto.
      + eapply Hbc; eauto. left; reflexivity.
      + destruct c as [b st]. eapply exec_edge_constraint2; eauto.
      + apply IH. intros c0 blk0 cs0 tr0 cs0' Hin. apply Hbc. right. exact Hin.
  Qed.

  Theorem exec_solve_sound2 fuel lo cfgs :
    solve T t_eqb univ null union inter single f fuel bc = Done lo ->
    Accepts e sem f cfgs -> blocks_pass' cfgs ->
    forall b st, In (b, st) cfgs -> exists v, lookup T lo b = Some v /\ gamma v x.
  Proof.
    intros Hs (Hexec & Hacc & Hret & _) Hbc b st Hin.
    exact (solve_sound T t_eqb univ null union inter single f V gamma x (gamma_univ x)
             (fun a b => gamma_union_l a b x) (fun a b => gamma_union_r a b x) (fun a b => gamma_inter a b x)
             (fun a b => gamma_eqb a b x) bc teq_refl
             (g_cover_prev f Hg) (g_cover_ret f Hg) (g_cover_next f Hg) (g_cover_call f Hg) (g_entry_ok f Hg)
             (g_target_not_rp f Hg) (g_sub_entry_in f Hg) (g_sub_closed f Hg) (g_ret_in_next f Hg)
             fuel lo cfgs (g_fwd_wl f Hg) (g_bwd_wl f Hg) Hs Hacc Hret
             (exec_run_passes2 _ _ _ Hexec Hbc) b st Hin).
  Qed.
End GenericRun2.

Section PlainRun2.
  Variable T : Type.
  Variable t_eqb : T -> T -> bool.
  Variable univ null : T.
  Variable union inter : T -> T -> T.
  Variable single : instr -> nat -> list sval -> T * T.
  Variable V : Type.
  Variable gamma : T -> V -> Prop.
  Hypothesis gamma_univ : forall x, gamma univ x.
  Hypothesis gamma_union_l : forall a b x, gamma a x -> gamma (union a b) x.
  Hypothesis gamma_union_r : forall a b x, gamma b x -> gamma (union a b) x.
  Hypothesis gamma_inter : forall a b x, gamma a x -> gamma b x -> gamma (inter a b) x.
  Hypothesis gamma_eqb : forall a b x, t_eqb a b = true -> (gamma a x <-> gamma b x).
  Hypothesis teq_refl : forall a, t_eqb a a = true.

  (* run_analysis for one key: init_constraints then solve *)
  Theorem analysis_sound2 e sem f x bc fuel lo cfgs :
    sem_ok e sem -> fn_intcs f = e_intcs e -> graph_ok f ->
    (forall op pos args, prog_leaf f op pos args -> leaf_hyp2 T single V gamma e sem f x op pos args) ->
    init_constraints T univ null union inter single f = Some bc ->
    solve T t_eqb univ null union inter single f fuel bc = Done lo ->
    Accepts e sem f cfgs ->
    forall b st, In (b, st) cfgs -> exists v, lookup T lo b = Some v /\ gamma v x.
  Proof.
    intros Hsem Hi Hg Hl Hinit Hs Hacc.
    apply (exec_solve_sound2 T t_eqb univ null union inter single V gamma gamma_univ gamma_union_l gamma_union_r
             gamma_inter gamma_eqb teq_refl e sem Hsem f Hg x Hl bc) with (fuel := fuel); auto.
    intros [b0 st0] blk cs tr cs' _ Hb Hex. simpl in *.
    destruct (init_lookup _ _ _ _ _ _ _ _ _ _ Hinit Hb) as (c & Hc & Hbcst).
    exists c. split; [exact Hc|].
    eapply (exec_block_constraint2 T univ null union inter single V gamma); eauto.
  Qed.
End PlainRun2.

(* ---------------------------------------------------------------- the key families of Domains.run_family *)
Section Family2.
  Variable T : Type.
  Variable t_eqb : T -> T -> bool.
  Variable univ null : T.
  Variable union inter : T -> T -> T.
  Variable single : keyfam -> instr -> nat -> list sval -> T * T.
  Variable V : Type.
  Variable gamma : T -> V -> Prop.
  Hypothesis gamma_univ : forall x, gamma univ x.
  Hypothesis gamma_union_l : forall a b x, gamma a x -> gamma (union a b) x.
  Hypothesis gamma_union_r : forall a b x, gamma b x -> gamma (union a b) x.
  Hypothesis gamma_inter : forall a b x, gamma a x -> gamma b x -> gamma (inter a b) x.
  Hypothesis gamma_eqb : forall a b x, t_eqb a b = true -> (gamma a x <-> gamma b x).
  Hypothesis teq_refl : forall a, t_eqb a a = true.

  Notation init fam f := (init_constraints T univ null union inter (single fam) f).
  Notation slv fam f := (solve T t_eqb univ null union inter (single fam) f).

  Variable e : env.
  Variable sem : opsem.
  Variable f : func.
  Variable x : V.
  Hypothesis Hsem : sem_ok e sem.
  Hypothesis Hintcs : fn_intcs f = e_intcs e.
  Hypothesis Hg : graph_ok f.

  Definition fam_leaves2 (fam : keyfam) : Prop :=
    forall op pos args, prog_leaf f op pos args -> leaf_hyp2 T (single fam) V gamma e sem f x op pos args.

  Theorem run_family_sound2 fuel indices res fam r cfgs :
    run_family f fuel t_eqb univ null union inter single indices = Done res ->
    In (fam, r) res ->
    fam_leaves2 fam ->
    match fam with KAtIndex i => fam_leaves2 KSelf /\ index_sound indices i cfgs | _ => True end ->
    Accepts e sem f cfgs ->
    forall b st, In (b, st) cfgs -> exists v, lookup T r b = Some v /\ gamma v x.
  Proof.
    intros Hrun Hin Hl Hat Hacc.
    destruct (run_family_inv T t_eqb univ null union inter single f fuel indices res Hrun)
      as (bc0 & base & rest & E0 & Eb & -> & Hrest).
    assert (Hplain : forall fam' bc' r', fam_leaves2 fam' -> init fam' f = Some bc' -> slv fam' f fuel bc' = Done r' ->
              forall b st, In (b, st) cfgs -> exists v, lookup T r' b = Some v /\ gamma v x).
    { intros fam' bc' r' Hl' Hi' Hs'.
      exact (analysis_sound2 T t_eqb univ null union inter (single fam') V gamma gamma_univ gamma_union_l gamma_union_r
               gamma_inter gamma_eqb teq_refl e sem f x bc' fuel r' cfgs Hsem Hintcs Hg Hl' Hi' Hs' Hacc). }
    destruct Hin as [E|Hin]; [inversion E; subst; eapply Hplain; eauto|].
    destruct (Hrest fam r Hin) as (bc & Ei & Es).
    destruct fam as [|i|i|k]; try solve [eapply Hplain; eauto].
    destruct Hat as [Hself Hidx].
    pose proof (Hplain KSelf bc0 base Hself E0 Eb) as Hbase.
    apply (exec_solve_sound2 T t_eqb univ null union inter (single (KAtIndex i)) V gamma gamma_univ gamma_union_l
             gamma_union_r gamma_inter gamma_eqb teq_refl e sem Hsem f Hg x Hl
             (refine_at inter null indices base i bc)) with (fuel := fuel); auto.
    intros [b0 st0] blk cs tr cs' Hc0 Hb Hex. simpl in *.
    destruct (init_lookup _ _ _ _ _ _ _ _ _ _ Ei Hb) as (c & Hc & Hbcst).
    destruct (Hidx b0 st0 Hc0) as (gi & Egi & Hgi).
    destruct (Hbase b0 st0 Hc0) as (vb & Evb & Hvb).
    exists (inter c vb). split.
    - rewrite (lookup_refine_at inter null indices base i bc b0 c Hc), Egi, Evb.
      rewrite (proj2 (zmem_In _ _) Hgi). reflexivity.
    - apply gamma_inter; [|exact Hvb].
      eapply (exec_block_constraint2 T univ null union inter (single (KAtIndex i)) V gamma); eauto.
  Qed.
End Family2.

(* ====================================================================== *)
(* II. the leaves of the transaction-kind domain                            *)
(* ====================================================================== *)
Local Open Scope string_scope.

(* ---------------------------------------------------------------- the governed transaction *)
(* the three kind fields of group member t hold the integers ty, oc, ap *)
Definition kind_fields (e : env) (t : N) (ty oc ap : N) : Prop :=
  e_field e t "TypeEnum" = VInt (Z.of_N ty) /\ e_field e t "OnCompletion" = VInt (Z.of_N oc) /\
  e_field e t "ApplicationID" = VInt (Z.of_N ap).

Definition fld_value (fld : string) (ty oc ap : N) : N :=
  if fld =? "TypeEnum" then ty else if fld =? "OnCompletion" then oc else ap.

(* the pattern of TypeLemmas a comparison  <field fld> == c  is an instance of *)
Definition fld_pattern (fld : string) (c : N) : option pattern :=
  if fld =? "TypeEnum" then Some (PType c)
  else if fld =? "OnCompletion" then Some (POnc c)
  else if fld =? "ApplicationID" then (if N.eqb c 0 then Some PApp0 else None)
  else None.

(* the (pattern, side the governed transaction takes, label) triple is not one of the 32 dropped ones (D16) *)
Definition not_dropped (L : string) (ty oc ap : N) (pat : pattern) : Prop :=
  ~ In (pat, pattern_truth pat ty oc ap, L) dropped_table.

(* boolean version, for concrete programs *)
Definition pattern_eqb (a b : pattern) : bool :=
  match a, b with
  | PType x, PType y | POnc x, POnc y => N.eqb x y
  | PApp0, PApp0 | PAppBare, PAppBare => true
  | _, _ => false
  end.
Definition dropped_b (pt : pattern) (side : bool) (L : string) : bool :=
  existsb (fun '(p, s, l) => pattern_eqb p pt && Bool.eqb s side && (l =? L)) dropped_table.

Lemma pattern_eqb_refl a : pattern_eqb a a = true.
Proof. destruct a; cbn [pattern_eqb]; try reflexivity; apply N.eqb_refl. Qed.

Lemma dropped_b_false pt side L : dropped_b pt side L = false -> ~ In (pt, side, L) dropped_table.
Proof.
  intros H Hin. unfold dropped_b in H. apply Bool.not_true_iff_false in H. apply H.
  apply existsb_exists. exists (pt, side, L). split; [exact Hin|].
  rewrite pattern_eqb_refl, eqb_reflx, String.eqb_refl. reflexivity.
Qed.

(* ---------------------------------------------------------------- the hypothesis on one leaf *)
(* [v] is the read of field fld of the key's transaction, [w] the operand it is compared with by == / != *)
Definition kind_operand_ok (intcs : option (list N)) (L : string) (ty oc ap : N) (fld : string) (v w : sval) : Prop :=
  match w with
  | SUnknown => True                                     (* the tool learns nothing *)
  | SKnown o _ _ _ =>
      match is_int_push_ins intcs o with
      | IntNum c =>
          (* a numeric constant the tool maps to a label set: the read is in the fragment of Spec/Eval.v
             (no txna-style array index) and the triple is not a dropped one *)
          type_expected fld (IntNum c) <> None ->
          tree_wf v = true /\ forall pat, fld_pattern fld c = Some pat -> not_dropped L ty oc ap pat
      | IntName s =>
          (* a named constant (int pay, int appl, int UpdateApplication ...): Spec/Eval.int_const gives it no
             value, so the truth of the comparison is unknown: both sides must keep the label *)
          forall p, type_expected fld (IntName s) = Some p -> In L (fst p) /\ In L (snd p)
      | _ => True                                        (* unknown intc constant, non-constant: no information *)
      end
  end.

Definition kind_leaf_ok (intcs : option (list N)) (fam : keyfam) (L : string) (ty oc ap : N)
           (op : instr) (pos : nat) (args : list sval) : Prop :=
  (* the leaf is the bare read of the key's ApplicationID, used as a condition *)
  (value_matches intcs fam "ApplicationID" (SKnown op pos args 0) = true ->
     tree_wf (SKnown op pos args 0) = true /\ not_dropped L ty oc ap PAppBare) /\
  (* the leaf compares one of the key's kind fields by == or != *)
  (op = IEq \/ op = INeq -> forall v1 v2 fld, args = [v1; v2] -> In fld type_fields ->
     (value_matches intcs fam fld v1 = true -> kind_operand_ok intcs L ty oc ap fld v1 v2) /\
     (value_matches intcs fam fld v2 = true -> kind_operand_ok intcs L ty oc ap fld v2 v1)).

(* type_leaves_ok: every checked condition leaf of the function is fine for label L and the governed
   transaction (ty, oc, ap).  What it excludes, and nothing else:
   (a) D16: a comparison  TypeEnum ==/!= c,  OnCompletion ==/!= c,  ApplicationID ==/!= 0  or a bare
       ApplicationID condition whose (pattern, side taken by THIS transaction, L) is one of the 32 triples of
       TypeLemmas.dropped_table -- e.g. `txn TypeEnum; int 6; ==; assert` for L = ApplUpdateApplication, or
       `txn OnCompletion; int 0; ==; assert` / `txn ApplicationID; bz create` (false side) for L = Pay.
       Only the side this transaction takes matters: `txn ApplicationID; int 0; ==; bnz create` is fine for an
       update call (ap <> 0), and so is `txn ApplicationID; bz create`;
   (b) outside Spec/Eval.v: the compared constant is written by NAME (`int pay`, `int appl`,
       `int UpdateApplication`: Eval.int_const leaves them undefined, the model's semantics may push anything),
       unless both sides keep L;  or the kind field is read with an array index (txna/gtxna-style immediate),
       which Eval.eval_op does not define although the tool treats it as the plain read. *)
Definition type_leaves_ok (f : func) (fam : keyfam) (L : string) (ty oc ap : N) : Prop :=
  forall op pos args, prog_leaf f op pos args -> kind_leaf_ok (fn_intcs f) fam L ty oc ap op pos args.

(* ---------------------------------------------------------------- type_single, by cases *)
Lemma type_tf_cases intcs fam o1 p1 a1 u1 o2 p2 a2 u2 :
  Bool.eqb (res_is_int (is_int_push_ins intcs o1)) (res_is_int (is_int_push_ins intcs o2)) = false ->
  type_tf intcs fam (SKnown o1 p1 a1 u1) (SKnown o2 p2 a2 u2) (is_int_push_ins intcs o1) (is_int_push_ins intcs o2) = None \/
  (exists fld, In fld type_fields /\ value_matches intcs fam fld (SKnown o1 p1 a1 u1) = true /\
     res_known (is_int_push_ins intcs o2) = true /\
     type_tf intcs fam (SKnown o1 p1 a1 u1) (SKnown o2 p2 a2 u2) (is_int_push_ins intcs o1) (is_int_push_ins intcs o2)
     = type_expected fld (is_int_push_ins intcs o2)) \/
  (exists fld, In fld type_fields /\ value_matches intcs fam fld (SKnown o2 p2 a2 u2) = true /\
     res_known (is_int_push_ins intcs o1) = true /\
     type_tf intcs fam (SKnown o1 p1 a1 u1) (SKnown o2 p2 a2 u2) (is_int_push_ins intcs o1) (is_int_push_ins intcs o2)
     = type_expected fld (is_int_push_ins intcs o1)).
Proof.
  intros Hb.
  set (v1 := SKnown o1 p1 a1 u1). set (v2 := SKnown o2 p2 a2 u2).
  destruct (res_is_int (is_int_push_ins intcs o1)) eqn:I1; destruct (res_is_int (is_int_push_ins intcs o2)) eqn:I2;
    try discriminate Hb.
  - (* v1 is the constant, v2 is not an integer push *)
    assert (R2 : is_int_push_ins intcs o2 = NotInt) by (destruct (is_int_push_ins intcs o2); try discriminate; reflexivity).
    assert (N1 : is_int_push_ins intcs o1 <> NotInt) by (intros E; rewrite E in I1; discriminate).
    assert (V1 : forall F, value_matches intcs fam F v1 = false) by (intros F; apply value_matches_int_false; exact N1).
    destruct (res_known (is_int_push_ins intcs o1)) eqn:K1.
    + destruct (value_matches intcs fam "TypeEnum" v2) eqn:M1;
        [right; right; exists "TypeEnum"; rewrite R2; repeat split; auto;
         [left; reflexivity | apply type_tf_right; auto; left; reflexivity]|].
      destruct (value_matches intcs fam "OnCompletion" v2) eqn:M2;
        [right; right; exists "OnCompletion"; rewrite R2; repeat split; auto;
         [right; left; reflexivity | apply type_tf_right; auto; right; left; reflexivity]|].
      destruct (value_matches intcs fam "ApplicationID" v2) eqn:M3;
        [right; right; exists "ApplicationID"; rewrite R2; repeat split; auto;
         [right; right; left; reflexivity | apply type_tf_right; auto; right; right; left; reflexivity]|].
      left. unfold type_tf, type_tf2, type_tf1, type_tf0. rewrite !V1, M1, M2, M3. reflexivity.
    + left. unfold type_tf, type_tf2, type_tf1, type_tf0. rewrite !V1, K1, !andb_false_r. reflexivity.
  - (* v2 is the constant *)
    assert (R1 : is_int_push_ins intcs o1 = NotInt) by (destruct (is_int_push_ins intcs o1); try discriminate; reflexivity).
    assert (N2 : is_int_push_ins intcs o2 <> NotInt) by (intros E; rewrite E in I2; discriminate).
    assert (V2 : forall F, value_matches intcs fam F v2 = false) by (intros F; apply value_matches_int_false; exact N2).
    destruct (res_known (is_int_push_ins intcs o2)) eqn:K2.
    + destruct (value_matches intcs fam "TypeEnum" v1) eqn:M1;
        [right; left; exists "TypeEnum"; rewrite R1; repeat split; auto;
         [left; reflexivity | apply type_tf_left; auto; left; reflexivity]|].
      destruct (value_matches intcs fam "OnCompletion" v1) eqn:M2;
        [right; left; exists "OnCompletion"; rewrite R1; repeat split; auto;
         [right; left; reflexivity | apply type_tf_left; auto; right; left; reflexivity]|].
      destruct (value_matches intcs fam "ApplicationID" v1) eqn:M3;
        [right; left; exists "ApplicationID"; rewrite R1; repeat split; auto;
         [right; right; left; reflexivity | apply type_tf_left; auto; right; right; left; reflexivity]|].
      left. unfold type_tf, type_tf2, type_tf1, type_tf0. rewrite !V2, M1, M2, M3. reflexivity.
    + left. unfold type_tf, type_tf2, type_tf1, type_tf0. rewrite !V2, K2, !andb_false_r. reflexivity.
Qed.

(* a leaf gives no information, or is the bare ApplicationID read, or is  field ==/!= constant  either way round *)
Lemma type_single_cases intcs fam op pos args :
  type_single intcs fam op pos args = type_UU \/
  (value_matches intcs fam "ApplicationID" (SKnown op pos args 0) = true /\
   type_single intcs fam op pos args = (appl_not_creation, appl_creation)) \/
  (exists fld v o q a u p, (op = IEq \/ op = INeq) /\ In fld type_fields /\
     res_known (is_int_push_ins intcs o) = true /\
     type_expected fld (is_int_push_ins intcs o) = Some p /\
     type_single intcs fam op pos args = type_orient op p /\
     value_matches intcs fam fld v = true /\
     (args = [v; SKnown o q a u] \/ args = [SKnown o q a u; v])).
Proof.
  destruct (value_matches intcs fam "ApplicationID" (SKnown op pos args 0)) eqn:Es.
  { right; left. split; [reflexivity | apply type_single_applid_leaf; exact Es]. }
  rewrite type_single_eq, Es.
  assert (Main : op = IEq \/ op = INeq ->
    match args with
    | [SKnown o1 p1 a1 x1 as v1; SKnown o2 p2 a2 x2 as v2] =>
        let r1 := is_int_push_ins intcs o1 in
        let r2 := is_int_push_ins intcs o2 in
        if Bool.eqb (res_is_int r1) (res_is_int r2) then type_UU else
        match type_tf intcs fam v1 v2 r1 r2 with
        | Some p => type_orient op p
        | None => type_UU
        end
    | _ => type_UU
    end = type_UU \/
    (false = true /\ match args with
    | [SKnown o1 p1 a1 x1 as v1; SKnown o2 p2 a2 x2 as v2] =>
        let r1 := is_int_push_ins intcs o1 in
        let r2 := is_int_push_ins intcs o2 in
        if Bool.eqb (res_is_int r1) (res_is_int r2) then type_UU else
        match type_tf intcs fam v1 v2 r1 r2 with
        | Some p => type_orient op p
        | None => type_UU
        end
    | _ => type_UU
    end = (appl_not_creation, appl_creation)) \/
    (exists fld v o q a u p, (op = IEq \/ op = INeq) /\ In fld type_fields /\
       res_known (is_int_push_ins intcs o) = true /\
       type_expected fld (is_int_push_ins intcs o) = Some p /\
       match args with
       | [SKnown o1 p1 a1 x1 as v1; SKnown o2 p2 a2 x2 as v2] =>
           let r1 := is_int_push_ins intcs o1 in
           let r2 := is_int_push_ins intcs o2 in
           if Bool.eqb (res_is_int r1) (res_is_int r2) then type_UU else
           match type_tf intcs fam v1 v2 r1 r2 with
           | Some p => type_orient op p
           | None => type_UU
           end
       | _ => type_UU
       end = type_orient op p /\
       value_matches intcs fam fld v = true /\
       (args = [v; SKnown o q a u] \/ args = [SKnown o q a u; v]))).
  { intros Hop.
    destruct args as [| [|o1 p1 a1 u1] [| [|o2 p2 a2 u2] [| v3 rest]]]; try (left; reflexivity).
    cbv zeta.
    destruct (Bool.eqb (res_is_int (is_int_push_ins intcs o1)) (res_is_int (is_int_push_ins intcs o2))) eqn:Eb;
      [left; reflexivity|].
    destruct (type_tf_cases intcs fam o1 p1 a1 u1 o2 p2 a2 u2 Eb) as [E | [(fld & Hf & M & K & E) | (fld & Hf & M & K & E)]];
      rewrite E.
    - left; reflexivity.
    - destruct (type_expected fld (is_int_push_ins intcs o2)) as [p|] eqn:Ex; [|left; reflexivity].
      right; right. exists fld, (SKnown o1 p1 a1 u1), o2, p2, a2, u2, p. repeat split; auto.
    - destruct (type_expected fld (is_int_push_ins intcs o1)) as [p|] eqn:Ex; [|left; reflexivity].
      right; right. exists fld, (SKnown o2 p2 a2 u2), o1, p1, a1, u1, p. repeat split; auto. }
  destruct op; try (left; reflexivity).
  - destruct (Main (or_introl eq_refl)) as [H | [[H _] | H]]; [left; exact H | discriminate | right; right; exact H].
  - destruct (Main (or_intror eq_refl)) as [H | [[H _] | H]]; [left; exact H | discriminate | right; right; exact H].
Qed.

(* ---------------------------------------------------------------- the table entries computed by type_expected *)
Lemma assocN_key {A} n (l : list (N * A)) c : assocN n l = Some c -> In n (map fst l).
Proof.
  induction l as [|[k v] l IH]; cbn [assocN map fst]; [discriminate|].
  destruct (N.eqb_spec k n) as [->|_]; intros H; [left; reflexivity | right; apply IH; exact H].
Qed.

Lemma type_expected_num fld c p : In fld type_fields -> type_expected fld (IntNum c) = Some p ->
  exists pat, fld_pattern fld c = Some pat /\ p = tf_pair pat /\ In pat all_patterns.
Proof.
  intros Hf H. destruct Hf as [<- | [<- | [<- | []]]].
  - exists (PType c). split; [reflexivity|].
    change (option_map (fun l => ([l], ldiff TYPEENUM_TRANSACTION_TYPES [l])) (transaction_type_to_tealer_type (IntNum c)) = Some p) in H.
    cbn [tf_pair]. destruct (transaction_type_to_tealer_type (IntNum c)) as [l|] eqn:E; [|discriminate].
    cbn [option_map] in H. inversion H; subst p. split; [reflexivity|].
    apply assocN_key in E. unfold all_patterns. apply in_or_app. left. apply in_map. exact E.
  - exists (POnc c). split; [reflexivity|].
    change (option_map (fun l => ([l], ldiff APPLICATION_TRANSACTION_TYPES [l])) (oncompletion_to_tealer_type (IntNum c)) = Some p) in H.
    cbn [tf_pair]. destruct (oncompletion_to_tealer_type (IntNum c)) as [l|] eqn:E; [|discriminate].
    cbn [option_map] in H. inversion H; subst p. split; [reflexivity|].
    apply assocN_key in E. unfold all_patterns. apply in_or_app. right. apply in_or_app. left. apply in_map. exact E.
  - change (match c with 0%N => Some (appl_creation, appl_not_creation) | _ => None end = Some p) in H.
    destruct c; [|discriminate]. inversion H; subst p.
    exists PApp0. split; [reflexivity|]. split; [reflexivity|].
    unfold all_patterns. apply in_or_app. right. apply in_or_app. right. left. reflexivity.
Qed.

Lemma fld_pattern_truth fld c pat ty oc ap : In fld type_fields -> fld_pattern fld c = Some pat ->
  pattern_truth pat ty oc ap = N.eqb (fld_value fld ty oc ap) c.
Proof.
  intros Hf H. destruct Hf as [<- | [<- | [<- | []]]]; cbn in H.
  - inversion H; reflexivity.
  - inversion H; reflexivity.
  - destruct (N.eqb_spec c 0) as [->|_]; [|discriminate]. inversion H; reflexivity.
Qed.

Lemma PAppBare_in : In PAppBare all_patterns.
Proof. unfold all_patterns. apply in_or_app. right. apply in_or_app. right. right. left. reflexivity. Qed.

(* C07_preserved_partial, for a pattern of the table *)
Lemma side_sound pat side L ty oc ap :
  In pat all_patterns -> In L c07_labels -> ~ In (pat, side, L) dropped_table ->
  in_range ty oc ap -> pattern_truth pat ty oc ap = side -> carries ty oc ap L = true ->
  In L (side_set pat side).
Proof.
  intros Hp HL Hnd Hr Ht Hc.
  refine (C07_preserved_partial pat side L _ Hnd ty oc ap Hr Ht Hc).
  unfold all_triples. apply in_flat_map. exists pat. split; [exact Hp|].
  apply in_flat_map. exists side. split; [destruct side; simpl; auto|].
  apply in_map_iff. exists L. auto.
Qed.

Lemma N2Z_eqb a b : (Z.of_N a =? Z.of_N b)%Z = N.eqb a b.
Proof.
  destruct (N.eqb_spec a b) as [->|Hne]; [apply Z.eqb_refl|].
  apply Z.eqb_neq. intros E. apply Hne. apply N2Z.inj. exact E.
Qed.

(* ---------------------------------------------------------------- soundness of one leaf *)
Section KindLeaf.
  Variable e : env.
  Variable sem : opsem.
  Hypothesis Hsem : sem_ok e sem.
  Variable f : func.
  Variable fam : keyfam.
  Variable t : N.
  Variable L : string.
  Variables ty oc ap : N.
  Hypothesis Hok : env_ok e.
  Hypothesis Hk : key_txn e fam = Some t.
  Hypothesis Hfields : kind_fields e t ty oc ap.
  Hypothesis Hrange : in_range ty oc ap.
  Hypothesis HL : In L c07_labels.
  Hypothesis Hcar : carries ty oc ap L = true.

  Lemma kind_field_eval fld v : In fld type_fields -> tree_wf v = true ->
    value_matches (e_intcs e) fam fld v = true ->
    sv_eval e v = Some (VInt (Z.of_N (fld_value fld ty oc ap))).
  Proof.
    intros Hf Hw Hm. rewrite (classify_total e fam fld v t Hok Hw Hm Hk).
    destruct Hfields as (F1 & F2 & F3).
    destruct Hf as [<- | [<- | [<- | []]]]; unfold field_of; cbn [String.eqb Ascii.eqb Bool.eqb fld_value];
      [rewrite F1 | rewrite F2 | rewrite F3]; reflexivity.
  Qed.

  Definition kind_x : inL ALL_TRANSACTION_TYPES := exist _ L (c07_labels_in_ALL L HL).

  Lemma in_UU (b : bool) : In L (if b then fst type_UU else snd type_UU).
  Proof. destruct b; exact (c07_labels_in_ALL L HL). Qed.

  Theorem kind_leaf_sound op pos args :
    kind_leaf_ok (e_intcs e) fam L ty oc ap op pos args ->
    leaf_hyp2 (list string) (type_single (e_intcs e) fam) (inL ALL_TRANSACTION_TYPES) (lg ALL_TRANSACTION_TYPES)
              e sem f kind_x op pos args.
  Proof.
    intros [HA HB] tr b Htr _ HLf. unfold lg, kind_x. cbn [proj1_sig].
    destruct (type_single_cases (e_intcs e) fam op pos args)
      as [E | [[M E] | (fld & v & o & q & a & u & p & Hop & Hf & Hkn & Hexp & E & M & Hargs)]]; rewrite E.
    - apply in_UU.
    - (* the bare ApplicationID read: truthy iff ap <> 0 *)
      destruct (HA M) as [Hw Hnd].
      destruct HLf as (out & c & Hopsok & Hden & Htruth).
      assert (Hev : sv_eval e (SKnown op pos args out) = Some (VInt (Z.of_N (fld_value "ApplicationID" ty oc ap)))).
      { rewrite sv_eval_known, <- (sv_eval_known e op pos args 0).
        apply kind_field_eval; auto. right; right; left; reflexivity. }
      pose proof (tree_value e sem Hsem (fn_prog f) tr Htr _ Hopsok c _ Hden Hev) as Hc.
      assert (Hb : pattern_truth PAppBare ty oc ap = b).
      { rewrite <- Htruth, Hc. cbn [of_value truthy pattern_truth fld_value String.eqb Ascii.eqb Bool.eqb].
        change 0%Z with (Z.of_N 0). rewrite N2Z_eqb. reflexivity. }
      change (In L (side_set PAppBare b)).
      apply (side_sound PAppBare b L ty oc ap PAppBare_in HL); auto.
      unfold not_dropped in Hnd. rewrite Hb in Hnd. exact Hnd.
    - (* field ==/!= constant *)
      assert (Hcase : kind_operand_ok (e_intcs e) L ty oc ap fld v (SKnown o q a u)).
      { destruct Hargs as [-> | ->].
        - exact (proj1 (HB Hop v (SKnown o q a u) fld eq_refl Hf) M).
        - exact (proj2 (HB Hop (SKnown o q a u) v fld eq_refl Hf) M). }
      cbn [kind_operand_ok] in Hcase.
      destruct (is_int_push_ins (e_intcs e) o) as [| |c|s] eqn:Eo; try discriminate Hkn.
      + (* numeric constant *)
        destruct Hcase as [Hw Hpat]; [rewrite Hexp; discriminate|].
        destruct (type_expected_num fld c p Hf Hexp) as (pat & Hfp & -> & Hinp).
        specialize (Hpat pat Hfp). unfold not_dropped in Hpat.
        pose proof (fld_pattern_truth fld c pat ty oc ap Hf Hfp) as Htruth.
        pose proof (kind_field_eval fld v Hf Hw M) as Ev.
        pose proof (int_push_eval e o q a u c Eo) as Ec.
        assert (Hlt : leaf_truth e op args = Some (if match op with IEq => true | _ => false end
                                                   then pattern_truth pat ty oc ap
                                                   else negb (pattern_truth pat ty oc ap))).
        { rewrite Htruth.
          destruct Hargs as [-> | ->]; unfold leaf_truth; rewrite Ev, Ec;
            destruct Hop as [-> | ->]; cbn [int_cmp]; rewrite ?N2Z_eqb; try reflexivity;
            rewrite N.eqb_sym; reflexivity. }
        pose proof (Lf_leaf_truth e sem Hsem (fn_prog f) tr Htr _ _ _ _ _ HLf Hlt) as Hb.
        destruct Hop as [-> | ->]; cbn [type_orient] in *.
        * change (In L (side_set pat b)). apply (side_sound pat b L ty oc ap Hinp HL); auto.
          rewrite Hb. exact Hpat.
        * assert (Hb' : pattern_truth pat ty oc ap = negb b) by (rewrite Hb, negb_involutive; reflexivity).
          assert (G : In L (side_set pat (negb b))).
          { apply (side_sound pat (negb b) L ty oc ap Hinp HL); auto. rewrite <- Hb'. exact Hpat. }
          unfold side_set in G. destruct b; exact G.
      + (* named constant: both sides keep L *)
        destruct (Hcase p Hexp) as [H1 H2].
        destruct Hop as [-> | ->]; destruct b; cbn [type_orient fst snd]; assumption.
  Qed.
End KindLeaf.

(* ====================================================================== *)
(* III. the analysis of one kind key, the key families, Domains.run_all     *)
(* ====================================================================== *)
Local Notation TU := ALL_TRANSACTION_TYPES.

Lemma lset_eqb_lg : forall a b (x : inL TU), lset_eqb a b = true -> (lg TU a x <-> lg TU b x).
Proof. intros a b x H. unfold lg. apply (proj1 (lset_eqb_spec a b) H). Qed.
Lemma lset_eqb_refl : forall a, lset_eqb a a = true.
Proof. intros a. apply lset_eqb_spec. tauto. Qed.

(* the leaf obligations of a key from type_leaves_ok *)
Lemma type_leaf_hyp2 e sem f fam t L ty oc ap (HL : In L c07_labels) :
  sem_ok e sem -> env_ok e -> fn_intcs f = e_intcs e ->
  key_txn e fam = Some t -> kind_fields e t ty oc ap -> in_range ty oc ap -> carries ty oc ap L = true ->
  type_leaves_ok f fam L ty oc ap ->
  forall op pos args, prog_leaf f op pos args ->
    leaf_hyp2 (list string) (type_single (fn_intcs f) fam) (inL TU) (lg TU) e sem f (kind_x L HL) op pos args.
Proof.
  intros Hsem Hok Hi Hk Hf Hr Hc Hl op pos args Hp. specialize (Hl op pos args Hp). rewrite Hi in *.
  exact (kind_leaf_sound e sem Hsem f fam t L ty oc ap Hok Hk Hf Hr HL Hc op pos args Hl).
Qed.

(* the analysis of one kind key, for the families whose block constraints are not refined (KSelf, KAbs, KRel):
   the label L of the transaction the key governs is in the set reported for every block of the run *)
Theorem type_analysis_sound e sem f fam t L ty oc ap bc fuel lo cfgs :
  sem_ok e sem -> env_ok e -> fn_intcs f = e_intcs e -> graph_ok f ->
  key_txn e fam = Some t -> kind_fields e t ty oc ap -> in_range ty oc ap ->
  In L c07_labels -> carries ty oc ap L = true ->
  type_leaves_ok f fam L ty oc ap ->
  init_constraints (list string) TU [] lunion linter (type_single (fn_intcs f) fam) f = Some bc ->
  solve (list string) lset_eqb TU [] lunion linter (type_single (fn_intcs f) fam) f fuel bc = Done lo ->
  Accepts e sem f cfgs ->
  forall b st, In (b, st) cfgs -> exists v, lookup (list string) lo b = Some v /\ In L v.
Proof.
  intros Hsem Hok Hi Hg Hk Hf Hr HL Hc Hl Hinit Hs Hacc b st Hin.
  exact (analysis_sound2 (list string) lset_eqb TU [] lunion linter (type_single (fn_intcs f) fam)
           (inL TU) (lg TU) (lg_univ TU) (lg_union_l TU) (lg_union_r TU) (lg_inter TU) lset_eqb_lg lset_eqb_refl
           e sem f (kind_x L HL) bc fuel lo cfgs Hsem Hi Hg
           (type_leaf_hyp2 e sem f fam t L ty oc ap HL Hsem Hok Hi Hk Hf Hr Hc Hl) Hinit Hs Hacc b st Hin).
Qed.

(* C07 along executions: the own transaction's label is in the set recorded for every block of the run *)
Theorem C07_exec_sound_partial e sem f L ty oc ap bc fuel lo cfgs :
  sem_ok e sem -> env_ok e -> fn_intcs f = e_intcs e -> graph_ok f ->
  kind_fields e (e_own e) ty oc ap -> in_range ty oc ap ->
  In L c07_labels -> carries ty oc ap L = true ->
  type_leaves_ok f KSelf L ty oc ap ->
  init_constraints (list string) TU [] lunion linter (type_single (fn_intcs f) KSelf) f = Some bc ->
  solve (list string) lset_eqb TU [] lunion linter (type_single (fn_intcs f) KSelf) f fuel bc = Done lo ->
  Accepts e sem f cfgs ->
  forall b st, In (b, st) cfgs -> exists v, lookup (list string) lo b = Some v /\ In L v.
Proof.
  intros Hsem Hok Hi Hg. exact (type_analysis_sound e sem f KSelf (e_own e) L ty oc ap bc fuel lo cfgs Hsem Hok Hi Hg eq_refl).
Qed.

(* C10, kinds: every entry (family, result) computed by run_family for the kind domain *)
Theorem C10_type_sound_partial e sem f fuel indices res fam r t L ty oc ap cfgs :
  sem_ok e sem -> env_ok e -> fn_intcs f = e_intcs e -> graph_ok f ->
  run_family f fuel lset_eqb TU [] lunion linter (fun fam => type_single (fn_intcs f) fam) indices = Done res ->
  In (fam, r) res ->
  key_txn e fam = Some t -> kind_fields e t ty oc ap -> in_range ty oc ap ->
  In L c07_labels -> carries ty oc ap L = true ->
  type_leaves_ok f fam L ty oc ap ->
  match fam with KAtIndex i => type_leaves_ok f KSelf L ty oc ap /\ index_sound indices i cfgs | _ => True end ->
  Accepts e sem f cfgs ->
  forall b st, In (b, st) cfgs -> exists v, lookup (list string) r b = Some v /\ In L v.
Proof.
  intros Hsem Hok Hi Hg Hrun Hin Hk Hf Hr HL Hc Hl Hat Hacc b st Hb.
  refine (run_family_sound2 (list string) lset_eqb TU [] lunion linter (fun fam => type_single (fn_intcs f) fam)
            (inL TU) (lg TU) (lg_univ TU) (lg_union_l TU) (lg_union_r TU) (lg_inter TU) lset_eqb_lg lset_eqb_refl
            e sem f (kind_x L HL) Hsem Hi Hg fuel indices res fam r cfgs Hrun Hin _ _ Hacc b st Hb).
  - exact (type_leaf_hyp2 e sem f fam t L ty oc ap HL Hsem Hok Hi Hk Hf Hr Hc Hl).
  - destruct fam as [|i|i|k]; try exact I. destruct Hat as [Hs Hx]. split; [|exact Hx].
    exact (type_leaf_hyp2 e sem f KSelf t L ty oc ap HL Hsem Hok Hi (proj2 (key_txn_at_index e i t Hk)) Hf Hr Hc Hs).
Qed.

(* ---------------------------------------------------------------- the kind results of Domains.run_all *)
Lemma run_all_type_inv f fuel res : run_all f fuel = Done res ->
  exists sizes idx0, run_int f fuel true = Done sizes /\ run_int f fuel false = Done idx0 /\
    run_family f fuel lset_eqb TU [] lunion linter
      (fun fam => type_single (fn_intcs f) fam) (indices_of sizes idx0) = Done (r_types res).
Proof.
  unfold run_all. intros H.
  destruct (run_int f fuel true) as [sizes| |] eqn:Es; destruct (run_int f fuel false) as [idx0| |] eqn:Ex;
    try discriminate.
  fold (indices_of sizes idx0) in H.
  match type of H with match ?S with _ => _ end = _ => destruct S as [addrs| |]; try discriminate end.
  match type of H with match ?S with _ => _ end = _ => destruct S as [fees| |]; try discriminate end.
  match type of H with match ?S with _ => _ end = _ => destruct S as [types| |] eqn:Et; try discriminate end.
  inversion H; subst res. exists sizes, idx0. cbn [r_types]. auto.
Qed.

(* C07 + C10 on the tool's output: every kind entry of run_all *)
Theorem run_all_type_sound_partial e sem f fuel res fam r t L ty oc ap cfgs :
  sem_ok e sem -> env_ok e -> fn_intcs f = e_intcs e -> graph_ok f ->
  run_all f fuel = Done res ->
  In (fam, r) (r_types res) ->
  key_txn e fam = Some t -> kind_fields e t ty oc ap -> in_range ty oc ap ->
  In L c07_labels -> carries ty oc ap L = true ->
  type_leaves_ok f fam L ty oc ap ->
  match fam with
  | KAtIndex i => type_leaves_ok f KSelf L ty oc ap /\ int_leaves_ok f true /\ int_leaves_ok f false
  | _ => True
  end ->
  Accepts e sem f cfgs ->
  forall b st, In (b, st) cfgs -> exists v, lookup (list string) r b = Some v /\ In L v.
Proof.
  intros Hsem Hok Hi Hg Hrun Hin Hk Hf Hr HL Hc Hl Hat Hacc.
  destruct (run_all_type_inv f fuel res Hrun) as (sizes & idx0 & Es & Ex & Hfam).
  apply (C10_type_sound_partial e sem f fuel (indices_of sizes idx0) (r_types res) fam r t L ty oc ap cfgs); auto.
  destruct fam as [|i|i|k]; try exact I. destruct Hat as (Hs & Ht & Hf').
  split; [exact Hs|]. destruct (key_txn_at_index e i t Hk) as [<- _].
  exact (indices_sound e sem f fuel sizes idx0 cfgs Hsem Hok Hi Hg Ht Hf' Es Ex Hacc).
Qed.

(* ---------------------------------------------------------------- what the detectors read *)
Lemma res_types_cases r fam b :
  res_types r fam b = TU \/
  exists l, In (fam, l) (r_types r) /\ lookup (list string) l b = Some (res_types r fam b).
Proof.
  unfold res_types.
  destruct (find (fun '(fm, _) => keyfam_eqb fm fam) (r_types r)) as [[fm l]|] eqn:E; [|left; reflexivity].
  destruct (find_some _ _ E) as [Hin Hk].
  assert (fm = fam).
  { destruct fm, fam; cbn [keyfam_eqb] in Hk; try discriminate; try reflexivity;
      [apply N.eqb_eq in Hk | apply N.eqb_eq in Hk | apply Z.eqb_eq in Hk]; congruence. }
  subst fm.
  destruct (lookup (list string) l b) as [v|] eqn:El; [|left; reflexivity].
  right. exists l. split; [exact Hin | exact El].
Qed.

Lemma res_types_In r fam b L : In L c07_labels ->
  (forall l, In (fam, l) (r_types r) -> exists v, lookup (list string) l b = Some v /\ In L v) ->
  In L (res_types r fam b).
Proof.
  intros HL H. destruct (res_types_cases r fam b) as [E | (l & Hin & El)].
  - rewrite E. exact (c07_labels_in_ALL L HL).
  - destruct (H l Hin) as (v & Ev & Hv). rewrite El in Ev. inversion Ev; subst v. exact Hv.
Qed.

(* the set of kinds the detectors read for the own transaction -- in the block's own context and in the context
   "transaction at the own index" -- contains the label of the own transaction, on every block of the run *)
Theorem own_kind_in_ctx e sem f fuel res cfgs L ty oc ap :
  sem_ok e sem -> env_ok e -> fn_intcs f = e_intcs e -> graph_ok f ->
  type_leaves_ok f KSelf L ty oc ap -> type_leaves_ok f (KAtIndex (e_own e)) L ty oc ap ->
  int_leaves_ok f true -> int_leaves_ok f false ->
  run_all f fuel = Done res -> Accepts e sem f cfgs ->
  kind_fields e (e_own e) ty oc ap -> in_range ty oc ap -> In L c07_labels -> carries ty oc ap L = true ->
  forall b st, In (b, st) cfgs ->
    In L (ctx_transaction_types (ctx_of res b KSelf)) /\
    In L (ctx_transaction_types (ctx_of res b (KAtIndex (e_own e)))).
Proof.
  intros Hsem Hok Hi Hg Hls Hla Ht Hf Hrun Hacc Hfl Hr HL Hc b st Hin.
  unfold ctx_of. cbn [ctx_transaction_types].
  split; apply res_types_In; try exact HL; intros l Hl.
  - exact (run_all_type_sound_partial e sem f fuel res KSelf l (e_own e) L ty oc ap cfgs Hsem Hok Hi Hg Hrun Hl eq_refl
             Hfl Hr HL Hc Hls I Hacc b st Hin).
  - assert (Hk : key_txn e (KAtIndex (e_own e)) = Some (e_own e)) by (cbn [key_txn]; rewrite N.eqb_refl; reflexivity).
    exact (run_all_type_sound_partial e sem f fuel res (KAtIndex (e_own e)) l (e_own e) L ty oc ap cfgs Hsem Hok Hi Hg
             Hrun Hl Hk Hfl Hr HL Hc Hla (conj Hls (conj Ht Hf)) Hacc b st Hin).
Qed.

(* ---------------------------------------------------------------- the hypothesis is exact on the fragment *)
(* a recognised numeric comparison whose triple IS a dropped one (for the side this transaction takes)
   really loses the label: the side selected by the comparison's truth does not contain L *)
Theorem type_leaves_ok_exact intcs pat ty oc ap L p q pos :
  In (pat, pattern_truth pat ty oc ap, L) dropped_table ->
  let tf := type_single intcs KSelf (pat_op pat false) pos (pat_args pat p q) in
  ~ In L (if pattern_truth pat ty oc ap then fst tf else snd tf).
Proof.
  intros Hd tf. subst tf. rewrite type_single_side_set. cbn [fst snd].
  destruct (C07_dropped_exact pat _ L Hd) as (t0 & o0 & a0 & _ & _ & _ & Hn).
  unfold side_set in Hn. destruct (pattern_truth pat ty oc ap); exact Hn.
Qed.

(* ====================================================================== *)
(* IV. checking the hypotheses on concrete programs                         *)
(* ====================================================================== *)
(* ---------------------------------------------------------------- all the checked leaves of a function *)
Fixpoint cond_leaves (c : cond) : list (instr * nat * list sval) :=
  match c with
  | CUnknown => []
  | CLeaf o k a => [(o, k, a)]
  | CNot a => cond_leaves a
  | CAnd a b | COr a b => cond_leaves a ++ cond_leaves b
  end.

Lemma cond_leaf_In c op pos args : cond_leaf c op pos args -> In (op, pos, args) (cond_leaves c).
Proof.
  induction c as [|a IHa b IHb|a IHa b IHb|a IHa|o k r]; cbn [cond_leaf cond_leaves]; intros H.
  - destruct H.
  - apply in_or_app. destruct H as [H|H]; [left; exact (IHa H) | right; exact (IHb H)].
  - apply in_or_app. destruct H as [H|H]; [left; exact (IHa H) | right; exact (IHb H)].
  - exact (IHa H).
  - destruct H as (-> & -> & ->). left. reflexivity.
Qed.

Definition block_leaves_l (f : func) (blk : block) : list (instr * nat * list sval) :=
  match emulate (fn_prog f) (b_ins blk) [] with
  | None => []
  | Some ast =>
      flat_map (fun '(_, o, args) =>
                  match args with
                  | a :: _ => if is_check o then cond_leaves (cond_of a) else []
                  | [] => []
                  end) ast
  end.
Definition all_leaves (f : func) : list (instr * nat * list sval) := flat_map (block_leaves_l f) (fn_blocks f).

Lemma prog_leaf_all f op pos args : prog_leaf f op pos args -> In (op, pos, args) (all_leaves f).
Proof.
  intros (b & blk & Hb & ast & k & o & a & rest & Hast & Hin & Hck & Hcl).
  unfold all_leaves. apply in_flat_map. exists blk. split.
  - unfold fblock in Hb. exact (proj1 (find_some _ _ Hb)).
  - unfold block_leaves_l. rewrite Hast. apply in_flat_map. exists (k, o, a :: rest). split; [exact Hin|].
    rewrite Hck. apply cond_leaf_In. exact Hcl.
Qed.

(* a property of all listed leaves holds of every prog_leaf *)
Lemma leaves_forall f (P : instr -> nat -> list sval -> Prop) :
  Forall (fun '(op, pos, args) => P op pos args) (all_leaves f) ->
  forall op pos args, prog_leaf f op pos args -> P op pos args.
Proof.
  intros HF op pos args Hp. rewrite Forall_forall in HF.
  exact (HF _ (prog_leaf_all f op pos args Hp)).
Qed.

(* ---------------------------------------------------------------- a boolean check of type_leaves_ok *)
Definition kind_operand_okb (intcs : option (list N)) (L : string) (ty oc ap : N) (fld : string) (v w : sval) : bool :=
  match w with
  | SUnknown => true
  | SKnown o _ _ _ =>
      match is_int_push_ins intcs o with
      | IntNum c =>
          match type_expected fld (IntNum c) with
          | None => true
          | Some _ =>
              tree_wf v &&
              match fld_pattern fld c with
              | Some pt => negb (dropped_b pt (pattern_truth pt ty oc ap) L)
              | None => true
              end
          end
      | IntName s =>
          match type_expected fld (IntName s) with
          | None => true
          | Some p => smem L (fst p) && smem L (snd p)
          end
      | _ => true
      end
  end.

Definition kind_leaf_okb (intcs : option (list N)) (fam : keyfam) (L : string) (ty oc ap : N)
           (op : instr) (pos : nat) (args : list sval) : bool :=
  (if value_matches intcs fam "ApplicationID" (SKnown op pos args 0)
   then tree_wf (SKnown op pos args 0) && negb (dropped_b PAppBare (pattern_truth PAppBare ty oc ap) L)
   else true) &&
  match op with
  | IEq | INeq =>
      match args with
      | [v1; v2] =>
          forallb (fun fld =>
                     (if value_matches intcs fam fld v1 then kind_operand_okb intcs L ty oc ap fld v1 v2 else true) &&
                     (if value_matches intcs fam fld v2 then kind_operand_okb intcs L ty oc ap fld v2 v1 else true))
                  type_fields
      | _ => true
      end
  | _ => true
  end.

Definition type_leaves_okb (f : func) (fam : keyfam) (L : string) (ty oc ap : N) : bool :=
  forallb (fun '(op, pos, args) => kind_leaf_okb (fn_intcs f) fam L ty oc ap op pos args) (all_leaves f).

Lemma kind_operand_okb_sound intcs L ty oc ap fld v w :
  kind_operand_okb intcs L ty oc ap fld v w = true -> kind_operand_ok intcs L ty oc ap fld v w.
Proof.
  unfold kind_operand_okb, kind_operand_ok. destruct w as [|o q a u]; [auto|].
  destruct (is_int_push_ins intcs o) as [| |c|s]; auto.
  - destruct (type_expected fld (IntNum c)) as [p|]; [|intros _ H; exfalso; apply H; reflexivity].
    intros H _. apply andb_true_iff in H. destruct H as [Hw Hp]. split; [exact Hw|].
    intros pt Ept. rewrite Ept in Hp. apply negb_true_iff in Hp. exact (dropped_b_false _ _ _ Hp).
  - destruct (type_expected fld (IntName s)) as [p|]; [|intros _ p H; discriminate H].
    intros H p' E. inversion E; subst p'. apply andb_true_iff in H. destruct H as [H1 H2].
    split; apply smem_In; assumption.
Qed.

Lemma kind_leaf_okb_sound intcs fam L ty oc ap op pos args :
  kind_leaf_okb intcs fam L ty oc ap op pos args = true -> kind_leaf_ok intcs fam L ty oc ap op pos args.
Proof.
  unfold kind_leaf_okb. intros H. apply andb_true_iff in H. destruct H as [HA HB]. split.
  - intros M. rewrite M in HA. apply andb_true_iff in HA. destruct HA as [Hw Hd]. split; [exact Hw|].
    apply negb_true_iff in Hd. exact (dropped_b_false _ _ _ Hd).
  - intros Hop v1 v2 fld -> Hf.
    assert (HB' : forallb (fun fld =>
                     (if value_matches intcs fam fld v1 then kind_operand_okb intcs L ty oc ap fld v1 v2 else true) &&
                     (if value_matches intcs fam fld v2 then kind_operand_okb intcs L ty oc ap fld v2 v1 else true))
                  type_fields = true) by (destruct Hop as [-> | ->]; exact HB).
    rewrite forallb_forall in HB'. specialize (HB' fld Hf). apply andb_true_iff in HB'. destruct HB' as [H1 H2].
    split; intros M; [rewrite M in H1 | rewrite M in H2]; apply kind_operand_okb_sound; assumption.
Qed.

Theorem type_leaves_okb_sound f fam L ty oc ap :
  type_leaves_okb f fam L ty oc ap = true -> type_leaves_ok f fam L ty oc ap.
Proof.
  intros H. unfold type_leaves_ok.
  apply (leaves_forall f (fun op pos args => kind_leaf_ok (fn_intcs f) fam L ty oc ap op pos args)).
  apply Forall_forall. intros [[op pos] args] Hin.
  unfold type_leaves_okb in H. rewrite forallb_forall in H. apply kind_leaf_okb_sound. exact (H _ Hin).
Qed.

(* ---------------------------------------------------------------- a boolean check of no_fail *)
Definition no_fail_b (e : env) (p : prog) (tr : trace cval) : bool :=
  forallb (fun '(pos, args, _) => match op_at p pos with Some op => negb (fails e op args) | None => true end) tr.

Lemma no_fail_b_sound e p tr : no_fail_b e p tr = true -> no_fail e p tr.
Proof.
  intros H pos args outs op Hin Hop. unfold no_fail_b in H. rewrite forallb_forall in H.
  specialize (H _ Hin). cbn beta iota in H. rewrite Hop in H. apply negb_true_iff in H. exact H.
Qed.

(* ====================================================================== *)
(* V. non-vacuity: a contract with the idiom `txn ApplicationID; bz create` *)
(*    and an OnCompletion check, called with UpdateApplication              *)
(* ====================================================================== *)
Module TypeWitness.
  Definition linesT : list string :=
    ["#pragma version 6"; "txn ApplicationID"; "bz create";
     "txn OnCompletion"; "int 4"; "=="; "assert"; "int 1"; "return";
     "create:"; "int 1"; "return"].
  Definition pT : prog := Eval vm_compute in match parse_program (unlines linesT) with Ok p => p | Err _ => [] end.
  Definition tT : teal :=
    Eval vm_compute in
      match parse_teal pT with Ok t => t | Err _ => mkTeal 0 MAny [] [] [] (mkSub "" 0 [] []) [] None end.
  Definition fT : func := whole_function tT.

  Example pT_parses : parse_program (unlines linesT) = Ok pT.
  Proof. vm_compute. reflexivity. Qed.
  Example tT_parses : parse_teal pT = Ok tT.
  Proof. vm_compute. reflexivity. Qed.

  Lemma w_graph_ok : graph_ok fT.
  Proof. apply (graph_ok_whole_function_b pT tT tT_parses). vm_compute. reflexivity. Qed.

  (* one application call: OnCompletion = UpdateApplication, ApplicationID = 7, sent by "S" *)
  Definition eU : env :=
    mkEnv 1 0 (fun _ fld => if fld =? "TypeEnum" then VInt 6 else if fld =? "OnCompletion" then VInt 4
                            else if fld =? "ApplicationID" then VInt 7 else if fld =? "Sender" then VAddr "S"
                            else VOther) "C" None.
  Definition semU := sem_ref eU.
  Definition runT : list rconfig := [(0, []); (1, [])].

  Definition B0 := mkBlock 0 [0; 1; 2] [1; 2] [].
  Definition B1 := mkBlock 1 [3; 4; 5; 6; 7; 8] [] [0].
  Definition out0 : trace cval * list cval :=
    Eval vm_compute in match crun_tr cval semU pT (b_ins B0) [] with Some r => r | None => ([], []) end.
  Definition out1 : trace cval * list cval :=
    Eval vm_compute in match crun_tr cval semU pT (b_ins B1) (snd out0) with Some r => r | None => ([], []) end.

  Lemma w_run : Run fT runT.
  Proof.
    eapply RF_step; [apply (RS_edge fT 0 [] B0 1); [reflexivity|reflexivity|reflexivity|simpl; auto]|]. apply RF_one.
  Qed.

  Lemma w_accepts : Accepts eU semU fT runT.
  Proof.
    split; [|split; [|split]].
    - unfold Exec, runT.
      apply (EF_step eU semU fT (0, []) (1, []) [(1, [])] [] B0 (fst out0) (snd out0)).
      + reflexivity.
      + split; [vm_compute; reflexivity | apply no_fail_b_sound; vm_compute; reflexivity].
      + apply (RS_edge fT 0 [] B0 1); [reflexivity|reflexivity|reflexivity|simpl; auto].
      + vm_compute. reflexivity.
      + apply (EF_last eU semU fT (1, []) (snd out0) B1 (fst out1) (snd out1)).
        * reflexivity.
        * split; [vm_compute; reflexivity | apply no_fail_b_sound; vm_compute; reflexivity].
    - split; [exact w_run|]. exists B1. split; reflexivity.
    - reflexivity.
    - exists B1. split; reflexivity.
  Qed.

  Lemma w_env_ok : env_ok eU.
  Proof. split; vm_compute; split; congruence. Qed.

  Lemma w_kind_fields : kind_fields eU (e_own eU) 6 4 7.
  Proof. repeat split. Qed.

  (* the contract's checked leaves: the bare `txn ApplicationID` (bz), `txn OnCompletion == 4` (assert), and the
     constants returned.  None is a D16 pattern for an UpdateApplication call of an existing application. *)
  Example w_all_leaves : map (fun '(op, pos, _) => (op, pos)) (all_leaves fT) =
    [(ITxn ("ApplicationID", None), 1); (IInt (IANum 1), 10); (IEq, 5); (IInt (IANum 1), 7)].
  Proof. vm_compute. reflexivity. Qed.

  Lemma w_type_leaves fam : fam = KSelf \/ fam = KAtIndex 0 -> type_leaves_ok fT fam "ApplUpdateApplication" 6 4 7.
  Proof. intros [-> | ->]; apply type_leaves_okb_sound; vm_compute; reflexivity. Qed.

  (* ... but the same contract is NOT fine for a creation call (ApplicationID = 0): the false side of the bare
     ApplicationID condition drops the label (D16) *)
  Example w_type_leaves_creation : type_leaves_okb fT KSelf "ApplUpdateApplication" 6 4 0 = false.
  Proof. vm_compute. reflexivity. Qed.

  Lemma w_int_leaves sz : int_leaves_ok fT sz.
  Proof.
    unfold int_leaves_ok.
    apply (leaves_forall fT (fun op pos args => mirrored_ordered sz (fn_intcs fT) op args = false /\ forallb tree_wf args = true)).
    destruct sz; vm_compute; repeat constructor.
  Qed.

  Definition bcT : list (nat * list string) :=
    Eval vm_compute in
      match init_constraints (list string) ALL_TRANSACTION_TYPES [] lunion linter (type_single (fn_intcs fT) KSelf) fT
      with Some bc => bc | None => [] end.
  Definition loT : list (nat * list string) :=
    Eval vm_compute in
      match solve (list string) lset_eqb ALL_TRANSACTION_TYPES [] lunion linter (type_single (fn_intcs fT) KSelf) fT 100 bcT
      with Done lo => lo | _ => [] end.

  Example w_loT : loT = [(0, ["ApplUpdateApplication"; "ApplCreation"]); (2, ["ApplCreation"]); (1, ["ApplUpdateApplication"])].
  Proof. vm_compute. reflexivity. Qed.

  (* all hypotheses of C07_exec_sound_partial hold: on both blocks of the run the reported kinds contain the label *)
  Theorem w_C07 : forall b st, In (b, st) runT ->
    exists v, lookup (list string) loT b = Some v /\ In "ApplUpdateApplication" v.
  Proof.
    apply (C07_exec_sound_partial eU semU fT "ApplUpdateApplication" 6 4 7 bcT 100 loT runT (sem_ref_ok eU) w_env_ok eq_refl
             w_graph_ok w_kind_fields).
    - apply in_range_b_spec. reflexivity.
    - simpl. auto.
    - reflexivity.
    - exact (w_type_leaves KSelf (or_introl eq_refl)).
    - vm_compute. reflexivity.
    - vm_compute. reflexivity.
    - exact w_accepts.
  Qed.
End TypeWitness.

Print Assumptions kind_leaf_sound.
Print Assumptions type_analysis_sound.
Print Assumptions C07_exec_sound_partial.
Print Assumptions C10_type_sound_partial.
Print Assumptions run_all_type_sound_partial.
Print Assumptions own_kind_in_ctx.
Print Assumptions type_leaves_ok_exact.
Print Assumptions analysis_sound2.
Print Assumptions run_family_sound2.
Print Assumptions type_leaves_okb_sound.
Print Assumptions TypeWitness.w_C07.
