(* The TEXT of the rows of a DOT node label, REGENERATED from the Python source (Gen/RowsGen.v, translated statement by
   statement from utils/output.py _instruction_to_dot / _bb_to_dot / all_subroutines_to_dot by tools/translate_rows.py),
   against the hand-written Model/Rows.v.

   1. instruction_to_dot_gen_eq / _none     one row = render_row of the model row; raises exactly when the model has no row
   2. bb_label_gen_eq                        label of a block = header cell :: one row per instruction, in order
   3. parsed contracts (parse_program s = Ok p, parse_teal p = Ok t, src = splitlines s):
        source_row_parsed                    every instruction has its source line; that line parses to the instruction
        block_rows_parsed / block_rows_exact every instruction of the block exactly once, in order, with its own 1-based
                                             line, the stripped source text, markup iff callsub / retsub
        bb_label_gen_parsed                  the generated label of every block of teal.bbs
        rows_json_agree                      DOT rows and JSON rows list the same lines; the DOT text parses to the
                                             instruction whose printed form the JSON row shows
   4. escaping: esc injective on ALL strings, no raw markup character survives, the markup is recoverable from the text
   5. file names of all_subroutines_to_dot = sub_cfg_files (prefix ""), pairwise distinct *)
From Coq Require Import String List NArith Bool Arith Ascii Lia Sorted.
From Tealer Require Import Syntax Parse Cfg Analysis KeysGen LineGen Output OutputGen Rows RowsGen.
From Tealer Require Import CfgLemmas SubLemmas GraphWf OutputLemmas OutputGenLemmas LineGenLemmas RewriteLemmas.
Import ListNotations.
Open Scope string_scope.
Open Scope list_scope.

(* ====================================================================== *)
(* 0. The prelude readings                                                  *)
(* ====================================================================== *)
Lemma html_escape_esc s : html_escape s = esc s.
Proof. induction s as [|c r IH]; cbn [html_escape esc]; [reflexivity|]. rewrite IH. reflexivity. Qed.

Lemma sanitize_gen cs : map (fun comment : string => html_escape (str_strip comment)) cs = sanitize cs.
Proof. unfold sanitize. apply map_ext. intros c. rewrite html_escape_esc, str_strip_eq. reflexivity. Qed.

Lemma slashed_gen cs : join "<BR/>" (map (fun comment : string => String.append "// " comment) cs) = slashed cs.
Proof. reflexivity. Qed.

Lemma map_id_str (cs : list string) : map (fun comment : string => comment) cs = cs.
Proof. apply map_id. Qed.

(* the model configuration, as the Python object the generated functions take *)
Definition lift_cfg (c : rowcfg) : dotrowconfig :=
  mkRowConfig (fun k => ret (mc_ins_extra c k)) (fun b => ret (mc_bb_extra c b)) (mc_border_size c)
              (fun b => ret (mc_border c b)) (mc_background c).

Lemma lift_default : lift_cfg default_rowcfg = default_rowconfig.
Proof. reflexivity. Qed.

(* ====================================================================== *)
(* 1. _instruction_to_dot                                                   *)
(* ====================================================================== *)
Section InstructionToDot.
  Variables (t : teal) (src : list string) (sel : string -> string) (cfg : rowcfg).

  Theorem instruction_to_dot_gen_eq k r :
    ins_row sel src (t_prog t) k = Some r ->
    instruction_to_dot_gen t src sel k (lift_cfg cfg) = Some (render_row cfg r).
  Proof.
    unfold ins_row. intros H.
    destruct (nth_error (t_prog t) k) as [i|] eqn:Ei; [|discriminate].
    destruct (source_line src (i_line i)) as [l|] eqn:El; [|discriminate].
    inversion H; subst r; clear H.
    unfold instruction_to_dot_gen, attr_source_code, attr_line, attr_tealer_comments, attr_comments_before_ins,
      comments_before, ins_op, op_at, render_row, lift_cfg.
    cbn [rc_ins_additional_comments rc_custom_background_color row_pos row_tealer row_before row_line row_markup row_src].
    rewrite Ei. cbn [option_map bind ret]. rewrite El. cbn [bind ret].
    rewrite html_escape_esc, str_strip_eq.
    assert (Em : (if match i_op i with ICallsub _ | IRetsub => true | _ => false end
                  then ret (String.append "<B><I>" (String.append (esc (strip l)) "</I></B>"))
                  else ret (esc (strip l))) = Some (mark (ins_markup (i_op i)) (esc (strip l)))).
    { destruct (i_op i); reflexivity. }
    rewrite Em. cbn [bind].
    set (tc := ins_tealer_comments sel (i_op i) ++ mc_ins_extra cfg k).
    assert (Et : (if list_truth tc
                  then ret (String.append "<B>" (String.append
                         (join "<BR/>" (map (fun comment : string => String.append "// " comment)
                                            (map (fun comment : string => html_escape (str_strip comment)) tc))) "</B><BR/>"))
                  else ret "") = Some (tealer_text tc)).
    { rewrite sanitize_gen. destruct tc; reflexivity. }
    rewrite Et. cbn [bind].
    set (bc := comments_between src (prev_line (t_prog t) k) (i_line i)).
    assert (Eb : (if list_truth bc
                  then ret (String.append
                         (join "<BR/>" (map (fun comment : string => comment)
                                            (map (fun comment : string => html_escape (str_strip comment)) bc))) "<BR/>")
                  else ret "") = Some (before_text bc)).
    { rewrite map_id_str, sanitize_gen. destruct bc; reflexivity. }
    rewrite Eb. cbn [bind]. reflexivity.
  Qed.

  (* the function raises exactly when the model has no row: a dangling position, or an instruction whose line is not a
     line of the source *)
  Theorem instruction_to_dot_gen_none k :
    ins_row sel src (t_prog t) k = None -> instruction_to_dot_gen t src sel k (lift_cfg cfg) = None.
  Proof.
    unfold ins_row, instruction_to_dot_gen, attr_source_code, attr_line. intros H.
    destruct (nth_error (t_prog t) k) as [i|] eqn:Ei; [|reflexivity].
    cbn [option_map bind]. destruct (source_line src (i_line i)); [discriminate | reflexivity].
  Qed.
End InstructionToDot.

(* ====================================================================== *)
(* 2. _bb_to_dot: the label                                                 *)
(* ====================================================================== *)
Section BbLabel.
  Variables (t : teal) (src : list string) (sel : string -> string) (cfg : rowcfg).

  Lemma block_rows_all (l : list nat) :
    (forall k, In k l -> ins_row sel src (t_prog t) k <> None) ->
    exists rs, Forall2 (fun k r => ins_row sel src (t_prog t) k = Some r) l rs /\
               flat_map (fun k => match ins_row sel src (t_prog t) k with Some r => [r] | None => [] end) l = rs.
  Proof.
    induction l as [|k l IH]; intros H.
    - exists []. split; [constructor | reflexivity].
    - destruct IH as (rs & HF & E); [intros x Hx; apply H; right; exact Hx|].
      destruct (ins_row sel src (t_prog t) k) as [r|] eqn:Er; [|exfalso; apply (H k (or_introl eq_refl)); exact Er].
      exists (r :: rs). split; [constructor; assumption|]. cbn [flat_map]. rewrite Er, E. reflexivity.
  Qed.

  Lemma rows_fold (l : list nat) rs acc0 :
    Forall2 (fun k r => ins_row sel src (t_prog t) k = Some r) l rs ->
    fold_left (fun acc elt => bind acc (fun st => bind (instruction_to_dot_gen t src sel elt (lift_cfg cfg))
                                                      (fun tmp6 => ret (st ++ [tmp6])))) l (Some acc0)
    = Some (acc0 ++ map (render_row cfg) rs).
  Proof.
    intros HF. revert acc0. induction HF as [|k r l rs Hk HF IH]; intros acc0; cbn [fold_left map].
    - rewrite app_nil_r. reflexivity.
    - cbn [bind]. rewrite (instruction_to_dot_gen_eq t src sel cfg k r Hk). cbn [bind]. unfold ret at 1.
      rewrite IH, <- app_assoc. reflexivity.
  Qed.

  Lemma block_port_rows b k i :
    hd_error (b_ins b) = Some k -> nth_error (t_prog t) k = Some i -> block_port t b = Some (i_line i).
  Proof.
    unfold block_port, block_lines. intros Hk Hi. destruct (b_ins b) as [|k' tl]; [discriminate|].
    cbn [hd_error] in Hk. inversion Hk; subst k'. cbn [flat_map]. rewrite Hi. reflexivity.
  Qed.

  (* the label of a block all of whose instructions have a row (every block of a parsed contract: section 3) *)
  Theorem bb_label_gen_eq b :
    tblock t (b_idx b) = Some b ->
    (forall k, In k (b_ins b) -> ins_row sel src (t_prog t) k <> None) ->
    bb_label_gen t src sel (b_idx b) (lift_cfg cfg) = block_label sel src t cfg b.
  Proof.
    intros Hb Hall. destruct (block_rows_all (b_ins b) Hall) as (rs & HF & Ers).
    unfold bb_label_gen, attr_bb_tealer_comments, attr_instructions, attr_entry_instr, attr_line, attr_block_idx,
      block_label, block_head, lift_cfg.
    cbn [rc_bb_additional_comments rc_comments_cell_border_size rc_bb_border_color].
    rewrite Hb. cbn [option_map bind ret].
    destruct (b_ins b) as [|k tl] eqn:Eins.
    - cbn [hd_error bind]. unfold block_port, block_lines. rewrite Eins. reflexivity.
    - cbn [hd_error bind].
      destruct (nth_error (t_prog t) k) as [i|] eqn:Ei.
      2:{ exfalso. apply (Hall k (or_introl eq_refl)). unfold ins_row. rewrite Ei. reflexivity. }
      cbn [option_map bind].
      rewrite (block_port_rows b k i); [|rewrite Eins; reflexivity|exact Ei]. cbn [option_map].
      change (fold_left _ (k :: tl) _) with
        (fold_left (fun acc elt => bind acc (fun st => bind (instruction_to_dot_gen t src sel elt (lift_cfg cfg))
                                                          (fun tmp6 => ret (st ++ [tmp6])))) (k :: tl)
                   (Some ([] ++ [CHead (i_line i) (mc_border_size cfg)
                                      (join "<BR/>" (map (fun comment : string => String.append "// " comment)
                                         (map (fun comment : string => html_escape (str_strip comment))
                                              (block_tealer_comments t b ++ mc_bb_extra cfg (b_idx b)))))]))).
      rewrite (rows_fold (k :: tl) rs _ HF). cbn [bind ret fst snd app].
      rewrite sanitize_gen. unfold block_rows. rewrite Eins, Ers. reflexivity.
  Qed.
End BbLabel.

(* ====================================================================== *)
(* 3. Parsed contracts                                                      *)
(* ====================================================================== *)
(* every parsed instruction carries the 1-based number of a source line that is not a comment line and that parse_line
   reads as this instruction *)
Lemma parse_lines_source : forall ls n p, parse_lines ls n = Ok p ->
  forall i, In i p ->
    n <= i_line i /\ exists l, nth_error ls (i_line i - n) = Some l /\ parse_line l = Ok (Some (i_op i)) /\
                               is_comment_line l = false.
Proof.
  induction ls as [|l tl IH]; intros n p H i Hi; cbn [parse_lines] in H.
  - inversion H; subst p. destruct Hi.
  - assert (Hshift : forall r, parse_lines tl (S n) = Ok r -> In i r ->
              n <= i_line i /\ exists l0, nth_error (l :: tl) (i_line i - n) = Some l0 /\
                                          parse_line l0 = Ok (Some (i_op i)) /\ is_comment_line l0 = false).
    { intros r Hr Hin. destruct (IH (S n) r Hr i Hin) as (Hle & l0 & Hn & Hp & Hc). split; [lia|].
      exists l0. replace (i_line i - n) with (S (i_line i - S n)) by lia. cbn [nth_error]. auto. }
    destruct (starts_with "//" (strip l)) eqn:Ec; [apply (Hshift p H Hi)|].
    destruct (parse_line l) as [oi|e] eqn:Ep; [|discriminate]. cbn [Parse.bind] in H.
    destruct (parse_lines tl (S n)) as [r|e] eqn:Er; [|discriminate]. cbn [Parse.bind] in H.
    destruct oi as [op|]; inversion H; subst p; clear H; [|apply (Hshift r eq_refl Hi)].
    destruct Hi as [<-|Hi]; [|apply (Hshift r eq_refl Hi)].
    cbn [i_line i_op]. split; [lia|]. exists l. rewrite Nat.sub_diag. cbn [nth_error].
    split; [reflexivity|]. split; [exact Ep | exact Ec].
Qed.

(* line numbers increase strictly along the program *)
Lemma parse_lines_sorted : forall ls n p, parse_lines ls n = Ok p -> StronglySorted lt (map i_line p).
Proof.
  induction ls as [|l tl IH]; intros n p H; cbn [parse_lines] in H.
  - inversion H. constructor.
  - destruct (starts_with "//" (strip l)); [apply (IH _ _ H)|].
    destruct (parse_line l) as [oi|e]; [|discriminate]. cbn [Parse.bind] in H.
    destruct (parse_lines tl (S n)) as [r|e] eqn:Er; [|discriminate]. cbn [Parse.bind] in H.
    destruct oi as [op|]; inversion H; subst p; clear H; [|apply (IH _ _ Er)].
    cbn [map i_line]. constructor; [apply (IH _ _ Er)|].
    pose proof (RewriteLemmas.parse_lines_bounds _ _ _ Er) as Hb. rewrite Forall_forall in Hb.
    apply Forall_forall. intros x Hx. apply in_map_iff in Hx. destruct Hx as (j & <- & Hj). apply Hb in Hj. lia.
Qed.

Lemma source_line_splitlines ls n l : 1 <= n -> nth_error ls (n - 1) = Some l -> source_line ls n = Some l.
Proof. intros Hn H. destruct n as [|k]; [lia|]. cbn [source_line]. replace (S k - 1) with k in H by lia. exact H. Qed.

(* a segment of seq is a seq *)
Lemma seq_segment : forall (X L Y : list nat) a n, seq a n = X ++ L ++ Y -> L = seq (a + length X) (length L).
Proof.
  induction X as [|x X IH]; intros L Y a n H; cbn [app length] in *.
  - rewrite Nat.add_0_r. revert a n H. induction L as [|y L IHL]; intros a n H; [reflexivity|].
    destruct n as [|n]; [discriminate|]. cbn [seq app length] in *. injection H as Hy H2. subst y. f_equal.
    apply (IHL _ _ H2).
  - destruct n as [|n]; [discriminate|]. cbn [seq] in H. injection H as Hx H2. rewrite (IH L Y (S a) n H2) at 1.
    f_equal. lia.
Qed.

Lemma in_concat_split {A} (l : list A) (ls : list (list A)) :
  In l ls -> exists X Y, concat ls = X ++ l ++ Y.
Proof.
  induction ls as [|h tl IH]; intros H; [destruct H|]. destruct H as [->|H].
  - exists [], (concat tl). reflexivity.
  - destruct (IH H) as (X & Y & E). exists (h ++ X), Y. cbn [concat]. rewrite E, app_assoc. reflexivity.
Qed.

Section Parsed.
  Variables (s : string) (p : prog) (t : teal) (sel : string -> string) (cfg : rowcfg).
  Hypothesis Hparse : parse_program s = Ok p.
  Hypothesis Hteal : parse_teal p = Ok t.
  Let src := splitlines s.

  Lemma t_prog_p : t_prog t = p.
  Proof. destruct (parse_teal_inv p t Hteal) as (_ & _ & _ & _ & _ & H & _). exact H. Qed.

  (* the instructions of a retained block: consecutive valid positions of the program *)
  Lemma block_positions n b : tblock t n = Some b ->
    exists a, b_ins b = seq a (length (b_ins b)) /\ a + length (b_ins b) <= length p /\ b_ins b <> [].
  Proof.
    intros Hb. destruct (parse_teal_blocks p t Hteal) as (bs & Hbs).
    pose proof (retained_char p t bs Hteal Hbs) as (_ & _ & _ & Htb & _).
    destruct (parse_teal_inv p t Hteal) as (_ & _ & Hne & _).
    destruct (build_blocks_spec p bs Hbs) as (rbs & nexts & Hcr & _ & _ & _ & Hn).
    destruct (Htb n b Hb) as (b0 & Hn0 & _ & Hins & _).
    destruct (Hn n b0 Hn0) as (rb & nx & Hrb & _ & _ & Eb).
    assert (Hin : In (rb_ins rb) (map rb_ins rbs)) by (apply in_map; eapply nth_error_In; eauto).
    destruct (in_concat_split _ _ Hin) as (X & Y & E).
    rewrite (blocks_partition p rbs Hcr Hne) in E.
    assert (Ei : b_ins b = rb_ins rb) by (rewrite Hins, Eb; reflexivity).
    pose proof (seq_segment _ _ _ _ _ E) as Hseg. cbn [plus] in Hseg.
    exists (length X). rewrite Ei. split; [exact Hseg|]. split.
    - apply (f_equal (@length nat)) in E. rewrite seq_length, !app_length in E. lia.
    - apply (blocks_nonempty p rbs Hcr Hne rb). eapply nth_error_In; eauto.
  Qed.

  (* 3.1 every instruction has a row: its own source line, which parses to it *)
  Theorem source_row_parsed k i :
    nth_error (t_prog t) k = Some i ->
    exists l, source_line src (i_line i) = Some l /\ parse_line l = Ok (Some (i_op i)) /\ is_comment_line l = false /\
              ins_row sel src (t_prog t) k =
                Some (mkRow k (i_line i) (strip l) (ins_markup (i_op i)) (ins_tealer_comments sel (i_op i))
                            (comments_between src (prev_line (t_prog t) k) (i_line i))).
  Proof.
    intros Hk. pose proof Hk as Hk'. rewrite t_prog_p in Hk'. apply nth_error_In in Hk'.
    destruct (parse_lines_source _ _ _ Hparse i Hk') as (Hle & l & Hn & Hp & Hc).
    exists l. assert (Hs : source_line src (i_line i) = Some l) by (apply source_line_splitlines; assumption).
    split; [exact Hs|]. split; [exact Hp|]. split; [exact Hc|].
    unfold ins_row. rewrite Hk, Hs. reflexivity.
  Qed.

  Lemma block_ins_valid n b k : tblock t n = Some b -> In k (b_ins b) -> exists i, nth_error (t_prog t) k = Some i.
  Proof.
    intros Hb Hk. destruct (block_positions n b Hb) as (a & Hseq & Hlen & _). rewrite Hseq in Hk.
    apply in_seq in Hk. rewrite t_prog_p. destruct (nth_error p k) eqn:E; [eauto|].
    apply nth_error_None in E. lia.
  Qed.

  Lemma block_rows_exist n b k : tblock t n = Some b -> In k (b_ins b) -> ins_row sel src (t_prog t) k <> None.
  Proof.
    intros Hb Hk. destruct (block_ins_valid n b k Hb Hk) as (i & Hi).
    destruct (source_row_parsed k i Hi) as (l & _ & _ & _ & E). rewrite E. discriminate.
  Qed.

  (* 3.2 the rows of a block: one per instruction, in order *)
  Definition row_of (k : nat) (r : row) : Prop :=
    exists i l, nth_error (t_prog t) k = Some i /\ source_line src (i_line i) = Some l /\
                parse_line l = Ok (Some (i_op i)) /\
                r = mkRow k (i_line i) (strip l) (ins_markup (i_op i)) (ins_tealer_comments sel (i_op i))
                          (comments_between src (prev_line (t_prog t) k) (i_line i)).

  Theorem block_rows_parsed n b : tblock t n = Some b -> Forall2 row_of (b_ins b) (block_rows sel src t b).
  Proof.
    intros Hb. unfold block_rows.
    assert (H : forall k, In k (b_ins b) -> exists i, nth_error (t_prog t) k = Some i)
      by (intros k Hk; apply (block_ins_valid n b k Hb Hk)).
    induction (b_ins b) as [|k l IH]; cbn [flat_map]; [constructor|].
    destruct (H k (or_introl eq_refl)) as (i & Hi).
    destruct (source_row_parsed k i Hi) as (ln & Hs & Hp & _ & E). rewrite E. cbn [app].
    constructor; [exists i, ln; auto | apply IH; intros x Hx; apply H; right; exact Hx].
  Qed.

  (* exactly once, in order: the positions of the rows are the instructions of the block, which are consecutive
     positions; the line numbers are those of Output.block_lines and increase strictly *)
  Theorem block_rows_exact n b : tblock t n = Some b ->
    map row_pos (block_rows sel src t b) = b_ins b /\ NoDup (b_ins b) /\
    map row_line (block_rows sel src t b) = block_lines t b /\
    StronglySorted lt (map row_line (block_rows sel src t b)) /\
    length (block_rows sel src t b) = length (b_ins b) /\ block_rows sel src t b <> [].
  Proof.
    intros Hb. pose proof (block_rows_parsed n b Hb) as HF.
    assert (Hpos : map row_pos (block_rows sel src t b) = b_ins b).
    { induction HF as [|k r l rs (i & ln & _ & _ & _ & ->) _ IH]; [reflexivity|]. cbn [map row_pos]. rewrite IH. reflexivity. }
    assert (Hlines : map row_line (block_rows sel src t b) = block_lines t b).
    { clear Hpos. unfold block_lines. induction HF as [|k r l rs (i & ln & Hi & _ & _ & ->) _ IH]; [reflexivity|].
      cbn [map row_line flat_map]. rewrite Hi. cbn [app]. rewrite IH. reflexivity. }
    clear HF. destruct (block_positions n b Hb) as (a & Hseq & Hlen & Hne).
    split; [exact Hpos|]. split; [rewrite Hseq; apply seq_NoDup|]. split; [exact Hlines|].
    split; [|split].
    - (* lines of consecutive positions of a sorted program *)
      rewrite Hlines. unfold block_lines. rewrite Hseq, t_prog_p.
      pose proof (parse_lines_sorted _ _ _ Hparse) as Hs.
      assert (Hgen : forall (q : prog) a0 m, StronglySorted lt (map i_line q) ->
                StronglySorted lt (flat_map (fun k => match nth_error q k with Some i => [i_line i] | None => [] end) (seq a0 m))).
      { clear. induction q as [|i q IH]; intros a0 m Hs.
        - replace (flat_map _ (seq a0 m)) with (@nil nat); [constructor|].
          symmetry. apply flat_map_nil. intros x. destruct x; reflexivity.
        - cbn [map] in Hs. inversion Hs as [|? ? Hq Hall]; subst.
          destruct a0 as [|a0].
          + destruct m as [|m]; [constructor|]. cbn [seq flat_map nth_error app].
            assert (Eq : flat_map (fun k => match nth_error (i :: q) k with Some i0 => [i_line i0] | None => [] end) (seq 1 m)
                         = flat_map (fun k => match nth_error q k with Some i0 => [i_line i0] | None => [] end) (seq 0 m)).
            { rewrite <- seq_shift, flat_map_map. reflexivity. }
            rewrite Eq. constructor; [apply IH; exact Hq|].
            apply Forall_forall. intros x Hx. apply in_flat_map in Hx. destruct Hx as (k & _ & Hx).
            destruct (nth_error q k) as [j|] eqn:Ej; [|destruct Hx]. destruct Hx as [<-|[]].
            rewrite Forall_forall in Hall. apply Hall. apply in_map. eapply nth_error_In; eauto.
          + assert (Eq : flat_map (fun k => match nth_error (i :: q) k with Some i0 => [i_line i0] | None => [] end) (seq (S a0) m)
                         = flat_map (fun k => match nth_error q k with Some i0 => [i_line i0] | None => [] end) (seq a0 m)).
            { rewrite <- seq_shift, flat_map_map. reflexivity. }
            rewrite Eq. apply IH. exact Hq. }
      apply Hgen. exact Hs.
    - rewrite <- (map_length row_pos), Hpos. reflexivity.
    - intros E. rewrite E in Hpos. cbn [map] in Hpos. congruence.
  Qed.

  (* 3.3 the generated label of every block of teal.bbs is the model label, and it exists *)
  Theorem bb_label_gen_parsed b : In b (t_blocks t) ->
    exists port,
      block_port t b = Some port /\
      bb_label_gen t src sel (b_idx b) (lift_cfg cfg)
      = Some (mkLabel (b_idx b) (mc_border cfg (b_idx b))
                (CHead port (mc_border_size cfg) (slashed (sanitize (block_tealer_comments t b ++ mc_bb_extra cfg (b_idx b))))
                 :: map (render_row cfg) (block_rows sel src t b))).
  Proof.
    intros Hin. pose proof (proj1 (in_t_blocks p t b Hteal) Hin) as Hb.
    rewrite (bb_label_gen_eq t src sel cfg b Hb (fun k Hk => block_rows_exist (b_idx b) b k Hb Hk)).
    destruct (block_positions (b_idx b) b Hb) as (a & Hseq & Hlen & Hne).
    destruct (b_ins b) as [|k tl] eqn:Eins; [congruence|].
    destruct (block_ins_valid (b_idx b) b k Hb) as (i & Hi); [rewrite Eins; left; reflexivity|].
    exists (i_line i). assert (Hp : block_port t b = Some (i_line i)).
    { apply (block_port_rows t b k i); [rewrite Eins; reflexivity | exact Hi]. }
    split; [exact Hp|]. unfold block_label, block_head. rewrite Hp. reflexivity.
  Qed.

  (* 3.4 DOT rows and JSON rows: same lines in the same order; the DOT text of a row parses to the instruction whose
     printed form (Syntax.str_of_instr) the JSON row shows *)
  Theorem rows_json_agree n b : tblock t n = Some b ->
    Forall2 (fun r j => row_line r = fst j /\
                        exists l o, row_src r = strip l /\ parse_line l = Ok (Some o) /\ snd j = str_of_instr o /\
                                    row_markup r = ins_markup o)
            (block_rows sel src t b) (json_block_rows t n).
  Proof.
    intros Hb. unfold json_block_rows. rewrite Hb. pose proof (block_rows_parsed n b Hb) as HF.
    induction HF as [|k r l rs (i & ln & Hi & _ & Hp & ->) _ IH]; cbn [flat_map]; [constructor|].
    rewrite Hi. cbn [app]. constructor; [|exact IH]. cbn [row_line fst snd row_src row_markup].
    split; [reflexivity|]. exists ln, (i_op i). auto.
  Qed.

  (* markup exactly on callsub / retsub *)
  Theorem row_markup_exact n b r : tblock t n = Some b -> In r (block_rows sel src t b) ->
    exists i, nth_error (t_prog t) (row_pos r) = Some i /\
      (row_markup r = MBoldItalic <-> (exists l, i_op i = ICallsub l) \/ i_op i = IRetsub).
  Proof.
    intros Hb Hr. pose proof (block_rows_parsed n b Hb) as HF.
    induction HF as [|k r0 l rs (i & ln & Hi & _ & _ & E) _ IH]; [destruct Hr|].
    destruct Hr as [<-|Hr]; [|apply IH; exact Hr]. subst r0. cbn [row_pos row_markup]. exists i. split; [exact Hi|].
    destruct (i_op i); cbn [ins_markup]; split; intros H; try discriminate; try reflexivity;
      try (destruct H as [(lxx & Hxx)|Hxx]; discriminate); try (left; eexists; reflexivity); try (right; reflexivity).
  Qed.
End Parsed.

(* ====================================================================== *)
(* 4. Escaping and markup                                                   *)
(* ====================================================================== *)
Ltac esc_cases H :=
  unfold esc_char in H;
  repeat match type of H with
         | context [Ascii.eqb ?c ?d] => let n := fresh "n" in destruct (Ascii.eqb_spec c d) as [->|n]
         end.

Lemma esc_char_inj c1 c2 r1 r2 :
  (esc_char c1 ++ r1)%string = (esc_char c2 ++ r2)%string -> c1 = c2 /\ r1 = r2.
Proof.
  intros H. esc_cases H; cbn in H; inversion H; subst; try (split; [reflexivity | assumption || reflexivity]);
    try congruence; exfalso; congruence.
Qed.

Lemma esc_char_nonempty c r : (esc_char c ++ r)%string <> EmptyString.
Proof. intros H. esc_cases H; cbn in H; discriminate. Qed.

(* html.escape(.., quote=True) is injective on ALL strings (hence on every TEAL source line) *)
Theorem esc_inj : forall s1 s2, esc s1 = esc s2 -> s1 = s2.
Proof.
  induction s1 as [|c1 r1 IH]; intros [|c2 r2] H; cbn [esc] in H.
  - reflexivity.
  - exfalso. symmetry in H. apply (esc_char_nonempty _ _ H).
  - exfalso. apply (esc_char_nonempty _ _ H).
  - destruct (esc_char_inj _ _ _ _ H) as (-> & Hr). rewrite (IH _ Hr). reflexivity.
Qed.

Fixpoint has_char (c : ascii) (s : string) : bool :=
  match s with EmptyString => false | String d r => Ascii.eqb d c || has_char c r end.

Lemma has_char_app c a b : has_char c (a ++ b)%string = has_char c a || has_char c b.
Proof. induction a as [|d a IH]; cbn [append has_char]; [reflexivity|]. rewrite IH, orb_assoc. reflexivity. Qed.

Definition raw_markup_char (c : ascii) : bool :=
  Ascii.eqb c "<" || Ascii.eqb c ">" || Ascii.eqb c (ascii_of_nat 34) || Ascii.eqb c "'".

Lemma esc_char_clean c d : raw_markup_char d = true -> has_char d (esc_char c) = false.
Proof.
  unfold raw_markup_char. intros Hd.
  assert (Hcases : d = "<"%char \/ d = ">"%char \/ d = ascii_of_nat 34 \/ d = "'"%char).
  { repeat (apply orb_true_iff in Hd; destruct Hd as [Hd|Hd]); apply Ascii.eqb_eq in Hd; auto. }
  unfold esc_char.
  repeat match goal with
         | |- context [Ascii.eqb ?x ?y] => let n := fresh "n" in destruct (Ascii.eqb_spec x y) as [->|n]
         end;
    destruct Hcases as [-> | [-> | [-> | -> ]]]; try reflexivity; cbn [has_char orb];
    match goal with |- (Ascii.eqb ?x ?y || false)%bool = false => destruct (Ascii.eqb_spec x y); [congruence | reflexivity] end.
Qed.

(* no raw <, >, double or single quote survives: the escaped text cannot close or open markup of the label *)
Theorem esc_clean s d : raw_markup_char d = true -> has_char d (esc s) = false.
Proof.
  intros Hd. induction s as [|c r IH]; cbn [esc has_char]; [reflexivity|].
  rewrite has_char_app, IH, (esc_char_clean c d Hd). reflexivity.
Qed.

(* an ampersand in the escaped text always starts one of the five entities: stated through injectivity above *)

Lemma slen_app a b : String.length (a ++ b)%string = String.length a + String.length b.
Proof. induction a as [|c a IH]; cbn [append String.length]; [reflexivity|]. rewrite IH. reflexivity. Qed.

Lemma app_inv_tail_str x : forall a b, (a ++ x)%string = (b ++ x)%string -> a = b.
Proof.
  induction a as [|c a IH]; intros [|d b] H; cbn [append] in H.
  - reflexivity.
  - exfalso. apply (f_equal String.length) in H. cbn [String.length] in H. rewrite slen_app in H. lia.
  - exfalso. apply (f_equal String.length) in H. cbn [String.length] in H. rewrite slen_app in H. lia.
  - injection H as -> H. rewrite (IH _ H). reflexivity.
Qed.

Lemma app_inv_head_str a : forall x y, (a ++ x)%string = (a ++ y)%string -> x = y.
Proof. induction a as [|c a IH]; intros x y H; cbn [append] in H; [exact H|]. injection H as H. apply IH, H. Qed.

(* the markup of a row text is recoverable: the text of a row determines whether it is marked and the source text *)
Theorem mark_esc_inj m1 m2 s1 s2 : mark m1 (esc s1) = mark m2 (esc s2) -> m1 = m2 /\ s1 = s2.
Proof.
  assert (Hlt : raw_markup_char "<" = true) by reflexivity.
  destruct m1, m2; cbn [mark]; intros H.
  - split; [reflexivity | apply esc_inj, H].
  - exfalso. apply (f_equal (has_char "<")) in H. rewrite (esc_clean s1 _ Hlt) in H. cbn in H. discriminate.
  - exfalso. apply (f_equal (has_char "<")) in H. rewrite (esc_clean s2 _ Hlt) in H. cbn in H. discriminate.
  - split; [reflexivity|]. apply esc_inj. apply (app_inv_head_str "<B><I>") in H. apply (app_inv_tail_str "</I></B>"), H.
Qed.

(* two rows of one label with the same line and text cell are rows of the same source text and markup; strip itself is
   of course not injective: the label shows the stripped line (row_src), `  int 1` and `int 1` look alike *)
Theorem strip_not_injective_refuted : exists a b, a <> b /\ strip a = strip b.
Proof. exists "  int 1", "int 1". split; [discriminate | reflexivity]. Qed.

(* ====================================================================== *)
(* 5. all_subroutines_to_dot: file names                                    *)
(* ====================================================================== *)
Theorem all_subroutines_files_gen_eq t prefix :
  all_subroutines_files_gen t prefix = Some (sub_cfg_files_prefixed prefix t).
Proof.
  unfold all_subroutines_files_gen, sub_cfg_files_prefixed.
  assert (Ep : (if str_truth prefix then ret (String.append prefix "_") else ret prefix) = Some (file_prefix prefix)).
  { unfold str_truth, file_prefix. destruct (prefix =? "")%string eqn:E; cbn [negb].
    - apply String.eqb_eq in E. subst prefix. reflexivity.
    - reflexivity. }
  rewrite Ep. cbn [bind].
  set (pf := file_prefix prefix).
  erewrite (fold_some (fun st elt => ret (st ++ [(String.append pf (String.append "subroutine_" (String.append (fst elt) "_cfg.dot")), snd elt)]))
                      (fun st elt => st ++ [(String.append pf (String.append "subroutine_" (String.append (fst elt) "_cfg.dot")), snd elt)]));
    [|intros; reflexivity].
  cbn [bind ret]. rewrite fold_app_map. unfold attr_subroutines_items, attr_main. rewrite map_map. reflexivity.
Qed.

Theorem sub_cfg_files_prefixed_empty t : sub_cfg_files_prefixed "" t = sub_cfg_files t.
Proof. reflexivity. Qed.

(* distinct routines are written to distinct files (no export overwrites another) *)
Theorem sub_cfg_file_names_distinct prefix t :
  NoDup (map s_name (t_subs t)) -> NoDup (map fst (sub_cfg_files_prefixed prefix t)).
Proof.
  intros Hn. unfold sub_cfg_files_prefixed. cbn [map fst]. rewrite map_map. cbn [fst]. constructor.
  - intros Hin. apply in_map_iff in Hin. destruct Hin as (s & E & _).
    apply app_inv_head_str in E. discriminate.
  - induction (t_subs t) as [|s l IH]; cbn [map]; [constructor|]. inversion Hn as [|? ? Hs Hl]; subst.
    constructor; [|apply IH; exact Hl]. intros Hin. apply in_map_iff in Hin. destruct Hin as (s' & E & Hs').
    apply app_inv_head_str in E. apply (app_inv_head_str "subroutine_") in E. apply app_inv_tail_str in E.
    apply Hs. rewrite <- E. apply in_map. exact Hs'.
Qed.

(* ====================================================================== *)
(* 6. Non-vacuity: a concrete contract (the tool writes exactly these rows) *)
(* ====================================================================== *)
Definition nl : string := String (ascii_of_nat 10) "".
Definition ex_rows_lines : list string :=
  ["#pragma version 6"; "// call the routine"; "  callsub a&b"; "int 1  // <ok>"; "txn ApplicationID"; "return"; "a&b:"; "retsub"].
Definition ex_rows_text : string := join nl ex_rows_lines.
Definition ex_rows_prog : prog := Eval vm_compute in match parse_program ex_rows_text with Ok p => p | Err _ => [] end.
Definition ex_rows_teal : teal := Eval vm_compute in teal_of_prog ex_rows_prog.

Example ex_rows_parsed : parse_program ex_rows_text = Ok ex_rows_prog /\ parse_teal ex_rows_prog = Ok ex_rows_teal.
Proof. split; vm_compute; reflexivity. Qed.

Example ex_rows_labels :
  map (fun b => bb_label_gen ex_rows_teal (splitlines ex_rows_text) (fun _ => "0x00") (b_idx b) default_rowconfig)
      (t_blocks ex_rows_teal)
  = [Some (mkLabel 0 "BLACK"
             [CHead 1 2 "// block_id = 0; cost = 1";
              CRow "BLACK" "" "" 1 "#pragma version 6";
              CRow "BLACK" "" "// call the routine<BR/>" 3 "<B><I>callsub a&amp;b</I></B>"]);
     Some (mkLabel 1 "BLACK"
             [CHead 4 2 "// block_id = 1; cost = 3";
              CRow "BLACK" "" "" 4 "int 1  // &lt;ok&gt;";
              CRow "BLACK" "<B>// ApplicationID is 0 in Creation Txn</B><BR/>" "" 5 "txn ApplicationID";
              CRow "BLACK" "" "" 6 "return"]);
     Some (mkLabel 2 "BLACK"
             [CHead 7 2 "// block_id = 2; cost = 1<BR/>// Subroutine a&amp;b";
              CRow "BLACK" "" "" 7 "a&amp;b:";
              CRow "BLACK" "" "" 8 "<B><I>retsub</I></B>"])].
Proof. vm_compute. reflexivity. Qed.

Example ex_rows_model :
  map (fun b => map (fun r => (row_line r, row_src r, row_markup r)) (block_rows (fun _ => "0x00") (splitlines ex_rows_text) ex_rows_teal b))
      (t_blocks ex_rows_teal)
  = [[(1, "#pragma version 6", MPlain); (3, "callsub a&b", MBoldItalic)];
     [(4, "int 1  // <ok>", MPlain); (5, "txn ApplicationID", MPlain); (6, "return", MPlain)];
     [(7, "a&b:", MPlain); (8, "retsub", MBoldItalic)]].
Proof. vm_compute. reflexivity. Qed.

Example ex_rows_files :
  all_subroutines_files_gen ex_rows_teal "p" = Some (sub_cfg_files_prefixed "p" ex_rows_teal) /\
  map fst (sub_cfg_files_prefixed "p" ex_rows_teal) = ["p_contract_shortened_cfg.dot"; "p_subroutine_a&b_cfg.dot"] /\
  map fst (sub_cfg_files_prefixed "" ex_rows_teal) = ["contract_shortened_cfg.dot"; "subroutine_a&b_cfg.dot"].
Proof. repeat split; vm_compute; reflexivity. Qed.

(* a dangling instruction reference makes the generated function raise, the model has no row *)
Example ex_rows_dangling :
  instruction_to_dot_gen ex_rows_teal (splitlines ex_rows_text) (fun _ => "0x00") 99 default_rowconfig = None /\
  ins_row (fun _ => "0x00") (splitlines ex_rows_text) (t_prog ex_rows_teal) 99 = None.
Proof. split; vm_compute; reflexivity. Qed.

Example ex_esc : esc "a<b>&""c'" = "a&lt;b&gt;&amp;&quot;c&#x27;" /\ esc "&amp;" = "&amp;amp;".
Proof. split; vm_compute; reflexivity. Qed.
