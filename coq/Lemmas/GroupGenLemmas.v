(* The GROUP-MODE verdict REGENERATED from tealer's Python source (Gen/GroupGen.v, written by tools/translate_group.py
   from execution_context/transactions.py fill_group_relative_indexes and detectors/utils.py contract_checks_its_field,
   contract_checks_txn_at_absolute_index, contract_checks_using_relative_index,
   detect_missing_tx_field_validations_group_complete) against the hand-written Model/Group.v
   (rel_dict, relative_accessors, Section Verdict: checks_its_field, checks_abs, checks_rel, txn_vulnerable, group_verdict).

   Hypotheses.  group_ok funcs group :=  NoDup (map g_id group)  /\  every transaction t of the group satisfies txn_ok:
     - its logic-sig / application indices are in the table funcs (fn_defined), and -- only when t has no absolute
       index -- the own-index sets of the leaf blocks of these functions are group indices (fn_indices_ok);
     - its absolute index is < MAX_GROUP_SIZE;
     - every EFFECTIVE relative index (entry of rel_dict t) is an offset of range(-(MAX_GROUP_SIZE-1), MAX_GROUP_SIZE)
       other than 0, to the id of a transaction of the group.
   These are the conditions under which no attribute read / context accessor of the Python raises.  Each of them is
   needed: section 5 gives, for each, a group on which the generated and the hand-written verdict differ.

   Results (funcs, checks, dtype, vtypes arbitrary).
   1. contract_checks_its_field_gen_eq, contract_checks_txn_at_absolute_index_gen_eq,
      contract_checks_using_relative_index_gen_eq: the three leaf helpers = Some (checks_its_field / checks_abs /
      checks_rel).
   2. fill_group_relative_indexes_gen_spec, group_relative_indexes_items_eq: for a group with distinct ids whose
      relative indexes point into the group, fill_group_relative_indexes_gen group [] succeeds and what the verdict loop
      reads, group_relative_indexes[t].items(), is the model's relative_accessors group t (same entries, same ORDER,
      later assignment overwrites in place), every entry resolved to a transaction of the group.
   3. txn_vulnerable_gen_eq: group_ok group -> In t group -> txn_vulnerable_gen .. group t = Some (txn_vulnerable .. group t).
   4. detect_group_complete_gen_eq (the whole function on a list of well-formed groups), group_verdict_gen_eq_general:
        group_verdict_gen .. group = Some (if dtype is STATELESS or STATEFULL then group_verdict .. group else [])
      and group_verdict_gen_eq for these two detector types (the only ones the function is called with).
      DISCREPANCY (group_verdict_gen_refuted_detector_type): for any other detector type the Python marks the group
      vulnerable but records no transaction; the model lists the ids.
   5. txn_vulnerable_gen_iff, group_verdict_gen_spec: GroupLemmas.vulnerable_iff transported to the generated verdict.
   The lemmas *_unfold (fill_gen_unfold, txn_vulnerable_gen_unfold, detect_gen_unfold) state, by conversion, that the
   generated functions are the loops the proofs reason about: they are the places where an edit of the Python breaks
   this file. *)
From Coq Require Import String List NArith ZArith Bool Arith Lia.
From Tealer Require Import Tables LeafPrelude Syntax Parse Cfg StackAst Keys KeysGen Analysis Domains Detect SearchGen Group GroupGen.
From Tealer Require Import SearchGenLemmas GroupLemmas.
Import ListNotations.
Open Scope string_scope.
Open Scope list_scope.

(* ====================================================================== *)
(* 0. The fixed prelude: loops, comprehensions, dictionaries                *)
(* ====================================================================== *)
Lemma fold_left_ext_in {A B} (f g : A -> B -> A) l :
  (forall a x, In x l -> f a x = g a x) -> forall a, fold_left f l a = fold_left g l a.
Proof.
  induction l as [|x l IH]; intros H a; [reflexivity|].
  simpl. rewrite (H a x (or_introl eq_refl)). apply IH. intros a' y Hy. apply H. right; exact Hy.
Qed.

Lemma fold_bind_None {A B} (k : B -> A -> py A) l :
  fold_left (fun acc x => bind acc (k x)) l None = None.
Proof. induction l as [|x l IH]; [reflexivity | exact IH]. Qed.

Lemma filterE_total {A} (p : A -> py bool) (q : A -> bool) l :
  (forall a, In a l -> p a = Some (q a)) -> filterE p l = Some (filter q l).
Proof.
  induction l as [|a l IH]; intros H; [reflexivity|].
  cbn [filterE filter]. rewrite (H a (or_introl eq_refl)). cbn [bind].
  rewrite IH by (intros x Hx; apply H; right; exact Hx). cbn [bind ret]. destruct (q a); reflexivity.
Qed.

Lemma mapE_total {A B} (g : A -> py B) (h : A -> B) l :
  (forall a, In a l -> g a = Some (h a)) -> mapE g l = Some (map h l).
Proof.
  induction l as [|a l IH]; intros H; [reflexivity|].
  cbn [mapE map]. rewrite (H a (or_introl eq_refl)). cbn [bind].
  rewrite IH by (intros x Hx; apply H; right; exact Hx). reflexivity.
Qed.

Lemma forallb_map {A B} (g : B -> bool) (h : A -> B) l : forallb g (map h l) = forallb (fun x => g (h x)) l.
Proof. induction l as [|a l IH]; [reflexivity|]. simpl. rewrite IH. reflexivity. Qed.

(* `for x in l: if not c(x): return False` followed by `return True` (the three leaf helpers) *)
Lemma early_loop {A} (c : A -> py bool) (q : A -> bool) l :
  (forall x, In x l -> c x = Some (q x)) ->
  forall st,
  fold_left (fun (acc : py (option bool)) (x : A) => bind acc (fun st =>
               match st with
               | Some _ => ret st
               | None => ifE (notE (c x)) (ret (Some false)) (ret (@None bool))
               end)) l (ret st) =
  Some (match st with Some v => Some v | None => if forallb q l then None else Some false end).
Proof.
  induction l as [|x l IH]; intros H st.
  - destruct st; reflexivity.
  - cbn [fold_left bind ret]. destruct st as [v|].
    + exact (IH (fun y Hy => H y (or_intror Hy)) (Some v)).
    + rewrite (H x (or_introl eq_refl)). cbn [notE option_map ifE forallb].
      destruct (q x); cbn [negb andb].
      * exact (IH (fun y Hy => H y (or_intror Hy)) None).
      * exact (IH (fun y Hy => H y (or_intror Hy)) (Some false)).
Qed.

(* `checked = False; for x in l: if c1(x): checked = True; break; if c2(x): checked = True; break` *)
Lemma break_loop {A} (c1 c2 : A -> py bool) (q1 q2 : A -> bool) l :
  (forall x, In x l -> c1 x = Some (q1 x)) ->
  (forall x, In x l -> q1 x = false -> c2 x = Some (q2 x)) ->
  forall b ch,
  fold_left (fun (acc : py (bool * bool)) (x : A) => bind acc (fun st =>
               if fst st then ret st
               else ifE (c1 x) (ret (true, true)) (ifE (c2 x) (ret (true, true)) (ret (false, snd st))))) l (ret (b, ch)) =
  Some (if b then (b, ch) else if existsb (fun x => q1 x || q2 x) l then (true, true) else (false, ch)).
Proof.
  induction l as [|x l IH]; intros H1 H2 b ch.
  - destruct b; reflexivity.
  - cbn [fold_left bind ret fst snd]. destruct b.
    + rewrite (IH (fun y Hy => H1 y (or_intror Hy)) (fun y Hy => H2 y (or_intror Hy)) true ch). reflexivity.
    + rewrite (H1 x (or_introl eq_refl)). cbn [ifE existsb]. destruct (q1 x) eqn:E1; cbn [orb].
      * rewrite (IH (fun y Hy => H1 y (or_intror Hy)) (fun y Hy => H2 y (or_intror Hy)) true true). reflexivity.
      * rewrite (H2 x (or_introl eq_refl) E1). cbn [ifE]. destruct (q2 x).
        -- rewrite (IH (fun y Hy => H1 y (or_intror Hy)) (fun y Hy => H2 y (or_intror Hy)) true true). reflexivity.
        -- exact (IH (fun y Hy => H1 y (or_intror Hy)) (fun y Hy => H2 y (or_intror Hy)) false ch).
Qed.

(* ---------------------------------------------------------------- dictionaries *)
Section DictGen.
  Context {K V : Type}.
  Variable eqb : K -> K -> bool.

  (* a new key is appended *)
  Lemma dict_set_new k (v : V) d :
    (forall kv, In kv d -> eqb (fst kv) k = false) -> dict_set eqb k v d = d ++ [(k, v)].
  Proof.
    induction d as [|[k' v'] d IH]; intros H; [reflexivity|].
    pose proof (H (k', v') (or_introl eq_refl)) as E. cbn [fst] in E.
    cbn [dict_set]. rewrite E. cbn [app]. f_equal.
    apply IH. intros kv Hkv. apply H. right; exact Hkv.
  Qed.

  Lemma dict_get_find k (d : list (K * V)) :
    dict_get eqb k d = option_map snd (find (fun kv => eqb (fst kv) k) d).
  Proof. reflexivity. Qed.
End DictGen.

(* ====================================================================== *)
(* 1. The three leaf helpers                                                *)
(* ====================================================================== *)
Definition offset_in_range (off : Z) : Prop :=
  (- (Z.of_N MAX_GROUP_SIZE - 1) <= off < Z.of_N MAX_GROUP_SIZE)%Z /\ off <> 0%Z.

Section Leaf.
  Variable funcs : list (func * fn_result).
  Variable checks : bctx -> bool.

  (* the function index is not dangling *)
  Definition fn_defined (k : nat) : Prop := nth_error funcs k <> None.
  (* the own-index sets of the leaf blocks are sets of group indices (what validated_in_block iterates) *)
  Definition fn_indices_ok (k : nat) : Prop :=
    forall f r, nth_error funcs k = Some (f, r) ->
    forall b, In b (fn_leaves f) -> Forall index_in_range (ctx_group_indices (ctx_of r b KSelf)).

  Lemma validated_in_block_gen_eq' r b (ai : option N) :
    (forall i, ai = Some i -> (i < MAX_GROUP_SIZE)%N) ->
    (ai = None -> Forall index_in_range (ctx_group_indices (ctx_of r b KSelf))) ->
    validated_in_block_gen r checks b (option_map Z.of_N ai) = Some (validated_in_block r checks ai b).
  Proof.
    intros Hai Hidx. destruct ai as [i|].
    - unfold validated_in_block_gen, validated_in_block, SearchGen.transaction_context. cbn [option_map].
      destruct (checks (ctx_of r b KSelf)); [reflexivity|].
      rewrite gtxn_context_in_range by (specialize (Hai i eq_refl); unfold index_in_range; lia).
      rewrite N2Z.id. cbn [bind ret ifE]. destruct (checks (ctx_of r b (KAtIndex i))); reflexivity.
    - apply validated_in_block_gen_eq; [exact Hai | exact (Hidx eq_refl)].
  Qed.

  Lemma leaf_blocks_eq k f r :
    nth_error funcs k = Some (f, r) ->
    bind (attr_blocks funcs k) (fun tmp1 => filterE (fun block => call_leaf_block_global funcs k block) tmp1) =
    Some (filter (fun b => leaf_global f b) (fn_blocks f)).
  Proof.
    intros Hk. unfold attr_blocks. rewrite Hk. cbn [bind ret fst].
    apply filterE_total. intros b _. unfold call_leaf_block_global. rewrite Hk. reflexivity.
  Qed.

  Theorem contract_checks_its_field_gen_eq k (ai : option N) :
    fn_defined k ->
    (forall i, ai = Some i -> (i < MAX_GROUP_SIZE)%N) ->
    (ai = None -> fn_indices_ok k) ->
    contract_checks_its_field_gen funcs checks k (option_map Z.of_N ai) = Some (checks_its_field funcs checks k ai).
  Proof.
    intros Hdef Hai Hidx. unfold fn_defined in Hdef.
    destruct (nth_error funcs k) as [[f r]|] eqn:Hk; [|contradiction].
    unfold contract_checks_its_field_gen, checks_its_field. rewrite Hk, (leaf_blocks_eq k f r Hk). cbn [bind].
    rewrite (early_loop _ (fun b => validated_in_block r checks ai (b_idx b))).
    - cbn [bind]. unfold fn_leaves. rewrite forallb_map.
      destruct (forallb _ _); reflexivity.
    - intros b Hb. unfold call_validated_in_block. rewrite Hk. cbn [bind snd].
      apply validated_in_block_gen_eq'; [exact Hai|].
      intros E. apply (Hidx E f r Hk). unfold fn_leaves. apply in_map. exact Hb.
  Qed.

  Lemma absolute_context_in_range k f r b (i : N) :
    nth_error funcs k = Some (f, r) -> (i < MAX_GROUP_SIZE)%N ->
    absolute_context funcs k b (Z.of_N i) = Some (ctx_of r (b_idx b) (KAbs i)).
  Proof.
    intros Hk Hi. unfold absolute_context. rewrite Hk. cbn [bind snd]. cbv zeta.
    destruct (Z.leb_spec (Z.of_N MAX_GROUP_SIZE) (Z.of_N i)) as [H|H]; [lia|].
    destruct (Z.leb_spec 0 (Z.of_N i)) as [H'|H']; [|lia]. rewrite N2Z.id. reflexivity.
  Qed.

  Theorem contract_checks_txn_at_absolute_index_gen_eq k (i : N) :
    fn_defined k -> (i < MAX_GROUP_SIZE)%N ->
    contract_checks_txn_at_absolute_index_gen funcs checks k (Z.of_N i) = Some (checks_abs funcs checks k i).
  Proof.
    intros Hdef Hi. unfold fn_defined in Hdef.
    destruct (nth_error funcs k) as [[f r]|] eqn:Hk; [|contradiction].
    unfold contract_checks_txn_at_absolute_index_gen, checks_abs. rewrite Hk, (leaf_blocks_eq k f r Hk). cbn [bind].
    rewrite (early_loop _ (fun b => checks (ctx_of r (b_idx b) (KAbs i)))).
    - cbn [bind]. unfold fn_leaves. rewrite forallb_map. destruct (forallb _ _); reflexivity.
    - intros b _. rewrite (absolute_context_in_range k f r b i Hk Hi). reflexivity.
  Qed.

  Lemma relative_context_in_range k f r b off :
    nth_error funcs k = Some (f, r) -> offset_in_range off ->
    relative_context funcs k b off = Some (ctx_of r (b_idx b) (KRel off)).
  Proof.
    intros Hk [[H1 H2] H3]. unfold relative_context. rewrite Hk. cbn [bind snd]. cbv zeta.
    destruct (Z.leb_spec (- (Z.of_N MAX_GROUP_SIZE - 1)) off) as [H|H]; [|lia].
    destruct (Z.ltb_spec off (Z.of_N MAX_GROUP_SIZE)) as [H'|H']; [|lia].
    destruct (Z.eqb_spec off 0) as [E|E]; [contradiction | reflexivity].
  Qed.

  Theorem contract_checks_using_relative_index_gen_eq k off :
    fn_defined k -> offset_in_range off ->
    contract_checks_using_relative_index_gen funcs checks k off = Some (checks_rel funcs checks k off).
  Proof.
    intros Hdef Hoff. unfold fn_defined in Hdef.
    destruct (nth_error funcs k) as [[f r]|] eqn:Hk; [|contradiction].
    unfold contract_checks_using_relative_index_gen, checks_rel. rewrite Hk, (leaf_blocks_eq k f r Hk). cbn [bind].
    rewrite (early_loop _ (fun b => checks (ctx_of r (b_idx b) (KRel off)))).
    - cbn [bind]. unfold fn_leaves. rewrite forallb_map. destruct (forallb _ _); reflexivity.
    - intros b _. rewrite (relative_context_in_range k f r b off Hk Hoff). reflexivity.
  Qed.
End Leaf.
Print Assumptions contract_checks_its_field_gen_eq.
Print Assumptions contract_checks_txn_at_absolute_index_gen_eq.
Print Assumptions contract_checks_using_relative_index_gen_eq.

(* ====================================================================== *)
(* 2. fill_group_relative_indexes vs. relative_accessors                    *)
(* ====================================================================== *)
Notation gri := (list (gtxn * list (gtxn * Z))).

(* a dictionary whose keys are the transactions of the group, in order *)
Definition shape (group : list gtxn) (L : gtxn -> list (gtxn * Z)) : gri := map (fun t => (t, L t)) group.
(* an entry (transaction, offset) as the model keeps it: (id, offset) *)
Definition idp (p : gtxn * Z) : string * Z := (g_id (fst p), snd p).

Lemma bind_ret_r {A} (m : py A) : bind m (fun x => ret x) = m.
Proof. destruct m; reflexivity. Qed.

Lemma txn_eqb_eq_ids a b : txn_eqb a b = true <-> g_id a = g_id b.
Proof. unfold txn_eqb. apply String.eqb_eq. Qed.

Lemma nodup_id_inj group a b :
  NoDup (map g_id group) -> In a group -> In b group -> g_id a = g_id b -> a = b.
Proof.
  induction group as [|x g IH]; intros Hnd Ha Hb E; [destruct Ha|].
  simpl in Hnd. apply NoDup_cons_iff in Hnd. destruct Hnd as [Hni Hnd].
  destruct Ha as [->|Ha], Hb as [->|Hb].
  - reflexivity.
  - exfalso. apply Hni. rewrite E. apply in_map. exact Hb.
  - exfalso. apply Hni. rewrite <- E. apply in_map. exact Ha.
  - apply IH; assumption.
Qed.

Lemma find_shape (p : gtxn -> bool) L group :
  find (fun kv : gtxn * list (gtxn * Z) => p (fst kv)) (shape group L) = option_map (fun t => (t, L t)) (find p group).
Proof.
  unfold shape. induction group as [|a g IH]; [reflexivity|].
  cbn [map find fst]. destruct (p a); [reflexivity | exact IH].
Qed.

Lemma txn_get_shape group L t :
  NoDup (map g_id group) -> In t group -> txn_dict_get t (shape group L) = Some (L t).
Proof.
  intros Hnd Hin. unfold txn_dict_get, dict_get.
  rewrite (find_shape (fun x => txn_eqb x t)). unfold txn_eqb.
  rewrite (find_by_id group t Hnd Hin). reflexivity.
Qed.

Lemma txn_set_shape group L t v :
  NoDup (map g_id group) -> In t group ->
  txn_dict_set t v (shape group L) = shape group (fun x => if txn_eqb x t then v else L x).
Proof.
  unfold txn_dict_set, shape. induction group as [|a g IH]; intros Hnd Hin; [destruct Hin|].
  simpl in Hnd. apply NoDup_cons_iff in Hnd. destruct Hnd as [Hni Hnd].
  cbn [map dict_set]. destruct (txn_eqb a t) eqn:E.
  - f_equal. apply map_ext_in. intros x Hx. destruct (txn_eqb x t) eqn:Ex; [|reflexivity].
    exfalso. apply Hni. apply txn_eqb_eq_ids in E. apply txn_eqb_eq_ids in Ex. rewrite E, <- Ex. apply in_map. exact Hx.
  - f_equal. apply IH; [exact Hnd|]. destruct Hin as [->|Hin]; [|exact Hin].
    unfold txn_eqb in E. rewrite String.eqb_refl in E. discriminate.
Qed.

(* ---- the first loop: group.group_relative_indexes[txn] = {} *)
Lemma fill_stage1 : forall suf pre,
  NoDup (map g_id (pre ++ suf)) ->
  fold_left (fun (acc : py gri) (txn : gtxn) => bind acc (fun st => ret (txn_dict_set txn [] st))) suf
            (Some (shape pre (fun _ => []))) =
  Some (shape (pre ++ suf) (fun _ => [])).
Proof.
  induction suf as [|a suf IH]; intros pre Hnd.
  - rewrite app_nil_r. reflexivity.
  - cbn [fold_left bind ret]. unfold txn_dict_set. rewrite dict_set_new.
    + replace (shape pre (fun _ => []) ++ [(a, [])]) with (shape (pre ++ [a]) (fun _ : gtxn => @nil (gtxn * Z))).
      * replace (pre ++ a :: suf) with ((pre ++ [a]) ++ suf) by (rewrite <- app_assoc; reflexivity).
        apply IH. rewrite <- app_assoc. exact Hnd.
      * unfold shape. rewrite map_app. reflexivity.
    + intros kv Hkv. unfold shape in Hkv. apply in_map_iff in Hkv. destruct Hkv as (x & <- & Hx). cbn [fst].
      destruct (txn_eqb x a) eqn:E; [|reflexivity]. apply txn_eqb_eq_ids in E. exfalso.
      rewrite map_app in Hnd. simpl in Hnd. apply NoDup_remove_2 in Hnd. apply Hnd.
      apply in_or_app. left. rewrite <- E. apply in_map. exact Hx.
Qed.

(* ---- txn.relative_indexes: the ids resolved in the group *)
Definition rel_resolvable (group : list gtxn) (t : gtxn) : Prop :=
  forall off id, In (off, id) (rel_dict t) -> In id (map g_id group).

Definition mem (group : list gtxn) (d : gtxn) (id : string) : gtxn :=
  match resolve_txn group id with Some o => o | None => d end.

Lemma mem_spec group d id :
  In id (map g_id group) ->
  resolve_txn group id = Some (mem group d id) /\ In (mem group d id) group /\ g_id (mem group d id) = id.
Proof.
  intros Hin. unfold mem, resolve_txn. destruct (find _ group) as [o|] eqn:E.
  - apply find_some in E. destruct E as [Ho E]. apply String.eqb_eq in E. auto.
  - exfalso. apply in_map_iff in Hin. destruct Hin as (o & <- & Ho).
    pose proof (find_none _ _ E o Ho) as H. cbn beta in H. rewrite String.eqb_refl in H. discriminate.
Qed.

Definition resolved (group : list gtxn) (t : gtxn) : list (Z * gtxn) :=
  map (fun kv => (fst kv, mem group t (snd kv))) (rel_dict t).

Lemma attr_relative_indexes_eq group t :
  rel_resolvable group t -> attr_relative_indexes group t = Some (resolved group t).
Proof.
  intros H. unfold attr_relative_indexes, resolved. apply mapE_total. intros [off id] Hin. cbn [fst snd].
  destruct (mem_spec group t id (H off id Hin)) as (E & _ & _). rewrite E. reflexivity.
Qed.

(* `for k in d: .. d[k] ..` over a dictionary with distinct keys = a loop over its items *)
Lemma int_get_app {V} (pre suf : list (Z * V)) k v :
  ~ In k (map fst pre) -> int_dict_get k (pre ++ (k, v) :: suf) = Some v.
Proof.
  unfold int_dict_get, dict_get. induction pre as [|[k' v'] pre IH]; intros Hni.
  - cbn [app find fst]. rewrite Z.eqb_refl. reflexivity.
  - cbn [app find fst]. destruct (Z.eqb_spec k' k) as [->|Hne].
    + exfalso. apply Hni. left. reflexivity.
    + apply IH. intros Hin. apply Hni. right. exact Hin.
Qed.

Lemma fold_keys_get {V S} (F : S -> Z -> V -> py S) (d : list (Z * V)) :
  NoDup (map fst d) ->
  forall suf pre init, d = pre ++ suf ->
  fold_left (fun (acc : py S) (k : Z) => bind acc (fun st => bind (int_dict_get k d) (fun v => F st k v))) (map fst suf) init =
  fold_left (fun (acc : py S) (kv : Z * V) => bind acc (fun st => F st (fst kv) (snd kv))) suf init.
Proof.
  intros Hnd. induction suf as [|[k v] suf IH]; intros pre init E; [reflexivity|].
  cbn [map fold_left fst snd].
  assert (Hg : int_dict_get k d = Some v).
  { rewrite E. apply int_get_app. rewrite E, map_app in Hnd. simpl in Hnd. apply NoDup_remove_2 in Hnd.
    intros Hin. apply Hnd. apply in_or_app. left. exact Hin. }
  rewrite Hg. cbn [bind]. apply (IH (pre ++ [(k, v)])). rewrite <- app_assoc. exact E.
Qed.

(* ---- the second loop *)
Definition inner_step (other : gtxn) (st : gri) (off : Z) (tgt : gtxn) : py gri :=
  bind (txn_dict_get tgt st) (fun tmp3 => ret (txn_dict_set tgt (txn_dict_set other off tmp3) st)).

Definition outer_step (group : list gtxn) (acc : py gri) (txn : gtxn) : py gri :=
  bind acc (fun st =>
  bind (attr_relative_indexes group txn) (fun tmp4 =>
  bind (fold_left (fun (acc : py gri) (offset : Z) => bind acc (fun st =>
          bind (bind (attr_relative_indexes group txn) (fun tmp2 => int_dict_get offset tmp2)) (fun other_txn =>
          inner_step txn st offset other_txn)))
        (dict_keys tmp4) (ret st)) (fun tmp5 => ret tmp5))).

(* the generated function is these two loops (the proofs below are not a text comparison, but this IS: any change of
   the statements of fill_group_relative_indexes breaks this reflexivity) *)
Lemma fill_gen_unfold group D0 :
  fill_group_relative_indexes_gen group D0 =
  bind (fold_left (fun (acc : py gri) (txn : gtxn) => bind acc (fun st => ret (txn_dict_set txn [] st))) group (ret D0)) (fun tmp1 =>
  bind (fold_left (outer_step group) group (ret tmp1)) (fun tmp6 => ret tmp6)).
Proof. reflexivity. Qed.

Lemma outer_step_eq group other st :
  rel_resolvable group other ->
  outer_step group (Some st) other =
  fold_left (fun (acc : py gri) (kv : Z * gtxn) => bind acc (fun st => inner_step other st (fst kv) (snd kv)))
            (resolved group other) (Some st).
Proof.
  intros Hres. unfold outer_step. cbn [bind]. rewrite (attr_relative_indexes_eq group other Hres). cbn [bind].
  rewrite bind_ret_r. unfold dict_keys.
  apply (fold_keys_get (fun st k v => inner_step other st k v) (resolved group other)) with (pre := []); [|reflexivity].
  unfold resolved. rewrite map_map. cbn [fst]. apply rel_dict_offsets_distinct.
Qed.

Lemma idp_dict_set o off l :
  map idp (txn_dict_set o off l) = gset String.eqb (g_id o) off (map idp l).
Proof.
  unfold txn_dict_set. induction l as [|[k' v'] l IH]; [reflexivity|].
  cbn [dict_set map gset]. unfold idp at 2. cbn [fst snd]. unfold txn_eqb at 1. rewrite (String.eqb_sym (g_id k') (g_id o)).
  destruct (String.eqb (g_id o) (g_id k')) eqn:E.
  - cbn [map]. unfold idp at 1. cbn [fst snd]. apply String.eqb_eq in E. rewrite E. reflexivity.
  - cbn [map]. rewrite IH. reflexivity.
Qed.

Lemma dict_set_keys_in (group : list gtxn) o (off : Z) l :
  In o group -> (forall p, In p l -> In (fst p) group) -> forall p, In p (txn_dict_set o off l) -> In (fst p) group.
Proof.
  unfold txn_dict_set. intros Ho. induction l as [|[k' v'] l IH]; intros Hl p Hp.
  - destruct Hp as [<-|[]]. exact Ho.
  - cbn [dict_set] in Hp. destruct (txn_eqb k' o).
    + destruct Hp as [<-|Hp]; [exact (Hl (k', v') (or_introl eq_refl)) | apply Hl; right; exact Hp].
    + destruct Hp as [<-|Hp]; [exact (Hl (k', v') (or_introl eq_refl))|].
      apply IH; [|exact Hp]. intros q Hq. apply Hl. right. exact Hq.
Qed.

Lemma inner_fold_spec group other :
  NoDup (map g_id group) -> In other group ->
  forall (Rl : list (Z * gtxn)), (forall kv, In kv Rl -> In (snd kv) group) ->
  forall L, exists L',
    fold_left (fun (acc : py gri) (kv : Z * gtxn) => bind acc (fun st => inner_step other st (fst kv) (snd kv)))
              Rl (Some (shape group L)) = Some (shape group L') /\
    (forall t, In t group ->
       map idp (L' t) =
       gfold String.eqb (map (fun kv => (g_id other, fst kv)) (filter (fun kv => String.eqb (g_id (snd kv)) (g_id t)) Rl))
             (map idp (L t))) /\
    (forall t, (forall p, In p (L t) -> In (fst p) group) -> forall p, In p (L' t) -> In (fst p) group).
Proof.
  intros Hnd Ho. induction Rl as [|[off tgt] Rl IH]; intros HR L.
  - exists L. split; [reflexivity|]. split; [intros t _; reflexivity | intros t H; exact H].
  - assert (Htgt : In tgt group) by exact (HR (off, tgt) (or_introl eq_refl)).
    cbn [fold_left bind fst snd]. unfold inner_step at 2.
    rewrite (txn_get_shape group L tgt Hnd Htgt). cbn [bind ret].
    rewrite (txn_set_shape group L tgt _ Hnd Htgt).
    set (L1 := fun x => if txn_eqb x tgt then txn_dict_set other off (L x) else L x).
    assert (E1 : shape group (fun x => if txn_eqb x tgt then txn_dict_set other off (L tgt) else L x) = shape group L1).
    { unfold shape. apply map_ext_in. intros x Hx. unfold L1. destruct (txn_eqb x tgt) eqn:E; [|reflexivity].
      apply txn_eqb_eq_ids in E. rewrite (nodup_id_inj group x tgt Hnd Hx Htgt E). reflexivity. }
    rewrite E1.
    destruct (IH (fun kv Hkv => HR kv (or_intror Hkv)) L1) as (L' & Hf & Hm & Hk).
    exists L'. split; [exact Hf|]. split.
    + intros t Ht. rewrite (Hm t Ht). cbn [filter snd]. unfold L1.
      unfold txn_eqb. rewrite (String.eqb_sym (g_id t) (g_id tgt)).
      destruct (String.eqb (g_id tgt) (g_id t)); [|reflexivity].
      cbn [map fst]. rewrite idp_dict_set. reflexivity.
    + intros t Ht. apply Hk. unfold L1. destruct (txn_eqb t tgt); [|exact Ht].
      apply dict_set_keys_in; assumption.
Qed.

Lemma resolved_events group t other :
  rel_resolvable group other ->
  map (fun kv : Z * gtxn => (g_id other, fst kv)) (filter (fun kv => String.eqb (g_id (snd kv)) (g_id t)) (resolved group other)) =
  ra_events_of t other.
Proof.
  intros Hres. unfold ra_events_of, resolved. unfold rel_resolvable in Hres.
  induction (rel_dict other) as [|[off id] l IH]; [reflexivity|].
  cbn [map filter fst snd].
  destruct (mem_spec group other id (Hres off id (or_introl eq_refl))) as (_ & _ & E). rewrite E.
  specialize (IH (fun o i Hi => Hres o i (or_intror Hi))).
  destruct (String.eqb id (g_id t)); cbn [map fst]; rewrite IH; reflexivity.
Qed.

Lemma outer_fold_spec group :
  NoDup (map g_id group) -> (forall t, In t group -> rel_resolvable group t) ->
  forall os, incl os group ->
  forall L, exists L',
    fold_left (outer_step group) os (Some (shape group L)) = Some (shape group L') /\
    (forall t, In t group -> map idp (L' t) = gfold String.eqb (flat_map (ra_events_of t) os) (map idp (L t))) /\
    (forall t, (forall p, In p (L t) -> In (fst p) group) -> forall p, In p (L' t) -> In (fst p) group).
Proof.
  intros Hnd Hres. induction os as [|other os IH]; intros Hincl L.
  - exists L. split; [reflexivity|]. split; [intros t _; reflexivity | intros t H; exact H].
  - assert (Ho : In other group) by (apply Hincl; left; reflexivity).
    cbn [fold_left]. rewrite (outer_step_eq group other _ (Hres other Ho)).
    destruct (inner_fold_spec group other Hnd Ho (resolved group other)) with (L := L) as (L1 & Hf1 & Hm1 & Hk1).
    { intros kv Hkv. unfold resolved in Hkv. apply in_map_iff in Hkv. destruct Hkv as ([off id] & <- & Hin). cbn [snd].
      apply (mem_spec group other id (Hres other Ho off id Hin)). }
    rewrite Hf1.
    destruct (IH (fun x Hx => Hincl x (or_intror Hx)) L1) as (L' & Hf & Hm & Hk).
    exists L'. split; [exact Hf|]. split.
    + intros t Ht. rewrite (Hm t Ht), (Hm1 t Ht), (resolved_events group t other (Hres other Ho)).
      cbn [flat_map]. rewrite gfold_app. reflexivity.
    + intros t Ht. apply Hk. apply Hk1. exact Ht.
Qed.

(* the generated fill_group_relative_indexes computes, for every transaction of the group, the model's
   relative_accessors (entries resolved to the transactions of the group) *)
Theorem fill_group_relative_indexes_gen_spec group :
  NoDup (map g_id group) -> (forall t, In t group -> rel_resolvable group t) ->
  exists L,
    fill_group_relative_indexes_gen group [] = Some (shape group L) /\
    forall t, In t group ->
      map idp (L t) = relative_accessors group t /\ (forall p, In p (L t) -> In (fst p) group).
Proof.
  intros Hnd Hres. rewrite fill_gen_unfold.
  change (ret (@nil (gtxn * list (gtxn * Z)))) with (Some (shape [] (fun _ : gtxn => @nil (gtxn * Z)))).
  rewrite (fill_stage1 group [] Hnd). cbn [bind app].
  destruct (outer_fold_spec group Hnd Hres group (incl_refl group) (fun _ => [])) as (L & Hf & Hm & Hk).
  unfold ret at 1. rewrite Hf. cbn [bind ret]. exists L. split; [reflexivity|].
  intros t Ht. split.
  - rewrite (Hm t Ht), relative_accessors_gfold. reflexivity.
  - apply Hk. intros p [].
Qed.

(* what the verdict loop reads: group_txn.group_relative_indexes[txn].items() *)
Theorem group_relative_indexes_items_eq group t :
  NoDup (map g_id group) -> (forall x, In x group -> rel_resolvable group x) -> In t group ->
  exists l,
    bind (attr_group_relative_indexes group) (fun d => txn_dict_get t d) = Some l /\
    map idp l = relative_accessors group t /\ (forall p, In p l -> In (fst p) group).
Proof.
  intros Hnd Hres Ht. destruct (fill_group_relative_indexes_gen_spec group Hnd Hres) as (L & Hf & HL).
  exists (L t). unfold attr_group_relative_indexes. rewrite Hf. cbn [bind].
  split; [apply txn_get_shape; assumption | exact (HL t Ht)].
Qed.
Print Assumptions fill_group_relative_indexes_gen_spec.
Print Assumptions group_relative_indexes_items_eq.

(* ====================================================================== *)
(* 3. The per-transaction decision                                          *)
(* ====================================================================== *)
Lemma existsb_map {A B} (g : B -> bool) (h : A -> B) l : existsb g (map h l) = existsb (fun x => g (h x)) l.
Proof. induction l as [|a l IH]; [reflexivity|]. simpl. rewrite IH. reflexivity. Qed.

Lemma existsb_ext_in {A} (g h : A -> bool) l : (forall x, In x l -> g x = h x) -> existsb g l = existsb h l.
Proof.
  induction l as [|a l IH]; intros H; [reflexivity|]. simpl.
  rewrite (H a (or_introl eq_refl)), IH by (intros x Hx; apply H; right; exact Hx). reflexivity.
Qed.

Section VerdictGen.
  Variable funcs : list (func * fn_result).
  Variable checks : bctx -> bool.
  Variable dtype : string.
  Variable vtypes : option (list string).

  Local Notation vuln := (txn_vulnerable funcs checks dtype vtypes).
  Local Notation cif := (checks_its_field funcs checks).
  Local Notation cabs := (checks_abs funcs checks).
  Local Notation crel := (checks_rel funcs checks).
  Local Notation cif_gen := (contract_checks_its_field_gen funcs checks).
  Local Notation cabs_gen := (contract_checks_txn_at_absolute_index_gen funcs checks).
  Local Notation crel_gen := (contract_checks_using_relative_index_gen funcs checks).

  (* ---------------------------------------------------------------- well-formed group configurations *)
  (* exactly the conditions under which no read of the generated (= the Python) verdict raises:
       - the contracts of the transaction are in the table, and (only when the transaction has no absolute index)
         the own-index sets of their leaf blocks are group indices,
       - its absolute index is below MAX_GROUP_SIZE,
       - the effective relative indexes (rel_dict) are offsets of range(-(MAX_GROUP_SIZE-1), MAX_GROUP_SIZE) \ {0}
         to transactions of the group *)
  Definition txn_ok (group : list gtxn) (t : gtxn) : Prop :=
    (forall k, g_logic_sig t = Some k \/ g_application t = Some k ->
               fn_defined funcs k /\ (g_abs t = None -> fn_indices_ok funcs k)) /\
    (forall i, g_abs t = Some i -> (i < MAX_GROUP_SIZE)%N) /\
    (forall off id, In (off, id) (rel_dict t) -> offset_in_range off /\ In id (map g_id group)).
  Definition group_ok (group : list gtxn) : Prop := NoDup (map g_id group) /\ Forall (txn_ok group) group.

  Lemma group_ok_txn group t : group_ok group -> In t group -> txn_ok group t.
  Proof. intros [_ H] Ht. exact (proj1 (Forall_forall _ _) H t Ht). Qed.

  Lemma group_ok_resolvable group : group_ok group -> forall t, In t group -> rel_resolvable group t.
  Proof. intros H t Ht off id Hin. destruct (group_ok_txn group t H Ht) as (_ & _ & Hr). exact (proj2 (Hr off id Hin)). Qed.

  (* `x is not None and f(x, ..)` *)
  Definition opt_call (o : option nat) (g : nat -> py bool) : py bool :=
    match o with Some k => g k | None => ret false end.

  Lemma opt_call_eq o (g : nat -> py bool) (h : nat -> bool) :
    (forall k, o = Some k -> g k = Some (h k)) -> opt_call o g = Some (opt_check o h).
  Proof. intros H. destruct o as [k|]; [exact (H k eq_refl) | reflexivity]. Qed.

  (* ---------------------------------------------------------------- the text of txn_vulnerable_gen *)
  Definition abs_loop (group : list gtxn) (i : Z) : py (bool * bool) :=
    fold_left (fun (acc : py (bool * bool)) (other_txn : gtxn) => bind acc (fun st =>
                 if fst st then ret st
                 else ifE (opt_call (g_logic_sig other_txn) (fun k => cabs_gen k i)) (ret (true, true))
                      (ifE (opt_call (g_application other_txn) (fun k => cabs_gen k i)) (ret (true, true))
                      (ret (false, snd st)))))
              group (ret (false, false)).

  Definition rel_loop (items : list (gtxn * Z)) : py (bool * bool) :=
    fold_left (fun (acc : py (bool * bool)) (p : gtxn * Z) => bind acc (fun st =>
                 if fst st then ret st
                 else ifE (opt_call (g_logic_sig (fst p)) (fun k => crel_gen k (snd p))) (ret (true, true))
                      (ifE (opt_call (g_application (fst p)) (fun k => crel_gen k (snd p))) (ret (true, true))
                      (ret (false, snd st)))))
              items (ret (false, false)).

  Definition rel_part (group : list gtxn) (txn : gtxn) : py bool :=
    bind (bind (bind (attr_group_relative_indexes group) (fun tmp4 => txn_dict_get txn tmp4)) (fun tmp5 => ret (dict_items tmp5)))
         (fun items => bind (rel_loop items) (fun tmp10 => if snd tmp10 then ret false else ret true)).

  (* the generated decision IS this text (conversion: any change of the translated statements breaks it) *)
  Lemma txn_vulnerable_gen_unfold group txn :
    txn_vulnerable_gen funcs checks dtype vtypes group txn =
    if (String.eqb dtype "STATELESS" && negb (g_has_logic_sig txn))%bool then ret false else
    if (String.eqb dtype "STATEFULL" && negb (opt_is_some (g_application txn)))%bool then ret false else
    if match vtypes with Some l => negb (in_types (g_type txn) l) | None => false end then ret false else
    ifE (opt_call (g_logic_sig txn) (fun k => cif_gen k (attr_absoulte_index txn))) (ret false)
    (ifE (opt_call (g_application txn) (fun k => cif_gen k (attr_absoulte_index txn))) (ret false)
    (match attr_absoulte_index txn with
     | Some i => bind (abs_loop group i) (fun tmp14 => if snd tmp14 then ret false else rel_part group txn)
     | None => rel_part group txn
     end)).
  Proof. reflexivity. Qed.

  (* ---------------------------------------------------------------- the pieces *)
  Lemma own_eq group t (o : option nat) :
    txn_ok group t -> (forall k, o = Some k -> g_logic_sig t = Some k \/ g_application t = Some k) ->
    opt_call o (fun k => cif_gen k (attr_absoulte_index t)) = Some (opt_check o (fun k => cif k (g_abs t))).
  Proof.
    intros (Hrefs & Habs & _) Ho. apply opt_call_eq. intros k Hk.
    destruct (Hrefs k (Ho k Hk)) as [Hdef Hidx]. unfold attr_absoulte_index.
    apply contract_checks_its_field_gen_eq; assumption.
  Qed.

  Lemma abs_loop_eq group (i : N) :
    group_ok group -> (i < MAX_GROUP_SIZE)%N ->
    abs_loop group (Z.of_N i) =
    Some (if existsb (fun o => opt_check (g_logic_sig o) (fun k => cabs k i) || opt_check (g_application o) (fun k => cabs k i)) group
          then (true, true) else (false, false)).
  Proof.
    intros Hok Hi. unfold abs_loop.
    rewrite (break_loop (fun o => opt_call (g_logic_sig o) (fun k => cabs_gen k (Z.of_N i)))
                        (fun o => opt_call (g_application o) (fun k => cabs_gen k (Z.of_N i)))
                        (fun o => opt_check (g_logic_sig o) (fun k => cabs k i))
                        (fun o => opt_check (g_application o) (fun k => cabs k i))).
    - reflexivity.
    - intros o Ho. apply opt_call_eq. intros k Hk.
      destruct (group_ok_txn group o Hok Ho) as (Hrefs & _ & _).
      apply contract_checks_txn_at_absolute_index_gen_eq; [exact (proj1 (Hrefs k (or_introl Hk))) | exact Hi].
    - intros o Ho _. apply opt_call_eq. intros k Hk.
      destruct (group_ok_txn group o Hok Ho) as (Hrefs & _ & _).
      apply contract_checks_txn_at_absolute_index_gen_eq; [exact (proj1 (Hrefs k (or_intror Hk))) | exact Hi].
  Qed.

  Lemma rel_part_eq group t :
    group_ok group -> In t group ->
    rel_part group t = Some (negb (test_rel funcs checks group t)).
  Proof.
    intros Hok Ht. pose proof Hok as [Hnd _].
    destruct (group_relative_indexes_items_eq group t Hnd (group_ok_resolvable group Hok) Ht) as (l & Hl & Hmap & Hkeys).
    unfold rel_part. rewrite Hl. cbn [bind ret]. unfold dict_items, rel_loop.
    assert (Hoff : forall p, In p l -> offset_in_range (snd p)).
    { intros p Hp. assert (Hin : In (idp p) (relative_accessors group t)) by (rewrite <- Hmap; apply in_map; exact Hp).
      destruct (relative_accessors_sound group t _ _ Hin) as (other & Ho & _ & Hrel).
      destruct (group_ok_txn group other Hok Ho) as (_ & _ & Hr). exact (proj1 (Hr _ _ Hrel)). }
    rewrite (break_loop (fun p : gtxn * Z => opt_call (g_logic_sig (fst p)) (fun k => crel_gen k (snd p)))
                        (fun p : gtxn * Z => opt_call (g_application (fst p)) (fun k => crel_gen k (snd p)))
                        (fun p : gtxn * Z => opt_check (g_logic_sig (fst p)) (fun k => crel k (snd p)))
                        (fun p : gtxn * Z => opt_check (g_application (fst p)) (fun k => crel k (snd p)))).
    - cbn [bind]. unfold test_rel. rewrite <- Hmap, existsb_map.
      match goal with |- _ = Some (negb (existsb ?G l)) =>
        rewrite (existsb_ext_in G (fun p : gtxn * Z => opt_check (g_logic_sig (fst p)) (fun k => crel k (snd p))
                                                     || opt_check (g_application (fst p)) (fun k => crel k (snd p))) l)
      end.
      + destruct (existsb _ l); reflexivity.
      + intros p Hp. unfold idp. rewrite (find_by_id group (fst p) Hnd (Hkeys p Hp)). reflexivity.
    - intros p Hp. apply opt_call_eq. intros k Hk.
      destruct (group_ok_txn group (fst p) Hok (Hkeys p Hp)) as (Hrefs & _ & _).
      apply contract_checks_using_relative_index_gen_eq; [exact (proj1 (Hrefs k (or_introl Hk))) | exact (Hoff p Hp)].
    - intros p Hp _. apply opt_call_eq. intros k Hk.
      destruct (group_ok_txn group (fst p) Hok (Hkeys p Hp)) as (Hrefs & _ & _).
      apply contract_checks_using_relative_index_gen_eq; [exact (proj1 (Hrefs k (or_intror Hk))) | exact (Hoff p Hp)].
  Qed.

  (* ---------------------------------------------------------------- the decision *)
  Theorem txn_vulnerable_gen_eq group t :
    group_ok group -> In t group ->
    txn_vulnerable_gen funcs checks dtype vtypes group t = Some (vuln group t).
  Proof.
    intros Hok Ht. pose proof (group_ok_txn group t Hok Ht) as Htok.
    rewrite txn_vulnerable_gen_unfold, txn_vulnerable_tests.
    unfold test_stateless, test_statefull, test_type, test_own, test_abs.
    destruct (String.eqb dtype "STATELESS" && negb (g_has_logic_sig t))%bool; [reflexivity|].
    replace (negb (opt_is_some (g_application t))) with (match g_application t with None => true | Some _ => false end)
      by (destruct (g_application t); reflexivity).
    destruct (String.eqb dtype "STATEFULL" && match g_application t with None => true | Some _ => false end)%bool; [reflexivity|].
    change (in_types (g_type t)) with (LeafPrelude.smem (g_type t)).
    destruct (match vtypes with Some l => negb (LeafPrelude.smem (g_type t) l) | None => false end); [reflexivity|].
    rewrite (own_eq group t (g_logic_sig t) Htok (fun k Hk => or_introl Hk)).
    rewrite (own_eq group t (g_application t) Htok (fun k Hk => or_intror Hk)).
    cbn [ifE negb andb].
    destruct (opt_check (g_logic_sig t) (fun k => cif k (g_abs t))); [reflexivity|].
    destruct (opt_check (g_application t) (fun k => cif k (g_abs t))); [reflexivity|].
    cbn [orb negb andb]. unfold attr_absoulte_index.
    destruct (g_abs t) as [i|] eqn:Eabs; cbn [option_map].
    - destruct Htok as (_ & Habs & _).
      rewrite (abs_loop_eq group i Hok (Habs i Eabs)). cbn [bind].
      destruct (existsb _ group); cbn [snd negb andb]; [reflexivity|].
      apply rel_part_eq; assumption.
    - cbn [negb andb]. apply rel_part_eq; assumption.
  Qed.
End VerdictGen.
Print Assumptions txn_vulnerable_gen_eq.

(* ====================================================================== *)
(* 4. The group loop and the ids read off the output                        *)
(* ====================================================================== *)
Lemma filter_existsb_false {A} (p : A -> bool) l : existsb p l = false -> filter p l = [].
Proof.
  induction l as [|a l IH]; [reflexivity|]. simpl. destruct (p a); [discriminate|]. exact IH.
Qed.

Section GroupLoop.
  Variable funcs : list (func * fn_result).
  Variable checks : bctx -> bool.
  Variable dtype : string.
  Variable vtypes : option (list string).

  Local Notation vuln := (txn_vulnerable funcs checks dtype vtypes).
  Local Notation tv_gen := (txn_vulnerable_gen funcs checks dtype vtypes).
  Local Notation detect_gen := (detect_missing_tx_field_validations_group_complete_gen funcs checks dtype vtypes).
  Local Notation vdict := (list (gtxn * list nat)).

  (* ---------------------------------------------------------------- the text of the loops *)
  Definition record_gen (txn : gtxn) (vt : vdict) : py (bool * vdict) :=
    if String.eqb dtype "STATELESS" then
      match g_logic_sig txn with
      | Some k => ret (true, txn_dict_set txn [k] vt)
      | None => ret (true, txn_dict_set txn [] vt)
      end
    else if String.eqb dtype "STATEFULL" then
      match g_application txn with
      | Some k => ret (true, txn_dict_set txn [k] vt)
      | None => ret (true, txn_dict_set txn [] vt)
      end
    else ret (true, vt).

  Definition txn_step (group : list gtxn) (acc : py (bool * vdict)) (txn : gtxn) : py (bool * vdict) :=
    bind acc (fun st => ifE (tv_gen group txn) (record_gen txn (snd st)) (ret (fst st, snd st))).

  Definition group_step (acc : py (list (list gtxn * vdict))) (group_txn : list gtxn) : py (list (list gtxn * vdict)) :=
    bind acc (fun st =>
    bind (fold_left (txn_step group_txn) group_txn (ret (false, []))) (fun tmp3 =>
    if fst tmp3 then ret (st ++ [(group_txn, snd tmp3)]) else ret st)).

  (* the generated function IS these loops (conversion) *)
  Lemma detect_gen_unfold groups :
    detect_gen groups = bind (fold_left group_step groups (ret [])) (fun tmp4 => ret tmp4).
  Proof. reflexivity. Qed.

  (* ---------------------------------------------------------------- what is recorded *)
  (* the detector types for which the record part stores the transaction *)
  Definition records : bool := (String.eqb dtype "STATELESS" || String.eqb dtype "STATEFULL")%bool.
  Definition entry (t : gtxn) : gtxn * list nat :=
    (t, if String.eqb dtype "STATELESS" then match g_logic_sig t with Some k => [k] | None => [] end
        else match g_application t with Some k => [k] | None => [] end).

  Lemma record_gen_eq t (vt : vdict) :
    (forall kv, In kv vt -> txn_eqb (fst kv) t = false) ->
    record_gen t vt = Some (true, if records then vt ++ [entry t] else vt).
  Proof.
    intros Hnew. unfold record_gen, records, entry, txn_dict_set.
    destruct (String.eqb dtype "STATELESS"); cbn [orb].
    - destruct (g_logic_sig t); rewrite (dict_set_new txn_eqb t _ vt Hnew); reflexivity.
    - destruct (String.eqb dtype "STATEFULL").
      + destruct (g_application t); rewrite (dict_set_new txn_eqb t _ vt Hnew); reflexivity.
      + reflexivity.
  Qed.

  Lemma txn_loop_spec group :
    group_ok funcs group ->
    forall ts (vt : vdict) iv, incl ts group -> NoDup (map g_id (map fst vt ++ ts)) ->
    fold_left (txn_step group) ts (Some (iv, vt)) =
    Some ((iv || existsb (vuln group) ts)%bool, if records then vt ++ map entry (filter (vuln group) ts) else vt).
  Proof.
    intros Hok. induction ts as [|a ts IH]; intros vt iv Hincl Hnd.
    - cbn [fold_left existsb filter map]. rewrite orb_false_r, app_nil_r. destruct records; reflexivity.
    - assert (Ha : In a group) by (apply Hincl; left; reflexivity).
      cbn [fold_left]. unfold txn_step at 2. cbn [bind fst snd].
      rewrite (txn_vulnerable_gen_eq funcs checks dtype vtypes group a Hok Ha).
      cbn [existsb filter]. destruct (vuln group a); cbn [ifE].
      + rewrite record_gen_eq.
        2:{ intros kv Hkv. destruct (txn_eqb (fst kv) a) eqn:E; [|reflexivity]. apply txn_eqb_eq_ids in E. exfalso.
            rewrite map_app in Hnd. simpl in Hnd. apply NoDup_remove_2 in Hnd. apply Hnd.
            apply in_or_app. left. rewrite <- E. apply in_map. apply in_map. exact Hkv. }
        destruct records eqn:Er.
        * rewrite IH.
          -- cbn [orb map]. rewrite orb_true_r, <- app_assoc. reflexivity.
          -- intros x Hx. apply Hincl. right. exact Hx.
          -- replace (map fst (vt ++ [entry a]) ++ ts) with (map fst vt ++ a :: ts); [exact Hnd|].
             rewrite map_app. cbn [map entry fst]. rewrite <- app_assoc. reflexivity.
        * rewrite IH.
          -- cbn [orb]. rewrite orb_true_r. reflexivity.
          -- intros x Hx. apply Hincl. right. exact Hx.
          -- rewrite map_app in Hnd |- *. simpl in Hnd. apply NoDup_remove_1 in Hnd. exact Hnd.
      + unfold ret. rewrite IH.
        * cbn [orb]. reflexivity.
        * intros x Hx. apply Hincl. right. exact Hx.
        * rewrite map_app in Hnd |- *. simpl in Hnd. apply NoDup_remove_1 in Hnd. exact Hnd.
  Qed.

  Lemma group_loop_eq group :
    group_ok funcs group ->
    fold_left (txn_step group) group (ret (false, [])) =
    Some (existsb (vuln group) group, if records then map entry (filter (vuln group) group) else []).
  Proof.
    intros Hok. unfold ret. rewrite (txn_loop_spec group Hok group [] false (incl_refl group)); [reflexivity|].
    exact (proj1 Hok).
  Qed.

  (* what detect_missing_tx_field_validations_group_complete returns on a list of well-formed groups *)
  Definition group_output (group : list gtxn) : list (list gtxn * vdict) :=
    if existsb (vuln group) group
    then [(group, if records then map entry (filter (vuln group) group) else [])]
    else [].

  Lemma group_step_some out g :
    group_step (Some out) g =
    bind (fold_left (txn_step g) g (ret (false, []))) (fun tmp3 =>
    if fst tmp3 then ret (out ++ [(g, snd tmp3)]) else ret out).
  Proof. reflexivity. Qed.

  Lemma group_steps_eq : forall groups out,
    Forall (group_ok funcs) groups ->
    fold_left group_step groups (Some out) = Some (out ++ flat_map group_output groups).
  Proof.
    induction groups as [|g groups IH]; intros out Hok.
    - cbn [fold_left flat_map]. rewrite app_nil_r. reflexivity.
    - inversion Hok as [|g' gs Hg Hgs]; subst. cbn [fold_left flat_map]. rewrite group_step_some.
      rewrite (group_loop_eq g Hg). cbn [bind fst snd]. unfold group_output at 1.
      destruct (existsb (vuln g) g).
      + unfold ret. rewrite IH by exact Hgs. rewrite <- app_assoc. reflexivity.
      + unfold ret. rewrite IH by exact Hgs. reflexivity.
  Qed.

  Theorem detect_group_complete_gen_eq groups :
    Forall (group_ok funcs) groups ->
    detect_gen groups = Some (flat_map group_output groups).
  Proof.
    intros Hok. rewrite detect_gen_unfold. unfold ret at 1. rewrite (group_steps_eq groups [] Hok). reflexivity.
  Qed.

  Lemma entry_ids l : map (fun kv : gtxn * list nat => g_id (fst kv)) (map entry l) = map g_id l.
  Proof. rewrite map_map. reflexivity. Qed.

  (* the ids of the vulnerable transactions, in order, for EVERY detector type *)
  Theorem group_verdict_gen_eq_general group :
    group_ok funcs group ->
    group_verdict_gen funcs checks dtype vtypes group =
    Some (if records then group_verdict funcs checks dtype vtypes group else []).
  Proof.
    intros Hok. unfold group_verdict_gen.
    rewrite (detect_group_complete_gen_eq [group] (Forall_cons _ Hok (Forall_nil _))).
    cbn [bind ret flat_map]. rewrite app_nil_r. unfold group_output, group_verdict, dict_items.
    destruct (existsb (vuln group) group) eqn:E.
    - cbn [flat_map snd]. rewrite app_nil_r. destruct records; [rewrite entry_ids|]; reflexivity.
    - cbn [flat_map]. rewrite (filter_existsb_false _ _ E). destruct records; reflexivity.
  Qed.

  (* the statement for the detector types the function is called with (every detector that calls
     detect_missing_tx_field_validations_group_complete has TYPE STATELESS or STATEFULL) *)
  Theorem group_verdict_gen_eq group :
    dtype = "STATELESS" \/ dtype = "STATEFULL" ->
    group_ok funcs group ->
    group_verdict_gen funcs checks dtype vtypes group = Some (group_verdict funcs checks dtype vtypes group).
  Proof.
    intros Hd Hok. rewrite (group_verdict_gen_eq_general group Hok). unfold records.
    destruct Hd as [-> | ->]; reflexivity.
  Qed.

  (* ---------------------------------------------------------------- GroupLemmas.vulnerable_iff transported *)
  Theorem txn_vulnerable_gen_iff group t :
    group_ok funcs group -> In t group ->
    (tv_gen group t = Some true <->
     eligible dtype vtypes t /\ ~ own_cleared funcs checks t /\ ~ abs_cleared funcs checks group t /\
     ~ rel_cleared funcs checks group t).
  Proof.
    intros Hok Ht. rewrite (txn_vulnerable_gen_eq funcs checks dtype vtypes group t Hok Ht).
    rewrite <- (vulnerable_iff funcs checks dtype vtypes group t). split; [intros E; inversion E; reflexivity | intros ->; reflexivity].
  Qed.

  Theorem txn_vulnerable_gen_total group t :
    group_ok funcs group -> In t group -> exists b, tv_gen group t = Some b.
  Proof. intros Hok Ht. eexists. apply txn_vulnerable_gen_eq; assumption. Qed.

  Theorem group_verdict_gen_spec group ids :
    dtype = "STATELESS" \/ dtype = "STATEFULL" ->
    group_ok funcs group ->
    group_verdict_gen funcs checks dtype vtypes group = Some ids ->
    forall id, In id ids <->
      exists t, In t group /\ g_id t = id /\
        eligible dtype vtypes t /\ ~ own_cleared funcs checks t /\ ~ abs_cleared funcs checks group t /\
        ~ rel_cleared funcs checks group t.
  Proof.
    intros Hd Hok E id. rewrite (group_verdict_gen_eq group Hd Hok) in E. inversion E; subst ids.
    rewrite group_verdict_spec. split.
    - intros (t & Ht & Eid & Hv). exists t. split; [exact Ht|]. split; [exact Eid|]. apply vulnerable_iff. exact Hv.
    - intros (t & Ht & Eid & Hv). exists t. split; [exact Ht|]. split; [exact Eid|]. apply vulnerable_iff. exact Hv.
  Qed.
End GroupLoop.
Print Assumptions detect_group_complete_gen_eq.
Print Assumptions group_verdict_gen_eq_general.
Print Assumptions group_verdict_gen_eq.
Print Assumptions txn_vulnerable_gen_iff.
Print Assumptions group_verdict_gen_spec.

(* ====================================================================== *)
(* 5. Outside the hypotheses the two readings DIFFER (witnesses)            *)
(* ====================================================================== *)
Definition f_none : func := mkFunc [] [] 0 [] [] [] None.                       (* no leaf block: every check holds *)
Definition f_leaf : func := mkFunc [] [mkBlock 0 [] [] []] 0 [0] [] [] None.    (* one leaf block *)
Definition r_idx (i : Z) : fn_result := mkRes [] [(0, [i])] [] [] [].           (* own group indices of block 0 = {i} *)
Definition never : bctx -> bool := fun _ => false.

(* (a) two transactions with the same id.  The referrer a1 (no contract) reads t at offset 1; the FIRST transaction
   with id "a" is a2, whose logic-sig validates everything.  Python consults the referrer object itself (a1: nothing
   validates, t is vulnerable); the model looks the accessor up by id and finds a2 (t cleared).  common.py refuses such
   a group ("is repeated in the same group"). *)
Definition wd_funcs : list (func * fn_result) := [(f_none, r_empty); (f_leaf, r_idx 0)].
Definition wd_t : gtxn := mkTxn "t" "Appl" false None (Some 1) None [].
Definition wd_a2 : gtxn := mkTxn "a" "Pay" true (Some 0) None None [].
Definition wd_a1 : gtxn := mkTxn "a" "Pay" false None None None [(1%Z, "t")].
Theorem txn_vulnerable_gen_refuted_duplicate_ids :
  txn_vulnerable wd_funcs never "STATEFULL" None [wd_t; wd_a2; wd_a1] wd_t = false /\
  txn_vulnerable_gen wd_funcs never "STATEFULL" None [wd_t; wd_a2; wd_a1] wd_t = Some true.
Proof. split; vm_compute; reflexivity. Qed.

(* (b) a function index outside the table: the model reads "no check", the generated side has no object to read *)
Definition wb_t : gtxn := mkTxn "t" "Pay" true (Some 0) None None [].
Theorem txn_vulnerable_gen_refuted_dangling_function :
  txn_vulnerable [] never "STATELESS" None [wb_t] wb_t = true /\
  txn_vulnerable_gen [] never "STATELESS" None [wb_t] wb_t = None.
Proof. split; vm_compute; reflexivity. Qed.

(* (c) an absolute index >= MAX_GROUP_SIZE: gtxn_context / absolute_context raise TealerException *)
Definition wc_t : gtxn := mkTxn "t" "Pay" true (Some 0) None (Some 16%N) [].
Theorem txn_vulnerable_gen_refuted_absolute_index :
  txn_vulnerable [(f_leaf, r_empty)] never "STATELESS" None [wc_t] wc_t = true /\
  txn_vulnerable_gen [(f_leaf, r_empty)] never "STATELESS" None [wc_t] wc_t = None.
Proof. split; vm_compute; reflexivity. Qed.

(* (d) a relative offset outside range(-(MAX_GROUP_SIZE-1), MAX_GROUP_SIZE) \ {0}: relative_context raises *)
Definition wo_t : gtxn := mkTxn "t" "Pay" true None None None [].
Definition wo_a (off : Z) : gtxn := mkTxn "a" "Pay" true (Some 0) None None [(off, "t")].
Theorem txn_vulnerable_gen_refuted_offset :
  (txn_vulnerable [(f_leaf, r_empty)] never "STATELESS" None [wo_t; wo_a 16] wo_t = true /\
   txn_vulnerable_gen [(f_leaf, r_empty)] never "STATELESS" None [wo_t; wo_a 16] wo_t = None) /\
  (txn_vulnerable [(f_leaf, r_empty)] never "STATELESS" None [wo_t; wo_a 0] wo_t = true /\
   txn_vulnerable_gen [(f_leaf, r_empty)] never "STATELESS" None [wo_t; wo_a 0] wo_t = None).
Proof. repeat split; vm_compute; reflexivity. Qed.

(* (e) a relative index to a transaction that is not in the group: fill_group_relative_indexes raises KeyError
   (group.group_relative_indexes[other_txn]), the model ignores the entry *)
Definition we_a : gtxn := mkTxn "a" "Pay" true None None None [(1%Z, "zz")].
Theorem fill_gen_refuted_foreign_transaction :
  relative_accessors [wo_t; we_a] wo_t = [] /\
  fill_group_relative_indexes_gen [wo_t; we_a] [] = None /\
  txn_vulnerable [] never "STATELESS" None [wo_t; we_a] wo_t = true /\
  txn_vulnerable_gen [] never "STATELESS" None [wo_t; we_a] wo_t = None.
Proof. repeat split; vm_compute; reflexivity. Qed.

(* (f) an own-index set that is not a set of group indices (cannot come out of the analysis): validated_in_block
   iterates it and gtxn_context raises *)
Definition wf_t : gtxn := mkTxn "t" "Pay" true (Some 0) None None [].
Theorem txn_vulnerable_gen_refuted_indices :
  txn_vulnerable [(f_leaf, r_idx 16)] never "STATELESS" None [wf_t] wf_t = true /\
  txn_vulnerable_gen [(f_leaf, r_idx 16)] never "STATELESS" None [wf_t] wf_t = None.
Proof. split; vm_compute; reflexivity. Qed.

(* (g) a detector type other than STATELESS / STATEFULL: the Python sets is_vulnerable but records NO transaction
   (the group is reported with an empty `transactions` dict); the model lists the vulnerable ids.  No detector calls
   detect_missing_tx_field_validations_group_complete with such a type. *)
Definition wg_t : gtxn := mkTxn "d" "Pay" true None None (Some 4%N) [].
Theorem group_verdict_gen_refuted_detector_type :
  group_verdict [(f_leaf, r_empty)] never "STATELESS_AND_STATEFULL" None [wg_t] = ["d"] /\
  group_verdict_gen [(f_leaf, r_empty)] never "STATELESS_AND_STATEFULL" None [wg_t] = Some [] /\
  detect_missing_tx_field_validations_group_complete_gen [(f_leaf, r_empty)] never "STATELESS_AND_STATEFULL" None [[wg_t]] =
    Some [([wg_t], [])].
Proof. repeat split; vm_compute; reflexivity. Qed.

(* the hypotheses are satisfiable: a well-formed three-transaction group on which everything is exercised *)
Definition ok_funcs : list (func * fn_result) := [(f_leaf, r_idx 0); (f_none, r_empty)].
Definition ok_a : gtxn := mkTxn "a" "Pay" true (Some 0) None (Some 1%N) [(1%Z, "b"); (2%Z, "c"); (3%Z, "b")].
Definition ok_b : gtxn := mkTxn "b" "Pay" true (Some 0) None None [((-1)%Z, "a")].
Definition ok_c : gtxn := mkTxn "c" "Appl" false None (Some 0) (Some 3%N) [((-2)%Z, "a"); ((-1)%Z, "b")].
Example group_ok_example :
  group_verdict_gen ok_funcs never "STATELESS" None [ok_a; ok_b; ok_c] = Some ["a"; "b"] /\
  group_verdict_gen ok_funcs never "STATEFULL" None [ok_a; ok_b; ok_c] = Some ["c"].
Proof. split; vm_compute; reflexivity. Qed.

(* .. and it satisfies group_ok *)
Ltac solve_rel H :=
  vm_compute in H;
  repeat (destruct H as [H|H]; [inversion H; subst; split; [unfold offset_in_range; change (Z.of_N MAX_GROUP_SIZE) with 16%Z; lia | vm_compute; tauto]|]);
  try contradiction.

Lemma fn_defined_0 : fn_defined ok_funcs 0.
Proof. unfold fn_defined. discriminate. Qed.
Lemma fn_indices_ok_0 : fn_indices_ok ok_funcs 0.
Proof.
  intros f r E b Hb. inversion E; subst. vm_compute in Hb. destruct Hb as [<-|[]].
  vm_compute. constructor; [split; [discriminate | reflexivity] | constructor].
Qed.

Lemma group_ok_example_wf : group_ok ok_funcs [ok_a; ok_b; ok_c].
Proof.
  split.
  - cbn. repeat constructor; cbn; intuition discriminate.
  - apply Forall_cons; [split; [|split] | apply Forall_cons; [split; [|split] | apply Forall_cons; [split; [|split] | apply Forall_nil]]].
    + intros k [E|E]; inversion E; subst. split; [exact fn_defined_0 | intros; exact fn_indices_ok_0].
    + intros i E. inversion E; subst. reflexivity.
    + intros off id H. solve_rel H.
    + intros k [E|E]; inversion E; subst. split; [exact fn_defined_0 | intros; exact fn_indices_ok_0].
    + intros i E. discriminate.
    + intros off id H. solve_rel H.
    + intros k [E|E]; inversion E; subst. split; [exact fn_defined_0 | intros; exact fn_indices_ok_0].
    + intros i E. inversion E; subst. reflexivity.
    + intros off id H. solve_rel H.
Qed.

Corollary group_ok_example_eq :
  group_verdict_gen ok_funcs never "STATELESS" None [ok_a; ok_b; ok_c] =
  Some (group_verdict ok_funcs never "STATELESS" None [ok_a; ok_b; ok_c]).
Proof. apply group_verdict_gen_eq; [left; reflexivity | exact group_ok_example_wf]. Qed.

Print Assumptions group_ok_example_wf.
Print Assumptions txn_vulnerable_gen_refuted_duplicate_ids.
Print Assumptions txn_vulnerable_gen_refuted_dangling_function.
Print Assumptions txn_vulnerable_gen_refuted_absolute_index.
Print Assumptions txn_vulnerable_gen_refuted_offset.
Print Assumptions fill_gen_refuted_foreign_transaction.
Print Assumptions txn_vulnerable_gen_refuted_indices.
Print Assumptions group_verdict_gen_refuted_detector_type.
