(* TOTALITY OF THE JOINT PASS (complement of Lemmas/JointGenLemmas.v).  Under the hypotheses of TotalSolver (the
   definedness check defined_okb on the function graph, a finite-height structure TLaws on the domain of every key)
   the regenerated loops for a key LIST -- forward_analyis_loop_gen / backward_analysis_loop_gen, forward_analyis_gen /
   backward_analysis_gen (Gen/SolverGen.v) and joint_pass_gen (Gen/JointGen.v) -- raise no exception and return within
   an explicit iteration budget: joint_bound, the bound TotalSolver.solve_bound of ONE key with the height replaced by
   the SUM of the heights of the keys (a block is re-enqueued when any key changed: the changes of all the keys are
   paid for on the one shared worklist).
     joint_forward_loop_terminates, joint_backward_loop_terminates : the loops, from any start dictionary that
       satisfies the invariants of TotalSolver for every key;
     joint_forward_analyis_terminates, joint_backward_analysis_terminates : the whole methods;
     joint_pass_terminates : one pass of run_analysis;
     joint_pass_total_peq : with JointGenLemmas.joint_pass_solve_peq and TotalSolver.solve_terminates -- for every key
       of the list BOTH the joint pass and the model's per-key solver return, and their results agree up to t_eqb. *)
From Coq Require Import String List NArith ZArith Bool Arith Lia.
From Tealer Require Import Tables LeafPrelude Leaves Syntax Parse Cfg StackAst Keys KeysGen Analysis GraphGen SolverGen
  ConstraintsGen RunGen JointGen Domains SolverLemmas TotalSolver GraphGenLemmas SolverGenLemmas ConstraintsGenLemmas
  RunGenLemmas JointGenLemmas.
Import ListNotations.
Open Scope string_scope.
Open Scope list_scope.

Section JointTotal.
  Variable T : Type.
  Variable t_eqb : T -> T -> bool.
  Variable univ null : string -> T.
  Variable union inter : string -> T -> T -> T.
  Variable single : string -> instr -> nat -> list sval -> T * T.
  Variable f : func.
  Hypothesis Hdef : defined_okb f = true.
  Hypothesis Hcp : cover_prev_P f.
  Hypothesis Hm : main_name_fresh f.
  Variable L : forall k : string, TLaws T t_eqb (univ k) (null k) (union k) (inter k).
  Hypothesis Hec : forall k pb s ec, In pb (fn_blocks f) ->
    edge_constraint T (univ k) (null k) (union k) (inter k) (single k) f pb s = Some ec ->
    tl_okc _ _ _ _ _ _ (L k) ec.

  Notation state := (Analysis.state T).
  Notation gdict := (SolverGen.gdict T).
  Notation lookup := (Analysis.lookup T).
  Notation update := (Analysis.update T).
  Notation kget := (kdict_get T).
  Notation kset := (kdict_set T).
  Notation view := (ddict_get T).
  Notation U := (ids f).
  Notation ok k := (tl_ok _ _ _ _ _ _ (L k)).
  Notation okc k := (tl_okc _ _ _ _ _ _ (L k)).
  Notation HH k := (tl_H _ _ _ _ _ _ (L k)).
  Notation okst k := (TotalSolver.okst T t_eqb (univ k) (null k) (union k) (inter k) (L k)).
  Notation defect k := (TotalSolver.defect T t_eqb (univ k) (null k) (union k) (inter k) (L k)).
  Notation covers := (TotalSolver.covers T f).
  Notation asc_fwd k := (TotalSolver.asc_fwd T t_eqb (univ k) (null k) (union k) (inter k) (single k) f (L k)).
  Notation asc_bwd k := (TotalSolver.asc_bwd T t_eqb (univ k) (null k) (union k) (inter k) f (L k)).
  Notation fstep := (SolverGenLemmas.fstep T t_eqb univ null union inter single f).
  Notation bstep := (SolverGenLemmas.bstep T t_eqb null union inter f).
  Notation gstep := (SolverGenLemmas.gstep T t_eqb inter).
  Notation merge_fwd := (merge_information_forward_gen T t_eqb univ null union inter single f).
  Notation loop_fwd := (forward_analyis_loop_gen T t_eqb univ null union inter single f).
  Notation analysis_fwd := (forward_analyis_gen T t_eqb univ null union inter single f).
  Notation merge_bwd := (merge_information_backward_gen T t_eqb univ null union inter f).
  Notation loop_bwd := (backward_analysis_loop_gen T t_eqb univ null union inter f).
  Notation analysis_bwd := (backward_analysis_gen T t_eqb univ null union inter f).
  Notation pass := (joint_pass_gen T t_eqb univ null union inter single f).
  Notation jfold := (JointGenLemmas.jfold T).
  Notation fwd_st0 k := (SolverLemmas.fwd_st0 T (null k) f).
  Notation bwd_st0 k := (SolverLemmas.bwd_st0 T (null k) f).

  (* ---------------------------------------------------------------- the sum of a per-key measure *)
  Definition msum (m : string -> state -> nat) (keys : list string) (g : gdict) : nat :=
    list_sum (map (fun k => m k (view g k)) keys).

  Lemma view_kset_same (g : gdict) k s : view (kset g k s) k = s.
  Proof. unfold ddict_get. rewrite kdict_get_set_same. reflexivity. Qed.

  Lemma view_kset_other (g : gdict) k k' s : k <> k' -> view (kset g k s) k' = view g k'.
  Proof. intros H. unfold ddict_get. rewrite (kdict_get_set_other T g k k' s H). reflexivity. Qed.

  Lemma msum_kset_other m keys g k s : ~ In k keys -> msum m keys (kset g k s) = msum m keys g.
  Proof.
    intros Hn. unfold msum. f_equal. apply map_ext_in. intros k' Hk'.
    rewrite view_kset_other; [reflexivity|]. intros ->. contradiction.
  Qed.

  Lemma msum_ext m keys g g' : (forall k, In k keys -> kget g' k = kget g k) -> msum m keys g' = msum m keys g.
  Proof.
    intros H. unfold msum. f_equal. apply map_ext_in. intros k Hk. unfold ddict_get. rewrite (H k Hk). reflexivity.
  Qed.

  (* ---------------------------------------------------------------- the loop over the keys succeeds *)
  Lemma jfold_total (I : string -> state -> Prop) (m : string -> state -> nat) step : forall keys,
    NoDup keys ->
    (forall k st, In k keys -> I k st ->
       exists ch st', step k st = Some (ch, st') /\ I k st' /\ (ch = false -> st' = st) /\ (ch = true -> m k st' < m k st)) ->
    forall gr u, (forall k, In k keys -> exists st, kget gr k = Some st /\ I k st) ->
    exists gr' u', jfold step keys gr u = Some (gr', u') /\
      (forall k, In k keys -> exists st, kget gr' k = Some st /\ I k st) /\
      (forall k, ~ In k keys -> kget gr' k = kget gr k) /\
      msum m keys gr' <= msum m keys gr /\
      (u' = true -> u = true \/ msum m keys gr' < msum m keys gr).
  Proof.
    induction keys as [|k ks IH]; intros Hnd Hstep gr u Hpres.
    - exists gr, u. cbn [JointGenLemmas.jfold]. repeat split; auto; try (intros k0 []); try lia.
    - apply NoDup_cons_iff in Hnd. destruct Hnd as [Hnk Hnd].
      destruct (Hpres k (or_introl eq_refl)) as (st & Hg & Hi).
      destruct (Hstep k st (or_introl eq_refl) Hi) as (ch & st1 & Hs & Hi1 & Hsame & Hlt).
      cbn [JointGenLemmas.jfold]. rewrite Hg, Hs.
      destruct (IH Hnd (fun k' st' Hk' => Hstep k' st' (or_intror Hk')) (kset gr k st1) (if ch then true else u))
        as (gr' & u' & Hj & P1 & P2 & P3 & P4).
      { intros k' Hk'. destruct (Hpres k' (or_intror Hk')) as (st' & Hg' & Hi').
        exists st'. split; [|exact Hi']. rewrite kdict_get_set_other; [exact Hg'|]. intros ->. contradiction. }
      exists gr', u'. split; [exact Hj|].
      assert (Hvk : view gr' k = st1).
      { unfold ddict_get. rewrite (P2 k Hnk), kdict_get_set_same. reflexivity. }
      assert (Hvk0 : view gr k = st) by (unfold ddict_get; rewrite Hg; reflexivity).
      assert (Hks : msum m ks (kset gr k st1) = msum m ks gr) by (apply msum_kset_other; exact Hnk).
      assert (Hle : m k st1 <= m k st).
      { destruct ch; [specialize (Hlt eq_refl); lia|]. rewrite (Hsame eq_refl). lia. }
      split; [|split; [|split]].
      + intros k' [<-|Hk']; [|apply P1; exact Hk'].
        exists st1. split; [|exact Hi1]. rewrite (P2 k Hnk). apply kdict_get_set_same.
      + intros k' Hn. rewrite P2 by (intros Hi'; apply Hn; right; exact Hi').
        apply kdict_get_set_other. intros ->. apply Hn. left. reflexivity.
      + unfold msum, list_sum in *. cbn [map fold_right]. rewrite Hvk, Hvk0. lia.
      + intros Hu. unfold msum, list_sum in *. cbn [map fold_right]. rewrite Hvk, Hvk0.
        destruct (P4 Hu) as [Hc|Hc].
        * destruct ch; [right; specialize (Hlt eq_refl); lia|left; exact Hc].
        * right. lia.
  Qed.

  Lemma jfold_ext step step' : (forall k st, step k st = step' k st) ->
    forall keys gr u, jfold step keys gr u = jfold step' keys gr u.
  Proof.
    intros He keys. induction keys as [|k ks IH]; intros gr u; [reflexivity|]. cbn [JointGenLemmas.jfold].
    destruct (kget gr k) as [st|]; [|reflexivity]. rewrite He. destruct (step' k st) as [[ch st']|]; [apply IH|reflexivity].
  Qed.

  Lemma merge_fwd_jfold keys b gr bcs :
    merge_fwd keys b gr bcs =
    match jfold (fun k st => fstep k (view bcs k) st b) keys gr false with
    | Some (gr', u') => Some (u', gr')
    | None => None
    end.
  Proof.
    rewrite merge_fwd_unfold. unfold ret at 1. rewrite key_fold_jfold.
    rewrite (jfold_ext _ (fun k st => fstep k (view bcs k) st b)).
    - destruct (jfold _ keys gr false) as [[g u]|]; reflexivity.
    - intros k st. apply gstep_call_fstep.
  Qed.

  Lemma merge_bwd_jfold keys b xb gl bcs :
    fblock f b = Some xb -> leaf_global f xb = false ->
    merge_bwd keys b gl bcs =
    match jfold (fun k st => bstep k (view bcs k) st b) keys gl false with
    | Some (gl', u') => Some (u', gl')
    | None => None
    end.
  Proof.
    intros Hb Hl. rewrite merge_bwd_unfold, (leaf_block_global_gen_eq f b xb Hb), Hl. cbn [ifE].
    unfold ret at 1. rewrite key_fold_jfold.
    rewrite (jfold_ext _ (fun k st => bstep k (view bcs k) st b)).
    - destruct (jfold _ keys gl false) as [[g u]|]; reflexivity.
    - intros k st. apply (gstep_call_bstep T t_eqb univ null union inter f k b xb _ st Hm Hb Hl).
  Qed.

  (* ---------------------------------------------------------------- the invariants of TotalSolver, per key *)
  Definition bc_ok (bcs : gdict) (k : string) : Prop :=
    (forall b, In b U -> exists v, lookup (view bcs k) b = Some v) /\
    (forall b v, lookup (view bcs k) b = Some v -> okc k v).
  Definition finv (bcs : gdict) (k : string) (st : state) : Prop :=
    covers st /\ okst k st /\ asc_fwd k (lookup (view bcs k)) st.
  Definition binv (bcs : gdict) (k : string) (st : state) : Prop :=
    covers st /\ okst k st /\ asc_bwd k (lookup (view bcs k)) st.

  Lemma fstep_total bcs k st b :
    bc_ok bcs k -> In b U -> finv bcs k st ->
    exists ch st', fstep k (view bcs k) st b = Some (ch, st') /\ finv bcs k st' /\
      (ch = false -> st' = st) /\ (ch = true -> defect k st' < defect k st).
  Proof.
    intros [Hbc Hbco] Hb (Hc & Hs & Hasc).
    destruct (forward_step T t_eqb (univ k) (null k) (union k) (inter k) (single k) f Hdef Hcp _ Hbc 0 b [] st Hb Hc)
      as (xb & ri & bc & old & nx & Hxb & Hri & Hbcv & Hold & Hnx & _ & _).
    unfold SolverGenLemmas.fstep, SolverGenLemmas.gstep. rewrite Hxb, Hri, Hbcv, Hold.
    destruct (t_eqb (inter k ri bc) old) eqn:Heq.
    - exists false, st. repeat split; auto. discriminate.
    - exists true, (update st b (inter k ri bc)).
      assert (Hri_ok : ok k ri) by (eapply reachin_ok; [apply Hec|exact Hs|exact Hri]).
      assert (Hnew : ok k (inter k ri bc)) by (apply (tl_ok_inter _ _ _ _ _ _ (L k)); [assumption|eapply Hbco; eauto]).
      assert (Hold_ok : ok k old) by (eapply Hs; eauto).
      split; [reflexivity|]. split; [|split; [discriminate|]].
      + split; [apply covers_update; assumption|]. split; [apply okst_update; assumption|].
        eapply asc_fwd_update; eauto.
      + intros _. apply defect_update with (old := old); [exact Hold| |apply (tl_mu_bound _ _ _ _ _ _ (L k)); exact Hnew].
        apply (tl_mu_strict _ _ _ _ _ _ (L k)); try assumption. eapply Hasc; eauto.
  Qed.

  Lemma bstep_total bcs k st b :
    bc_ok bcs k -> In b U -> binv bcs k st ->
    exists ch st', bstep k (view bcs k) st b = Some (ch, st') /\ binv bcs k st' /\
      (ch = false -> st' = st) /\ (ch = true -> defect k st' < defect k st).
  Proof.
    intros [Hbc Hbco] Hb (Hc & Hs & Hasc).
    destruct (backward_step T t_eqb (null k) (union k) (inter k) f Hdef _ Hbc 0 b [] st Hb Hc)
      as (xb & Hxb & [(Hl & _)|(Hl & li & bc & old & ps & Hli & Hbcv & Hold & Hps & _ & _)]);
      unfold SolverGenLemmas.bstep, SolverGenLemmas.gstep; rewrite Hxb, Hl.
    - exists false, st. repeat split; auto. discriminate.
    - rewrite Hli, Hbcv, Hold.
      destruct (t_eqb (inter k li bc) old) eqn:Heq.
      + exists false, st. repeat split; auto. discriminate.
      + exists true, (update st b (inter k li bc)).
        assert (Hli_ok : ok k li) by (eapply livein_ok; [exact Hs|exact Hli]).
        assert (Hnew : ok k (inter k li bc)) by (apply (tl_ok_inter _ _ _ _ _ _ (L k)); [assumption|eapply Hbco; eauto]).
        assert (Hold_ok : ok k old) by (eapply Hs; eauto).
        split; [reflexivity|]. split; [|split; [discriminate|]].
        * split; [apply covers_update; assumption|]. split; [apply okst_update; assumption|].
          eapply asc_bwd_update; eauto.
        * intros _. apply defect_update with (old := old); [exact Hold| |apply (tl_mu_bound _ _ _ _ _ _ (L k)); exact Hnew].
          apply (tl_mu_strict _ _ _ _ _ _ (L k)); try assumption. eapply Hasc; eauto.
  Qed.

  (* ---------------------------------------------------------------- graph facts about a block (key independent) *)
  Lemma block_next b : In b U ->
    exists xb nx, fblock f b = Some xb /\ next_global f xb = Some nx /\
      (forall x, In x (nx ++ next_rp f xb) -> In x U) /\ length (nx ++ next_rp f xb) <= Kdeg f.
  Proof.
    intros Hb. destruct (proj1 (fblock_ids f b) Hb) as [xb Hxb].
    destruct (def_next f Hdef xb (fblock_In f b xb Hxb)) as [nx [Hnx Hin]].
    exists xb, nx. repeat split; auto.
    pose proof (proj1 (Kdeg_ge f xb (fblock_In f b xb Hxb))) as Ho. unfold out_deg in Ho. rewrite Hnx in Ho. exact Ho.
  Qed.

  Lemma block_prev b : In b U ->
    exists xb ps, fblock f b = Some xb /\ prev_global f xb = Some ps /\
      (forall x, In x (ps ++ prev_cs f xb) -> In x U) /\ length (ps ++ prev_cs f xb) <= Kdeg f.
  Proof.
    intros Hb. destruct (proj1 (fblock_ids f b) Hb) as [xb Hxb].
    destruct (def_prev f Hdef xb (fblock_In f b xb Hxb)) as [ps [Hps Hin]].
    exists xb, ps. repeat split; auto.
    - intros x Hx. apply in_app_or in Hx. destruct Hx as [Hx|Hx]; [auto|].
      unfold prev_cs in Hx. destruct (is_sub_return_point f xb); [|destruct Hx].
      destruct (callsub_block_of f xb) as [c|] eqn:Hcs; [|destruct Hx].
      destruct Hx as [<-|[]]. eapply def_cs; eauto.
    - pose proof (proj2 (Kdeg_ge f xb (fblock_In f b xb Hxb))) as Ho. unfold in_deg in Ho. rewrite Hps in Ho. exact Ho.
  Qed.

  Notation dsum := (msum (fun k => defect k)).

  (* ---------------------------------------------------------------- the loops terminate *)
  Theorem joint_forward_loop_terminates : forall fuel keys wl bcs gr,
    NoDup keys -> (forall k, In k keys -> bc_ok bcs k) -> (forall x, In x wl -> In x U) ->
    (forall k, In k keys -> exists st, kget gr k = Some st /\ finv bcs k st) ->
    length wl + Kdeg f * dsum keys gr < fuel ->
    exists gr', loop_fwd fuel keys wl bcs gr = Some (Some ([], gr')) /\
      (forall k, In k keys -> exists st, kget gr' k = Some st /\ finv bcs k st) /\
      (forall k, ~ In k keys -> kget gr' k = kget gr k).
  Proof.
    intros fuel keys. induction fuel as [|fu IH]; intros wl bcs gr Hnd Hbc Hwl Hpres Hfuel; [lia|].
    destruct wl as [|b wl].
    - exists gr. split; [reflexivity|]. split; auto.
    - assert (Hb : In b U) by (apply Hwl; left; reflexivity).
      assert (Htl : forall x, In x wl -> In x U) by (intros x Hx; apply Hwl; right; exact Hx).
      cbn [forward_analyis_loop_gen]. cbv zeta. cbn [list_nonempty list_head list_tail tl bind].
      rewrite merge_fwd_jfold.
      destruct (jfold_total (finv bcs) (fun k => defect k) (fun k st => fstep k (view bcs k) st b) keys Hnd
                  (fun k st Hk Hi => fstep_total bcs k st b (Hbc k Hk) Hb Hi) gr false Hpres)
        as (gr1 & u1 & Hj & P1 & P2 & P3 & P4).
      rewrite Hj. cbn [bind fst snd]. cbn [length] in Hfuel.
      destruct u1.
      + destruct (block_next b Hb) as (xb & nx & Hxb & Hnx & Hin & Hlen).
        rewrite (return_point_gen_eq f b xb Hxb). cbn [bind].
        rewrite (next_blocks_global_gen_eq f b xb Hm Hxb), Hnx. cbn [bind ret].
        rewrite append_fold_eq. cbn [bind].
        change (if f_is_callsub f xb then match sub_return_point xb with Some r => [r] | None => [] end else [])
          with (next_rp f xb).
        destruct (IH (append_new wl (nx ++ next_rp f xb)) bcs gr1 Hnd Hbc) as (gr' & Hl & Q1 & Q2).
        * intros x Hx. apply append_new_In in Hx. destruct Hx as [Hx|Hx]; auto.
        * exact P1.
        * pose proof (append_new_length (nx ++ next_rp f xb) wl) as Hal.
          destruct (P4 eq_refl) as [Hc|Hc]; [discriminate|]. nia.
        * exists gr'. split; [exact Hl|]. split; [exact Q1|]. intros k Hk. rewrite (Q2 k Hk). apply P2. exact Hk.
      + destruct (IH wl bcs gr1 Hnd Hbc Htl P1) as (gr' & Hl & Q1 & Q2); [nia|].
        exists gr'. split; [exact Hl|]. split; [exact Q1|]. intros k Hk. rewrite (Q2 k Hk). apply P2. exact Hk.
  Qed.

  Theorem joint_backward_loop_terminates : forall fuel keys wl bcs gl,
    NoDup keys -> (forall k, In k keys -> bc_ok bcs k) -> (forall x, In x wl -> In x U) ->
    (forall k, In k keys -> exists st, kget gl k = Some st /\ binv bcs k st) ->
    length wl + Kdeg f * dsum keys gl < fuel ->
    exists gl', loop_bwd fuel keys wl bcs gl = Some (Some ([], gl')) /\
      (forall k, In k keys -> exists st, kget gl' k = Some st /\ binv bcs k st) /\
      (forall k, ~ In k keys -> kget gl' k = kget gl k).
  Proof.
    intros fuel keys. induction fuel as [|fu IH]; intros wl bcs gl Hnd Hbc Hwl Hpres Hfuel; [lia|].
    destruct wl as [|b wl].
    - exists gl. split; [reflexivity|]. split; auto.
    - assert (Hb : In b U) by (apply Hwl; left; reflexivity).
      assert (Htl : forall x, In x wl -> In x U) by (intros x Hx; apply Hwl; right; exact Hx).
      cbn [backward_analysis_loop_gen]. cbv zeta. cbn [list_nonempty list_head list_tail tl bind].
      cbn [length] in Hfuel.
      destruct (block_prev b Hb) as (xb & ps & Hxb & Hps & Hin & Hlen).
      destruct (leaf_global f xb) eqn:Hleaf.
      + rewrite merge_bwd_unfold, (leaf_block_global_gen_eq f b xb Hxb), Hleaf. cbn [ifE ret bind fst snd].
        destruct (IH wl bcs gl Hnd Hbc Htl Hpres) as (gl' & Hl & Q1 & Q2); [lia|]. exists gl'. auto.
      + rewrite (merge_bwd_jfold keys b xb gl bcs Hxb Hleaf).
        destruct (jfold_total (binv bcs) (fun k => defect k) (fun k st => bstep k (view bcs k) st b) keys Hnd
                    (fun k st Hk Hi => bstep_total bcs k st b (Hbc k Hk) Hb Hi) gl false Hpres)
          as (gl1 & u1 & Hj & P1 & P2 & P3 & P4).
        rewrite Hj. cbn [bind fst snd].
        destruct u1.
        * rewrite (callsub_block_gen_eq f b xb Hxb). cbn [bind].
          rewrite (prev_blocks_global_gen_eq f b xb Hxb), Hps. cbn [bind ret].
          rewrite append_fold_eq. cbn [bind].
          change (if is_sub_return_point f xb then match callsub_block_of f xb with Some c => [c] | None => [] end else [])
            with (prev_cs f xb).
          destruct (IH (append_new wl (ps ++ prev_cs f xb)) bcs gl1 Hnd Hbc) as (gl' & Hl & Q1 & Q2).
          -- intros x Hx. apply append_new_In in Hx. destruct Hx as [Hx|Hx]; auto.
          -- exact P1.
          -- pose proof (append_new_length (ps ++ prev_cs f xb) wl) as Hal.
             destruct (P4 eq_refl) as [Hc|Hc]; [discriminate|]. nia.
          -- exists gl'. split; [exact Hl|]. split; [exact Q1|]. intros k Hk. rewrite (Q2 k Hk). apply P2. exact Hk.
        * destruct (IH wl bcs gl1 Hnd Hbc Htl P1) as (gl' & Hl & Q1 & Q2); [nia|].
          exists gl'. split; [exact Hl|]. split; [exact Q1|]. intros k Hk. rewrite (Q2 k Hk). apply P2. exact Hk.
  Qed.

  (* ---------------------------------------------------------------- the whole methods *)
  Definition hsum (keys : list string) : nat := list_sum (map (fun k => HH k) keys).
  (* the iteration budget of one joint pass: TotalSolver.solve_bound with the SUM of the heights of the keys *)
  Definition joint_bound (keys : list string) : nat := solve_bound f (hsum keys).

  Lemma store_fold_total (g : gdict) : forall keys d,
    (forall k, In k keys -> exists s, kget g k = Some s) ->
    exists d', fold_left (fun acc key => bind acc (fun st =>
        bind (bind (kget g key) (fun tmp13 => ret (kset st key tmp13))) (fun s => ret s))) keys (ret d) = Some d'.
  Proof.
    induction keys as [|x ks IH]; intros d Hp; [exists d; reflexivity|].
    cbn [fold_left]. unfold ret at 1. cbn [bind]. destruct (Hp x (or_introl eq_refl)) as [s Hs]. rewrite Hs. cbn [bind ret].
    apply IH. intros k Hk. apply Hp. right. exact Hk.
  Qed.

  Lemma dsum_init (h : string -> state) keys : NoDup keys ->
    (forall k, In k keys -> length (h k) = length (fn_blocks f)) ->
    dsum keys (init_dict T h keys (kdict_empty T)) <= length (fn_blocks f) * hsum keys.
  Proof.
    intros Hnd Hlen. unfold msum, hsum.
    assert (Hpt : forall k, In k keys -> defect k (view (init_dict T h keys (kdict_empty T)) k) <= length (fn_blocks f) * HH k).
    { intros k Hk. unfold ddict_get. rewrite (init_dict_in T h keys _ k Hk).
      pose proof (defect_bound T t_eqb (univ k) (null k) (union k) (inter k) (L k) (h k)) as Hd. rewrite (Hlen k Hk) in Hd. exact Hd. }
    clear Hnd Hlen. revert Hpt. generalize (init_dict T h keys (kdict_empty T)). intros g.
    induction keys as [|k ks IH]; intros Hpt; cbn [map list_sum fold_right]; [lia|].
    unfold list_sum in *. cbn [fold_right].
    pose proof (Hpt k (or_introl eq_refl)). specialize (IH (fun k' Hk' => Hpt k' (or_intror Hk'))). nia.
  Qed.

  Lemma okst_const k (g : block -> T) : (forall b, ok k (g b)) -> okst k (map (fun b => (b_idx b, g b)) (fn_blocks f)).
  Proof.
    intros Hg. apply lookup_okst. intros b v Hin. apply in_map_iff in Hin. destruct Hin as [xb [E _]].
    inversion E; subst. apply Hg.
  Qed.

  Lemma finv_start bcs k : bc_ok bcs k -> finv bcs k (fwd_st0 k).
  Proof.
    intros [Hbc Hbco]. pose proof (tl_ok_null _ _ _ _ _ _ (L k)) as Hn.
    assert (Hs : okst k (fwd_st0 k)) by (apply (okst_const k (fun _ => null k)); intros _; exact Hn).
    split; [apply covers_map_blocks|]. split; [exact Hs|].
    intros b xb ri bcv old Hxb Hri Hbcv Hold. unfold SolverLemmas.fwd_st0 in Hold.
    rewrite lookup_map_blocks, Hxb in Hold. cbn [option_map] in Hold. inversion Hold; subst old.
    apply (tl_null_least _ _ _ _ _ _ (L k)). apply (tl_ok_inter _ _ _ _ _ _ (L k)); [|eapply Hbco; eauto].
    eapply reachin_ok; [apply Hec|exact Hs|exact Hri].
  Qed.

  Theorem joint_forward_analyis_terminates : forall fuel keys wl bcs,
    NoDup U -> NoDup keys -> (forall k, In k keys -> bc_ok bcs k) -> (forall x, In x wl -> In x U) ->
    length wl + Kdeg f * (length (fn_blocks f) * hsum keys) < fuel ->
    exists bcs', analysis_fwd fuel keys wl bcs = Some (Some bcs') /\
      (forall k, In k keys -> exists ro, kget bcs' k = Some ro /\ covers ro /\ okst k ro) /\
      (forall k, ~ In k keys -> kget bcs' k = kget bcs k).
  Proof.
    intros fuel keys wl bcs Hnd Hnk Hbc Hwl Hfuel. rewrite analysis_fwd_unfold.
    rewrite (forward_init_keys T null f Hnd). cbn [bind].
    set (gr0 := init_dict T (fun k => fwd_st0 k) keys (kdict_empty T)).
    destruct (joint_forward_loop_terminates fuel keys wl bcs gr0 Hnk Hbc Hwl) as (gr' & Hl & Q1 & _).
    - intros k Hk. exists (fwd_st0 k). split; [apply init_dict_in; exact Hk|apply finv_start; apply Hbc; exact Hk].
    - assert (Hd : dsum keys gr0 <= length (fn_blocks f) * hsum keys).
      { apply dsum_init; [exact Hnk|]. intros k _. unfold SolverLemmas.fwd_st0. apply map_length. }
      nia.
    - rewrite Hl. cbn [bind snd].
      destruct (store_fold_total gr' keys bcs) as [d Hs].
      { intros k Hk. destruct (Q1 k Hk) as (st & E & _). eauto. }
      rewrite Hs. cbn [bind ret]. exists d. split; [reflexivity|].
      destruct (store_fold_spec T gr' keys bcs d Hs) as (S1 & S2). split; [|exact S2].
      intros k Hk. destruct (Q1 k Hk) as (st & E & (Hc & Hso & _)). exists st.
      rewrite (proj1 (S1 k Hk)). auto.
  Qed.

  (* the block contexts of the backward pass are the stored results of the forward pass *)
  Definition ro_ok (bcs : gdict) (k : string) : Prop := covers (view bcs k) /\ okst k (view bcs k).

  Lemma ro_ok_bc_ok bcs k : ro_ok bcs k -> bc_ok bcs k.
  Proof. intros [Hc Hs]. split; [exact Hc|]. intros b v Hv. apply (tl_ok_c _ _ _ _ _ _ (L k)). eapply Hs; eauto. Qed.

  Lemma binv_start bcs k : ro_ok bcs k -> binv bcs k (bwd_st0 k (view bcs k)).
  Proof.
    intros [Hc Hso]. pose proof (tl_ok_null _ _ _ _ _ _ (L k)) as Hn.
    assert (Hs : okst k (bwd_st0 k (view bcs k))).
    { apply (okst_const k (fun b => if leaf_global f b then match lookup (view bcs k) (b_idx b) with Some v => v | None => null k end else null k)).
      intros b. destruct (leaf_global f b); [|exact Hn].
      destruct (lookup (view bcs k) (b_idx b)) as [w|] eqn:Ew; [eapply Hso; eauto|exact Hn]. }
    split; [apply covers_map_blocks|]. split; [exact Hs|].
    intros b xb li bcv old Hxb Hleaf Hli Hbcv Hold. unfold SolverLemmas.bwd_st0 in Hold.
    rewrite lookup_map_blocks, Hxb in Hold. cbn [option_map] in Hold. rewrite Hleaf in Hold. inversion Hold; subst old.
    apply (tl_null_least _ _ _ _ _ _ (L k)). apply (tl_ok_inter _ _ _ _ _ _ (L k)).
    - eapply livein_ok; [exact Hs|exact Hli].
    - apply (tl_ok_c _ _ _ _ _ _ (L k)). eapply Hso; eauto.
  Qed.

  Theorem joint_backward_analysis_terminates : forall fuel keys wl bcs,
    NoDup U -> NoDup keys -> (forall k, In k keys -> ro_ok bcs k) -> (forall x, In x wl -> In x U) ->
    length wl + Kdeg f * (length (fn_blocks f) * hsum keys) < fuel ->
    exists bcs', analysis_bwd fuel keys wl bcs = Some (Some bcs') /\
      (forall k, In k keys -> exists lo, kget bcs' k = Some lo /\ covers lo /\ okst k lo) /\
      (forall k, ~ In k keys -> kget bcs' k = kget bcs k).
  Proof.
    intros fuel keys wl bcs Hnd Hnk Hro Hwl Hfuel. rewrite analysis_bwd_unfold.
    rewrite (backward_init_keys T null f bcs Hnd keys).
    2:{ intros k Hk b Hb _. apply (proj1 (Hro k Hk)). unfold SolverLemmas.ids. apply in_map. exact Hb. }
    cbn [bind].
    set (gl0 := init_dict T (fun k => bwd_st0 k (view bcs k)) keys (kdict_empty T)).
    destruct (joint_backward_loop_terminates fuel keys wl bcs gl0 Hnk (fun k Hk => ro_ok_bc_ok bcs k (Hro k Hk)) Hwl)
      as (gl' & Hl & Q1 & _).
    - intros k Hk. exists (bwd_st0 k (view bcs k)). split; [apply (init_dict_in T (fun k => bwd_st0 k (view bcs k))); exact Hk|].
      apply binv_start. apply Hro. exact Hk.
    - assert (Hd : dsum keys gl0 <= length (fn_blocks f) * hsum keys).
      { apply dsum_init; [exact Hnk|]. intros k _. unfold SolverLemmas.bwd_st0. apply map_length. }
      nia.
    - rewrite Hl. cbn [bind snd].
      destruct (store_fold_total gl' keys bcs) as [d Hs].
      { intros k Hk. destruct (Q1 k Hk) as (st & E & _). eauto. }
      rewrite Hs. cbn [bind ret]. exists d. split; [reflexivity|].
      destruct (store_fold_spec T gl' keys bcs d Hs) as (S1 & S2). split; [|exact S2].
      intros k Hk. destruct (Q1 k Hk) as (st & E & (Hc & Hso & _)). exists st.
      rewrite (proj1 (S1 k Hk)). auto.
  Qed.

  (* ---------------------------------------------------------------- one pass of run_analysis *)
  Theorem joint_pass_terminates : forall fuel keys d,
    NoDup U -> NoDup keys -> (forall l, In l (postorders f) -> incl l U) ->
    (forall k, In k keys -> bc_ok d k) ->
    joint_bound keys <= fuel ->
    exists d', pass fuel keys (postorders f) d = Some (Some d') /\
      (forall k, In k keys -> exists lo, kget d' k = Some lo /\ covers lo /\ okst k lo) /\
      (forall k, ~ In k keys -> kget d' k = kget d k).
  Proof.
    intros fuel keys d Hnd Hnk Hpo Hbc Hfuel. unfold joint_bound, solve_bound in Hfuel.
    unfold joint_pass_gen. rewrite forward_worklist_gen_eq. cbn [bind]. unfold call_forward_analyis.
    change (flat_map (fun l => rev l) (postorders f)) with (forward_worklist f).
    destruct (joint_forward_analyis_terminates fuel keys (forward_worklist f) d Hnd Hnk Hbc (def_fwl f Hdef))
      as (d1 & H1 & F1 & F2); [lia|].
    rewrite H1. cbn [bind ret].
    rewrite (backward_worklist_gen_eq f _ Hpo). cbn [bind]. unfold call_backward_analysis.
    change (flat_map (fun l => filter (nonleaf f) l) (postorders f)) with (backward_worklist f).
    destruct (joint_backward_analysis_terminates fuel keys (backward_worklist f) d1 Hnd Hnk) as (d2 & H2 & B1 & B2).
    - intros k Hk. destruct (F1 k Hk) as (ro & E & Hc & Hs). unfold ro_ok. rewrite (view_of_kget T d1 k ro E). auto.
    - apply (def_bwl f Hdef).
    - lia.
    - rewrite H2. cbn [bind ret]. exists d2. split; [reflexivity|]. split; [exact B1|].
      intros k Hk. rewrite (B2 k Hk). apply F2. exact Hk.
  Qed.

  Lemma hsum_ge keys k : In k keys -> HH k <= hsum keys.
  Proof.
    unfold hsum, list_sum. induction keys as [|x ks IH]; [intros []|].
    intros [<-|Hk]; cbn [map fold_right]; [lia|]. specialize (IH Hk). lia.
  Qed.

  (* BOTH computations return, and they agree: for a duplicate-free key list, block contexts that cover the blocks with
     constraint values, the budget joint_bound and, for the key k, the hypotheses of C14 *)
  Theorem joint_pass_total_peq : forall (k : string) (leq : T -> T -> Prop) keys fuel d,
    key_order T t_eqb (null k) (union k) (inter k) leq -> joint_graph_ok f ->
    NoDup U -> (forall l, In l (postorders f) -> incl l U) -> NoDup keys -> In k keys ->
    (forall k, In k keys -> bc_ok d k) ->
    joint_bound keys <= fuel ->
    exists d' lo,
      pass fuel keys (postorders f) d = Some (Some d') /\
      Domains.solve T t_eqb (univ k) (null k) (union k) (inter k) (single k) f fuel (view d k) = Done lo /\
      SolverLemmas.peq T t_eqb (view d' k) lo.
  Proof.
    intros k leq keys fuel d Hord Hg Hnd Hpo Hnk Hk Hbc Hfuel.
    destruct (joint_pass_terminates fuel keys d Hnd Hnk Hpo Hbc Hfuel) as (d' & Hp & _).
    destruct (solve_terminates T t_eqb (univ k) (null k) (union k) (inter k) (single k) f Hdef Hcp (L k) (Hec k)
                (view d k) fuel (proj1 (Hbc k Hk)) (proj2 (Hbc k Hk))) as (lo & Hs & _).
    { unfold joint_bound, solve_bound in *. pose proof (hsum_ge keys k Hk) as Hh.
      assert (Kdeg f * (length (fn_blocks f) * HH k) <= Kdeg f * (length (fn_blocks f) * hsum keys))
        by (apply Nat.mul_le_mono_l; apply Nat.mul_le_mono_l; exact Hh).
      lia. }
    exists d', lo. split; [exact Hp|]. split; [exact Hs|].
    exact (joint_pass_solve_peq T t_eqb univ null union inter single f k leq keys fuel fuel d d' lo Hord Hg Hm Hnd Hpo Hnk Hk Hp Hs).
  Qed.
End JointTotal.

Print Assumptions joint_forward_loop_terminates.
Print Assumptions joint_backward_loop_terminates.
Print Assumptions joint_forward_analyis_terminates.
Print Assumptions joint_backward_analysis_terminates.
Print Assumptions joint_pass_terminates.
Print Assumptions joint_pass_total_peq.
