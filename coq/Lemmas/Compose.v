(* Composition lemmas for C01: accepting run with unvalidated blocks  ==>  the detector's DFS reports a path. *)
From Coq Require Import List String.
From Tealer Require Import Syntax Cfg Analysis Detect Runs Paths SearchLemmas PathCut.
Import ListNotations.

Lemma unvalidated_run_reported : forall f validated report fuel cfgs ps,
  AcceptingRun f cfgs -> returns_all f cfgs ->
  (forall c, In c cfgs -> validated (fst c) = false) ->
  nonrecursive f cfgs ->
  (forall p, report p = true) ->
  detect_paths f validated report fuel = Done ps ->
  exists p, In p ps /\ incl p (map fst cfgs).
Proof.
  intros f validated report fuel cfgs ps Hacc Hret Hval Hnr Hrep Hdone.
  destruct (run_to_goodpath f validated cfgs Hacc Hret Hval Hnr) as [p [Hgp [Hincl _]]].
  exists p. split; [| exact Hincl].
  eapply detect_paths_complete; eauto.
Qed.

Lemma unvalidated_run_reported_nonempty : forall f validated report fuel cfgs ps,
  AcceptingRun f cfgs -> returns_all f cfgs ->
  (forall c, In c cfgs -> validated (fst c) = false) ->
  nonrecursive f cfgs ->
  (forall p, report p = true) ->
  detect_paths f validated report fuel = Done ps -> ps <> [].
Proof.
  intros. destruct (unvalidated_run_reported f validated report fuel cfgs ps) as [p [Hin _]]; auto.
  intro E; subst; inversion Hin.
Qed.
