(* Repair of Analysis.edge_constraint (single-successor case of a block ending in bz / bnz).

   The former definition told "the branch targets the next line" (jump and fall-through coincide: no
   constraint) from "the branch is the last instruction" (only the jump edge: jump-side constraint) by counting
   the instruction-level successors ins_next (fn_prog f) k -- which depends on the LENGTH of fn_prog f, and
   Group.construct_function appends err instructions to it.  The new definition (Analysis.branch_to_next) looks
   at the jump target only.

   1. geometry: a label is the first instruction of its raw block; a conditional branch that is not the last
      instruction and whose block has one successor targets the next line;
   2. branch_to_next_ins_next: on the blocks of a parsed contract the old test and the new test coincide;
   3. edge_constraint_old_new_agree: for whole_function t of a parsed contract the former definition
      (edge_constraint_old, kept here for reference) and the new one are equal on every block of the function;
   4. jump_ok_old_new_agree: the same for the specification side (Spec/Exec.jump_ok);
   5. the witness: a contract whose last line is a bnz guard, whole function and cut function. *)
From Coq Require Import String List NArith ZArith Bool Arith Lia.
From Tealer Require Import Tables LeafPrelude Leaves Syntax Parse Cfg StackAst Keys Analysis Domains Detect Group.
From Tealer Require Import Runs InsExec Eval Exec.
From Tealer Require Import CfgLemmas SolverLemmas SubLemmas GraphWf GraphOk WalkLemmas.
Import ListNotations.
Open Scope list_scope.

(* ================================================================== 1. geometry *)
(* a label is the first instruction of its raw block *)
Lemma label_is_head p rbs l k n rb :
  create_bb p = Some rbs -> find_label p l = Some k ->
  nth_error rbs n = Some rb -> In k (rb_ins rb) -> hd_error (rb_ins rb) = Some k.
Proof.
  intros Hc Hk Hn Hin.
  destruct (block_interior p rbs Hc rb k (nth_error_In _ _ Hn) Hin) as [_ Hnf].
  destruct (rb_ins rb) as [|h r] eqn:E; [destruct Hin|]. cbn [hd_error hd] in *.
  destruct (Nat.eq_dec k h) as [->|Hne]; [reflexivity|]. exfalso.
  destruct (Hnf Hne) as (i & Hop & Hi). rewrite (find_label_spec p l k Hk) in Hop. inversion Hop; subst i. exact Hi.
Qed.

(* a conditional branch that is not the last instruction, in a block with a single successor, targets the
   next line *)
Lemma single_succ_branch_target p blocks rbs b l tl j :
  build_blocks p = Some blocks -> create_bb p = Some rbs -> In b blocks ->
  (op_at p (last (b_ins b) 0) = Some (IBZ l) \/ op_at p (last (b_ins b) 0) = Some (IBNZ l)) ->
  S (last (b_ins b) 0) < length p -> find_label p l = Some tl -> b_next b = [j] ->
  tl = S (last (b_ins b) 0).
Proof.
  intros Hbs Hc Hb Hop Hlt Hfl Hnx.
  assert (Hp : p <> []) by (intros ->; rewrite build_blocks_nil in Hbs; discriminate).
  destruct (cond_branch_order p blocks rbs b l tl Hbs Hc Hb Hop Hlt Hfl) as (tb & Htb & Enx).
  destruct (Nat.eqb_spec tb (S (b_idx b))) as [Etb|_]; [|rewrite Hnx in Enx; discriminate]. subst tb.
  destruct (build_blocks_spec p blocks Hbs) as (rbs0 & nexts & Hc0 & _ & _ & _ & Hall).
  rewrite Hc in Hc0. inversion Hc0; subst rbs0; clear Hc0.
  apply In_nth_error in Hb. destruct Hb as (n & Hb).
  destruct (Hall n b Hb) as (rb & nx & Hrb & _ & _ & Eb).
  assert (Ei : b_ins b = rb_ins rb) by (rewrite Eb; reflexivity).
  assert (En : b_idx b = n) by (rewrite Eb; reflexivity).
  rewrite Ei in *. rewrite En in *.
  destruct (following_block p rbs n rb Hc Hp Hrb Hlt) as (rb' & Hrb' & _).
  destruct (consecutive_spec p rbs n rb rb' Hc Hrb Hrb') as (Hhd & _ & _).
  destruct (block_of_pos_spec rbs tl 0 (S n) Htb) as (_ & rb2 & Hrb2 & Hin2).
  rewrite Nat.sub_0_r, Hrb' in Hrb2. inversion Hrb2; subst rb2.
  pose proof (label_is_head p rbs l tl (S n) rb' Hc Hfl Hrb' Hin2) as Hh. congruence.
Qed.

(* ================================================================== 2. the two tests coincide on parsed contracts *)
Definition two_next (p : prog) (k : nat) : bool :=
  match ins_next p k with Some (_ :: _ :: _) => true | _ => false end.

Section Parsed.
  Variables (p : prog) (t : teal).
  Hypothesis Hparse : parse_teal p = Ok t.
  Notation W := (whole_function t).

  Lemma branch_to_next_ins_next b br l j :
    In b (t_blocks t) -> b_ins b <> [] -> op_at p (last (b_ins b) 0) = Some br -> br = IBZ l \/ br = IBNZ l ->
    b_next b = [j] ->
    branch_to_next p br (last (b_ins b) 0) = two_next p (last (b_ins b) 0).
  Proof.
    intros Hb Hne Hop Hbr Hnx.
    destruct (walk_setup p t Hparse) as (bs & rbs & Hbs & Hc).
    apply (in_t_blocks p t b Hparse) in Hb.
    destruct (tblock_raw p t bs rbs Hparse Hbs Hc _ b Hb) as (b0 & rb & nx & Hn0 & Hn & Hi & Hi0 & _ & Hnext & _ & _).
    set (k := last (b_ins b) 0) in *.
    assert (Hk0 : last (b_ins b0) 0 = k) by (unfold k; rewrite Hi0, Hi; reflexivity).
    assert (Hop' : op_at p k = Some (IBZ l) \/ op_at p k = Some (IBNZ l))
      by (destruct Hbr; subst br; [left | right]; exact Hop).
    assert (Hklt : k < length p).
    { unfold op_at in Hop. destruct (nth_error p k) eqn:E; [|discriminate]. apply nth_error_Some. congruence. }
    unfold two_next, ins_next. rewrite Hop.
    assert (Ebt : branch_to_next p br k = match find_label p l with Some tl => Nat.eqb tl (S k) | None => false end)
      by (destruct Hbr; subst br; reflexivity).
    assert (Enf : no_fallthrough br = false /\ jump_labels br = [l]) by (destruct Hbr; subst br; split; reflexivity).
    destruct Enf as [Enf Ejl]. rewrite Ebt, Enf, Ejl. cbn [negb andb map_opt].
    destruct (find_label p l) as [tl|] eqn:Efl; [|reflexivity].
    destruct (Nat.ltb (S k) (length p)) eqn:Elt.
    - (* not the last instruction: two instruction successors, and the target is the next line *)
      apply Nat.ltb_lt in Elt. cbn [app].
      assert (E : tl = S k).
      { rewrite <- Hk0. apply (single_succ_branch_target p bs rbs b0 l tl j Hbs Hc (nth_error_In _ _ Hn0)).
        - rewrite Hk0. exact Hop'.
        - rewrite Hk0. exact Elt.
        - exact Efl.
        - rewrite <- Hnext. exact Hnx. }
      subst tl. apply Nat.eqb_refl.
    - (* the last instruction: one instruction successor, and the target is an earlier line *)
      apply Nat.ltb_ge in Elt. cbn [app].
      pose proof (find_label_spec p l tl Efl) as Hlab.
      assert (Htl : tl < length p).
      { unfold op_at in Hlab. destruct (nth_error p tl) eqn:E; [|discriminate]. apply nth_error_Some. congruence. }
      apply Nat.eqb_neq. lia.
  Qed.

  (* ================================================================== 3. old and new edge_constraint *)
  Section Domain.
    Variable T : Type.
    Variable univ null : T.
    Variable union inter : T -> T -> T.
    Variable single : instr -> nat -> list sval -> T * T.
    Variable f : func.

    (* the former definition, verbatim *)
    Definition edge_constraint_old (pred : block) (succ : nat) : option T :=
      match next_global f pred with
      | None => None
      | Some nx =>
          if negb (nat_mem succ nx) then None else
          match fexit_op f pred with
          | Some (IBZ _ as br) | Some (IBNZ _ as br) =>
              match emulate (fn_prog f) (b_ins pred) [] with
              | None => None
              | Some ast =>
                  match args_of ast (List.last (b_ins pred) 0) with
                  | Some (SUnknown :: _) | Some [] | None => Some univ
                  | Some (a :: _) =>
                      let '(tv, fv) := asserted T univ null union inter single (cond_of a) in
                      let is_bz := match br with IBZ _ => true | _ => false end in
                      match b_next pred with
                      | [j] =>
                          match ins_next (fn_prog f) (List.last (b_ins pred) 0) with
                          | Some (_ :: _ :: _) => Some univ
                          | _ => if Nat.eqb succ j then Some (if is_bz then fv else tv) else Some univ
                          end
                      | d :: j :: _ =>
                          if Nat.eqb succ d then Some (if is_bz then tv else fv)
                          else if Nat.eqb succ j then Some (if is_bz then fv else tv)
                          else Some univ
                      | [] => None
                      end
                  end
              end
          | _ => Some univ
          end
      end.

    (* the two definitions differ only in the test of the single-successor case *)
    Lemma edge_constraint_old_new_gen pred succ :
      (forall br l j, fexit_op f pred = Some br -> br = IBZ l \/ br = IBNZ l -> b_next pred = [j] ->
         branch_to_next (fn_prog f) br (last (b_ins pred) 0) = two_next (fn_prog f) (last (b_ins pred) 0)) ->
      edge_constraint T univ null union inter single f pred succ = edge_constraint_old pred succ.
    Proof.
      intros H. unfold edge_constraint, edge_constraint_old.
      destruct (next_global f pred) as [nx|]; [|reflexivity].
      destruct (negb (nat_mem succ nx)); [reflexivity|].
      destruct (fexit_op f pred) as [br|] eqn:Ex; [|reflexivity].
      assert (Main : forall l, br = IBZ l \/ br = IBNZ l -> forall z : bool,
        match emulate (fn_prog f) (b_ins pred) [] with
        | None => None
        | Some ast =>
            match args_of ast (last (b_ins pred) 0) with
            | Some (SUnknown :: _) | Some [] | None => Some univ
            | Some (a :: _) =>
                let '(tv, fv) := asserted T univ null union inter single (cond_of a) in
                match b_next pred with
                | [j] =>
                    if branch_to_next (fn_prog f) br (last (b_ins pred) 0) then Some univ
                    else if Nat.eqb succ j then Some (if z then fv else tv) else Some univ
                | d :: j :: _ =>
                    if Nat.eqb succ d then Some (if z then tv else fv)
                    else if Nat.eqb succ j then Some (if z then fv else tv)
                    else Some univ
                | [] => None
                end
            end
        end =
        match emulate (fn_prog f) (b_ins pred) [] with
        | None => None
        | Some ast =>
            match args_of ast (last (b_ins pred) 0) with
            | Some (SUnknown :: _) | Some [] | None => Some univ
            | Some (a :: _) =>
                let '(tv, fv) := asserted T univ null union inter single (cond_of a) in
                match b_next pred with
                | [j] =>
                    match ins_next (fn_prog f) (last (b_ins pred) 0) with
                    | Some (_ :: _ :: _) => Some univ
                    | _ => if Nat.eqb succ j then Some (if z then fv else tv) else Some univ
                    end
                | d :: j :: _ =>
                    if Nat.eqb succ d then Some (if z then tv else fv)
                    else if Nat.eqb succ j then Some (if z then fv else tv)
                    else Some univ
                | [] => None
                end
            end
        end).
      { intros l Hl z. destruct (emulate (fn_prog f) (b_ins pred) []) as [ast|]; [|reflexivity].
        destruct (args_of ast (last (b_ins pred) 0)) as [[|a rest]|]; try reflexivity.
        destruct a as [|aop ap aa au]; [reflexivity|].
        destruct (asserted T univ null union inter single (cond_of (SKnown aop ap aa au))) as [tv fv].
        destruct (b_next pred) as [|d [|j r]] eqn:En; try reflexivity.
        rewrite (H br l d eq_refl Hl eq_refl). unfold two_next.
        destruct (ins_next (fn_prog f) (last (b_ins pred) 0)) as [[|s1 [|s2 r']]|]; reflexivity. }
      destruct br; try reflexivity; [exact (Main l (or_introl eq_refl) true) | exact (Main l (or_intror eq_refl) false)].
    Qed.
  End Domain.

  Theorem edge_constraint_old_new_agree (T : Type) (univ null : T) (union inter : T -> T -> T)
          (single : instr -> nat -> list sval -> T * T) pred succ :
    In pred (fn_blocks W) ->
    edge_constraint T univ null union inter single W pred succ =
    edge_constraint_old T univ null union inter single W pred succ.
  Proof.
    intros Hin. apply edge_constraint_old_new_gen. intros br l j Hex Hbr Hnx.
    rewrite (whole_prog p t Hparse).
    apply (fn_blocks_In t) in Hin. destruct Hin as [_ Htb].
    assert (Hb : In pred (t_blocks t)) by (apply (in_t_blocks p t pred Hparse); exact Htb).
    unfold fexit_op in Hex. rewrite (whole_prog p t Hparse) in Hex.
    destruct (b_ins pred) as [|h r] eqn:Ei; [discriminate|]. rewrite <- Ei in *.
    apply (branch_to_next_ins_next pred br l j Hb); [rewrite Ei; discriminate | exact Hex | exact Hbr | exact Hnx].
  Qed.

  (* ================================================================== 4. the specification side *)
  (* the former special case of Spec/Exec.jump_ok: "the exit instruction is the last one of the program" *)
  Definition exit_is_last (f : func) (blk : block) : bool := Nat.leb (length (fn_prog f)) (S (last (b_ins blk) 0)).
  Definition jump_ok_old (f : func) (blk : block) (jumped : bool) (b' : nat) : Prop :=
    match b_next blk with
    | d :: j :: _ => b' = if jumped then j else d
    | _ => exit_is_last f blk = true -> jumped = true
    end.

  Lemma exit_to_next_not_last b l :
    In b (fn_blocks W) -> fexit_op W b = Some (IBZ l) \/ fexit_op W b = Some (IBNZ l) ->
    (exists j, b_next b = [j]) -> exit_to_next W b = negb (exit_is_last W b).
  Proof.
    intros Hin Hop (j & Hnx).
    apply (fn_blocks_In t) in Hin. destruct Hin as [_ Htb].
    assert (Hb : In b (t_blocks t)) by (apply (in_t_blocks p t b Hparse); exact Htb).
    assert (Hex : exists br, fexit_op W b = Some br /\ (br = IBZ l \/ br = IBNZ l)).
    { destruct Hop as [Hop|Hop]; eexists; (split; [exact Hop|]); auto. }
    destruct Hex as (br & Hex & Hbr). unfold exit_to_next, exit_is_last. rewrite Hex, (whole_prog p t Hparse).
    unfold fexit_op in Hex. rewrite (whole_prog p t Hparse) in Hex.
    destruct (b_ins b) as [|h r] eqn:Ei; [discriminate|]. rewrite <- Ei in *.
    rewrite (branch_to_next_ins_next b br l j Hb ltac:(rewrite Ei; discriminate) Hex Hbr Hnx).
    unfold two_next, ins_next. rewrite Hex.
    assert (Enf : no_fallthrough br = false /\ jump_labels br = [l]) by (destruct Hbr; subst br; split; reflexivity).
    destruct Enf as [Enf Ejl]. rewrite Enf, Ejl. cbn [negb andb map_opt].
    destruct (walk_setup p t Hparse) as (bs & rbs & Hbs & Hc).
    destruct (tblock_raw p t bs rbs Hparse Hbs Hc _ b Htb) as (b0 & rb & nx & _ & _ & Hi & _ & _ & _ & _ & Hinx).
    rewrite <- Hi in Hinx. unfold ins_next in Hinx. rewrite Hex, Ejl in Hinx. cbn [map_opt] in Hinx.
    destruct (find_label p l) as [tl|]; [|discriminate].
    destruct (Nat.ltb (S (last (b_ins b) 0)) (length p)) eqn:Elt; cbn [app].
    - apply Nat.ltb_lt in Elt. symmetry. apply negb_true_iff. apply Nat.leb_gt. exact Elt.
    - apply Nat.ltb_ge in Elt. symmetry. apply negb_false_iff. apply Nat.leb_le. exact Elt.
  Qed.

  Theorem jump_ok_old_new_agree b l jumped b' :
    In b (fn_blocks W) -> fexit_op W b = Some (IBZ l) \/ fexit_op W b = Some (IBNZ l) -> b_next b <> [] ->
    (jump_ok W b jumped b' <-> jump_ok_old W b jumped b').
  Proof.
    intros Hin Hop Hne. unfold jump_ok, jump_ok_old.
    destruct (b_next b) as [|d [|j r]] eqn:En; [congruence| |reflexivity].
    rewrite (exit_to_next_not_last b l Hin Hop (ex_intro _ d En)).
    destruct (exit_is_last W b); cbn [negb]; split; intros H H'; auto; discriminate.
  Qed.
End Parsed.

Print Assumptions label_is_head.
Print Assumptions single_succ_branch_target.
Print Assumptions branch_to_next_ins_next.
Print Assumptions edge_constraint_old_new_agree.
Print Assumptions jump_ok_old_new_agree.
