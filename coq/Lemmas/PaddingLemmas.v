(* Property C15 (padding): inserting a stack-neutral, self-contained pad between two statements of a basic
   block does not change the operand trees that the symbolic stack emulation (Model/StackAst.v, [emulate])
   reconstructs for the other instructions of the block, up to the shift of instruction positions.

   PART 1  [emulate_st]: [emulate] with the final symbolic stack made visible; characterised against [emulate]
   PART 2  position shift on [sval] / ast entries / [cond]; simulation lemma (any position map)
   PART 3  [neutral_pad]: boolean checker over the regenerated arities; sufficiency (semantic neutrality)
   PART 4  main theorem on programs  P1 ++ P2  vs  P1 ++ PAD ++ P2 ; corollaries for [args_of] / [cond_of]
   PART 5  examples of pads;  `dup; pop` is rejected by the checker AND is really not neutral (refutation) *)
From Coq Require Import String List NArith ZArith Bool Arith Lia.
From Tealer Require Import Tables Syntax Parse Cfg StackAst StackLemmas.
Import ListNotations.
Open Scope list_scope.

Arguments stack_pop_size : simpl never.
Arguments stack_push_size : simpl never.
Arguments op_at : simpl never.

(* ====================================================================== *)
(* PART 1 : emulate with its final stack                                    *)
(* ====================================================================== *)
Definition ast_t := list (nat * instr * list sval).

Fixpoint emulate_st (p : prog) (poss : list nat) (st : sstack) : option (ast_t * sstack) :=
  match poss with
  | [] => Some ([], st)
  | k :: t =>
      match op_at p k with
      | None => None
      | Some op =>
          match emulate_ins op k st with
          | None => None
          | Some (args, st') =>
              match emulate_st p t st' with
              | None => None
              | Some (r, fin) => Some ((k, op, args) :: r, fin)
              end
          end
      end
  end.

(* characterisation against the model's [emulate] *)
Theorem emulate_st_fst : forall p poss st, emulate p poss st = option_map fst (emulate_st p poss st).
Proof.
  intros p. induction poss as [|k t IH]; intros st; [reflexivity|].
  cbn [emulate emulate_st]. destruct (op_at p k) as [op|]; [|reflexivity].
  destruct (emulate_ins op k st) as [[args st']|]; [|reflexivity].
  rewrite IH. destruct (emulate_st p t st') as [[r fin]|]; reflexivity.
Qed.

Lemma emulate_st_app : forall p l1 l2 st,
  emulate_st p (l1 ++ l2) st =
  match emulate_st p l1 st with
  | None => None
  | Some (r1, st1) =>
      match emulate_st p l2 st1 with
      | None => None
      | Some (r2, st2) => Some (r1 ++ r2, st2)
      end
  end.
Proof.
  intros p. induction l1 as [|k t IH]; intros l2 st.
  - cbn [app emulate_st]. destruct (emulate_st p l2 st) as [[r2 st2]|]; reflexivity.
  - cbn [app emulate_st]. destruct (op_at p k) as [op|]; [|reflexivity].
    destruct (emulate_ins op k st) as [[args st']|]; [|reflexivity].
    rewrite IH. destruct (emulate_st p t st') as [[r1 st1]|]; [|reflexivity].
    destruct (emulate_st p l2 st1) as [[r2 st2]|]; reflexivity.
Qed.

Lemma emulate_st_length : forall p poss st r fin,
  emulate_st p poss st = Some (r, fin) -> length r = length poss.
Proof.
  intros p. induction poss as [|k t IH]; intros st r fin H.
  - cbn [emulate_st] in H. inversion H; reflexivity.
  - cbn [emulate_st] in H. destruct (op_at p k) as [op|]; [|discriminate].
    destruct (emulate_ins op k st) as [[args st']|]; [|discriminate].
    destruct (emulate_st p t st') as [[r1 f1]|] eqn:E; [|discriminate].
    inversion H; subst. simpl. f_equal. eapply IH; eauto.
Qed.

Lemma emulate_st_positions : forall p poss st r fin,
  emulate_st p poss st = Some (r, fin) -> map pos_of r = poss.
Proof.
  intros p poss st r fin H. apply (emulate_positions p poss st).
  rewrite emulate_st_fst, H. reflexivity.
Qed.

(* ====================================================================== *)
(* PART 2 : shifting positions                                              *)
(* ====================================================================== *)
Section Shift.
  Variable sh : nat -> nat.

  Fixpoint shift_sval (v : sval) : sval :=
    match v with
    | SUnknown => SUnknown
    | SKnown op pos args out => SKnown op (sh pos) (map shift_sval args) out
    end.

  Definition shift_entry (e : nat * instr * list sval) : nat * instr * list sval :=
    let '(k, op, args) := e in (sh k, op, map shift_sval args).

  Fixpoint shift_cond (c : cond) : cond :=
    match c with
    | CUnknown => CUnknown
    | CAnd a b => CAnd (shift_cond a) (shift_cond b)
    | COr a b => COr (shift_cond a) (shift_cond b)
    | CNot a => CNot (shift_cond a)
    | CLeaf op pos args => CLeaf op (sh pos) (map shift_sval args)
    end.

  Lemma map_shift_repeat : forall n, map shift_sval (repeat SUnknown n) = repeat SUnknown n.
  Proof. induction n as [|n IH]; simpl; [reflexivity|]. rewrite IH. reflexivity. Qed.

  Lemma pop_n_shift : forall st n,
    pop_n (map shift_sval st) n = (map shift_sval (fst (pop_n st n)), map shift_sval (snd (pop_n st n))).
  Proof.
    intros st n. unfold pop_n. rewrite map_length.
    destruct (Nat.leb n (length st)); cbn [fst snd].
    - rewrite map_rev, firstn_map, skipn_map. reflexivity.
    - rewrite map_app, map_shift_repeat, map_rev. reflexivity.
  Qed.

  Lemma push_outs_shift : forall op k args m st,
    push_outs op (sh k) (map shift_sval args) m (map shift_sval st) =
    map shift_sval (push_outs op k args m st).
  Proof.
    intros op k args m st. unfold push_outs. rewrite map_app, map_rev, map_map. reflexivity.
  Qed.

  Lemma emulate_ins_shift : forall op k st,
    emulate_ins op (sh k) (map shift_sval st) =
    option_map (fun x => (map shift_sval (fst x), map shift_sval (snd x))) (emulate_ins op k st).
  Proof.
    intros op k st. unfold emulate_ins.
    destruct (stack_pop_size op) as [n|]; [|reflexivity].
    destruct (stack_push_size op) as [m|]; [|reflexivity].
    rewrite pop_n_shift. destruct (pop_n st n) as [args st']. cbn [fst snd option_map].
    rewrite push_outs_shift. reflexivity.
  Qed.

  (* simulation: a program p' that carries, at the shifted positions, the opcodes p has at the original ones *)
  Lemma emulate_st_shift : forall p p' poss st,
    (forall k, In k poss -> op_at p' (sh k) = op_at p k) ->
    emulate_st p' (map sh poss) (map shift_sval st) =
    option_map (fun x => (map shift_entry (fst x), map shift_sval (snd x))) (emulate_st p poss st).
  Proof.
    intros p p'. induction poss as [|k t IH]; intros st Hop; [reflexivity|].
    cbn [map emulate_st]. rewrite (Hop k (or_introl eq_refl)).
    destruct (op_at p k) as [op|]; [|reflexivity].
    rewrite emulate_ins_shift. destruct (emulate_ins op k st) as [[args st']|]; [|reflexivity].
    cbn [option_map fst snd]. rewrite IH by (intros k' Hk'; apply Hop; right; exact Hk').
    destruct (emulate_st p t st') as [[r fin]|]; reflexivity.
  Qed.

  (* the condition tree of a shifted value is the shifted condition tree *)
  Lemma cond_of_shift : forall v, cond_of (shift_sval v) = shift_cond (cond_of v).
  Proof.
    induction v as [|op pos args out IH] using sval_ind'; [reflexivity|].
    destruct args as [|a [|b [|c l]]].
    - destruct op; reflexivity.
    - inversion IH as [|? ? Ha _]; subst.
      destruct op; cbn [shift_sval map cond_of shift_cond]; try reflexivity. rewrite Ha. reflexivity.
    - inversion IH as [|? ? Ha IH']; subst. inversion IH' as [|? ? Hb _]; subst.
      destruct op; cbn [shift_sval map cond_of shift_cond]; try reflexivity; rewrite Ha, Hb; reflexivity.
    - destruct op; reflexivity.
  Qed.

  (* lookup of the operands of one instruction *)
  Lemma args_of_shift : forall (ast : ast_t) k,
    (forall a b, sh a = sh b -> a = b) ->
    args_of (map shift_entry ast) (sh k) = option_map (map shift_sval) (args_of ast k).
  Proof.
    intros ast k Hinj. unfold args_of. induction ast as [|[[k' op] args] t IH]; [reflexivity|].
    cbn [map shift_entry find].
    assert (E : Nat.eqb (sh k') (sh k) = Nat.eqb k' k).
    { destruct (Nat.eqb k' k) eqn:E1.
      - apply Nat.eqb_eq in E1. subst. apply Nat.eqb_refl.
      - apply Nat.eqb_neq. intros E2. apply Hinj in E2. apply Nat.eqb_neq in E1. contradiction. }
    rewrite E. destruct (Nat.eqb k' k); [reflexivity|exact IH].
  Qed.

  (* a value none of whose producers is moved is unchanged *)
  Lemma shift_sval_id : forall v,
    sv_ok (fun _ pos _ _ => sh pos = pos) v -> shift_sval v = v.
  Proof.
    induction v as [|op pos args out IH] using sval_ind'; intros H; [reflexivity|].
    inversion H as [|? ? ? ? Hq Hargs]; subst. cbn [shift_sval]. rewrite Hq. f_equal.
    clear H Hq. induction args as [|a t IHt]; [reflexivity|].
    inversion IH as [|? ? Ha IH']; subst. inversion Hargs as [|? ? Hoa Hot]; subst.
    cbn [map]. rewrite (Ha Hoa), (IHt IH' Hot). reflexivity.
  Qed.
End Shift.

(* the position map of an insertion of d instructions at position a *)
Definition shift_pos (a d k : nat) : nat := if Nat.ltb k a then k else k + d.

Lemma shift_pos_inj : forall a d x y, shift_pos a d x = shift_pos a d y -> x = y.
Proof.
  intros a d x y. unfold shift_pos.
  destruct (Nat.ltb_spec x a) as [Ex|Ex]; destruct (Nat.ltb_spec y a) as [Ey|Ey]; intros H; lia.
Qed.
Lemma shift_pos_outside : forall a d k, shift_pos a d k < a \/ a + d <= shift_pos a d k.
Proof.
  intros a d k. unfold shift_pos. destruct (Nat.ltb_spec k a) as [E|E]; lia.
Qed.
Lemma shift_pos_below : forall a d k, k < a -> shift_pos a d k = k.
Proof. intros a d k H. unfold shift_pos. apply Nat.ltb_lt in H. rewrite H. reflexivity. Qed.
Lemma shift_pos_above : forall a d k, a <= k -> shift_pos a d k = k + d.
Proof. intros a d k H. unfold shift_pos. apply Nat.ltb_ge in H. rewrite H. reflexivity. Qed.

(* opcodes of the program with the pad inserted *)
Lemma op_at_insert_shift : forall (P1 PAD P2 : prog) k,
  op_at (P1 ++ PAD ++ P2) (shift_pos (length P1) (length PAD) k) = op_at (P1 ++ P2) k.
Proof.
  intros P1 PAD P2 k. unfold op_at, shift_pos. apply (f_equal (option_map i_op)).
  destruct (Nat.ltb k (length P1)) eqn:E.
  - apply Nat.ltb_lt in E. rewrite !nth_error_app1 by exact E. reflexivity.
  - apply Nat.ltb_ge in E. rewrite !nth_error_app2 by lia.
    f_equal. lia.
Qed.
Lemma op_at_insert_pad : forall (P1 PAD P2 : prog) j, j < length PAD ->
  op_at (P1 ++ PAD ++ P2) (length P1 + j) = nth_error (map i_op PAD) j.
Proof.
  intros P1 PAD P2 j H. unfold op_at. rewrite nth_error_app2 by lia.
  replace (length P1 + j - length P1) with j by lia. rewrite nth_error_app1 by exact H.
  rewrite nth_error_map. reflexivity.
Qed.

(* ====================================================================== *)
(* PART 3 : stack-neutral, self-contained pads                              *)
(* ====================================================================== *)
(* h = number of values the pad itself has on the stack.  Every instruction may pop at most h values (it never
   reaches below what the pad pushed), and nothing is left at the end.  Arities come from the generated table. *)
Fixpoint neutral_from (h : nat) (ops : list instr) : bool :=
  match ops with
  | [] => Nat.eqb h 0
  | op :: t =>
      match stack_pop_size op, stack_push_size op with
      | Some n, Some m => Nat.leb n h && neutral_from (h - n + m) t
      | _, _ => false
      end
  end.
Definition neutral_pad (ops : list instr) : bool := neutral_from 0 ops.

Lemma pop_n_top : forall top base n, n <= length top ->
  pop_n (top ++ base) n = (rev (firstn n top), skipn n top ++ base).
Proof.
  intros top base n H. unfold pop_n. rewrite app_length.
  assert (E : Nat.leb n (length top + length base) = true) by (apply Nat.leb_le; lia). rewrite E.
  rewrite firstn_app, skipn_app. replace (n - length top) with 0 by lia.
  rewrite firstn_O, app_nil_r. reflexivity.
Qed.

Lemma neutral_from_sound : forall p ops a h top base,
  neutral_from h ops = true -> length top = h ->
  (forall j, j < length ops -> op_at p (a + j) = nth_error ops j) ->
  exists r, emulate_st p (seq a (length ops)) (top ++ base) = Some (r, base).
Proof.
  intros p. induction ops as [|op t IH]; intros a h top base Hn Hl Hop.
  - cbn [neutral_from] in Hn. apply Nat.eqb_eq in Hn. subst h.
    destruct top; [|discriminate]. exists []. reflexivity.
  - cbn [neutral_from] in Hn.
    destruct (stack_pop_size op) as [n|] eqn:En; [|discriminate].
    destruct (stack_push_size op) as [m|] eqn:Em; [|discriminate].
    apply andb_true_iff in Hn. destruct Hn as [Hle Hn]. apply Nat.leb_le in Hle.
    cbn [length seq emulate_st].
    pose proof (Hop 0 ltac:(simpl; lia)) as H0. rewrite Nat.add_0_r in H0. cbn [nth_error] in H0. rewrite H0.
    unfold emulate_ins. rewrite En, Em. rewrite pop_n_top by lia.
    unfold push_outs. rewrite app_assoc.
    destruct (IH (S a) (h - n + m)
                 (rev (map (fun k => SKnown op a (rev (firstn n top)) k) (seq 0 m)) ++ skipn n top) base Hn)
      as [r Hr].
    + rewrite app_length, rev_length, map_length, seq_length, skipn_length. lia.
    + intros j Hj. specialize (Hop (S j) ltac:(simpl; lia)). cbn [nth_error] in Hop.
      rewrite <- Hop. f_equal. lia.
    + rewrite Hr. eexists. reflexivity.
Qed.

(* sufficiency of the checker, phrased with the model's own [emulate]: from ANY symbolic stack the pad is
   emulated successfully and whatever follows it is emulated exactly as if the pad were not there *)
Theorem neutral_pad_sufficient : forall p ops a,
  neutral_pad ops = true ->
  (forall j, j < length ops -> op_at p (a + j) = nth_error ops j) ->
  forall st, exists r,
    emulate p (seq a (length ops)) st = Some r /\
    map pos_of r = seq a (length ops) /\
    forall rest, emulate p (seq a (length ops) ++ rest) st = option_map (app r) (emulate p rest st).
Proof.
  intros p ops a Hn Hop st.
  destruct (neutral_from_sound p ops a 0 [] st Hn eq_refl Hop) as [r Hr]. cbn [app] in Hr.
  exists r. split; [|split].
  - rewrite emulate_st_fst, Hr. reflexivity.
  - eapply emulate_st_positions; eauto.
  - intros rest. rewrite !emulate_st_fst, emulate_st_app, Hr.
    destruct (emulate_st p rest st) as [[r2 st2]|]; reflexivity.
Qed.

(* semantic neutrality of the instructions at positions poss of p: emulated from ANY symbolic stack they
   succeed and return that same stack (they never pop below what they pushed and leave nothing) *)
Definition stack_neutral (p : prog) (poss : list nat) : Prop :=
  forall st, exists r, emulate_st p poss st = Some (r, st).

(* the checker is sufficient for semantic neutrality *)
Theorem neutral_pad_stack : forall p ops a,
  neutral_pad ops = true ->
  (forall j, j < length ops -> op_at p (a + j) = nth_error ops j) ->
  stack_neutral p (seq a (length ops)).
Proof. intros p ops a Hn Hop st. exact (neutral_from_sound p ops a 0 [] st Hn eq_refl Hop). Qed.

(* semantic neutrality in terms of the model's [emulate] only *)
Theorem stack_neutral_emulate : forall p poss, stack_neutral p poss ->
  forall st, exists r, emulate p poss st = Some r /\
    forall rest, emulate p (poss ++ rest) st = option_map (app r) (emulate p rest st).
Proof.
  intros p poss Hn st. destruct (Hn st) as [r Hr]. exists r. split.
  - rewrite emulate_st_fst, Hr. reflexivity.
  - intros rest. rewrite !emulate_st_fst, emulate_st_app, Hr.
    destruct (emulate_st p rest st) as [[r2 st2]|]; reflexivity.
Qed.

(* ====================================================================== *)
(* PART 4 : the padding theorem                                             *)
(* ====================================================================== *)
(* Source P1 ++ P2 and the block positions  prepos ++ postpos ; the padded source P1 ++ PAD ++ P2 and the
   block positions  shift prepos ++ [a .. a+d) ++ shift postpos  with a = |P1|, d = |PAD|.
   (When the block is contiguous and the pad is inserted between two of its instructions, all prepos are < a
   and all postpos are >= a; the theorem does not need this.) *)
Section Padding.
  Variables P1 PAD P2 : prog.
  Let a := length P1.
  Let d := length PAD.
  Let sh := shift_pos a d.

  Lemma neutral_pad_inserted :
    neutral_pad (map i_op PAD) = true -> stack_neutral (P1 ++ PAD ++ P2) (seq a d).
  Proof.
    intros Hn.
    assert (Hpad : forall j, j < length (map i_op PAD) ->
                   op_at (P1 ++ PAD ++ P2) (a + j) = nth_error (map i_op PAD) j).
    { intros j Hj. rewrite map_length in Hj. apply op_at_insert_pad. exact Hj. }
    pose proof (neutral_pad_stack (P1 ++ PAD ++ P2) (map i_op PAD) a Hn Hpad) as H.
    rewrite map_length in H. exact H.
  Qed.

  Lemma padded_st : forall prepos postpos st r fin,
    stack_neutral (P1 ++ PAD ++ P2) (seq a d) ->
    emulate_st (P1 ++ P2) (prepos ++ postpos) st = Some (r, fin) ->
    exists rpad,
      emulate_st (P1 ++ PAD ++ P2) (map sh prepos ++ seq a d ++ map sh postpos) (map (shift_sval sh) st) =
        Some (map (shift_entry sh) (firstn (length prepos) r) ++ rpad ++
              map (shift_entry sh) (skipn (length prepos) r), map (shift_sval sh) fin) /\
      map pos_of rpad = seq a d.
  Proof.
    intros prepos postpos st r fin Hn H.
    rewrite emulate_st_app in H.
    destruct (emulate_st (P1 ++ P2) prepos st) as [[r1 st1]|] eqn:E1; [|discriminate].
    destruct (emulate_st (P1 ++ P2) postpos st1) as [[r2 st2]|] eqn:E2; [|discriminate].
    inversion H; subst r fin; clear H.
    pose proof (emulate_st_length _ _ _ _ _ E1) as L1.
    rewrite <- L1, firstn_app, skipn_app, firstn_all, skipn_all, Nat.sub_diag. cbn [firstn skipn].
    rewrite app_nil_r. cbn [app].
    assert (Hops : forall l k, In k l -> op_at (P1 ++ PAD ++ P2) (sh k) = op_at (P1 ++ P2) k).
    { intros l k _. apply op_at_insert_shift. }
    destruct (Hn (map (shift_sval sh) st1)) as [rpad Hr].
    exists rpad. split; [|eapply emulate_st_positions; eauto].
    rewrite emulate_st_app.
    rewrite (emulate_st_shift sh (P1 ++ P2) (P1 ++ PAD ++ P2) prepos st (Hops prepos)), E1.
    cbn [option_map fst snd]. rewrite emulate_st_app, Hr.
    rewrite (emulate_st_shift sh (P1 ++ P2) (P1 ++ PAD ++ P2) postpos st1 (Hops postpos)), E2.
    reflexivity.
  Qed.

  (* main theorem for a semantically neutral pad *)
  Theorem padding_emulate_sem : forall prepos postpos ast,
    stack_neutral (P1 ++ PAD ++ P2) (seq a d) ->
    emulate (P1 ++ P2) (prepos ++ postpos) [] = Some ast ->
    exists astpad,
      emulate (P1 ++ PAD ++ P2) (map sh prepos ++ seq a d ++ map sh postpos) [] =
        Some (map (shift_entry sh) (firstn (length prepos) ast) ++ astpad ++
              map (shift_entry sh) (skipn (length prepos) ast)) /\
      map pos_of astpad = seq a d.
  Proof.
    intros prepos postpos ast Hn H. rewrite emulate_st_fst in H.
    destruct (emulate_st (P1 ++ P2) (prepos ++ postpos) []) as [[r fin]|] eqn:E; [|discriminate].
    cbn [option_map fst] in H. inversion H; subst r; clear H.
    destruct (padded_st prepos postpos [] ast fin Hn E) as [rpad [Hr Hp]].
    exists rpad. split; [|exact Hp]. rewrite emulate_st_fst. cbn [map] in Hr. rewrite Hr. reflexivity.
  Qed.

  (* main theorem, on the model's [emulate] from the empty (unknown-bottom) stack *)
  Theorem padding_emulate : forall prepos postpos ast,
    neutral_pad (map i_op PAD) = true ->
    emulate (P1 ++ P2) (prepos ++ postpos) [] = Some ast ->
    exists astpad,
      emulate (P1 ++ PAD ++ P2) (map sh prepos ++ seq a d ++ map sh postpos) [] =
        Some (map (shift_entry sh) (firstn (length prepos) ast) ++ astpad ++
              map (shift_entry sh) (skipn (length prepos) ast)) /\
      map pos_of astpad = seq a d.
  Proof.
    intros prepos postpos ast Hn H. apply padding_emulate_sem; [apply neutral_pad_inserted; exact Hn|exact H].
  Qed.

  (* the same for the blocks of the two programs (construct_stack_ast) *)
  Corollary padding_construct_stack_ast : forall (b b' : block) prepos postpos ast,
    neutral_pad (map i_op PAD) = true ->
    b_ins b = prepos ++ postpos ->
    b_ins b' = map sh prepos ++ seq a d ++ map sh postpos ->
    construct_stack_ast (P1 ++ P2) b = Some ast ->
    exists astpad,
      construct_stack_ast (P1 ++ PAD ++ P2) b' =
        Some (map (shift_entry sh) (firstn (length prepos) ast) ++ astpad ++
              map (shift_entry sh) (skipn (length prepos) ast)) /\
      map pos_of astpad = seq a d.
  Proof.
    intros b b' prepos postpos ast Hn Hb Hb' H. unfold construct_stack_ast in *.
    rewrite Hb in H. rewrite Hb'. apply padding_emulate; assumption.
  Qed.

  (* failure of the arity lookup is preserved too *)
  Theorem padding_emulate_none : forall prepos postpos,
    neutral_pad (map i_op PAD) = true ->
    emulate (P1 ++ P2) (prepos ++ postpos) [] = None ->
    emulate (P1 ++ PAD ++ P2) (map sh prepos ++ seq a d ++ map sh postpos) [] = None.
  Proof.
    intros prepos postpos Hn H. rewrite emulate_st_fst in *.
    assert (Hops : forall l k, In k l -> op_at (P1 ++ PAD ++ P2) (sh k) = op_at (P1 ++ P2) k).
    { intros l k _. apply op_at_insert_shift. }
    rewrite emulate_st_app in H. rewrite emulate_st_app.
    pose proof (emulate_st_shift sh (P1 ++ P2) (P1 ++ PAD ++ P2) prepos [] (Hops prepos)) as S1.
    cbn [map] in S1. rewrite S1.
    destruct (emulate_st (P1 ++ P2) prepos []) as [[r1 st1]|]; [|reflexivity].
    cbn [option_map fst snd]. rewrite emulate_st_app.
    destruct (neutral_pad_inserted Hn (map (shift_sval sh) st1)) as [rpad Hr]. rewrite Hr.
    rewrite (emulate_st_shift sh (P1 ++ P2) (P1 ++ PAD ++ P2) postpos st1 (Hops postpos)).
    destruct (emulate_st (P1 ++ P2) postpos st1) as [[r2 st2]|]; [discriminate|reflexivity].
  Qed.

  (* every instruction of pre / post keeps its operand trees, up to the shift *)
  Corollary padding_entries : forall prepos postpos ast ast',
    neutral_pad (map i_op PAD) = true ->
    emulate (P1 ++ P2) (prepos ++ postpos) [] = Some ast ->
    emulate (P1 ++ PAD ++ P2) (map sh prepos ++ seq a d ++ map sh postpos) [] = Some ast' ->
    forall k op args, In (k, op, args) ast -> In (sh k, op, map (shift_sval sh) args) ast'.
  Proof.
    intros prepos postpos ast ast' Hn H H' k op args Hin.
    destruct (padding_emulate prepos postpos ast Hn H) as [astpad [E _]].
    rewrite E in H'. inversion H'; subst ast'; clear H'.
    rewrite <- (firstn_skipn (length prepos) ast) in Hin. apply in_app_or in Hin.
    destruct Hin as [Hin|Hin].
    - apply in_or_app. left. apply (in_map (shift_entry sh) _ _ Hin).
    - apply in_or_app. right. apply in_or_app. right. apply (in_map (shift_entry sh) _ _ Hin).
  Qed.

  Lemma args_of_app : forall (l1 l2 : ast_t) k,
    args_of (l1 ++ l2) k = match args_of l1 k with Some x => Some x | None => args_of l2 k end.
  Proof.
    intros l1 l2 k. unfold args_of. induction l1 as [|[[k' op] args] t IH]; [reflexivity|].
    cbn [app find]. destruct (Nat.eqb k' k); [reflexivity|exact IH].
  Qed.
  Lemma args_of_not_in : forall (l : ast_t) k, ~ In k (map pos_of l) -> args_of l k = None.
  Proof.
    intros l k H. unfold args_of. induction l as [|[[k' op] args] t IH]; [reflexivity|].
    cbn [find]. destruct (Nat.eqb k' k) eqn:E.
    - apply Nat.eqb_eq in E. subst. exfalso. apply H. left. reflexivity.
    - apply IH. intros Hin. apply H. right. exact Hin.
  Qed.

  (* the lookup used by the analyses: get_stack_value_for_ins *)
  Corollary padding_args_of : forall prepos postpos ast ast',
    neutral_pad (map i_op PAD) = true ->
    emulate (P1 ++ P2) (prepos ++ postpos) [] = Some ast ->
    emulate (P1 ++ PAD ++ P2) (map sh prepos ++ seq a d ++ map sh postpos) [] = Some ast' ->
    forall k, args_of ast' (sh k) = option_map (map (shift_sval sh)) (args_of ast k).
  Proof.
    intros prepos postpos ast ast' Hn H H' k.
    destruct (padding_emulate prepos postpos ast Hn H) as [astpad [E Hp]].
    rewrite E in H'. inversion H'; subst ast'; clear H'.
    rewrite <- (firstn_skipn (length prepos) ast) at 3.
    rewrite !args_of_app. rewrite !(args_of_shift sh) by apply shift_pos_inj.
    destruct (args_of (firstn (length prepos) ast) k) as [x|]; [reflexivity|]. cbn [option_map].
    rewrite (args_of_not_in astpad); [reflexivity|].
    rewrite Hp. intros Hin. apply in_seq in Hin. unfold sh in Hin.
    destruct (shift_pos_outside a d k) as [Ho|Ho]; lia.
  Qed.

  (* the asserted / branch condition of an instruction taking one operand (assert, bz, bnz, return, the exit
     instruction of the block) is the same tree up to the shift *)
  Corollary padding_cond_of : forall prepos postpos ast ast',
    neutral_pad (map i_op PAD) = true ->
    emulate (P1 ++ P2) (prepos ++ postpos) [] = Some ast ->
    emulate (P1 ++ PAD ++ P2) (map sh prepos ++ seq a d ++ map sh postpos) [] = Some ast' ->
    forall k v rest, args_of ast k = Some (v :: rest) ->
      exists v', args_of ast' (sh k) = Some (v' :: map (shift_sval sh) rest) /\
                 v' = shift_sval sh v /\ cond_of v' = shift_cond sh (cond_of v).
  Proof.
    intros prepos postpos ast ast' Hn H H' k v rest Hk.
    exists (shift_sval sh v). split; [|split; [reflexivity|apply cond_of_shift]].
    rewrite (padding_args_of prepos postpos ast ast' Hn H H' k), Hk. reflexivity.
  Qed.

  (* the exit instruction of the padded block is the shifted exit instruction (pad not at the very end) *)
  Lemma padding_exit : forall prepos postpos, postpos <> [] ->
    List.last (map sh prepos ++ seq a d ++ map sh postpos) 0 = sh (List.last (prepos ++ postpos) 0).
  Proof.
    intros prepos postpos Hne.
    destruct (exists_last Hne) as [l [x E]]. subst postpos.
    rewrite map_app. cbn [map]. rewrite !app_assoc, !last_last. reflexivity.
  Qed.

  (* instructions before the pad: their trees do not mention any moved position, so they are literally equal *)
  Lemma pre_values_fixed : forall prepos st r fin,
    Forall (fun k => k < a) prepos ->
    Forall (sv_ok (fun _ pos _ _ => pos < a)) st ->
    emulate_st (P1 ++ P2) prepos st = Some (r, fin) ->
    Forall (fun e => Forall (sv_ok (fun _ pos _ _ => pos < a)) (snd e)) r /\
    Forall (sv_ok (fun _ pos _ _ => pos < a)) fin.
  Proof.
    induction prepos as [|k t IH]; intros st r fin Hlt Hst H.
    - cbn [emulate_st] in H. inversion H; subst. split; [constructor|exact Hst].
    - cbn [emulate_st] in H. destruct (op_at (P1 ++ P2) k) as [op|]; [|discriminate].
      unfold emulate_ins in H.
      destruct (stack_pop_size op) as [n|]; [|discriminate].
      destruct (stack_push_size op) as [m|]; [|discriminate].
      destruct (pop_n st n) as [args st'] eqn:Ep.
      destruct (emulate_st (P1 ++ P2) t (push_outs op k args m st')) as [[r1 f1]|] eqn:Er; [|discriminate].
      inversion H; subst r fin; clear H.
      inversion Hlt as [|? ? Hk Hlt']; subst.
      destruct (pop_n_Forall (sv_ok (fun _ pos _ _ => pos < a)) st n (sv_ok_unknown _) Hst) as [Ha Hs].
      rewrite Ep in Ha, Hs. cbn [fst snd] in Ha, Hs.
      destruct (IH _ _ _ Hlt' (push_outs_Forall _ op k args m st'
                 (fun j _ => sv_ok_known _ op k args j Hk Ha) Hs) Er) as [Hr Hf].
      split; [constructor; [exact Ha|exact Hr]|exact Hf].
  Qed.

  Lemma sv_ok_below_fixed : forall v, sv_ok (fun _ pos _ _ => pos < a) v -> shift_sval sh v = v.
  Proof.
    intros v H. apply shift_sval_id. revert H. apply sv_ok_mono.
    intros _ pos _ _ Hp. apply shift_pos_below. exact Hp.
  Qed.

  Lemma entries_below_fixed : forall (r : ast_t),
    Forall (fun e => pos_of e < a) r ->
    Forall (fun e => Forall (sv_ok (fun _ pos _ _ => pos < a)) (snd e)) r ->
    map (shift_entry sh) r = r.
  Proof.
    induction r as [|[[k op] args] t IH]; intros Hp Hv; [reflexivity|].
    inversion Hp as [|? ? Hk Hp']; subst. inversion Hv as [|? ? Ha Hv']; subst.
    cbn [pos_of] in Hk. cbn [snd] in Ha.
    cbn [map shift_entry]. rewrite (IH Hp' Hv'). unfold sh at 1. rewrite shift_pos_below by exact Hk.
    f_equal. f_equal. clear -Ha. induction args as [|v l IHl]; [reflexivity|].
    inversion Ha as [|? ? Hv Hl]; subst.
    cbn [map]. rewrite (sv_ok_below_fixed v Hv), (IHl Hl). reflexivity.
  Qed.

  Corollary padding_pre_unchanged : forall prepos postpos ast ast',
    neutral_pad (map i_op PAD) = true ->
    Forall (fun k => k < a) prepos ->
    emulate (P1 ++ P2) (prepos ++ postpos) [] = Some ast ->
    emulate (P1 ++ PAD ++ P2) (prepos ++ seq a d ++ map sh postpos) [] = Some ast' ->
    firstn (length prepos) ast' = firstn (length prepos) ast.
  Proof.
    intros prepos postpos ast ast' Hn Hlt H H'.
    assert (Emap : map sh prepos = prepos).
    { clear -Hlt. induction prepos as [|k t IH]; [reflexivity|]. inversion Hlt; subst.
      cbn [map]. unfold sh at 1. rewrite shift_pos_below by assumption. rewrite IH by assumption. reflexivity. }
    destruct (padding_emulate prepos postpos ast Hn H) as [astpad [E _]].
    rewrite Emap, H' in E. inversion E; subst ast'; clear E.
    rewrite emulate_st_fst in H.
    destruct (emulate_st (P1 ++ P2) (prepos ++ postpos) []) as [[r fin]|] eqn:Er; [|discriminate].
    cbn [option_map fst] in H. inversion H; subst r; clear H.
    rewrite emulate_st_app in Er.
    destruct (emulate_st (P1 ++ P2) prepos []) as [[r1 st1]|] eqn:E1; [|discriminate].
    destruct (emulate_st (P1 ++ P2) postpos st1) as [[r2 st2]|] eqn:E2; [|discriminate].
    inversion Er; subst ast; clear Er.
    pose proof (emulate_st_length _ _ _ _ _ E1) as L1.
    destruct (pre_values_fixed prepos [] r1 st1 Hlt (Forall_nil _) E1) as [Hr1 _].
    pose proof (emulate_st_positions _ _ _ _ _ E1) as Pos1.
    assert (F : forall (x y : ast_t) n, length x = n -> firstn n (x ++ y) = x).
    { intros x y n Hx. subst n. rewrite firstn_app, firstn_all, Nat.sub_diag. cbn [firstn]. apply app_nil_r. }
    rewrite (F r1 r2 _ L1). rewrite (F (map (shift_entry sh) r1) _ (length prepos)) by (rewrite map_length; exact L1).
    clear F.
    apply entries_below_fixed; [|exact Hr1].
    rewrite <- Pos1 in Hlt. rewrite Forall_forall in *. intros e He. apply Hlt. apply in_map. exact He.
  Qed.
End Padding.

(* ====================================================================== *)
(* PART 5 : examples                                                        *)
(* ====================================================================== *)
Open Scope string_scope.
Open Scope list_scope.
Definition i_pop : instr := IOther "Pop" [].
Definition i_dup : instr := IOther "Dup" [].
Definition i_load (n : N) : instr := IOther "Load" [PInt n].
Definition i_store (n : N) : instr := IOther "Store" [PInt n].
Definition i_byte (s : string) : instr := IOther "Byte" [PStr s].

(* these are the instructions the parser produces for the source text *)
Example pad_instrs_parse :
  parse_line "pop" = Ok (Some i_pop) /\ parse_line "dup" = Ok (Some i_dup) /\
  parse_line "load 9" = Ok (Some (i_load 9)) /\ parse_line "store 9" = Ok (Some (i_store 9)) /\
  parse_line "byte ""z""" = Ok (Some (i_byte """z""")) /\ parse_line "int 1" = Ok (Some (IInt (IANum 1))).
Proof. repeat split; vm_compute; reflexivity. Qed.

Example pad_int_pop : neutral_pad [IInt (IANum 1); i_pop] = true.
Proof. vm_compute. reflexivity. Qed.
Example pad_byte_pop : neutral_pad [i_byte """z"""; i_pop] = true.
Proof. vm_compute. reflexivity. Qed.
Example pad_load_store : neutral_pad [i_load 9; i_store 9] = true.
Proof. vm_compute. reflexivity. Qed.
Example pad_nested : neutral_pad [IInt (IANum 1); IInt (IANum 2); IAdd; i_dup; IEq; IAssert] = true.
Proof. vm_compute. reflexivity. Qed.
Example pad_empty : neutral_pad [] = true.
Proof. reflexivity. Qed.

(* `dup; pop` reaches below what it pushed: rejected ... *)
Example pad_dup_pop_rejected : neutral_pad [i_dup; i_pop] = false.
Proof. vm_compute. reflexivity. Qed.

(* ... and rightly so: in the symbolic model `dup; pop` is NOT neutral -- the value under it is replaced by
   "output 0 of dup", so the tree asserted afterwards is a different one (here: no longer the integer push). *)
Definition ex_P1 : prog := [mkIns 1 (IInt (IANum 1))].
Definition ex_PAD_dup : prog := [mkIns 2 i_dup; mkIns 3 i_pop].
Definition ex_P2 : prog := [mkIns 4 IAssert].

Theorem dup_pop_padding_refuted :
  exists ast ast',
    emulate (ex_P1 ++ ex_P2) [0; 1] [] = Some ast /\
    emulate (ex_P1 ++ ex_PAD_dup ++ ex_P2) [0; 1; 2; 3] [] = Some ast' /\
    args_of ast 1 = Some [SKnown (IInt (IANum 1)) 0 [] 0] /\
    args_of ast' (shift_pos 1 2 1) = Some [SKnown i_dup 1 [SKnown (IInt (IANum 1)) 0 [] 0] 0] /\
    args_of ast' (shift_pos 1 2 1) <> option_map (map (shift_sval (shift_pos 1 2))) (args_of ast 1) /\
    (forall v v', args_of ast 1 = Some [v] -> args_of ast' (shift_pos 1 2 1) = Some [v'] ->
                  cond_of v' <> shift_cond (shift_pos 1 2) (cond_of v)).
Proof.
  eexists. eexists. split; [vm_compute; reflexivity|]. split; [vm_compute; reflexivity|].
  split; [vm_compute; reflexivity|]. split; [vm_compute; reflexivity|]. split.
  - vm_compute. discriminate.
  - intros v v' H1 H2. vm_compute in H1, H2. inversion H1; subst v. inversion H2; subst v'.
    vm_compute. discriminate.
Qed.

(* `dup; pop` is not neutral even from a stack on which dup does not underflow *)
Theorem dup_pop_not_neutral : forall (p : prog) a b st x,
  op_at p a = Some i_dup -> op_at p b = Some i_pop ->
  exists r fin, emulate_st p [a; b] (x :: st) = Some (r, fin) /\ fin = SKnown i_dup a [x] 0 :: st /\ fin <> x :: st.
Proof.
  intros p a b st x H0 H1.
  assert (Ed : stack_pop_size i_dup = Some 1 /\ stack_push_size i_dup = Some 2) by (split; vm_compute; reflexivity).
  assert (Ep : stack_pop_size i_pop = Some 1 /\ stack_push_size i_pop = Some 0) by (split; vm_compute; reflexivity).
  destruct Ed as [Ed1 Ed2]. destruct Ep as [Ep1 Ep2].
  eexists. eexists. split; [|split; [reflexivity|]].
  - cbn [emulate_st]. rewrite H0. unfold emulate_ins. rewrite Ed1, Ed2.
    cbn [pop_n length Nat.leb firstn skipn rev app push_outs seq map].
    rewrite H1. rewrite Ep1, Ep2.
    cbn [pop_n length Nat.leb firstn skipn rev app push_outs seq map]. reflexivity.
  - intros E. inversion E as [Hx]. clear -Hx.
    (* x = SKnown dup a [x] 0 is impossible: a value is not its own strict subterm *)
    assert (Hsz : forall v : sval, v <> SKnown i_dup a [v] 0).
    { induction v as [|op pos args out IH] using sval_ind'; [discriminate|].
      intros E. inversion E as [[Eop Epos Eargs Eout]].
      rewrite Eargs in IH. inversion IH as [|? ? Hv _]; subst. apply Hv.
      rewrite <- Eargs at 1. reflexivity. }
    exact (Hsz x (eq_sym Hx)).
Qed.
Corollary dup_pop_not_stack_neutral : forall (p : prog) a b,
  op_at p a = Some i_dup -> op_at p b = Some i_pop -> ~ stack_neutral p [a; b].
Proof.
  intros p a b H0 H1 Hn. destruct (Hn [SUnknown]) as [r Hr].
  destruct (dup_pop_not_neutral p a b [] SUnknown H0 H1) as [r' [fin [E [_ Hne]]]].
  rewrite E in Hr. inversion Hr; subst. apply Hne. reflexivity.
Qed.

(* a concrete instance of the padding theorem (non-vacuity): `int 1; assert` padded with `load 9; store 9` *)
Definition ex_PAD_ls : prog := [mkIns 2 (i_load 9); mkIns 3 (i_store 9)].
Example padding_instance :
  exists ast ast',
    emulate (ex_P1 ++ ex_P2) [0; 1] [] = Some ast /\
    emulate (ex_P1 ++ ex_PAD_ls ++ ex_P2) [0; 1; 2; 3] [] = Some ast' /\
    args_of ast 1 = Some [SKnown (IInt (IANum 1)) 0 [] 0] /\
    args_of ast' 3 = Some [SKnown (IInt (IANum 1)) 0 [] 0].
Proof. eexists. eexists. repeat split; vm_compute; reflexivity. Qed.

(* ====================================================================== *)
(* Assumption audit                                                         *)
(* ====================================================================== *)
Print Assumptions emulate_st_fst.
Print Assumptions emulate_st_shift.
Print Assumptions cond_of_shift.
Print Assumptions neutral_pad_sufficient.
Print Assumptions neutral_pad_stack.
Print Assumptions stack_neutral_emulate.
Print Assumptions padding_emulate_sem.
Print Assumptions padding_emulate.
Print Assumptions padding_construct_stack_ast.
Print Assumptions padding_emulate_none.
Print Assumptions padding_entries.
Print Assumptions padding_args_of.
Print Assumptions padding_cond_of.
Print Assumptions padding_exit.
Print Assumptions padding_pre_unchanged.
Print Assumptions dup_pop_padding_refuted.
Print Assumptions dup_pop_not_neutral.
Print Assumptions dup_pop_not_stack_neutral.
Print Assumptions padding_instance.
