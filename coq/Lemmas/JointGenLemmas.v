(* THE JOINT PASS.  tealer iterates ALL the keys of an analysis on ONE shared worklist (generic.py: forward_analyis /
   backward_analysis take a key list; a block is recomputed for every key and its successors / predecessors are put
   back on the worklist when the value of ANY key changed).  The model (Analysis.forward / backward, Domains.solve,
   run_family, run_all) runs one instance of the solver per key.  This file relates the two.

   Subject: the REGENERATED functions for a key LIST -- Gen/SolverGen.v (merge_information_*_gen, *_loop_gen,
   forward_analyis_gen, backward_analysis_gen: already translated for `analysis_keys : list string`), Gen/RunGen.v
   (run_analysis_gen) and Gen/JointGen.v (joint_pass_gen: the slice of run_analysis that makes one pass).

   1. RUNS.  fwd_run / bwd_run: the model's loop for ONE key in which, besides the three cases of Analysis.forward
      (worklist empty; value unchanged; value changed and successors re-enqueued), a block whose value did NOT change may
      have its successors re-enqueued all the same (FR_stutter / BR_stutter).  Analysis.forward / backward are runs
      without stuttering step (forward_is_run, backward_is_run).  Every run -- stuttering or not -- preserves the keys
      of the state, ends in a state that satisfies every equation when the start worklist covers the blocks
      (fwd_run_fixpoint, bwd_run_fixpoint: the invariant of SolverLemmas.forward_fixpoint), and stays below every
      solution (fwd_run_le, bwd_run_le).  Hence, under the hypotheses of C14 (a preorder for which union / inter are
      monotone, t_eqb its equivalence, null least), any two runs from the start state agree up to t_eqb:
      fwd_run_order_independent, passes_run_order_independent (they generalise SolverLemmas.forward_order_independent
      / passes_order_independent from Analysis.forward to runs).
   2. THE STEP.  merge_information_forward_gen / _backward_gen for a duplicate-free key list (joint_merge_spec): every
      key is recomputed on its own dictionary (SolverGenLemmas.fstep / bstep: the body of the model's loop), the other
      dictionaries are untouched, and the returned flag is the DISJUNCTION of the per-key flags.
   3. THE LOOPS, UNCONDITIONALLY (joint_forward_loop_run, joint_backward_loop_run): for EVERY carrier, EVERY family of
      operations (no algebraic law), every function with main_name_fresh, every duplicate-free key list, every fuel,
      worklist and start dictionary: if the joint loop returns, then for every key k of the list the dictionary of k
      went through a RUN of the model for k from its start value (the stuttering steps are the re-enqueuings caused by
      the other keys), and the dictionaries of the other keys are unchanged.
   4. WHOLE METHODS AND THE PASS (joint_forward_analyis_run, joint_backward_analysis_run, joint_pass_run): the same
      for forward_analyis_gen / backward_analysis_gen (start states = the model's fwd_st0 / bwd_st0, under NoDup (ids f))
      and for joint_pass_gen.  joint_pass_gen_eq: the generated slice is RunGenLemmas.pass_gen, so
      RunGenLemmas.run_analysis_gen_unfold decomposes run_analysis_gen into two joint passes
      (run_analysis_gen_joint_unfold).
   5. AGAINST THE PER-KEY MODEL (joint_pass_solve_peq, joint_pass_solve_eq): under the hypotheses of C14 for the key k,
      if the joint pass returns d' and Domains.solve for k returns lo, then d'[k] and lo have the same blocks and
      t_eqb-equal values (peq); they are EQUAL when t_eqb decides Leibniz equality.  With 4: the whole run_analysis of
      an analysis with several base keys / of a key family against run_int / run_family
      (run_analysis_gen_two_base_keys, run_analysis_gen_family_peq).
   6. WHAT IS FALSE.  (a) "projection = per-key result" as an equation with the SAME fuel: joint_same_fuel_refuted
      (the joint run needs more iterations: RunGenLemmas.shared_worklist_iterations).  (b) Leibniz equality of the
      results for the model's list representation of sets (Domains.zunion / zinter / zset_eqb): joint_list_order_refuted
      -- the two results are equal as SETS (peq) but the lists differ in the order of their elements (a stored value is
      the one computed when the SET last changed, and a stuttering recomputation happens at another moment).  tealer
      stores Python sets: the difference is one of the model's representation, not of the tool.  (c) without
      monotonicity nothing holds: joint_nonmonotone_refuted.
   7. PROBE: concrete two-key instances by vm_compute (also compiled alone against mutants by
      tools/test_translate_joint.py).
   Lemmas/JointTotal.v adds totality: under the hypotheses of TotalSolver the joint loops raise no exception and return
   within an explicit iteration budget, so that in 5 BOTH sides exist (joint_pass_total_peq). *)
From Coq Require Import String List NArith ZArith Bool Arith Lia.
From Tealer Require Import Tables LeafPrelude Leaves Syntax Parse Cfg StackAst Keys KeysGen Analysis GraphGen SolverGen
  ConstraintsGen RunGen JointGen Domains Detect SolverLemmas LeafLemmas TotalSolver GraphGenLemmas GraphWf ExecLemmas SolverGenLemmas
  ConstraintsGenLemmas RunGenLemmas.
Import ListNotations.
Open Scope string_scope.
Open Scope list_scope.

(* ====================================================================== *)
(* 1. Runs of the model for one key                                        *)
(* ====================================================================== *)
Section Runs.
  Variable T : Type.
  Variable t_eqb : T -> T -> bool.
  Variable univ null : T.
  Variable union inter : T -> T -> T.
  Variable single : instr -> nat -> list sval -> T * T.
  Variable f : func.

  Notation state := (Analysis.state T).
  Notation lookup := (Analysis.lookup T).
  Notation update := (Analysis.update T).
  Notation reachin := (Analysis.reachin T univ null union inter single f).
  Notation livein := (Analysis.livein T null union inter f).
  Notation "a == b" := (t_eqb a b = true) (at level 70).
  Notation U := (ids f).

  Section RunDefs.
  Variable blockc : nat -> option T.
  Notation forward := (Analysis.forward T t_eqb univ null union inter single f blockc).
  Notation backward := (Analysis.backward T t_eqb null union inter f blockc).
  Notation fwd_ok := (SolverLemmas.fwd_ok T t_eqb univ null union inter single f blockc).
  Notation fwd_inv := (SolverLemmas.fwd_inv T t_eqb univ null union inter single f blockc).
  Notation bwd_ok := (SolverLemmas.bwd_ok T t_eqb null union inter f blockc).
  Notation bwd_inv := (SolverLemmas.bwd_inv T t_eqb null union inter f blockc).

  (* the forward loop of the model for one key, with stuttering: FR_nil / FR_same / FR_changed are the three cases of
     Analysis.forward; FR_stutter re-enqueues the successors of a block whose value did not change *)
  Inductive fwd_run : list nat -> state -> state -> Prop :=
  | FR_nil : forall st, fwd_run [] st st
  | FR_same : forall b wl st st' xb ri c old,
      fblock f b = Some xb -> reachin st xb = Some ri -> blockc b = Some c -> lookup st b = Some old ->
      inter ri c == old -> fwd_run wl st st' -> fwd_run (b :: wl) st st'
  | FR_stutter : forall b wl st st' xb ri c old nx,
      fblock f b = Some xb -> reachin st xb = Some ri -> blockc b = Some c -> lookup st b = Some old ->
      inter ri c == old -> next_global f xb = Some nx ->
      fwd_run (append_new wl (nx ++ next_rp f xb)) st st' -> fwd_run (b :: wl) st st'
  | FR_changed : forall b wl st st' xb ri c old nx,
      fblock f b = Some xb -> reachin st xb = Some ri -> blockc b = Some c -> lookup st b = Some old ->
      t_eqb (inter ri c) old = false -> next_global f xb = Some nx ->
      fwd_run (append_new wl (nx ++ next_rp f xb)) (update st b (inter ri c)) st' -> fwd_run (b :: wl) st st'.

  (* the backward loop: BR_leaf / BR_same / BR_changed are the cases of Analysis.backward *)
  Inductive bwd_run : list nat -> state -> state -> Prop :=
  | BR_nil : forall st, bwd_run [] st st
  | BR_leaf : forall b wl st st' xb,
      fblock f b = Some xb -> leaf_global f xb = true -> bwd_run wl st st' -> bwd_run (b :: wl) st st'
  | BR_same : forall b wl st st' xb li c old,
      fblock f b = Some xb -> leaf_global f xb = false ->
      livein st xb = Some li -> blockc b = Some c -> lookup st b = Some old ->
      inter li c == old -> bwd_run wl st st' -> bwd_run (b :: wl) st st'
  | BR_stutter : forall b wl st st' xb li c old ps,
      fblock f b = Some xb -> leaf_global f xb = false ->
      livein st xb = Some li -> blockc b = Some c -> lookup st b = Some old ->
      inter li c == old -> prev_global f xb = Some ps ->
      bwd_run (append_new wl (ps ++ prev_cs f xb)) st st' -> bwd_run (b :: wl) st st'
  | BR_changed : forall b wl st st' xb li c old ps,
      fblock f b = Some xb -> leaf_global f xb = false ->
      livein st xb = Some li -> blockc b = Some c -> lookup st b = Some old ->
      t_eqb (inter li c) old = false -> prev_global f xb = Some ps ->
      bwd_run (append_new wl (ps ++ prev_cs f xb)) (update st b (inter li c)) st' -> bwd_run (b :: wl) st st'.

  (* the model's loops are runs (without stuttering step) *)
  Theorem forward_is_run : forall fuel wl st st', forward fuel wl st = Done st' -> fwd_run wl st st'.
  Proof.
    induction fuel as [|fu IH]; intros wl st st' H; [discriminate|]. cbn [Analysis.forward] in H.
    destruct wl as [|b wl]; [injection H as <-; constructor|].
    destruct (fblock f b) as [xb|] eqn:Hb; [|discriminate].
    destruct (reachin st xb) as [ri|] eqn:Hri; [|discriminate].
    destruct (blockc b) as [c|] eqn:Hc; [|discriminate].
    destruct (lookup st b) as [old|] eqn:Hold; [|discriminate]. cbv zeta in H.
    destruct (t_eqb (inter ri c) old) eqn:He.
    - eapply FR_same; eauto.
    - destruct (next_global f xb) as [nx|] eqn:Hnx; [|discriminate].
      eapply FR_changed; eauto.
  Qed.

  Theorem backward_is_run : forall fuel wl st st', backward fuel wl st = Done st' -> bwd_run wl st st'.
  Proof.
    induction fuel as [|fu IH]; intros wl st st' H; [discriminate|]. cbn [Analysis.backward] in H.
    destruct wl as [|b wl]; [injection H as <-; constructor|].
    destruct (fblock f b) as [xb|] eqn:Hb; [|discriminate].
    destruct (leaf_global f xb) eqn:Hl; [eapply BR_leaf; eauto|].
    destruct (livein st xb) as [li|] eqn:Hli; [|discriminate].
    destruct (blockc b) as [c|] eqn:Hc; [|discriminate].
    destruct (lookup st b) as [old|] eqn:Hold; [|discriminate]. cbv zeta in H.
    destruct (t_eqb (inter li c) old) eqn:He.
    - eapply BR_same; eauto.
    - destruct (prev_global f xb) as [ps|] eqn:Hps; [|discriminate].
      eapply BR_changed; eauto.
  Qed.

  (* ---------------------------------------------------------------- the keys of the state *)
  Lemma fwd_run_keys wl st st' : fwd_run wl st st' -> map fst st' = map fst st.
  Proof.
    induction 1 as [| | |b wl st st' xb ri c old nx _ _ _ _ _ _ _ IH]; auto.
    rewrite IH. apply update_keys.
  Qed.

  Lemma bwd_run_keys wl st st' : bwd_run wl st st' -> map fst st' = map fst st.
  Proof.
    induction 1 as [| | | |b wl st st' xb li c old ps _ _ _ _ _ _ _ _ IH]; auto.
    rewrite IH. apply update_keys.
  Qed.

  (* leaf blocks (and keys that are not blocks) keep their value in a backward run *)
  Lemma bwd_run_leaf_unchanged wl st st' b :
    (forall xb, fblock f b = Some xb -> leaf_global f xb = true) -> bwd_run wl st st' -> lookup st' b = lookup st b.
  Proof.
    intros Hleaf. induction 1 as [| | | |b0 wl st st' xb li c old ps Hb Hl _ _ _ _ _ _ IH]; auto.
    rewrite IH. apply lookup_update_other. intros ->. rewrite (Hleaf xb Hb) in Hl. discriminate.
  Qed.

  (* ---------------------------------------------------------------- results are fixpoints *)
  Hypothesis teq_refl : forall a, a == a.

  Lemma fwd_inv_weaken wl wl' st : (forall x, In x wl -> In x wl') -> fwd_inv wl st -> fwd_inv wl' st.
  Proof. intros Hi Hinv b Hb Hn. apply Hinv; auto. Qed.

  Lemma bwd_inv_weaken wl wl' st : (forall x, In x wl -> In x wl') -> bwd_inv wl st -> bwd_inv wl' st.
  Proof. intros Hi Hinv b Hb Hn. apply Hinv; auto. Qed.

  Theorem fwd_run_fixpoint : cover_prev_P f -> cover_ret_P f -> forall wl st st',
    fwd_run wl st st' -> fwd_inv wl st -> forall b, In b U -> fwd_ok st' b.
  Proof.
    intros Hcp Hcr wl st st' Hrun.
    induction Hrun as [st|b wl st st' xb ri c old Hb Hri Hc Hold He _ IH
                      |b wl st st' xb ri c old nx Hb Hri Hc Hold He Hnx _ IH
                      |b wl st st' xb ri c old nx Hb Hri Hc Hold He Hnx _ IH]; intros Hinv.
    - intros b Hb. apply Hinv; auto.
    - apply IH. eapply (SolverLemmas.fwd_inv_same T t_eqb univ null union inter single f blockc); eauto.
      exists xb, ri, c, old. auto.
    - apply IH. apply (fwd_inv_weaken wl).
      + intros x Hx. apply append_new_In. left. exact Hx.
      + eapply (SolverLemmas.fwd_inv_same T t_eqb univ null union inter single f blockc); eauto.
        exists xb, ri, c, old. auto.
    - apply IH.
      exact (SolverLemmas.fwd_inv_changed T t_eqb univ null union inter single f blockc teq_refl Hcp Hcr
               b xb ri c old nx wl st Hb Hri Hc Hold Hnx Hinv).
  Qed.

  Theorem bwd_run_fixpoint : cover_next_P f -> cover_call_P f -> forall wl st st',
    bwd_run wl st st' -> bwd_inv wl st -> forall b, In b U -> bwd_ok st' b.
  Proof.
    intros Hcn Hcc wl st st' Hrun.
    induction Hrun as [st|b wl st st' xb Hb Hl _ IH
                      |b wl st st' xb li c old Hb Hl Hli Hc Hold He _ IH
                      |b wl st st' xb li c old ps Hb Hl Hli Hc Hold He Hps _ IH
                      |b wl st st' xb li c old ps Hb Hl Hli Hc Hold He Hps _ IH]; intros Hinv.
    - intros b Hb. apply Hinv; auto.
    - apply IH. eapply (SolverLemmas.bwd_inv_same T t_eqb null union inter f blockc); eauto. exists xb. auto.
    - apply IH. eapply (SolverLemmas.bwd_inv_same T t_eqb null union inter f blockc); eauto.
      exists xb. split; auto. right. exists li, c, old. auto.
    - apply IH. apply (bwd_inv_weaken wl).
      + intros x Hx. apply append_new_In. left. exact Hx.
      + eapply (SolverLemmas.bwd_inv_same T t_eqb null union inter f blockc); eauto.
        exists xb. split; auto. right. exists li, c, old. auto.
    - apply IH.
      exact (SolverLemmas.bwd_inv_changed T t_eqb null union inter f blockc teq_refl Hcn Hcc
               b xb li c old ps wl st Hb Hl Hli Hc Hold Hps Hinv).
  Qed.

  Corollary fwd_run_fixpoint_initial : cover_prev_P f -> cover_ret_P f -> forall wl st st',
    (forall b, In b U -> In b wl) -> fwd_run wl st st' -> forall b, In b U -> fwd_ok st' b.
  Proof.
    intros Hcp Hcr wl st st' Hcov Hrun. eapply fwd_run_fixpoint; eauto. intros b Hb Hn. exfalso. auto.
  Qed.

  Corollary bwd_run_fixpoint_initial : cover_next_P f -> cover_call_P f -> forall wl st st',
    (forall b xb, fblock f b = Some xb -> leaf_global f xb = false -> In b wl) ->
    bwd_run wl st st' -> forall b, In b U -> bwd_ok st' b.
  Proof.
    intros Hcn Hcc wl st st' Hcov Hrun. eapply bwd_run_fixpoint; eauto. intros b Hb Hn.
    apply fblock_ids in Hb. destruct Hb as [xb Hxb]. exists xb. split; auto.
    destruct (leaf_global f xb) eqn:E; auto. exfalso. eauto.
  Qed.
  End RunDefs.

  (* ---------------------------------------------------------------- order: runs stay below every solution *)
  Section Order.
  Variable leq : T -> T -> Prop.
  Hypothesis leq_refl : forall a, leq a a.
  Hypothesis leq_trans : forall a b c, leq a b -> leq b c -> leq a c.
  Hypothesis teq_leq : forall a b, a == b <-> leq a b /\ leq b a.
  Hypothesis union_mono : forall a a' b b', leq a a' -> leq b b' -> leq (union a b) (union a' b').
  Hypothesis inter_mono : forall a a' b b', leq a a' -> leq b b' -> leq (inter a b) (inter a' b').
  Hypothesis null_least : forall a, leq null a.

  Notation ple := (SolverLemmas.ple T leq).
  Notation peq := (SolverLemmas.peq T t_eqb).
  Notation fwd_sol := (SolverLemmas.fwd_sol T t_eqb univ null union inter single f).
  Notation bwd_sol := (SolverLemmas.bwd_sol T t_eqb null union inter f).
  Notation fwd_st0 := (SolverLemmas.fwd_st0 T null f).
  Notation bwd_st0 := (SolverLemmas.bwd_st0 T null f).
  Notation bwd_start := (SolverLemmas.bwd_start T null f).
  Notation bc_eq := (SolverLemmas.bc_eq T t_eqb).

  Let trefl : forall a, a == a := SolverLemmas.teq_refl' T t_eqb leq leq_refl teq_leq.

  Lemma fwd_run_le blockc sol wl st st' :
    fwd_sol blockc sol -> ple st sol -> fwd_run blockc wl st st' -> ple st' sol.
  Proof.
    intros Hsol Hple Hrun. revert Hple.
    induction Hrun as [| | |b wl st st' xb ri c old nx Hb Hri Hc Hold He Hnx _ IH]; auto.
    intros Hple. apply IH.
    destruct (Hsol b) as [xb' [ri' [bc' [old' [H1 [H2 [H3 [H4 H5]]]]]]]].
    { apply fblock_ids. eauto. }
    rewrite Hb in H1. inversion H1; subst xb'. rewrite Hc in H3. inversion H3; subst bc'.
    eapply (SolverLemmas.ple_update T leq); eauto.
    eapply leq_trans; [|apply teq_leq in H5; apply H5].
    apply inter_mono; auto.
    eapply (SolverLemmas.reachin_mono T univ null union inter single f leq); eauto.
  Qed.

  Lemma bwd_run_le blockc sol wl st st' :
    bwd_sol blockc sol -> ple st sol -> bwd_run blockc wl st st' -> ple st' sol.
  Proof.
    intros Hsol Hple Hrun. revert Hple.
    induction Hrun as [| | | |b wl st st' xb li c old ps Hb Hl Hli Hc Hold He Hps _ IH]; auto.
    intros Hple. apply IH.
    destruct (Hsol b) as [xb' [H1 H2]].
    { apply fblock_ids. eauto. }
    rewrite Hb in H1. inversion H1; subst xb'.
    destruct H2 as [H2|[li' [bc' [old' [H2 [H3 [H4 H5]]]]]]]; [congruence|].
    rewrite Hc in H3. inversion H3; subst bc'.
    eapply (SolverLemmas.ple_update T leq); eauto.
    eapply leq_trans; [|apply teq_leq in H5; apply H5].
    apply inter_mono; auto.
    eapply (SolverLemmas.livein_mono T null union inter f leq); eauto.
  Qed.

  (* two forward runs from the all-null start state on covering worklists agree up to == *)
  Theorem fwd_run_order_independent blockc wl1 wl2 st1 st2 :
    cover_prev_P f -> cover_ret_P f ->
    (forall b, In b U -> In b wl1) -> (forall b, In b U -> In b wl2) ->
    fwd_run blockc wl1 fwd_st0 st1 -> fwd_run blockc wl2 fwd_st0 st2 -> peq st1 st2.
  Proof.
    intros Hcp Hcr Hw1 Hw2 H1 H2.
    assert (S1 : fwd_sol blockc st1) by exact (fwd_run_fixpoint_initial blockc trefl Hcp Hcr wl1 _ st1 Hw1 H1).
    assert (S2 : fwd_sol blockc st2) by exact (fwd_run_fixpoint_initial blockc trefl Hcp Hcr wl2 _ st2 Hw2 H2).
    apply (SolverLemmas.ple_antisym T t_eqb leq teq_leq).
    - rewrite (fwd_run_keys blockc _ _ _ H1), (fwd_run_keys blockc _ _ _ H2). reflexivity.
    - eapply fwd_run_le; [exact S2| |exact H1].
      apply (SolverLemmas.fwd_st0_le T t_eqb univ null union inter single f leq null_least blockc). exact S2.
    - eapply fwd_run_le; [exact S1| |exact H2].
      apply (SolverLemmas.fwd_st0_le T t_eqb univ null union inter single f leq null_least blockc). exact S1.
  Qed.

  Lemma bwd_run_start_le blockc wl st0 st' : bwd_start st0 -> bwd_run blockc wl st0 st' -> ple st0 st'.
  Proof.
    intros Hst Hrun b v Hb.
    destruct (Hst b v Hb) as [->|Hleaf].
    - assert (Hk : In b (map fst st')).
      { rewrite (bwd_run_keys blockc _ _ _ Hrun). eapply lookup_some_in_keys; eauto. }
      apply lookup_in_keys in Hk. destruct Hk as [w Hw]. eauto.
    - rewrite <- (bwd_run_leaf_unchanged blockc _ _ _ b Hleaf Hrun) in Hb. eauto.
  Qed.

  Lemma bwd_run_le_gen bc1 bc2 wl1 wl2 st01 st02 st1 st2 :
    cover_next_P f -> cover_call_P f ->
    bc_eq bc1 bc2 -> bwd_start st01 -> peq st01 st02 ->
    (forall b xb, fblock f b = Some xb -> leaf_global f xb = false -> In b wl1) ->
    bwd_run bc1 wl1 st01 st1 -> bwd_run bc2 wl2 st02 st2 -> ple st2 st1.
  Proof.
    intros Hcn Hcc Hbc Hst Hpeq Hw1 H1 H2.
    assert (S1 : bwd_sol bc1 st1) by exact (bwd_run_fixpoint_initial bc1 trefl Hcn Hcc wl1 st01 st1 Hw1 H1).
    eapply (bwd_run_le bc2); [|  |exact H2].
    - eapply (SolverLemmas.bwd_sol_bc_eq T t_eqb null union inter f leq leq_refl leq_trans teq_leq inter_mono); eauto.
    - eapply (SolverLemmas.ple_trans T leq leq_trans).
      + apply (SolverLemmas.peq_ple T t_eqb leq teq_leq). apply (SolverLemmas.peq_sym T t_eqb leq teq_leq). exact Hpeq.
      + eapply bwd_run_start_le; eauto.
  Qed.

  Theorem bwd_run_order_independent bc1 bc2 wl1 wl2 st01 st02 st1 st2 :
    cover_next_P f -> cover_call_P f ->
    bc_eq bc1 bc2 -> bwd_start st01 -> bwd_start st02 -> peq st01 st02 ->
    (forall b xb, fblock f b = Some xb -> leaf_global f xb = false -> In b wl1) ->
    (forall b xb, fblock f b = Some xb -> leaf_global f xb = false -> In b wl2) ->
    bwd_run bc1 wl1 st01 st1 -> bwd_run bc2 wl2 st02 st2 -> peq st1 st2.
  Proof.
    intros Hcn Hcc Hbc Hs1 Hs2 Hpeq Hw1 Hw2 H1 H2.
    apply (SolverLemmas.ple_antisym T t_eqb leq teq_leq).
    - rewrite (bwd_run_keys bc1 _ _ _ H1), (bwd_run_keys bc2 _ _ _ H2). apply Hpeq.
    - exact (bwd_run_le_gen bc2 bc1 wl2 wl1 st02 st01 st2 st1 Hcn Hcc
               (SolverLemmas.bc_eq_sym T t_eqb leq teq_leq _ _ Hbc) Hs2
               (SolverLemmas.peq_sym T t_eqb leq teq_leq _ _ Hpeq) Hw2 H2 H1).
    - exact (bwd_run_le_gen bc1 bc2 wl1 wl2 st01 st02 st1 st2 Hcn Hcc Hbc Hs1 Hpeq Hw1 H1 H2).
  Qed.

  (* a forward run followed by a backward run seeded with its result (the shape of one pass): any two such pairs agree *)
  Theorem passes_run_order_independent blockc wl1 wl2 wl3 wl4 ro1 ro2 lo1 lo2 :
    cover_prev_P f -> cover_ret_P f -> cover_next_P f -> cover_call_P f ->
    (forall b, In b U -> In b wl1) -> (forall b, In b U -> In b wl2) ->
    (forall b xb, fblock f b = Some xb -> leaf_global f xb = false -> In b wl3) ->
    (forall b xb, fblock f b = Some xb -> leaf_global f xb = false -> In b wl4) ->
    fwd_run blockc wl1 fwd_st0 ro1 -> fwd_run blockc wl2 fwd_st0 ro2 ->
    bwd_run (lookup ro1) wl3 (bwd_st0 ro1) lo1 -> bwd_run (lookup ro2) wl4 (bwd_st0 ro2) lo2 ->
    peq ro1 ro2 /\ peq lo1 lo2.
  Proof.
    intros Hcp Hcr Hcn Hcc Hw1 Hw2 Hw3 Hw4 F1 F2 B1 B2.
    assert (Hro : peq ro1 ro2) by exact (fwd_run_order_independent blockc wl1 wl2 ro1 ro2 Hcp Hcr Hw1 Hw2 F1 F2).
    split; auto.
    exact (bwd_run_order_independent (lookup ro1) (lookup ro2) wl3 wl4 _ _ lo1 lo2 Hcn Hcc
             (SolverLemmas.peq_bc_eq T t_eqb _ _ Hro) (SolverLemmas.bwd_st0_start T null f ro1)
             (SolverLemmas.bwd_st0_start T null f ro2)
             (SolverLemmas.bwd_st0_peq T t_eqb null f leq leq_refl teq_leq _ _ Hro) Hw3 Hw4 B1 B2).
  Qed.
  End Order.
End Runs.

(* ====================================================================== *)
(* 2. The step for a key list                                              *)
(* ====================================================================== *)
Section Joint.
  Variable T : Type.
  Variable t_eqb : T -> T -> bool.
  Variable univ null : string -> T.
  Variable union inter : string -> T -> T -> T.
  Variable single : string -> instr -> nat -> list sval -> T * T.
  Variable f : func.

  Notation state := (Analysis.state T).
  Notation gdict := (SolverGen.gdict T).
  Notation lookup := (Analysis.lookup T).
  Notation update := (Analysis.update T).
  Notation kget := (kdict_get T).
  Notation kset := (kdict_set T).
  Notation view := (ddict_get T).
  Notation U := (ids f).
  Notation reachin k := (Analysis.reachin T (univ k) (null k) (union k) (inter k) (single k) f).
  Notation livein k := (Analysis.livein T (null k) (union k) (inter k) f).
  Notation merge_fwd := (merge_information_forward_gen T t_eqb univ null union inter single f).
  Notation loop_fwd := (forward_analyis_loop_gen T t_eqb univ null union inter single f).
  Notation analysis_fwd := (forward_analyis_gen T t_eqb univ null union inter single f).
  Notation merge_bwd := (merge_information_backward_gen T t_eqb univ null union inter f).
  Notation loop_bwd := (backward_analysis_loop_gen T t_eqb univ null union inter f).
  Notation analysis_bwd := (backward_analysis_gen T t_eqb univ null union inter f).
  Notation fstep := (SolverGenLemmas.fstep T t_eqb univ null union inter single f).
  Notation bstep := (SolverGenLemmas.bstep T t_eqb null union inter f).
  Notation gstep := (SolverGenLemmas.gstep T t_eqb inter).
  Notation key_step := (SolverGenLemmas.key_step T t_eqb inter).
  Notation frun k := (fwd_run T t_eqb (univ k) (null k) (union k) (inter k) (single k) f).
  Notation brun k := (bwd_run T t_eqb (null k) (union k) (inter k) f).
  Notation fwd_st0 k := (SolverLemmas.fwd_st0 T (null k) f).
  Notation bwd_st0 k := (SolverLemmas.bwd_st0 T (null k) f).
  Notation pass := (joint_pass_gen T t_eqb univ null union inter single f).

  (* the loop over the keys: every key is recomputed on its own dictionary, the flag is accumulated *)
  Fixpoint jfold (step : string -> state -> py (bool * state)) (keys : list string) (gr : gdict) (u : bool)
      : py (gdict * bool) :=
    match keys with
    | [] => Some (gr, u)
    | k :: ks =>
        match kget gr k with
        | None => None
        | Some st =>
            match step k st with
            | None => None
            | Some (ch, st') => jfold step ks (kset gr k st') (if ch then true else u)
            end
        end
    end.

  Lemma key_step_missing calc block bcs gr u key :
    kget gr key = None -> key_step calc block bcs (Some (gr, u)) key = None.
  Proof. intros Hg. unfold SolverGenLemmas.key_step. cbn [bind fst snd]. rewrite Hg. reflexivity. Qed.

  Lemma key_fold_jfold calc block bcs keys : forall gr u,
    fold_left (key_step calc block bcs) keys (Some (gr, u)) =
    jfold (fun k st => gstep k (calc k block st) (view bcs k) st block) keys gr u.
  Proof.
    induction keys as [|k ks IH]; intros gr u; [reflexivity|]. cbn [fold_left jfold].
    destruct (kget gr k) as [st|] eqn:Hg.
    - rewrite (key_step_single T t_eqb inter calc block bcs gr u k st Hg).
      destruct (gstep k (calc k block st) (view bcs k) st block) as [[ch st']|].
      + apply IH.
      + apply key_fold_none.
    - rewrite (key_step_missing calc block bcs gr u k Hg). apply key_fold_none.
  Qed.

  Lemma jfold_spec step : forall keys gr u gr' u',
    NoDup keys -> jfold step keys gr u = Some (gr', u') ->
    (forall k, In k keys -> exists st ch st',
        kget gr k = Some st /\ step k st = Some (ch, st') /\ kget gr' k = Some st' /\ (ch = true -> u' = true)) /\
    (forall k, ~ In k keys -> kget gr' k = kget gr k) /\
    (u = true -> u' = true) /\
    (u' = true -> u = true \/ exists k st st', In k keys /\ kget gr k = Some st /\ step k st = Some (true, st')).
  Proof.
    induction keys as [|k ks IH]; intros gr u gr' u' Hnd H; cbn [jfold] in H.
    - injection H as <- <-. repeat split; auto. intros k [].
    - destruct (kget gr k) as [st|] eqn:Hg; [|discriminate].
      destruct (step k st) as [[ch st1]|] eqn:Hs; [|discriminate].
      inversion Hnd as [|? ? Hnk Hnd']; subst.
      destruct (IH _ _ _ _ Hnd' H) as (I1 & I2 & I3 & I4).
      split; [|split; [|split]].
      + intros k' [<-|Hin].
        * exists st, ch, st1. repeat split; auto.
          -- rewrite (I2 k Hnk). apply kdict_get_set_same.
          -- intros ->. apply I3. reflexivity.
        * destruct (I1 k' Hin) as (st' & ch' & st1' & J1 & J2 & J3 & J4).
          assert (Hne : k <> k') by (intros ->; contradiction).
          rewrite (kdict_get_set_other T gr k k' st1 Hne) in J1.
          exists st', ch', st1'. auto.
      + intros k' Hn. assert (Hne : k <> k') by (intros ->; apply Hn; left; reflexivity).
        rewrite I2 by (intros Hin; apply Hn; right; exact Hin).
        apply kdict_get_set_other. exact Hne.
      + intros ->. apply I3. destruct ch; reflexivity.
      + intros Hu. destruct (I4 Hu) as [Hc|(k' & st' & st1' & J1 & J2 & J3)].
        * destruct ch.
          -- right. exists k, st, st1. split; [left; reflexivity|]. auto.
          -- left. exact Hc.
        * right. exists k', st', st1'. split; [right; exact J1|].
          assert (Hne : k <> k') by (intros ->; contradiction).
          rewrite (kdict_get_set_other T gr k k' st1 Hne) in J2. auto.
  Qed.

  Lemma gstep_call_fstep k b bc st :
    gstep k (call_calculate_reachin T univ null union inter single f k b st) bc st b = fstep k bc st b.
  Proof.
    rewrite call_reachin_eq. unfold SolverGenLemmas.fstep. destruct (fblock f b); reflexivity.
  Qed.

  (* _merge_information_forward for a duplicate-free key list *)
  Theorem joint_merge_forward_spec : forall keys block gr bcs updated gr',
    NoDup keys -> merge_fwd keys block gr bcs = Some (updated, gr') ->
    (forall k, In k keys -> exists st ch st',
        kget gr k = Some st /\ fstep k (view bcs k) st block = Some (ch, st') /\ kget gr' k = Some st' /\
        (ch = true -> updated = true)) /\
    (forall k, ~ In k keys -> kget gr' k = kget gr k) /\
    (updated = true -> exists k st st', In k keys /\ kget gr k = Some st /\ fstep k (view bcs k) st block = Some (true, st')).
  Proof.
    intros keys block gr bcs updated gr' Hnd H. rewrite merge_fwd_unfold in H. unfold ret at 1 in H.
    rewrite key_fold_jfold in H.
    destruct (jfold _ keys gr false) as [[g u]|] eqn:Hj; [|discriminate]. cbn [bind ret fst snd] in H.
    injection H as <- <-.
    destruct (jfold_spec _ _ _ _ _ _ Hnd Hj) as (I1 & I2 & _ & I4).
    split; [|split].
    - intros k Hk. destruct (I1 k Hk) as (st & ch & st' & J1 & J2 & J3 & J4).
      exists st, ch, st'. rewrite <- gstep_call_fstep. auto.
    - exact I2.
    - intros Hu. destruct (I4 Hu) as [Hc|(k & st & st' & J1 & J2 & J3)]; [discriminate|].
      exists k, st, st'. rewrite <- gstep_call_fstep. auto.
  Qed.

  Lemma gstep_call_bstep k b xb bc st :
    main_name_fresh f -> fblock f b = Some xb -> leaf_global f xb = false ->
    gstep k (call_calculate_livein T univ null union inter f k b st) bc st b = bstep k bc st b.
  Proof.
    intros Hm Hb Hl. rewrite (call_livein_eq T univ null union inter f k b xb st Hm Hb).
    unfold SolverGenLemmas.bstep. rewrite Hb, Hl. reflexivity.
  Qed.

  (* _merge_information_backward for a duplicate-free key list whose keys all have a dictionary *)
  Theorem joint_merge_backward_spec : forall keys block gl bcs updated gl',
    main_name_fresh f -> NoDup keys -> (forall k, In k keys -> exists st, kget gl k = Some st) ->
    merge_bwd keys block gl bcs = Some (updated, gl') ->
    (forall k, In k keys -> exists st ch st',
        kget gl k = Some st /\ bstep k (view bcs k) st block = Some (ch, st') /\ kget gl' k = Some st' /\
        (ch = true -> updated = true)) /\
    (forall k, ~ In k keys -> kget gl' k = kget gl k) /\
    (updated = true -> exists k st st', In k keys /\ kget gl k = Some st /\ bstep k (view bcs k) st block = Some (true, st')) /\
    exists xb, fblock f block = Some xb.
  Proof.
    intros keys block gl bcs updated gl' Hm Hnd Hpres H. rewrite merge_bwd_unfold in H.
    destruct (fblock f block) as [xb|] eqn:Hb; [|rewrite (leaf_block_global_gen_dangling f _ Hb) in H; discriminate].
    rewrite (leaf_block_global_gen_eq f block xb Hb) in H.
    destruct (leaf_global f xb) eqn:Hl; cbn [ifE] in H.
    - injection H as <- <-. split; [|split; [|split]]; eauto; [|discriminate].
      intros k Hk. destruct (Hpres k Hk) as [st Hst]. exists st, false, st.
      unfold SolverGenLemmas.bstep. rewrite Hb, Hl. repeat split; auto.
    - unfold ret at 1 in H. rewrite key_fold_jfold in H.
      destruct (jfold _ keys gl false) as [[g u]|] eqn:Hj; [|discriminate]. cbn [bind ret fst snd] in H.
      injection H as <- <-.
      destruct (jfold_spec _ _ _ _ _ _ Hnd Hj) as (I1 & I2 & _ & I4).
      split; [|split; [|split]]; eauto.
      + intros k Hk. destruct (I1 k Hk) as (st & ch & st' & J1 & J2 & J3 & J4).
        exists st, ch, st'. rewrite <- (gstep_call_bstep k block xb _ st Hm Hb Hl). auto.
      + intros Hu. destruct (I4 Hu) as [Hc|(k & st & st' & J1 & J2 & J3)]; [discriminate|].
        exists k, st, st'. rewrite <- (gstep_call_bstep k block xb _ st Hm Hb Hl). auto.
  Qed.

  (* the body of the model's loops, inverted *)
  Lemma fstep_inv k bc st b ch st1 :
    fstep k bc st b = Some (ch, st1) ->
    exists xb ri c old,
      fblock f b = Some xb /\ reachin k st xb = Some ri /\ lookup bc b = Some c /\ lookup st b = Some old /\
      ((ch = false /\ t_eqb (inter k ri c) old = true /\ st1 = st) \/
       (ch = true /\ t_eqb (inter k ri c) old = false /\ st1 = update st b (inter k ri c))).
  Proof.
    unfold SolverGenLemmas.fstep, SolverGenLemmas.gstep. intros H.
    destruct (fblock f b) as [xb|] eqn:Hb; [|discriminate].
    destruct (reachin k st xb) as [ri|] eqn:Hri; [|discriminate].
    destruct (lookup bc b) as [c|] eqn:Hc; [|discriminate].
    destruct (lookup st b) as [old|] eqn:Hold; [|discriminate].
    exists xb, ri, c, old. do 4 (split; [first [reflexivity|assumption]|]).
    destruct (t_eqb (inter k ri c) old); injection H as <- <-; [left|right]; auto.
  Qed.

  Lemma bstep_inv k bc st b ch st1 :
    bstep k bc st b = Some (ch, st1) ->
    exists xb, fblock f b = Some xb /\
      ((leaf_global f xb = true /\ ch = false /\ st1 = st) \/
       (leaf_global f xb = false /\ exists li c old,
          livein k st xb = Some li /\ lookup bc b = Some c /\ lookup st b = Some old /\
          ((ch = false /\ t_eqb (inter k li c) old = true /\ st1 = st) \/
           (ch = true /\ t_eqb (inter k li c) old = false /\ st1 = update st b (inter k li c))))).
  Proof.
    unfold SolverGenLemmas.bstep, SolverGenLemmas.gstep. intros H.
    destruct (fblock f b) as [xb|] eqn:Hb; [|discriminate]. exists xb. split; [reflexivity|].
    destruct (leaf_global f xb) eqn:Hl; [injection H as <- <-; auto|]. right. split; [reflexivity|].
    destruct (livein k st xb) as [li|] eqn:Hli; [|discriminate].
    destruct (lookup bc b) as [c|] eqn:Hc; [|discriminate].
    destruct (lookup st b) as [old|] eqn:Hold; [|discriminate].
    exists li, c, old. do 3 (split; [first [reflexivity|assumption]|]).
    destruct (t_eqb (inter k li c) old); injection H as <- <-; [left|right]; auto.
  Qed.

  (* ====================================================================== *)
  (* 3. The loops: the dictionary of every key goes through a run of the model *)
  (* ====================================================================== *)
  Theorem joint_forward_loop_run : forall fuel keys wl bcs gr wl' gr',
    main_name_fresh f -> NoDup keys ->
    loop_fwd fuel keys wl bcs gr = Some (Some (wl', gr')) ->
    wl' = [] /\
    (forall k st, In k keys -> kget gr k = Some st ->
       exists st', kget gr' k = Some st' /\ frun k (lookup (view bcs k)) wl st st') /\
    (forall k, ~ In k keys -> kget gr' k = kget gr k).
  Proof.
    intros fuel keys. induction fuel as [|fu IH]; intros wl bcs gr wl' gr' Hm Hnd H; [discriminate|].
    cbn [forward_analyis_loop_gen] in H. cbv zeta in H.
    destruct wl as [|b wl]; cbn [list_nonempty list_head list_tail tl bind] in H.
    - injection H as <- <-. split; [reflexivity|]. split; [|reflexivity].
      intros k st _ Hst. exists st. split; [exact Hst|constructor].
    - destruct (merge_fwd keys b gr bcs) as [[updated gr1]|] eqn:Hmg; [|discriminate]. cbn [bind fst snd] in H.
      destruct (joint_merge_forward_spec keys b gr bcs updated gr1 Hnd Hmg) as (M1 & M2 & M3).
      destruct updated.
      + destruct (M3 eq_refl) as (k0 & st0 & st0' & K1 & K2 & K3).
        destruct (fstep_inv _ _ _ _ _ _ K3) as (xb & _ & _ & _ & Hb & _).
        rewrite (return_point_gen_eq f b xb Hb) in H. cbn [bind] in H.
        rewrite (next_blocks_global_gen_eq f b xb Hm Hb) in H.
        destruct (next_global f xb) as [nx|] eqn:Hnx; [|discriminate]. cbn [bind ret] in H.
        rewrite append_fold_eq in H. cbn [bind] in H.
        change (if f_is_callsub f xb then match sub_return_point xb with Some r => [r] | None => [] end else [])
          with (next_rp f xb) in H.
        destruct (IH _ _ _ _ _ Hm Hnd H) as (R1 & R2 & R3).
        split; [exact R1|]. split.
        * intros k st Hk Hst. destruct (M1 k Hk) as (st_ & ch & st1 & J1 & J2 & J3 & _).
          rewrite Hst in J1. injection J1 as <-.
          destruct (R2 k st1 Hk J3) as (st' & E1 & E2). exists st'. split; [exact E1|].
          destruct (fstep_inv _ _ _ _ _ _ J2) as (xb' & ri & c & old & Hb' & Hri & Hc & Hold & Hcase).
          rewrite Hb in Hb'. injection Hb' as <-.
          destruct Hcase as [(-> & He & ->)|(-> & He & ->)].
          -- eapply FR_stutter; eauto.
          -- eapply FR_changed; eauto.
        * intros k Hk. rewrite (R3 k Hk). apply M2. exact Hk.
      + destruct (IH _ _ _ _ _ Hm Hnd H) as (R1 & R2 & R3).
        split; [exact R1|]. split.
        * intros k st Hk Hst. destruct (M1 k Hk) as (st_ & ch & st1 & J1 & J2 & J3 & J4).
          rewrite Hst in J1. injection J1 as <-.
          destruct (R2 k st1 Hk J3) as (st' & E1 & E2). exists st'. split; [exact E1|].
          destruct (fstep_inv _ _ _ _ _ _ J2) as (xb' & ri & c & old & Hb' & Hri & Hc & Hold & Hcase).
          destruct Hcase as [(-> & He & ->)|(-> & He & ->)].
          -- eapply FR_same; eauto.
          -- discriminate (J4 eq_refl).
        * intros k Hk. rewrite (R3 k Hk). apply M2. exact Hk.
  Qed.

  Theorem joint_backward_loop_run : forall fuel keys wl bcs gl wl' gl',
    main_name_fresh f -> NoDup keys -> (forall k, In k keys -> exists st, kget gl k = Some st) ->
    loop_bwd fuel keys wl bcs gl = Some (Some (wl', gl')) ->
    wl' = [] /\
    (forall k st, In k keys -> kget gl k = Some st ->
       exists st', kget gl' k = Some st' /\ brun k (lookup (view bcs k)) wl st st') /\
    (forall k, ~ In k keys -> kget gl' k = kget gl k).
  Proof.
    intros fuel keys. induction fuel as [|fu IH]; intros wl bcs gl wl' gl' Hm Hnd Hpres H; [discriminate|].
    cbn [backward_analysis_loop_gen] in H. cbv zeta in H.
    destruct wl as [|b wl]; cbn [list_nonempty list_head list_tail tl bind] in H.
    - injection H as <- <-. split; [reflexivity|]. split; [|reflexivity].
      intros k st _ Hst. exists st. split; [exact Hst|constructor].
    - destruct (merge_bwd keys b gl bcs) as [[updated gl1]|] eqn:Hmg; [|discriminate]. cbn [bind fst snd] in H.
      destruct (joint_merge_backward_spec keys b gl bcs updated gl1 Hm Hnd Hpres Hmg) as (M1 & M2 & M3 & xb & Hb).
      assert (Hpres1 : forall k, In k keys -> exists st, kget gl1 k = Some st).
      { intros k Hk. destruct (M1 k Hk) as (_ & _ & st1 & _ & _ & J3 & _). eauto. }
      destruct updated.
      + rewrite (callsub_block_gen_eq f b xb Hb) in H. cbn [bind] in H.
        rewrite (prev_blocks_global_gen_eq f b xb Hb) in H.
        destruct (prev_global f xb) as [ps|] eqn:Hps; [|discriminate]. cbn [bind ret] in H.
        rewrite append_fold_eq in H. cbn [bind] in H.
        change (if is_sub_return_point f xb then match callsub_block_of f xb with Some c => [c] | None => [] end else [])
          with (prev_cs f xb) in H.
        destruct (M3 eq_refl) as (k0 & st0 & st0' & K1 & K2 & K3).
        assert (Hl : leaf_global f xb = false).
        { destruct (bstep_inv _ _ _ _ _ _ K3) as (xb' & Hb' & [(_ & Hc & _)|(Hl & _)]); [discriminate|].
          rewrite Hb in Hb'. injection Hb' as <-. exact Hl. }
        destruct (IH _ _ _ _ _ Hm Hnd Hpres1 H) as (R1 & R2 & R3).
        split; [exact R1|]. split.
        * intros k st Hk Hst. destruct (M1 k Hk) as (st_ & ch & st1 & J1 & J2 & J3 & _).
          rewrite Hst in J1. injection J1 as <-.
          destruct (R2 k st1 Hk J3) as (st' & E1 & E2). exists st'. split; [exact E1|].
          destruct (bstep_inv _ _ _ _ _ _ J2) as (xb' & Hb' & Hcase).
          rewrite Hb in Hb'. injection Hb' as <-.
          destruct Hcase as [(Hl' & _)|(_ & li & c & old & Hli & Hc & Hold & Hcase)]; [congruence|].
          destruct Hcase as [(-> & He & ->)|(-> & He & ->)].
          -- eapply BR_stutter; eauto.
          -- eapply BR_changed; eauto.
        * intros k Hk. rewrite (R3 k Hk). apply M2. exact Hk.
      + destruct (IH _ _ _ _ _ Hm Hnd Hpres1 H) as (R1 & R2 & R3).
        split; [exact R1|]. split.
        * intros k st Hk Hst. destruct (M1 k Hk) as (st_ & ch & st1 & J1 & J2 & J3 & J4).
          rewrite Hst in J1. injection J1 as <-.
          destruct (R2 k st1 Hk J3) as (st' & E1 & E2). exists st'. split; [exact E1|].
          destruct (bstep_inv _ _ _ _ _ _ J2) as (xb' & Hb' & Hcase).
          rewrite Hb in Hb'. injection Hb' as <-.
          destruct Hcase as [(Hl & -> & ->)|(Hl & li & c & old & Hli & Hc & Hold & Hcase)].
          -- eapply BR_leaf; eauto.
          -- destruct Hcase as [(-> & He & ->)|(-> & He & ->)].
             ++ eapply BR_same; eauto.
             ++ discriminate (J4 eq_refl).
        * intros k Hk. rewrite (R3 k Hk). apply M2. exact Hk.
  Qed.

  (* ====================================================================== *)
  (* 4. Whole methods and the pass                                           *)
  (* ====================================================================== *)
  (* a dictionary holding h k for every key k of a list *)
  Definition init_dict (h : string -> state) (keys : list string) (g : gdict) : gdict :=
    fold_left (fun g k => kset g k (h k)) keys g.

  Lemma init_dict_get h : forall keys g k,
    kget (init_dict h keys g) k = if in_dec string_dec k keys then Some (h k) else kget g k.
  Proof.
    induction keys as [|x ks IH]; intros g k; [reflexivity|].
    cbn [init_dict fold_left]. fold (init_dict h ks (kset g x (h x))). rewrite IH.
    destruct (in_dec string_dec k ks) as [Hi|Hn].
    - destruct (in_dec string_dec k (x :: ks)) as [_|Hn']; [reflexivity|]. exfalso. apply Hn'. right. exact Hi.
    - destruct (string_dec x k) as [->|Hne].
      + rewrite kdict_get_set_same. destruct (in_dec string_dec k (k :: ks)) as [_|Hn']; [reflexivity|].
        exfalso. apply Hn'. left. reflexivity.
      + rewrite (kdict_get_set_other T g x k (h x) Hne).
        destruct (in_dec string_dec k (x :: ks)) as [[He|Hi]|_]; [contradiction|contradiction|reflexivity].
  Qed.

  Lemma init_dict_in h keys g k : In k keys -> kget (init_dict h keys g) k = Some (h k).
  Proof. intros Hk. rewrite init_dict_get. destruct (in_dec string_dec k keys); [reflexivity|contradiction]. Qed.

  Lemma init_dict_out h keys g k : ~ In k keys -> kget (init_dict h keys g) k = kget g k.
  Proof. intros Hk. rewrite init_dict_get. destruct (in_dec string_dec k keys); [contradiction|reflexivity]. Qed.

  (* the initialisation loops of forward_analyis, for a key list *)
  Lemma forward_init_keys : NoDup U -> forall keys gr,
    fold_left (fun acc key => (bind acc (fun st =>
      (bind (fold_left (fun acc2 b => (bind acc2 (fun st2 =>
        (bind (kget st2 key) (fun tmp1 => (ret (kset st2 key (dict_set T tmp1 b (null key)))))))))
        (function_blocks f) (ret (kset st key (dict_empty T)))) (fun tmp2 => (ret tmp2))))))
      keys (ret gr) = Some (init_dict (fun k => fwd_st0 k) keys gr).
  Proof.
    intros Hnd keys. induction keys as [|k ks IH]; intros gr; [reflexivity|].
    match goal with |- fold_left ?F _ _ = _ => set (F0 := F) in * end.
    cbn [fold_left init_dict].
    assert (Hstep : F0 (ret gr) k = Some (kset gr k (fwd_st0 k))).
    { subst F0. cbv beta. unfold ret at 1. cbn [bind]. unfold function_blocks.
      rewrite (forward_init_inner T null k [] (fn_blocks f)); [|exact Hnd|apply kdict_get_set_same].
      cbn [bind ret app]. rewrite kdict_set_set. reflexivity. }
    rewrite Hstep. apply IH.
  Qed.

  Lemma backward_init_keys bcs : NoDup U -> forall keys gl,
    (forall k, In k keys -> leaves_covered T f (view bcs k)) ->
    fold_left (fun acc key => (bind acc (fun st =>
      (bind (fold_left (binit_step T null f key bcs) (function_blocks f) (ret (kset st key (dict_empty T)))) (fun tmp4 => (ret tmp4))))))
      keys (ret gl) = Some (init_dict (fun k => bwd_st0 k (view bcs k)) keys gl).
  Proof.
    intros Hnd keys. induction keys as [|k ks IH]; intros gl Hcov; [reflexivity|].
    match goal with |- fold_left ?F _ _ = _ => set (F0 := F) in * end.
    cbn [fold_left init_dict].
    assert (Hstep : F0 (ret gl) k = Some (kset gl k (bwd_st0 k (view bcs k)))).
    { subst F0. cbv beta. unfold ret at 1. cbn [bind]. unfold function_blocks.
      rewrite (backward_init_inner T null f k bcs [] (fn_blocks f)).
      - cbn [bind ret app]. rewrite kdict_set_set. rewrite <- bwd_st0_map. reflexivity.
      - exact Hnd.
      - intros b Hb. apply fblock_of_In; assumption.
      - apply Hcov. left. reflexivity.
      - apply kdict_get_set_same. }
    rewrite Hstep. apply IH. intros k' Hk'. apply Hcov. right. exact Hk'.
  Qed.

  (* the closing loop: self._block_contexts[key] = g[key] for every key *)
  Lemma store_fold_spec (g : gdict) : forall keys d d',
    fold_left (fun acc key => bind acc (fun st =>
        bind (bind (kget g key) (fun tmp13 => ret (kset st key tmp13))) (fun s => ret s))) keys (ret d) = Some d' ->
    (forall k, In k keys -> kget d' k = kget g k /\ exists s, kget g k = Some s) /\
    (forall k, ~ In k keys -> kget d' k = kget d k).
  Proof.
    induction keys as [|x ks IH]; intros d d' H; cbn [fold_left] in H.
    - injection H as <-. split; [intros k []|reflexivity].
    - unfold ret at 1 in H. cbn [bind] in H.
      destruct (kget g x) as [s|] eqn:Hx.
      + cbn [bind ret] in H. destruct (IH _ _ H) as (I1 & I2). split.
        * intros k [<-|Hk]; [|apply I1; exact Hk].
          destruct (in_dec string_dec x ks) as [Hi|Hn]; [apply I1; exact Hi|].
          rewrite (I2 x Hn), kdict_get_set_same, Hx. eauto.
        * intros k Hk. rewrite I2 by (intros Hi; apply Hk; right; exact Hi).
          apply kdict_get_set_other. intros ->. apply Hk. left. reflexivity.
      + cbn [bind] in H.
        rewrite (fold_bind_none (fun st key => bind (bind (kget g key) (fun tmp13 => ret (kset st key tmp13))) (fun s => ret s))) in H.
        discriminate.
  Qed.

  Lemma analysis_fwd_unfold fuel keys wl bcs :
    analysis_fwd fuel keys wl bcs =
    bind (fold_left (fun acc key => (bind acc (fun st =>
      (bind (fold_left (fun acc2 b => (bind acc2 (fun st2 =>
        (bind (kget st2 key) (fun tmp1 => (ret (kset st2 key (dict_set T tmp1 b (null key)))))))))
        (function_blocks f) (ret (kset st key (dict_empty T)))) (fun tmp2 => (ret tmp2))))))
      keys (ret (kdict_empty T))) (fun gr0 =>
    bind (loop_fwd fuel keys wl bcs gr0) (fun r =>
    match r with
    | None => ret None
    | Some r' =>
        bind (fold_left (fun acc key => bind acc (fun st =>
                bind (bind (kget (snd r') key) (fun tmp13 => ret (kset st key tmp13))) (fun s => ret s))) keys (ret bcs))
          (fun tmp14 => ret (Some tmp14))
    end)).
  Proof. reflexivity. Qed.

  (* forward_analyis for a key list: the stored dictionary of every key is the result of a run of the model for that
     key from the all-null start state; the dictionaries of the other keys are untouched *)
  Theorem joint_forward_analyis_run : forall fuel keys wl bcs bcs',
    main_name_fresh f -> NoDup U -> NoDup keys ->
    analysis_fwd fuel keys wl bcs = Some (Some bcs') ->
    (forall k, In k keys -> exists ro, kget bcs' k = Some ro /\ frun k (lookup (view bcs k)) wl (fwd_st0 k) ro) /\
    (forall k, ~ In k keys -> kget bcs' k = kget bcs k).
  Proof.
    intros fuel keys wl bcs bcs' Hm Hnd Hnk H. rewrite analysis_fwd_unfold in H.
    rewrite (forward_init_keys Hnd) in H. cbn [bind] in H.
    destruct (loop_fwd fuel keys wl bcs _) as [[[wl' gr']|]|] eqn:Hl; cbn [bind ret] in H; try discriminate.
    destruct (joint_forward_loop_run _ _ _ _ _ _ _ Hm Hnk Hl) as (_ & R2 & _).
    cbn [snd] in H.
    match type of H with bind ?X _ = _ => destruct X as [d|] eqn:Hs; [|discriminate] end.
    cbn [bind ret] in H. injection H as <-.
    destruct (store_fold_spec _ _ _ _ Hs) as (S1 & S2). split; [|exact S2].
    intros k Hk. destruct (R2 k (fwd_st0 k) Hk (init_dict_in _ _ _ _ Hk)) as (ro & E1 & E2).
    exists ro. split; [|exact E2]. rewrite (proj1 (S1 k Hk)). exact E1.
  Qed.

  Theorem joint_backward_analysis_run : forall fuel keys wl bcs bcs',
    main_name_fresh f -> NoDup U -> NoDup keys -> (forall k, In k keys -> leaves_covered T f (view bcs k)) ->
    analysis_bwd fuel keys wl bcs = Some (Some bcs') ->
    (forall k, In k keys ->
       exists lo, kget bcs' k = Some lo /\ brun k (lookup (view bcs k)) wl (bwd_st0 k (view bcs k)) lo) /\
    (forall k, ~ In k keys -> kget bcs' k = kget bcs k).
  Proof.
    intros fuel keys wl bcs bcs' Hm Hnd Hnk Hcov H. rewrite analysis_bwd_unfold in H.
    rewrite (backward_init_keys bcs Hnd keys _ Hcov) in H. cbn [bind] in H.
    destruct (loop_bwd fuel keys wl bcs _) as [[[wl' gl']|]|] eqn:Hl; cbn [bind ret] in H; try discriminate.
    assert (Hpres : forall k, In k keys -> exists st,
              kget (init_dict (fun k => bwd_st0 k (view bcs k)) keys (kdict_empty T)) k = Some st).
    { intros k Hk. rewrite (init_dict_in _ _ _ _ Hk). eauto. }
    destruct (joint_backward_loop_run _ _ _ _ _ _ _ Hm Hnk Hpres Hl) as (_ & R2 & _).
    cbn [snd] in H.
    match type of H with bind ?X _ = _ => destruct X as [d|] eqn:Hs; [|discriminate] end.
    cbn [bind ret] in H. injection H as <-.
    destruct (store_fold_spec _ _ _ _ Hs) as (S1 & S2). split; [|exact S2].
    intros k Hk. destruct (R2 k _ Hk (init_dict_in _ _ _ _ Hk)) as (lo & E1 & E2).
    exists lo. split; [|exact E2]. rewrite (proj1 (S1 k Hk)). exact E1.
  Qed.

  (* ---------------------------------------------------------------- the generated pass *)
  (* the slice of run_analysis regenerated by tools/translate_joint.py is the hand-written RunGenLemmas.pass_gen *)
  Theorem joint_pass_gen_eq : forall fuel keys po d,
    pass fuel keys po d = pass_gen T t_eqb univ null union inter single f fuel keys po d.
  Proof.
    intros fuel keys po d. unfold joint_pass_gen, pass_gen.
    destruct (forward_worklist_gen po) as [wl|]; [|reflexivity]. cbn [bind].
    destruct (call_forward_analyis T t_eqb univ null union inter single f fuel keys wl d) as [[d1|]|]; [|reflexivity|reflexivity].
    cbn [bind].
    destruct (backward_worklist_gen f po) as [wl'|]; [|reflexivity]. cbn [bind].
    destruct (call_backward_analysis T t_eqb univ null union inter f fuel keys wl' d1) as [[d2|]|]; reflexivity.
  Qed.

  Lemma view_of_kget (d : gdict) k s : kget d k = Some s -> view d k = s.
  Proof. intros H. unfold ddict_get. rewrite H. reflexivity. Qed.

  Lemma view_same_kget (d d' : gdict) k : kget d' k = kget d k -> view d' k = view d k.
  Proof. intros H. unfold ddict_get. rewrite H. reflexivity. Qed.

  (* ONE PASS for a key list: for every key of the list, self._block_contexts[key] goes through a forward run of the
     model for that key (from the all-null state, on the reverse post-order worklist) and then through a backward run
     seeded with the forward result (on the post-order worklist without the leaves); the other keys are untouched *)
  Theorem joint_pass_run : forall fuel keys po d d',
    main_name_fresh f -> NoDup U -> NoDup keys -> (forall l, In l po -> incl l U) ->
    pass fuel keys po d = Some (Some d') ->
    (forall k, In k keys -> exists ro lo,
        frun k (lookup (view d k)) (flat_map (fun l => rev l) po) (fwd_st0 k) ro /\
        brun k (lookup ro) (flat_map (fun l => filter (nonleaf f) l) po) (bwd_st0 k ro) lo /\
        kget d' k = Some lo) /\
    (forall k, ~ In k keys -> kget d' k = kget d k).
  Proof.
    intros fuel keys po d d' Hm Hnd Hnk Hpo H. unfold joint_pass_gen in H.
    rewrite forward_worklist_gen_eq in H. cbn [bind] in H. unfold call_forward_analyis in H.
    destruct (analysis_fwd fuel keys _ d) as [[d1|]|] eqn:Hf; cbn [bind ret] in H; try discriminate.
    rewrite (backward_worklist_gen_eq f po Hpo) in H. cbn [bind] in H. unfold call_backward_analysis in H.
    destruct (analysis_bwd fuel keys _ d1) as [[d2|]|] eqn:Hb; cbn [bind ret] in H; try discriminate.
    injection H as <-.
    destruct (joint_forward_analyis_run _ _ _ _ _ Hm Hnd Hnk Hf) as (F1 & F2).
    assert (Hcov : forall k, In k keys -> leaves_covered T f (view d1 k)).
    { intros k Hk b Hbl _. destruct (F1 k Hk) as (ro & E1 & E2). rewrite (view_of_kget _ _ _ E1).
      apply lookup_in_keys. rewrite (fwd_run_keys _ _ _ _ _ _ _ _ _ _ _ _ E2).
      unfold SolverLemmas.fwd_st0. rewrite map_map. cbn [fst]. apply in_map. exact Hbl. }
    destruct (joint_backward_analysis_run _ _ _ _ _ Hm Hnd Hnk Hcov Hb) as (B1 & B2).
    split.
    - intros k Hk. destruct (F1 k Hk) as (ro & E1 & E2). destruct (B1 k Hk) as (lo & E3 & E4).
      rewrite (view_of_kget _ _ _ E1) in E4. exists ro, lo. auto.
    - intros k Hk. rewrite (B2 k Hk). apply F2. exact Hk.
  Qed.
End Joint.

(* ====================================================================== *)
(* 5. Against the per-key model                                            *)
(* ====================================================================== *)
(* the hypotheses of C14 on the domain of one key: a preorder whose equivalence is t_eqb, for which union and inter are
   monotone and null is least *)
Definition key_order (T : Type) (t_eqb : T -> T -> bool) (null : T) (union inter : T -> T -> T) (leq : T -> T -> Prop) : Prop :=
  (forall a, leq a a) /\ (forall a b c, leq a b -> leq b c -> leq a c) /\
  (forall a b, t_eqb a b = true <-> leq a b /\ leq b a) /\
  (forall a a' b b', leq a a' -> leq b b' -> leq (union a b) (union a' b')) /\
  (forall a a' b b', leq a a' -> leq b b' -> leq (inter a b) (inter a' b')) /\
  (forall a, leq null a).

(* the hypotheses of C14 on the function graph (they follow from GraphWf / ExecLemmas.graph_ok for the graphs tealer
   builds) *)
Definition joint_graph_ok (f : func) : Prop :=
  cover_prev_P f /\ cover_ret_P f /\ cover_next_P f /\ cover_call_P f /\
  (forall b, In b (ids f) -> In b (forward_worklist f)) /\
  (forall b xb, fblock f b = Some xb -> leaf_global f xb = false -> In b (backward_worklist f)).

(* ExecLemmas.graph_ok (the graph hypotheses of the soundness theorems C03 / C06 - C10, which hold for the functions tealer
   builds: CutGraphOk / GraphOk) contains joint_graph_ok *)
Lemma graph_ok_joint (f : func) : ExecLemmas.graph_ok f -> joint_graph_ok f.
Proof.
  intros H. unfold joint_graph_ok.
  exact (conj (g_cover_prev f H) (conj (g_cover_ret f H) (conj (g_cover_next f H) (conj (g_cover_call f H)
           (conj (g_fwd_wl f H) (g_bwd_wl f H)))))).
Qed.

Section Against.
  Variable T : Type.
  Variable t_eqb : T -> T -> bool.
  Variable univ null : string -> T.
  Variable union inter : string -> T -> T -> T.
  Variable single : string -> instr -> nat -> list sval -> T * T.
  Variable f : func.

  Notation state := (Analysis.state T).
  Notation gdict := (SolverGen.gdict T).
  Notation view := (ddict_get T).
  Notation U := (ids f).
  Notation pass := (joint_pass_gen T t_eqb univ null union inter single f).
  Notation solve k := (Domains.solve T t_eqb (univ k) (null k) (union k) (inter k) (single k) f).
  Notation peq := (SolverLemmas.peq T t_eqb).

  (* THE JOINT PASS AGAINST Domains.solve, per key.  d' is what the joint pass over `keys` leaves in
     self._block_contexts; lo is what the model's per-key solver returns for the key k on the block contexts of k.
     Any fuels: both computations are only assumed to return. *)
  Theorem joint_pass_solve_peq : forall (k : string) (leq : T -> T -> Prop) keys fuel fuel' d d' lo,
    key_order T t_eqb (null k) (union k) (inter k) leq -> joint_graph_ok f ->
    main_name_fresh f -> NoDup U -> (forall l, In l (postorders f) -> incl l U) ->
    NoDup keys -> In k keys ->
    pass fuel keys (postorders f) d = Some (Some d') ->
    solve k fuel' (view d k) = Done lo ->
    peq (view d' k) lo.
  Proof.
    intros k leq keys fuel fuel' d d' lo (Hr & Ht & He & Hu & Hi & Hn) (Hcp & Hcr & Hcn & Hcc & Hwf & Hwb)
      Hm Hnd Hpo Hnk Hk Hpass Hsolve.
    destruct (joint_pass_run T t_eqb univ null union inter single f fuel keys _ d d' Hm Hnd Hnk Hpo Hpass) as (P1 & _).
    destruct (P1 k Hk) as (ro & lo' & F & B & E).
    change (flat_map (fun l => rev l) (postorders f)) with (forward_worklist f) in F.
    change (flat_map (fun l => filter (nonleaf f) l) (postorders f)) with (backward_worklist f) in B.
    apply solve_passes in Hsolve. destruct Hsolve as (rom & Fm & Bm).
    apply forward_is_run in Fm. apply backward_is_run in Bm.
    rewrite (view_of_kget T d' k lo' E).
    exact (proj2 (passes_run_order_independent T t_eqb (univ k) (null k) (union k) (inter k) (single k) f leq
                    Hr Ht He Hu Hi Hn _ _ _ _ _ ro rom lo' lo Hcp Hcr Hcn Hcc Hwf Hwf Hwb Hwb F Fm B Bm)).
  Qed.

  (* ... and they are EQUAL when t_eqb decides Leibniz equality *)
  Theorem joint_pass_solve_eq : forall (k : string) (leq : T -> T -> Prop) keys fuel fuel' d d' lo,
    (forall a b, t_eqb a b = true -> a = b) ->
    key_order T t_eqb (null k) (union k) (inter k) leq -> joint_graph_ok f ->
    main_name_fresh f -> NoDup U -> (forall l, In l (postorders f) -> incl l U) ->
    NoDup keys -> In k keys ->
    pass fuel keys (postorders f) d = Some (Some d') ->
    solve k fuel' (view d k) = Done lo ->
    view d' k = lo.
  Proof.
    intros k leq keys fuel fuel' d d' lo Heq Hord Hg Hm Hnd Hpo Hnk Hk Hpass Hsolve.
    destruct (joint_pass_solve_peq k leq keys fuel fuel' d d' lo Hord Hg Hm Hnd Hpo Hnk Hk Hpass Hsolve) as [Hkeys Hval].
    pose proof (solve_keys T t_eqb univ null union inter single f k fuel' _ lo Hsolve) as Hlo.
    apply state_ext; [exact Hkeys|rewrite Hkeys, Hlo; exact Hnd|].
    intros b Hb. destruct (lookup_in_keys T _ b Hb) as [v1 E1].
    rewrite Hkeys in Hb. destruct (lookup_in_keys T _ b Hb) as [v2 E2].
    rewrite E1, E2. f_equal. apply Heq. exact (Hval b v1 v2 E1 E2).
  Qed.

  (* the keys that are not in the list are not touched *)
  Theorem joint_pass_other_keys : forall keys fuel d d' k,
    main_name_fresh f -> NoDup U -> (forall l, In l (postorders f) -> incl l U) -> NoDup keys -> ~ In k keys ->
    pass fuel keys (postorders f) d = Some (Some d') -> view d' k = view d k.
  Proof.
    intros keys fuel d d' k Hm Hnd Hpo Hnk Hk Hpass.
    destruct (joint_pass_run T t_eqb univ null union inter single f fuel keys _ d d' Hm Hnd Hnk Hpo Hpass) as (_ & P2).
    apply view_same_kget. apply P2. exact Hk.
  Qed.

  (* ---------------------------------------------------------------- run_analysis *)
  Variable indices : list (nat * list Z).
  Notation pf := (S (length (fn_blocks f))).
  Notation run := (run_analysis_gen T t_eqb univ null union inter single f).
  Notation init := (init_gen T univ null union inter single f).

  (* run_analysis is: step 1, a joint pass over BASE_KEYS, the at-index refinement, a joint pass over the gtxn keys
     (RunGenLemmas.run_analysis_gen_unfold with the regenerated pass) *)
  Theorem run_analysis_gen_joint_unfold : forall BASE_KEYS KEYS_WITH_GTXN fuel pfuel afuel,
    run BASE_KEYS KEYS_WITH_GTXN indices fuel pfuel afuel =
    bind (gtx_keys_gen BASE_KEYS KEYS_WITH_GTXN) (fun gtx_keys =>
    bind (init afuel (BASE_KEYS ++ gtx_keys) (kdict_empty T)) (fun d0 =>
    bind (postorders_gen f pfuel) (fun po =>
    bind (pass fuel BASE_KEYS po d0) (fun r1 =>
    match r1 with
    | None => ret None
    | Some d1 => bind (refine_gen T univ null union inter f indices KEYS_WITH_GTXN d1) (fun d2 => pass fuel gtx_keys po d2)
    end)))).
  Proof.
    intros BASE_KEYS KEYS_WITH_GTXN fuel pfuel afuel. rewrite run_analysis_gen_unfold.
    destruct (gtx_keys_gen BASE_KEYS KEYS_WITH_GTXN) as [gk|]; [|reflexivity]. cbn [bind].
    destruct (init afuel (BASE_KEYS ++ gk) (kdict_empty T)) as [d0|]; [|reflexivity]. cbn [bind].
    destruct (postorders_gen f pfuel) as [po|]; [|reflexivity]. cbn [bind].
    rewrite <- joint_pass_gen_eq. destruct (pass fuel BASE_KEYS po d0) as [[d1|]|]; [|reflexivity|reflexivity]. cbn [bind].
    destruct (refine_gen T univ null union inter f indices KEYS_WITH_GTXN d1) as [d2|]; [|reflexivity]. cbn [bind].
    rewrite <- joint_pass_gen_eq. reflexivity.
  Qed.

  Hypothesis Hok : run_graph_ok f.
  Hypothesis Hg : joint_graph_ok f.

  (* (A) an analysis with SEVERAL base keys and no gtxn key (GroupIndices: GroupSize and GroupIndex): when run_analysis
     returns dfin, the dictionary of every base key k is, up to t_eqb, what Domains.solve returns for k on the block
     contexts of step 1 *)
  Theorem run_analysis_gen_base_keys_peq : forall base_keys (k : string) (leq : T -> T -> Prop) fuel fuel' afuel d0 dfin lo,
    NoDup base_keys -> In k base_keys -> key_order T t_eqb (null k) (union k) (inter k) leq ->
    init afuel base_keys (kdict_empty T) = Some d0 ->
    run base_keys [] indices fuel pf afuel = Some (Some dfin) ->
    solve k fuel' (view d0 k) = Done lo ->
    peq (view dfin k) lo.
  Proof.
    intros base_keys k leq fuel fuel' afuel d0 dfin lo Hnk Hk Hord Hinit Hrun Hsolve.
    rewrite run_analysis_gen_joint_unfold, gtx_keys_gen_eq in Hrun. cbn [flat_map bind] in Hrun.
    rewrite app_nil_r, Hinit in Hrun. cbn [bind] in Hrun. rewrite (ok_postorders f Hok) in Hrun. cbn [bind] in Hrun.
    destruct (pass fuel base_keys (postorders f) d0) as [[d1|]|] eqn:Hp; cbn [bind ret] in Hrun; try discriminate.
    rewrite refine_nil in Hrun. cbn [bind] in Hrun. rewrite joint_pass_gen_eq in Hrun.
    rewrite (pass_gen_nil T t_eqb univ null union inter single f fuel _ _ (ok_po_incl f Hok)) in Hrun.
    destruct (_ && _)%bool in Hrun; [|discriminate]. injection Hrun as <-.
    exact (joint_pass_solve_peq k leq base_keys fuel fuel' d0 d1 lo Hord Hg (ok_main f Hok) (ok_nodup f Hok)
             (ok_po_incl f Hok) Hnk Hk Hp Hsolve).
  Qed.

  (* (B) an analysis with one base key that is also its KEYS_WITH_GTXN key (FeeField; TxnType and AddrFields field by
     field): when run_analysis returns dfin, the base key holds the result br of Domains.solve, and the dictionary of
     every gtxn key of the family is, up to t_eqb, what Domains.solve returns for that key on the refined block contexts
     -- the computation Domains.run_family makes for the family (RunGenLemmas.run_family_refine_unfold) *)
  Theorem run_analysis_gen_family_peq : forall base fuel afuel d0 br dfin,
    (forall b, In b U -> exists gi, Analysis.lookup _ indices b = Some gi) ->
    init afuel (base :: map (key_of_fam base) all_gtx_fams) (kdict_empty T) = Some d0 ->
    solve base fuel (view d0 base) = Done br ->
    run [base] [base] indices fuel pf afuel = Some (Some dfin) ->
    view dfin base = br /\
    forall fam (leq : T -> T -> Prop) fuel' r, In fam all_gtx_fams ->
      let key := key_of_fam base fam in
      key_order T t_eqb (null key) (union key) (inter key) leq ->
      solve key fuel' (refine_fam (inter key) (null key) indices br fam (view d0 key)) = Done r ->
      peq (view dfin key) r.
  Proof.
    intros base fuel afuel d0 br dfin Hidx Hinit Hbase Hrun.
    destruct (run_analysis_gen_family_prefix T t_eqb univ null union inter single f indices Hok Hidx base fuel afuel d0 br Hinit Hbase)
      as (d2 & Hrun2 & Hb2 & Hfam).
    rewrite Hrun2, <- joint_pass_gen_eq in Hrun.
    pose proof (gtx_keys_nodup base) as Hnk. cbn [map key_of_fam] in Hnk.
    apply NoDup_cons_iff in Hnk. destruct Hnk as [Hnb Hnk'].
    split.
    - rewrite <- Hb2.
      exact (joint_pass_other_keys _ fuel d2 dfin base (ok_main f Hok) (ok_nodup f Hok) (ok_po_incl f Hok) Hnk' Hnb Hrun).
    - intros fam leq fuel' r Hf key Hord Hs. subst key.
      rewrite <- (Hfam fam Hf) in Hs.
      exact (joint_pass_solve_peq _ leq _ fuel fuel' d2 dfin r Hord Hg (ok_main f Hok) (ok_nodup f Hok)
               (ok_po_incl f Hok) Hnk' (in_map _ _ _ Hf) Hrun Hs).
  Qed.
End Against.

(* ---------------------------------------------------------------- the list-set domains satisfy key_order *)
Lemma gset_key_order (A : Type) (eqb : A -> A -> bool) :
  (forall x y, eqb x y = true <-> x = y) ->
  key_order (list A) (gset_eqb A eqb) [] (gunion A eqb) (ginter A eqb) (fun a b => forall x, In x a -> In x b).
Proof.
  intros Heqb. unfold key_order. repeat split.
  - auto.
  - auto.
  - apply (gsubset_spec A eqb Heqb). unfold gset_eqb in H. apply andb_true_iff in H. apply H.
  - apply (gsubset_spec A eqb Heqb). unfold gset_eqb in H. apply andb_true_iff in H. apply H.
  - intros [H1 H2]. unfold gset_eqb. apply andb_true_iff. split; apply (gsubset_spec A eqb Heqb); assumption.
  - intros a a' b b' H1 H2 x Hx. apply (gunion_In A eqb Heqb) in Hx. apply (gunion_In A eqb Heqb). destruct Hx; auto.
  - intros a a' b b' H1 H2 x Hx. apply (ginter_In A eqb Heqb) in Hx. apply (ginter_In A eqb Heqb). destruct Hx; auto.
  - intros a x [].
Qed.

Lemma zset_key_order : key_order (list Z) zset_eqb [] zunion zinter (fun a b => forall x, In x a -> In x b).
Proof. exact (gset_key_order Z Z.eqb Z.eqb_eq). Qed.

Lemma lset_key_order : key_order (list string) lset_eqb [] lunion linter (fun a b => forall x, In x a -> In x b).
Proof. exact (gset_key_order string String.eqb String.eqb_eq). Qed.

(* ---------------------------------------------------------------- GroupIndices: the two base keys of int_fields.py *)
(* the operations of GroupIndices indexed by its two keys *)
Definition gi_is_size (k : string) : bool := String.eqb k "GroupSize".
Definition gi_univ (k : string) : list Z := if gi_is_size k then int_universal_groupsize else int_universal_groupindex.
Definition gi_single (intcs : option (list N)) (k : string) := int_single (gi_is_size k) intcs.

(* run_analysis of GroupIndices (BASE_KEYS = ["GroupSize"; "GroupIndex"], no gtxn key: ONE joint pass over the two
   keys) against the two separate runs Domains.run_int of the model: same blocks, the same SETS of values *)
Theorem group_indices_joint_peq : forall (f : func) indices fuel fuel' afuel dfin (size : bool) res,
  run_graph_ok f -> joint_graph_ok f ->
  (forall b, In b (fn_blocks f) -> NoDup (b_ins b) /\ length (b_ins b) < afuel) ->
  run_analysis_gen (list Z) zset_eqb gi_univ (fun _ => []) (fun _ => zunion) (fun _ => zinter) (gi_single (fn_intcs f)) f
    ["GroupSize"; "GroupIndex"] [] indices fuel (S (length (fn_blocks f))) afuel = Some (Some dfin) ->
  run_int f fuel' size = Done res ->
  SolverLemmas.peq (list Z) zset_eqb (ddict_get _ dfin (if size then "GroupSize" else "GroupIndex")) res.
Proof.
  intros f indices fuel fuel' afuel dfin size res Hok Hg Hblocks Hrun Hint.
  set (keys := ["GroupSize"; "GroupIndex"]) in *.
  set (k := if size then "GroupSize" else "GroupIndex").
  assert (Hnk : NoDup keys) by (repeat constructor; cbn; intuition discriminate).
  assert (Hk : In k keys) by (destruct size; cbn; auto).
  assert (Hsz : gi_is_size k = size) by (destruct size; reflexivity).
  destruct (init_gen (list Z) gi_univ (fun _ => []) (fun _ => zunion) (fun _ => zinter) (gi_single (fn_intcs f)) f afuel keys (kdict_empty _))
    as [d0|] eqn:Hinit.
  2:{ rewrite run_analysis_gen_unfold, gtx_keys_gen_eq in Hrun. cbn [flat_map bind] in Hrun. rewrite app_nil_r in Hrun.
      fold keys in Hrun. rewrite Hinit in Hrun. discriminate. }
  unfold run_int in Hint.
  destruct (init_constraints _ (if size then int_universal_groupsize else int_universal_groupindex) [] zunion zinter
              (int_single size (fn_intcs f)) f) as [bc|] eqn:Ebc; [|discriminate].
  assert (Hv : ddict_get _ d0 k = bc).
  { apply (init_gen_model (list Z) gi_univ (fun _ => []) (fun _ => zunion) (fun _ => zinter) (gi_single (fn_intcs f)) f afuel keys d0 k bc);
      try assumption; [exact (proj1 (proj2 Hok))|].
    unfold gi_univ, gi_single. rewrite Hsz. exact Ebc. }
  apply (run_analysis_gen_base_keys_peq (list Z) zset_eqb gi_univ (fun _ => []) (fun _ => zunion) (fun _ => zinter)
           (gi_single (fn_intcs f)) f indices Hok Hg keys k (fun a b => forall x, In x a -> In x b) fuel fuel' afuel d0 dfin res
           Hnk Hk zset_key_order Hinit Hrun).
  rewrite Hv. unfold gi_univ, gi_single. rewrite Hsz. exact Hint.
Qed.

(* what peq means for the readers of the result (the soundness theorems C03 / C06 - C10 are statements about the
   MEMBERS of the stored values): the joint result has a value exactly where the per-key result has one, and a
   property that t_eqb respects holds of the one iff it holds of the other; for the list-sets: the same members *)
Lemma peq_lookup (T : Type) (t_eqb : T -> T -> bool) (st1 st2 : state T) b v2 :
  SolverLemmas.peq T t_eqb st1 st2 -> lookup T st2 b = Some v2 ->
  exists v1, lookup T st1 b = Some v1 /\ t_eqb v1 v2 = true.
Proof.
  intros [Hk Hv] E2. assert (Hin : In b (map fst st1)) by (rewrite Hk; eapply lookup_some_in_keys; eauto).
  destruct (lookup_in_keys T st1 b Hin) as [v1 E1]. exists v1. split; [exact E1|]. exact (Hv b v1 v2 E1 E2).
Qed.

Corollary group_indices_joint_same_members : forall (f : func) indices fuel fuel' afuel dfin (size : bool) res b v,
  run_graph_ok f -> joint_graph_ok f ->
  (forall b, In b (fn_blocks f) -> NoDup (b_ins b) /\ length (b_ins b) < afuel) ->
  run_analysis_gen (list Z) zset_eqb gi_univ (fun _ => []) (fun _ => zunion) (fun _ => zinter) (gi_single (fn_intcs f)) f
    ["GroupSize"; "GroupIndex"] [] indices fuel (S (length (fn_blocks f))) afuel = Some (Some dfin) ->
  run_int f fuel' size = Done res -> lookup _ res b = Some v ->
  exists v', lookup _ (ddict_get _ dfin (if size then "GroupSize" else "GroupIndex")) b = Some v' /\
             forall x, In x v' <-> In x v.
Proof.
  intros f indices fuel fuel' afuel dfin size res b v Hok Hg Hbl Hrun Hint Hv.
  destruct (peq_lookup _ _ _ _ b v (group_indices_joint_peq f indices fuel fuel' afuel dfin size res Hok Hg Hbl Hrun Hint) Hv)
    as (v' & E & He).
  exists v'. split; [exact E|]. apply zset_eqb_spec. exact He.
Qed.

(* ====================================================================== *)
(* 6. What is false                                                        *)
(* ====================================================================== *)
(* (a) THE SAME FUEL.  "the joint result projected on k is the per-key result" as an equation between fuelled
   computations with the same fuel: the joint run re-enqueues a block when ANY key changed and needs more iterations
   (RunGenLemmas.shared_worklist_iterations: two loops below the entry, key "a" blocked in one, key "b" in the other).
   With the budget 7 each per-key run of the model returns, the joint run is out of fuel. *)
Theorem joint_same_fuel_refuted :
  exists (f : func) (bcs : gdict nat) (keys : list string) (fuel : nat),
    NoDup keys /\
    forward_analyis_gen nat Nat.eqb (fun _ => 9) (fun _ => 0) (fun _ => Nat.max) (fun _ => Nat.min) (fun _ _ _ _ => (9, 9))
      f fuel keys (forward_worklist f) bcs = Some None /\
    forall k, In k keys -> exists ro,
      forward nat Nat.eqb 9 0 Nat.max Nat.min (fun _ _ _ => (9, 9)) f (lookup nat (ddict_get nat bcs k)) fuel
        (forward_worklist f) (fwd_st0 nat 0 f) = Done ro.
Proof.
  exists sw_func, sw_ctx, ["a"; "b"], 7. split; [|split].
  - repeat constructor; cbn; intuition discriminate.
  - vm_compute. reflexivity.
  - intros k [<-|[<-|[]]]; eexists; vm_compute; reflexivity.
Qed.

(* (b) LEIBNIZ EQUALITY FOR THE MODEL'S LISTS.  The model represents the sets of int_fields / txn_types as duplicate-free
   LISTS (Domains.zunion a b = a ++ (b - a), zinter = filter) compared as sets (zset_eqb); a stored list is replaced
   only when the SET changes.  The list stored for a block is therefore the one computed when its set last changed, and
   a recomputation caused by another key happens at another moment: the joint run and the per-key run end with the same
   SETS (joint_pass_solve_peq) but not with the same LISTS.
   Abstract instance: six blocks (0 -> 1, 5; 1 -> 4; 2 -> 5, 4; 3 -> 2, 4; 4 -> 2; 5 -> 3), key "a" unconstrained,
   key "b" constrained in the blocks 1, 2, 4.  Block 4 of key "b": the per-key run stores [3; 2], the joint run [2; 3]. *)
(* PROBE-BEGIN *)
Definition lo_func : func :=
  mkFunc [mkIns 1 (IInt (IANum 1))]
    [mkBlock 0 [0] [1; 5] []; mkBlock 1 [0] [4] [0]; mkBlock 2 [0] [5; 4] [3; 4]; mkBlock 3 [0] [2; 4] [5];
     mkBlock 4 [0] [2] [2; 1; 3]; mkBlock 5 [0] [3] [0; 2]]
    0 [0; 1; 2; 3; 4; 5] [] [] None.
Definition lo_U : list Z := [1; 2; 3]%Z.
Definition lo_ctx : gdict (list Z) :=
  [("a", map (fun b => (b, lo_U)) [0; 1; 2; 3; 4; 5]);
   ("b", [(0, lo_U); (1, [1; 2]%Z); (2, [1; 3]%Z); (3, lo_U); (4, [2; 3]%Z); (5, lo_U)])].
Definition lo_forward (fuel : nat) (keys : list string) : py (option (gdict (list Z))) :=
  forward_analyis_gen (list Z) zset_eqb (fun _ => lo_U) (fun _ => []) (fun _ => zunion) (fun _ => zinter)
    (fun _ _ _ _ => (lo_U, lo_U)) lo_func fuel keys (forward_worklist lo_func) lo_ctx.

(* the exact dictionaries and iteration counts (also compiled alone against mutants by tools/test_translate_joint.py):
   the joint run in both key orders stores [2; 3] in block 4 of "b", the run of "b" alone [3; 2]; 11 iterations each *)
Definition lo_b (v4 : list Z) : state (list Z) :=
  [(0, lo_U); (1, [1; 2]%Z); (2, [1; 3]%Z); (3, lo_U); (4, v4); (5, lo_U)].
Theorem joint_forward_probe :
  forward_worklist lo_func = [0; 1; 4; 2; 5; 3] /\
  lo_forward 11 ["a"; "b"] = Some (Some [("a", map (fun b => (b, lo_U)) [0; 1; 2; 3; 4; 5]); ("b", lo_b [2; 3]%Z)]) /\
  lo_forward 10 ["a"; "b"] = Some None /\
  lo_forward 11 ["b"; "a"] = Some (Some [("a", map (fun b => (b, lo_U)) [0; 1; 2; 3; 4; 5]); ("b", lo_b [2; 3]%Z)]) /\
  lo_forward 10 ["b"; "a"] = Some None /\
  lo_forward 11 ["b"] = Some (Some [("a", map (fun b => (b, lo_U)) [0; 1; 2; 3; 4; 5]); ("b", lo_b [3; 2]%Z)]) /\
  lo_forward 10 ["b"] = Some None.
Proof. vm_compute. repeat split. Qed.
(* PROBE-END *)

Theorem joint_list_order_refuted_abstract :
  exists dj ds,
    lo_forward 100 ["a"; "b"] = Some (Some dj) /\ lo_forward 100 ["b"] = Some (Some ds) /\
    lookup _ (ddict_get _ dj "b") 4 = Some [2; 3]%Z /\ lookup _ (ddict_get _ ds "b") 4 = Some [3; 2]%Z /\
    ddict_get _ dj "b" <> ddict_get _ ds "b" /\
    forall b, b <> 4 -> lookup _ (ddict_get _ dj "b") b = lookup _ (ddict_get _ ds "b") b.
Proof.
  eexists. eexists. split; [vm_compute; reflexivity|]. split; [vm_compute; reflexivity|].
  split; [vm_compute; reflexivity|]. split; [vm_compute; reflexivity|]. split; [vm_compute; discriminate|].
  intros b Hb. do 6 (destruct b as [|b]; [first [vm_compute; reflexivity|congruence]|]). vm_compute. reflexivity.
Qed.

(* The same on a TEAL PROGRAM, through the whole regenerated run_analysis of GroupIndices (two base keys: one joint
   pass) against Domains.run_int: block 2 (label L2), key GroupSize: the model's per-key run stores [4; 2], the
   regenerated joint run [2; 4].  tealer itself stores the Python set {2, 4} (BlockTransactionContext.group_sizes
   of block 2 is [2, 4]): the difference is one of the list representation of the MODEL, not of the tool; the
   correspondence check compares sorted lists.  (Evaluation by `lazy`: ifE evaluates both branches under vm_compute.) *)
Definition lo_src : string := "#pragma version 6
L1:
global GroupSize
int 4
<=
assert
global GroupSize
int 2
>=
assert
txn NumAppArgs
bnz L8
L2:
global GroupSize
int 2
>=
assert
txn NumAppArgs
bnz L5
L3:
global GroupSize
int 2
!=
assert
txn NumAppArgs
bnz L2
L4:
b L1
L5:
global GroupSize
int 2
>=
assert
txn NumAppArgs
bnz L1
L6:
global GroupSize
int 1
<=
assert
int 7
pop
L7:
global GroupSize
int 3
<=
assert
txn NumAppArgs
bnz L6
L8:
global GroupSize
int 3
!=
assert
int 1
return
".
Definition lo_teal_func : func :=
  match parse_program lo_src with
  | Ok p => match parse_teal p with Ok t => whole_function t | Err _ => mkFunc [] [] 0 [] [] [] None end
  | Err _ => mkFunc [] [] 0 [] [] [] None
  end.

Theorem joint_list_order_refuted :
  exists dj rs,
    map (fun b => (b_idx b, b_next b, b_prev b)) (fn_blocks lo_teal_func) =
      [(0, [1], []); (1, [2; 8], [0; 4; 5]); (8, [], [7; 1]); (2, [3; 5], [1; 3]); (5, [6; 1], [2]); (6, [7], [5; 7]);
       (7, [8; 6], [6]); (3, [4; 2], [2]); (4, [1], [3])] /\
    run_analysis_gen (list Z) zset_eqb gi_univ (fun _ => []) (fun _ => zunion) (fun _ => zinter) (gi_single (fn_intcs lo_teal_func))
      lo_teal_func ["GroupSize"; "GroupIndex"] [] [] 200 (S (length (fn_blocks lo_teal_func))) 13 = Some (Some dj) /\
    run_int lo_teal_func 200 true = Done rs /\
    lookup _ (ddict_get _ dj "GroupSize") 2 = Some [2; 4]%Z /\ lookup _ rs 2 = Some [4; 2]%Z /\
    ddict_get _ dj "GroupSize" <> rs /\
    SolverLemmas.peq (list Z) zset_eqb (ddict_get _ dj "GroupSize") rs.
Proof.
  eexists. eexists. split; [vm_compute; reflexivity|]. split; [lazy; reflexivity|]. split; [vm_compute; reflexivity|].
  split; [vm_compute; reflexivity|]. split; [vm_compute; reflexivity|]. split; [vm_compute; discriminate|].
  split; [vm_compute; reflexivity|].
  intros b v1 v2 H1 H2. do 9 (destruct b as [|b]; [vm_compute in H1, H2; first [discriminate|injection H1 as <-; injection H2 as <-; reflexivity]|]).
  vm_compute in H1. discriminate.
Qed.

(* (c) WITHOUT MONOTONICITY NOTHING HOLDS.  A three-valued carrier with union / inter given by tables that are not
   monotone for any order, t_eqb = equality, four blocks, two keys: every run returns, and the joint run leaves for
   key "b" the values 0, 0 in the blocks 2, 3 where the run of "b" alone leaves 2, 2.  (Both are fixpoints of the
   equations of "b": without monotonicity there is no least one, and the schedule decides.) *)
Definition nm_tab (t : list (list nat)) (a b : nat) : nat := nth b (nth a t []) 0.
Definition nm_union : nat -> nat -> nat := nm_tab [[0; 1; 2]; [0; 0; 0]; [2; 2; 0]].
Definition nm_inter : nat -> nat -> nat := nm_tab [[0; 1; 0]; [2; 2; 2]; [2; 1; 2]].
Definition nm_func : func :=
  mkFunc [mkIns 1 (IInt (IANum 1))]
    [mkBlock 0 [0] [3; 2] [3]; mkBlock 1 [0] [2; 3] [2]; mkBlock 2 [0] [1; 3] [0; 1; 3]; mkBlock 3 [0] [0; 2] [0; 1; 2]]
    0 [0; 1; 2; 3] [] [] None.
Definition nm_ctx : gdict nat :=
  [("a", [(0, 2); (1, 0); (2, 1); (3, 0)]); ("b", [(0, 0); (1, 1); (2, 0); (3, 0)])].
Definition nm_forward (fuel : nat) (keys : list string) : py (option (gdict nat)) :=
  forward_analyis_gen nat Nat.eqb (fun _ => 2) (fun _ => 0) (fun _ => nm_union) (fun _ => nm_inter) (fun _ _ _ _ => (2, 2))
    nm_func fuel keys (forward_worklist nm_func) nm_ctx.

Theorem joint_nonmonotone_refuted :
  exists dj ds,
    cover_prev_P nm_func /\ cover_ret_P nm_func /\ (forall b, In b (ids nm_func) -> In b (forward_worklist nm_func)) /\
    nm_forward 100 ["a"; "b"] = Some (Some dj) /\ nm_forward 100 ["b"] = Some (Some ds) /\
    ddict_get _ dj "b" = [(0, 2); (1, 1); (2, 0); (3, 0)] /\ ddict_get _ ds "b" = [(0, 2); (1, 1); (2, 2); (3, 2)] /\
    ~ SolverLemmas.peq nat Nat.eqb (ddict_get _ dj "b") (ddict_get _ ds "b").
Proof.
  eexists. eexists.
  split; [apply GraphWf.cover_prev_sound; vm_compute; reflexivity|].
  split; [apply GraphWf.cover_ret_sound; vm_compute; reflexivity|].
  split; [intros b Hb; vm_compute in Hb |- *; tauto|].
  split; [vm_compute; reflexivity|]. split; [vm_compute; reflexivity|].
  split; [vm_compute; reflexivity|]. split; [vm_compute; reflexivity|].
  intros [_ H]. specialize (H 2 0 2). vm_compute in H. discriminate (H eq_refl eq_refl).
Qed.

(* ====================================================================== *)
(* 7. PROBE: the joint pass on a concrete graph, two keys                  *)
(* ====================================================================== *)
(* The control-flow graph of the TEAL program lo_src (block ids, successor and predecessor lists as tealer builds them),
   with abstract instructions; key "s" carries the GroupSize constraints of the program, key "i" none.  The statement
   is about the generated functions alone (joint_pass_gen, hence forward_analyis_gen / backward_analysis_gen for a key
   list, and the worklists of Gen/RunGen.v): the exact dictionaries, and the exact number of iterations (fuel 17 for the
   two keys together, 15 for "s" alone).  tools/test_translate_joint.py compiles it on its own against mutants. *)
(* PROBE-BEGIN *)
Definition jp_func : func :=
  mkFunc [mkIns 1 (IInt (IANum 1))]
    [mkBlock 0 [0] [1] []; mkBlock 1 [0] [2; 8] [0; 4; 5]; mkBlock 8 [0] [] [7; 1]; mkBlock 2 [0] [3; 5] [1; 3];
     mkBlock 5 [0] [6; 1] [2]; mkBlock 6 [0] [7] [5; 7]; mkBlock 7 [0] [8; 6] [6]; mkBlock 3 [0] [4; 2] [2];
     mkBlock 4 [0] [1] [3]]
    0 [0; 1; 8; 2; 5; 6; 7; 3; 4] [] [] None.
Definition jp_U : list Z := [1; 2; 3; 4]%Z.
Definition jp_all (v : list Z) : state (list Z) := map (fun b => (b, v)) [0; 1; 8; 2; 5; 6; 7; 3; 4].
Definition jp_ctx : gdict (list Z) :=
  [("s", [(0, jp_U); (1, [2; 3; 4]%Z); (8, [1; 2; 4]%Z); (2, [2; 3; 4]%Z); (5, [2; 3; 4]%Z); (6, [1]%Z); (7, [1; 2; 3]%Z);
          (3, [1; 3; 4]%Z); (4, jp_U)]);
   ("i", jp_all jp_U)].
Definition jp_pass (fuel : nat) (keys : list string) : py (option (gdict (list Z))) :=
  joint_pass_gen (list Z) zset_eqb (fun _ => jp_U) (fun _ => []) (fun _ => zunion) (fun _ => zinter)
    (fun _ _ _ _ => (jp_U, jp_U)) jp_func fuel keys (postorders jp_func) jp_ctx.
(* the result for key "s": block 2 holds [2; 4] after the joint pass, [4; 2] after the pass of "s" alone *)
Definition jp_s (v2 : list Z) : state (list Z) :=
  [(0, [2; 4]%Z); (1, [2; 4]%Z); (8, [2; 4]%Z); (2, v2); (5, [2; 4]%Z); (6, []); (7, []); (3, [4]%Z); (4, [4]%Z)].
Theorem joint_pass_probe :
  jp_pass 17 ["s"; "i"] = Some (Some [("s", jp_s [2; 4]%Z); ("i", jp_all jp_U)]) /\
  jp_pass 16 ["s"; "i"] = Some None /\
  jp_pass 17 ["i"; "s"] = Some (Some [("s", jp_s [2; 4]%Z); ("i", jp_all jp_U)]) /\
  jp_pass 15 ["s"] = Some (Some [("s", jp_s [4; 2]%Z); ("i", jp_all jp_U)]) /\
  jp_pass 14 ["s"] = Some None.
Proof. vm_compute. repeat split. Qed.
(* PROBE-END *)

Print Assumptions forward_is_run.
Print Assumptions backward_is_run.
Print Assumptions fwd_run_fixpoint.
Print Assumptions bwd_run_fixpoint.
Print Assumptions fwd_run_le.
Print Assumptions bwd_run_le.
Print Assumptions fwd_run_order_independent.
Print Assumptions bwd_run_order_independent.
Print Assumptions passes_run_order_independent.
Print Assumptions joint_merge_forward_spec.
Print Assumptions joint_merge_backward_spec.
Print Assumptions joint_forward_loop_run.
Print Assumptions joint_backward_loop_run.
Print Assumptions joint_forward_analyis_run.
Print Assumptions joint_backward_analysis_run.
Print Assumptions joint_pass_gen_eq.
Print Assumptions joint_pass_run.
Print Assumptions joint_pass_solve_peq.
Print Assumptions joint_pass_solve_eq.
Print Assumptions joint_pass_other_keys.
Print Assumptions run_analysis_gen_joint_unfold.
Print Assumptions run_analysis_gen_base_keys_peq.
Print Assumptions run_analysis_gen_family_peq.
Print Assumptions gset_key_order.
Print Assumptions group_indices_joint_peq.
Print Assumptions group_indices_joint_same_members.
Print Assumptions graph_ok_joint.
Print Assumptions joint_same_fuel_refuted.
Print Assumptions joint_list_order_refuted_abstract.
Print Assumptions joint_list_order_refuted.
Print Assumptions joint_nonmonotone_refuted.
Print Assumptions joint_forward_probe.
Print Assumptions joint_pass_probe.
