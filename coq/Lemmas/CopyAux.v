(* Generic facts used by Lemmas/CopyGenLemmas.v: the sort of the glue table of Gen/CopyGen.v (sorted_by_key), the text
   <-> line-list round trip of Cfg.splitlines, map_opt, sorted lists. *)
From Coq Require Import String List NArith ZArith Bool Ascii Arith Lia Sorting.Sorted.
From Tealer Require Import Tables Syntax Parse Cfg KeysGen CfgLemmas ParseLemmas CopyDefs CopyCore CopyNext.
From Tealer Require Import FunctionGen CopyGen.
Import ListNotations.
Open Scope string_scope.
Open Scope list_scope.

(* ------------------------------------------------------------------ map_opt *)
Lemma map_opt_all {A B} (f : A -> option B) (g : A -> B) : forall l,
  (forall x, In x l -> f x = Some (g x)) -> map_opt f l = Some (map g l).
Proof.
  induction l as [|a l IH]; intros H; [reflexivity|]. cbn [map_opt map].
  rewrite (H a (or_introl eq_refl)), IH; [reflexivity|]. intros x Hx. apply H. right. assumption.
Qed.

Lemma map_opt_id {A} (f : A -> option A) l : (forall x, In x l -> f x = Some x) -> map_opt f l = Some l.
Proof. intros H. rewrite (map_opt_all f (fun x => x) l H), map_id. reflexivity. Qed.

Lemma map_opt_length {A B} (f : A -> option B) : forall l r, map_opt f l = Some r -> length r = length l.
Proof.
  induction l as [|a l IH]; intros r H; cbn [map_opt] in H; [inversion H; reflexivity|].
  destruct (f a); [|discriminate]. destruct (map_opt f l) as [r'|]; [|discriminate]. inversion H. cbn [length].
  rewrite (IH r' eq_refl). reflexivity.
Qed.

(* ------------------------------------------------------------------ strictly sorted lists *)
Lemma ssorted_unique : forall a b : list nat,
  StronglySorted lt a -> StronglySorted lt b -> (forall x, In x a <-> In x b) -> a = b.
Proof.
  induction a as [|x a IH]; intros b Ha Hb H.
  - destruct b as [|y b]; [reflexivity|]. exfalso. apply (proj2 (H y)). left. reflexivity.
  - destruct b as [|y b]; [exfalso; apply (proj1 (H x)); left; reflexivity|].
    inversion Ha as [|? ? Ha' Hfa]; subst. inversion Hb as [|? ? Hb' Hfb]; subst.
    rewrite Forall_forall in Hfa, Hfb.
    assert (x = y).
    { destruct (proj1 (H x) (or_introl eq_refl)) as [E|Hin]; [auto|].
      destruct (proj2 (H y) (or_introl eq_refl)) as [E|Hin']; [auto|].
      pose proof (Hfb x Hin). pose proof (Hfa y Hin'). lia. }
    subst y. f_equal. apply IH; [assumption | assumption|]. intros z. split; intros Hz.
    + destruct (proj1 (H z) (or_intror Hz)) as [E|Hin]; [|assumption]. subst z. pose proof (Hfa x Hz). lia.
    + destruct (proj2 (H z) (or_intror Hz)) as [E|Hin]; [|assumption]. subst z. pose proof (Hfb x Hz). lia.
Qed.

Lemma filter_seq_bound (M : list nat) a b :
  (forall x, In x M -> x < a /\ x < b) ->
  filter (fun m => nat_mem m M) (seq 0 a) = filter (fun m => nat_mem m M) (seq 0 b).
Proof.
  intros H. apply ssorted_unique; try (apply ssorted_filter; apply ssorted_seq).
  intros x. rewrite !filter_In, !in_seq, nat_mem_In. split; intros (_ & Hm); (split; [|assumption]);
    destruct (H x Hm); lia.
Qed.

(* ------------------------------------------------------------------ sorted_by_key *)
Definition ins_step {A} (acc : list (nat * A)) (kx : nat * A) : list (nat * A) := insert_by (fst kx) (snd kx) acc.

Lemma insert_by_last {A} (k : nat) (x : A) : forall acc,
  Forall (fun ky => fst ky < k) acc -> insert_by k x acc = acc ++ [(k, x)].
Proof.
  induction acc as [|[k' y] acc IH]; intros H; [reflexivity|]. inversion H as [|? ? Hk Hr]; subst. cbn [fst] in Hk.
  cbn [insert_by app]. destruct (Nat.ltb k k') eqn:E; [apply Nat.ltb_lt in E; lia|]. rewrite (IH Hr). reflexivity.
Qed.

Lemma isort_sorted {A} : forall (ks : list nat) (l : list A) acc,
  length ks = length l -> StronglySorted lt ks ->
  (forall ky k, In ky acc -> In k ks -> fst ky < k) ->
  fold_left ins_step (combine ks l) acc = acc ++ combine ks l.
Proof.
  induction ks as [|k ks IH]; intros l acc Hl Hs Hacc; [cbn; rewrite app_nil_r; reflexivity|].
  destruct l as [|x l]; [discriminate|]. cbn [combine fold_left]. unfold ins_step at 2. cbn [fst snd].
  inversion Hs as [|? ? Hs' Hf]; subst. rewrite Forall_forall in Hf.
  rewrite insert_by_last.
  - rewrite IH; [rewrite <- app_assoc; reflexivity | cbn in Hl; lia | assumption|].
    intros ky k' Hin Hk'. apply in_app_or in Hin. destruct Hin as [Hin|[<-|[]]].
    + apply Hacc; [assumption | right; assumption].
    + cbn [fst]. apply Hf. assumption.
  - apply Forall_forall. intros ky Hin. apply Hacc; [assumption | left; reflexivity].
Qed.

(* keys already in increasing order: the sort is the identity *)
Lemma sorted_by_key_sorted {A} (key : A -> py nat) (l : list A) ks :
  map_opt key l = Some ks -> StronglySorted lt ks -> sorted_by_key key l = Some l.
Proof.
  intros Hk Hs. unfold sorted_by_key. rewrite Hk. cbn [bind]. unfold ret. f_equal.
  change (fun (acc : list (nat * A)) (kx : nat * A) => insert_by (fst kx) (snd kx) acc) with (@ins_step A).
  rewrite isort_sorted; [|apply (map_opt_length _ _ _ Hk) | assumption | intros ky k []].
  cbn [app]. apply nth_error_ext. intros j. rewrite nth_error_map, nth_error_combine.
  destruct (nth_error ks j) eqn:E1; destruct (nth_error l j) eqn:E2; try reflexivity.
  apply nth_error_None in E1. rewrite (map_opt_length _ _ _ Hk) in E1. apply nth_error_None in E1. congruence.
Qed.

(* the sort of a duplicate-free list of numbers by the identity key *)
Definition dup (x : nat) : nat * nat := (x, x).

Lemma insert_dup k : forall s, StronglySorted lt s -> ~ In k s ->
  exists s', insert_by k k (map dup s) = map dup s' /\ StronglySorted lt s' /\ (forall x, In x s' <-> x = k \/ In x s).
Proof.
  induction s as [|a s IH]; intros Hs Hk.
  - exists [k]. split; [reflexivity|]. split; [repeat constructor|]. intros x. cbn. intuition congruence.
  - inversion Hs as [|? ? Hs' Hf]; subst. cbn [map insert_by dup]. fold (dup a).
    destruct (Nat.ltb k a) eqn:E.
    + apply Nat.ltb_lt in E. exists (k :: a :: s). split; [reflexivity|]. split.
      * constructor; [assumption|]. constructor; [assumption|]. rewrite Forall_forall in Hf |- *. intros y Hy.
        pose proof (Hf y Hy). lia.
      * intros x. cbn. intuition congruence.
    + apply Nat.ltb_ge in E. assert (a <> k) by (intros ->; apply Hk; left; reflexivity).
      destruct (IH Hs') as (s' & E' & Hs'' & Hin); [intros Hin; apply Hk; right; assumption|].
      exists (a :: s'). split; [cbn [map]; rewrite E'; reflexivity|]. split.
      * constructor; [assumption|]. apply Forall_forall. intros y Hy. apply Hin in Hy.
        destruct Hy as [->|Hy]; [lia|]. rewrite Forall_forall in Hf. apply Hf. assumption.
      * intros x. cbn [In]. rewrite Hin. intuition congruence.
Qed.

Lemma isort_dup : forall l s, NoDup l -> StronglySorted lt s -> (forall x, In x l -> ~ In x s) ->
  exists s', fold_left ins_step (combine l l) (map dup s) = map dup s' /\ StronglySorted lt s' /\
             (forall x, In x s' <-> In x l \/ In x s).
Proof.
  induction l as [|a l IH]; intros s Hnd Hs Hdisj.
  - exists s. split; [reflexivity|]. split; [assumption|]. intros x. cbn. tauto.
  - inversion Hnd as [|? ? Hna Hnd']; subst. cbn [combine fold_left]. unfold ins_step at 2. cbn [fst snd].
    destruct (insert_dup a s Hs (Hdisj a (or_introl eq_refl))) as (s1 & E1 & Hs1 & Hin1). rewrite E1.
    destruct (IH s1 Hnd' Hs1) as (s' & E' & Hs' & Hin').
    { intros x Hx Hx1. apply Hin1 in Hx1. destruct Hx1 as [->|Hx1]; [contradiction|].
      apply (Hdisj x (or_intror Hx) Hx1). }
    exists s'. split; [assumption|]. split; [assumption|]. intros x. rewrite Hin', Hin1. cbn [In]. split; [intuition|].
    intros [[->|H]|H]; auto.
Qed.

Lemma sorted_by_key_nat (key : nat -> py nat) (l : list nat) N :
  NoDup l -> (forall x, In x l -> key x = Some x) -> (forall x, In x l -> x < N) ->
  sorted_by_key key l = Some (sel N l).
Proof.
  intros Hnd Hkey Hlt. unfold sorted_by_key. rewrite (map_opt_id key l Hkey). cbn [bind]. unfold ret. f_equal.
  change (fun (acc : list (nat * nat)) (kx : nat * nat) => insert_by (fst kx) (snd kx) acc) with (@ins_step nat).
  destruct (isort_dup l [] Hnd (SSorted_nil _)) as (s' & E & Hs & Hin); [intros x _ []|].
  cbn [map] in E. rewrite E, map_map. cbn [dup snd]. rewrite map_id.
  apply ssorted_unique; [assumption | apply sel_sorted|].
  intros x. rewrite Hin, sel_In. cbn [In]. split; [intros [H|[]]; split; auto | tauto].
Qed.

(* ------------------------------------------------------------------ text and lines *)
Local Open Scope string_scope.
Definition is_sep (c : ascii) : bool := Ascii.eqb c "010"%char || Ascii.eqb c "013"%char.
Fixpoint line_ok (s : string) : bool :=
  match s with EmptyString => true | String c t => negb (is_sep c) && line_ok t end.

Lemma sl_line : forall l cur rest, line_ok l = true ->
  splitlines_acc (l ++ String "010"%char rest) cur = rev_string (rev_string_acc l cur) :: splitlines_acc rest "".
Proof.
  induction l as [|c l IH]; intros cur rest H.
  - cbn [String.append splitlines_acc rev_string_acc]. reflexivity.
  - cbn [line_ok] in H. apply andb_prop in H. destruct H as [Hc Hl]. unfold is_sep in Hc.
    apply negb_true_iff, orb_false_iff in Hc. destruct Hc as [H1 H2].
    cbn [String.append splitlines_acc]. rewrite H1, H2. cbn [rev_string_acc]. apply IH. assumption.
Qed.

Definition text_of (ls : list string) : string := fold_right (fun l acc => l ++ nl ++ acc) "" ls.

Lemma splitlines_text : forall ls, Forall (fun l => line_ok l = true) ls -> splitlines (text_of ls) = ls.
Proof.
  unfold splitlines. induction ls as [|l ls IH]; intros H; [reflexivity|]. inversion H; subst. cbn [text_of fold_right].
  unfold nl. cbn [String.append]. change (String (ascii_of_nat 10) (text_of ls)) with (String "010"%char (text_of ls)).
  rewrite sl_line by assumption. fold (rev_string l). rewrite rev_string_invol. f_equal. apply IH. assumption.
Qed.

Lemma text_of_app a b : text_of (a ++ b)%list = text_of a ++ text_of b.
Proof.
  induction a as [|x a IH]; [reflexivity|]. cbn [app text_of fold_right]. fold (text_of (a ++ b)%list). fold (text_of a).
  rewrite IH. rewrite !sapp_assoc. reflexivity.
Qed.

Lemma append_nil_r s : s ++ "" = s.
Proof. induction s as [|c s IH]; [reflexivity|]. cbn. rewrite IH. reflexivity. Qed.

(* "\n".join(cm) + "\n" : the lines cm, or one empty line *)
Lemma join_text cm : LineGen.str_join nl cm ++ nl = text_of (match cm with [] => [""] | _ => cm end).
Proof.
  destruct cm as [|c cm]; [reflexivity|]. revert c. induction cm as [|d cm IH]; intros c.
  - cbn [LineGen.str_join text_of fold_right]. rewrite append_nil_r. reflexivity.
  - cbn [LineGen.str_join]. change (text_of (c :: d :: cm)) with (c ++ nl ++ text_of (d :: cm)).
    rewrite <- (IH d). rewrite !sapp_assoc. reflexivity.
Qed.

(* every line Cfg.splitlines returns is free of line separators *)
Lemma line_ok_rev_acc : forall s acc, line_ok s = true -> line_ok acc = true -> line_ok (rev_string_acc s acc) = true.
Proof.
  induction s as [|c s IH]; intros acc Hs Ha; [assumption|]. cbn [line_ok] in Hs. apply andb_prop in Hs.
  destruct Hs as [Hc Hs]. cbn [rev_string_acc]. apply IH; [assumption|]. cbn [line_ok]. rewrite Hc, Ha. reflexivity.
Qed.

Lemma splitlines_acc_ok : forall n s cur, String.length s <= n -> line_ok cur = true ->
  Forall (fun l => line_ok l = true) (splitlines_acc s cur).
Proof.
  assert (R : forall cur, line_ok cur = true -> line_ok (rev_string cur) = true).
  { intros cur H. unfold rev_string. apply line_ok_rev_acc; [assumption | reflexivity]. }
  induction n as [|n IH]; intros s cur Hn Hcur.
  - destruct s; [|cbn in Hn; lia]. cbn [splitlines_acc]. destruct cur; [constructor|].
    constructor; [apply R; assumption | constructor].
  - destruct s as [|c t].
    + cbn [splitlines_acc]. destruct cur; [constructor|]. constructor; [apply R; assumption | constructor].
    + cbn [String.length] in Hn. cbn [splitlines_acc]. destruct (Ascii.eqb c "010"%char) eqn:E1.
      * constructor; [apply R; assumption | apply IH; [lia | reflexivity]].
      * destruct (Ascii.eqb c "013"%char) eqn:E2.
        -- destruct t as [|d t'].
           ++ constructor; [apply R; assumption | constructor].
           ++ cbn [String.length] in Hn.
              destruct (Ascii.eqb d "010"%char); (constructor; [apply R; assumption|]); apply IH; cbn [String.length]; try lia; reflexivity.
        -- apply IH; [lia|]. cbn [line_ok]. unfold is_sep. rewrite E1, E2, Hcur. reflexivity.
Qed.

Lemma splitlines_ok s : Forall (fun l => line_ok l = true) (splitlines s).
Proof. apply (splitlines_acc_ok (String.length s)); [lia | reflexivity]. Qed.

Print Assumptions sorted_by_key_sorted.
Print Assumptions sorted_by_key_nat.
Print Assumptions splitlines_text.
Print Assumptions splitlines_ok.
