(* Non-vacuity of Lemmas/MoveSubLemmas.v on the parsed contract of Lemmas/IsoEx.v, cut into
   M (9 instructions) ++ S1 (6: subroutine s1) ++ S2 (8: subroutine s2) ++ []. *)
From Coq Require Import String List NArith ZArith Bool Arith.
From Tealer Require Import Tables LeafPrelude Leaves Syntax Parse Cfg StackAst Keys Analysis Domains Detect
  IsoLemmas IsoEx MoveSubLemmas.
Import ListNotations.
Open Scope string_scope.
Open Scope list_scope.

Definition mx_M : prog := Eval vm_compute in firstn 9 (t_prog ie_t).
Definition mx_S1 : prog := Eval vm_compute in firstn 6 (skipn 9 (t_prog ie_t)).
Definition mx_S2 : prog := Eval vm_compute in firstn 8 (skipn 15 (t_prog ie_t)).

Example mx_shape : mv_p mx_M mx_S1 mx_S2 [] = t_prog ie_t.
Proof. vm_compute. reflexivity. Qed.
(* the moved instruction list is the one the parser produces for the moved source text, up to line numbers
   (which C15_lines_irrelevant shows irrelevant) *)
Example mx_shape' : map i_op (mv_p' mx_M mx_S1 mx_S2 []) = map i_op (t_prog ie_t').
Proof. vm_compute. reflexivity. Qed.
Example mx_movable : movable mx_M mx_S1 mx_S2 = true.
Proof. vm_compute. reflexivity. Qed.

(* instruction level: the bz of s2 (position 19; successors: next line 20, target 21) sits at 13 in p' with the
   shifted successors, default successor first *)
Example mx_ins_next :
  ins_next (mv_p mx_M mx_S1 mx_S2 []) 19 = Some [20; 21] /\
  mv_g mx_M mx_S1 mx_S2 19 = 13 /\
  ins_next (mv_p' mx_M mx_S1 mx_S2 []) 13 = Some [14; 15] /\
  map (mv_g mx_M mx_S1 mx_S2) [20; 21] = [14; 15].
Proof. repeat split; vm_compute; reflexivity. Qed.

Definition mx_t' : teal :=
  Eval vm_compute in match parse_teal (mv_p' mx_M mx_S1 mx_S2 []) with Ok t => t | Err _ => ie_dummy_teal end.
Example mx_parse : parse_teal (mv_p mx_M mx_S1 mx_S2 []) = Ok ie_t /\ parse_teal (mv_p' mx_M mx_S1 mx_S2 []) = Ok mx_t'.
Proof. split; vm_compute; reflexivity. Qed.

(* the block renaming computed by the model from the block scan of p *)
Example mx_r : map (mv_r mx_M mx_S1 mx_S2 []) [0; 1; 2; 3; 4; 5; 6; 7] = [0; 1; 2; 6; 3; 4; 5; 7].
Proof. vm_compute. reflexivity. Qed.

Example mx_check :
  iso_check_graph (mv_r mx_M mx_S1 mx_S2 []) (mv_g mx_M mx_S1 mx_S2) (whole_function ie_t) (whole_function mx_t') = true.
Proof. vm_compute. reflexivity. Qed.

(* the theorem applied *)
Example mx_theorem : forall fuel' name checks,
  run_all (whole_function mx_t') 100 = Done (ren_result (mv_r mx_M mx_S1 mx_S2 []) ie_res) /\
  run_detector (whole_function mx_t') (ren_result (mv_r mx_M mx_S1 mx_S2 []) ie_res) fuel' name checks =
  omap (ren_paths (mv_r mx_M mx_S1 mx_S2 [])) (run_detector (whole_function ie_t) ie_res fuel' name checks).
Proof.
  intros fuel' name checks.
  destruct (move_sub_verdicts_partial mx_M mx_S1 mx_S2 [] ie_t mx_t' mx_movable (proj1 mx_parse) (proj2 mx_parse) mx_check)
    as [_ H].
  destruct (H 100) as [Hall Hres]. split.
  - rewrite Hall. change (whole_function ie_t) with ie_f. rewrite ie_run_all. reflexivity.
  - destruct (Hres ie_res) as [_ [_ Hd]]. apply Hd.
Qed.

(* ====================================================================== two further pairs *)
Definition m2_prog (ls : list string) : prog :=
  match parse_program (String.concat ie_nl ls) with Ok p => p | Err _ => [] end.

(* (a) the moved bodies call further subroutines: the swap permutes tealer's subroutine table (s3, s4 are first
   referenced in the other order); the check reads the table by name and still accepts *)
Definition m2_M : prog := Eval vm_compute in m2_prog ["#pragma version 6"; "callsub s1"; "callsub s2"; "int 1"; "return"].
Definition m2_S1 : prog := Eval vm_compute in m2_prog ["s1:"; "callsub s3"; "retsub"].
Definition m2_S2 : prog := Eval vm_compute in m2_prog ["s2:"; "callsub s4"; "retsub"].
Definition m2_R : prog := Eval vm_compute in m2_prog ["s3:"; "retsub"; "s4:"; "txn RekeyTo"; "global ZeroAddress"; "=="; "assert"; "retsub"].
Definition m2_t : teal := Eval vm_compute in match parse_teal (mv_p m2_M m2_S1 m2_S2 m2_R) with Ok t => t | Err _ => ie_dummy_teal end.
Definition m2_t' : teal := Eval vm_compute in match parse_teal (mv_p' m2_M m2_S1 m2_S2 m2_R) with Ok t => t | Err _ => ie_dummy_teal end.
Example m2_parse : parse_teal (mv_p m2_M m2_S1 m2_S2 m2_R) = Ok m2_t /\ parse_teal (mv_p' m2_M m2_S1 m2_S2 m2_R) = Ok m2_t'.
Proof. split; vm_compute; reflexivity. Qed.
Example m2_table_permuted :
  map s_name (t_subs m2_t) = ["s1"; "s2"; "s3"; "s4"] /\ map s_name (t_subs m2_t') = ["s1"; "s2"; "s4"; "s3"].
Proof. split; vm_compute; reflexivity. Qed.
Example m2_accepted :
  movable m2_M m2_S1 m2_S2 = true /\
  iso_check_graph (mv_r m2_M m2_S1 m2_S2 m2_R) (mv_g m2_M m2_S1 m2_S2) (whole_function m2_t) (whole_function m2_t') = true.
Proof. split; vm_compute; reflexivity. Qed.

(* (b) limit of the in-order requirement: both moved bodies jump to one common block; tealer lists its predecessors in
   source order, the swap reverses them, and the check rejects the pair (the theorems then say nothing) *)
Definition m3_M : prog := Eval vm_compute in m2_prog ["#pragma version 6"; "txn Fee"; "bz b2"; "b b1"].
Definition m3_S1 : prog := Eval vm_compute in m2_prog ["b1:"; "int 1"; "pop"; "b common"].
Definition m3_S2 : prog := Eval vm_compute in m2_prog ["b2:"; "int 2"; "pop"; "b common"].
Definition m3_R : prog := Eval vm_compute in m2_prog ["common:"; "int 1"; "return"].
Definition m3_t : teal := Eval vm_compute in match parse_teal (mv_p m3_M m3_S1 m3_S2 m3_R) with Ok t => t | Err _ => ie_dummy_teal end.
Definition m3_t' : teal := Eval vm_compute in match parse_teal (mv_p' m3_M m3_S1 m3_S2 m3_R) with Ok t => t | Err _ => ie_dummy_teal end.
Example m3_rejected :
  movable m3_M m3_S1 m3_S2 = true /\
  parse_teal (mv_p m3_M m3_S1 m3_S2 m3_R) = Ok m3_t /\ parse_teal (mv_p' m3_M m3_S1 m3_S2 m3_R) = Ok m3_t' /\
  option_map b_prev (fblock (whole_function m3_t) 4) = Some [2; 3] /\
  option_map b_prev (fblock (whole_function m3_t') 4) = Some [2; 3] /\
  map (mv_r m3_M m3_S1 m3_S2 m3_R) [2; 3] = [3; 2] /\
  iso_check_graph (mv_r m3_M m3_S1 m3_S2 m3_R) (mv_g m3_M m3_S1 m3_S2) (whole_function m3_t) (whole_function m3_t') = false.
Proof. repeat split; vm_compute; reflexivity. Qed.
