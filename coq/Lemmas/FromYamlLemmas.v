(* Lemmas/FromYamlLemmas.v -- the three regenerated `from_yaml` readers of the group part of a configuration
   (Gen/GroupInitGen.v: GroupConfigFunctionCall_from_yaml_gen, GroupConfigTransaction_from_yaml_gen,
   GroupConfigGroup_from_yaml_gen), for EVERY parsed YAML map.

   For each reader R there is a flat, computable  R_fault : map -> option exn  (a cascade of lookups and type tests in
   the order of the source: missing required field, unknown transaction type, wrong YAML type, the nested readers) and a
   projection  R_record : map -> record  that reads every field straight off the map (absent optional field = None), with

        R_total :  forall m,  R_gen m = match R_fault m with Some x => Raise x | None => Ok (R_record m) end.

   So the reader raises iff the decidable R_fault m <> None, raises exactly that exception, and otherwise returns the
   record whose fields are exactly the listed entries.  Consequences: the possible exceptions (never KeyError), exact
   conditions for "required field missing" and "unknown transaction type", the fields of a returned record in terms of
   the map (txn_returns_fields), relative_indexes = the dict keyed by other_txn_id in listing order with the last offset
   per id (rel_record), and the generalisation of YamlRelLemmas.from_yaml_relative_indexes to entries with ALL fields
   (from_yaml_of_entry). *)
From Coq Require Import String List NArith ZArith Bool Arith Lia.
From Tealer Require Import Tables LeafPrelude Syntax Parse Cfg StackAst Keys KeysGen Analysis Domains Detect SearchGen Group GroupGen GroupInitGen.
From Tealer Require Import SearchGenLemmas GroupLemmas GroupGenLemmas GroupInitGenLemmas YamlRelLemmas GroupCfgOk.
Import ListNotations.
Open Scope string_scope.
Open Scope list_scope.

(* ====================================================================== *)
(* 0. reading a map                                                         *)
(* ====================================================================== *)
Definition T_call_missing := EInvalid "Function call:\n\nFollowing Required fields are absent: {}".
Definition T_txn_missing := EInvalid "Transaction:\n\nFollowing Required fields are absent: {}".
Definition T_txn_unknown := EInvalid "Transaction: Unknown transaction type {} of transaction {}".
Definition T_rel_missing := EInvalid "Transaction: {}\n\nFollowing Required fields are absent in relative_indexes: {}".
Definition T_grp_missing := EInvalid "Group:\n\nFollowing Required fields are absent: {}".

(* m[k] (first entry) with YNull when the key is absent; presence is sdict_mem *)
Definition yget (k : string) (m : list (string * yv)) : yv :=
  match find (fun kv : string * yv => String.eqb (fst kv) k) m with Some kv => snd kv | None => YNull end.
Definition is_str (v : yv) : bool := match v with YStr _ => true | _ => false end.
Definition is_int (v : yv) : bool := match v with YInt _ => true | _ => false end.
Definition is_bool (v : yv) : bool := match v with YBool _ => true | _ => false end.
Definition str_of (v : yv) : string := match v with YStr s => s | _ => "" end.
Definition int_of (v : yv) : Z := match v with YInt z => z | _ => 0%Z end.
Definition bool_of (v : yv) : bool := match v with YBool b => b | _ => false end.

Lemma sdict_get_yget k (m : list (string * yv)) : sdict_mem k m = true -> sdict_get k m = Ok (yget k m).
Proof. rewrite sdict_mem_find, sdict_get_find. unfold yget. destruct (find _ m); [reflexivity | discriminate]. Qed.

Lemma as_str_eq v : as_str v = if is_str v then Ok (str_of v) else Raise ETypeError.
Proof. destruct v; reflexivity. Qed.
Lemma as_int_eq v : as_int v = if is_int v then Ok (int_of v) else Raise ETypeError.
Proof. destruct v; reflexivity. Qed.

(* check_fields_are_present: the required fields that are not keys, in order *)
Lemma check_fields_eq req m :
  check_fields_are_present_gen req m = Ok (filter (fun f => negb (sdict_mem f m)) req).
Proof.
  unfold check_fields_are_present_gen.
  match goal with |- context [foldE ?body req []] =>
    assert (H : forall l acc, foldE body l acc = Ok (acc ++ filter (fun fld => negb (sdict_mem fld m)) l)) end.
  { induction l as [|a l IH]; intros acc; cbn [foldE filter]; [rewrite app_nil_r; reflexivity|].
    destruct (sdict_mem a m); cbn [negb rbind]; rewrite IH; [reflexivity | rewrite <- app_assoc; reflexivity]. }
  rewrite H. reflexivity.
Qed.

Definition all_present (req : list string) (m : list (string * yv)) : bool := forallb (fun f => sdict_mem f m) req.

Lemma absent_test req m :
  (match filter (fun f => negb (sdict_mem f m)) req with [] => false | _ => true end) = negb (all_present req m).
Proof.
  unfold all_present. induction req as [|a req IH]; [reflexivity|]. cbn [filter forallb].
  destruct (sdict_mem a m); cbn [negb andb]; [exact IH | reflexivity].
Qed.

(* ====================================================================== *)
(* 1. GroupConfigFunctionCall.from_yaml                                     *)
(* ====================================================================== *)
Definition call_fault_y (m : list (string * yv)) : option exn :=
  if all_present ["contract"; "function"] m
  then if is_str (yget "contract" m) && is_str (yget "function" m) then None else Some ETypeError
  else Some T_call_missing.
Definition call_record (m : list (string * yv)) : GroupConfigFunctionCall :=
  mkGroupConfigFunctionCall (str_of (yget "contract" m)) (str_of (yget "function" m)).

Theorem call_from_yaml_total m :
  GroupConfigFunctionCall_from_yaml_gen m = match call_fault_y m with Some x => Raise x | None => Ok (call_record m) end.
Proof.
  unfold GroupConfigFunctionCall_from_yaml_gen, call_fault_y, call_record. rewrite check_fields_eq. cbn [rbind]. rewrite absent_test.
  destruct (all_present ["contract"; "function"] m) eqn:Ep; cbn [negb]; [|reflexivity].
  unfold all_present in Ep. cbn [forallb] in Ep. rewrite !andb_true_iff in Ep. destruct Ep as (Hc & Hf & _).
  rewrite (sdict_get_yget _ _ Hc), (sdict_get_yget _ _ Hf). cbn [rbind]. rewrite !as_str_eq.
  destruct (is_str (yget "contract" m)); cbn [rbind andb]; [|reflexivity].
  destruct (is_str (yget "function" m)); reflexivity.
Qed.

(* ====================================================================== *)
(* 2. GroupConfigTransaction.from_yaml                                      *)
(* ====================================================================== *)
(* ---- the generated function is this composition (conversion) *)
Definition opt_call_reader (o : option yv) : rs (option GroupConfigFunctionCall) :=
  match o with
  | Some t => rbind (as_map t) (fun t6 => rbind (GroupConfigFunctionCall_from_yaml_gen t6) (fun t7 => Ok (Some t7)))
  | None => Ok None
  end.
Definition rel_body (st : (list string * list (string * Z))%type) (relative_index : yv) : rs (list string * list (string * Z)) :=
  let '(absent_fields, parsed) := st in
  rbind (as_map relative_index) (fun t13 =>
  rbind (check_fields_are_present_gen ["other_txn_id"; "offset"] t13) (fun t14 =>
  if (match t14 with [] => false | _ => true end) then Raise T_rel_missing
  else rbind (as_map relative_index) (fun t15 => rbind (sdict_get "offset" t15) (fun t16 =>
       rbind (as_map relative_index) (fun t17 => rbind (sdict_get "other_txn_id" t17) (fun t18 =>
       rbind (as_str t18) (fun t19 => rbind (as_int t16) (fun t20 => Ok (t14, sdict_set t19 t20 parsed))))))))).
Definition opt_rel_reader (absent : list string) (o : option yv) : rs (list string * option (list (string * Z))) :=
  match o with
  | Some t11 => rbind (as_list t11) (fun t12 => rbind (foldE rel_body t12 (absent, [])) (fun st => let '(a, p) := st in Ok (a, Some p)))
  | None => Ok (absent, None)
  end.

Lemma txn_from_yaml_unfold m :
  GroupConfigTransaction_from_yaml_gen m =
  rbind (check_fields_are_present_gen ["txn_id"; "txn_type"] m) (fun absent =>
  if (match absent with [] => false | _ => true end) then Raise T_txn_missing else
  rbind (sdict_get "txn_id" m) (fun txn_id =>
  rbind (sdict_get "txn_type" m) (fun txn_type =>
  rbind (as_str txn_type) (fun ty =>
  if negb (sdict_mem ty USER_CONFIG_TRANSACTION_TYPES) then Raise T_txn_unknown else
  rbind (opt_call_reader (ymap_get_opt "application" m)) (fun application =>
  rbind (opt_call_reader (ymap_get_opt "logic_sig" m)) (fun logic_sig =>
  rbind (opt_rel_reader absent (ymap_get_opt "relative_indexes" m)) (fun st =>
  let '(absent_fields, relative_indexes) := st in
  rbind (as_str txn_id) (fun id =>
  rbind (as_str txn_type) (fun ty2 =>
  rbind (as_opt as_bool (ymap_get_opt "has_logic_sig" m)) (fun hl =>
  rbind (as_opt as_int (ymap_get_opt "absolute_index" m)) (fun ab =>
  Ok (mkGroupConfigTransaction id ty2 application hl logic_sig ab relative_indexes)))))))))))).
Proof. reflexivity. Qed.

(* ---- the nested function calls (application / logic_sig) *)
Definition opt_call_fault (o : option yv) : option exn :=
  match o with
  | None => None
  | Some (YMap m') => call_fault_y m'
  | Some _ => Some ETypeError
  end.
Definition opt_call_record (o : option yv) : option GroupConfigFunctionCall :=
  match o with Some (YMap m') => Some (call_record m') | _ => None end.

Lemma opt_call_reader_total o :
  opt_call_reader o = match opt_call_fault o with Some x => Raise x | None => Ok (opt_call_record o) end.
Proof.
  destruct o as [v|]; [|reflexivity]. destruct v; try reflexivity. cbn [opt_call_reader as_map rbind opt_call_fault opt_call_record].
  rewrite call_from_yaml_total. destruct (call_fault_y m); reflexivity.
Qed.

(* ---- one entry of relative_indexes, and the loop *)
Definition rel_entry_fault (v : yv) : option exn :=
  match v with
  | YMap m' =>
      if all_present ["other_txn_id"; "offset"] m'
      then if is_str (yget "other_txn_id" m') && is_int (yget "offset" m') then None else Some ETypeError
      else Some T_rel_missing
  | _ => Some ETypeError
  end.
Definition rel_entry_pair (v : yv) : string * Z :=
  match v with YMap m' => (str_of (yget "other_txn_id" m'), int_of (yget "offset" m')) | _ => ("", 0%Z) end.
Fixpoint first_fault {A} (f : A -> option exn) (l : list A) : option exn :=
  match l with [] => None | a :: t => match f a with Some x => Some x | None => first_fault f t end end.
(* the dict built from the listed entries: keyed by other_txn_id, a later offset for the same id replaces the earlier
   one in place *)
Definition rel_record_from (l : list yv) (d : list (string * Z)) : list (string * Z) :=
  fold_left (fun d p => sdict_set (fst p) (snd p) d) (map rel_entry_pair l) d.

Lemma rel_body_total a d v :
  rel_body (a, d) v =
  match rel_entry_fault v with
  | Some x => Raise x
  | None => Ok ([], sdict_set (fst (rel_entry_pair v)) (snd (rel_entry_pair v)) d)
  end.
Proof.
  unfold rel_body. destruct v; try reflexivity. cbn [as_map rbind rel_entry_fault rel_entry_pair fst snd].
  rewrite check_fields_eq. cbn [rbind]. rewrite absent_test.
  destruct (all_present ["other_txn_id"; "offset"] m) eqn:Ep; cbn [negb]; [|reflexivity].
  unfold all_present in Ep. cbn [forallb] in Ep. rewrite !andb_true_iff in Ep. destruct Ep as (Hi & Ho & _).
  rewrite (sdict_get_yget _ _ Hi), (sdict_get_yget _ _ Ho). cbn [rbind]. rewrite as_str_eq, as_int_eq.
  destruct (is_str (yget "other_txn_id" m)); cbn [rbind andb]; [|reflexivity].
  destruct (is_int (yget "offset" m)); cbn [rbind].
  - assert (E : filter (fun f => negb (sdict_mem f m)) ["other_txn_id"; "offset"] = []) by (cbn [filter]; rewrite Hi, Ho; reflexivity).
    rewrite E. reflexivity.
  - reflexivity.
Qed.

Lemma rel_loop_total : forall l a d,
  match first_fault rel_entry_fault l with
  | Some x => foldE rel_body l (a, d) = Raise x
  | None => exists a', foldE rel_body l (a, d) = Ok (a', rel_record_from l d)
  end.
Proof.
  induction l as [|v l IH]; intros a d; cbn [first_fault foldE]; [exists a; reflexivity|].
  rewrite rel_body_total. destruct (rel_entry_fault v) as [x|]; [reflexivity|]. cbn [rbind].
  unfold rel_record_from. cbn [map fold_left]. apply IH.
Qed.

Definition opt_rel_fault (o : option yv) : option exn :=
  match o with
  | None => None
  | Some (YList l) => first_fault rel_entry_fault l
  | Some _ => Some ETypeError
  end.
Definition opt_rel_record (o : option yv) : option (list (string * Z)) :=
  match o with Some (YList l) => Some (rel_record_from l []) | _ => None end.

Lemma opt_rel_reader_total a o :
  match opt_rel_fault o with
  | Some x => opt_rel_reader a o = Raise x
  | None => exists a', opt_rel_reader a o = Ok (a', opt_rel_record o)
  end.
Proof.
  destruct o as [v|]; [|exists a; reflexivity]. destruct v; try reflexivity.
  cbn [opt_rel_fault opt_rel_reader opt_rel_record as_list rbind].
  pose proof (rel_loop_total l a []) as H. destruct (first_fault rel_entry_fault l) as [x|].
  - rewrite H. reflexivity.
  - destruct H as [a' H]. rewrite H. cbn [rbind]. exists a'. reflexivity.
Qed.

(* ---- optional scalars *)
Definition scalar_fault (p : yv -> bool) (o : option yv) : option exn :=
  match o with None => None | Some v => if p v then None else Some ETypeError end.

Lemma as_opt_bool_total o :
  as_opt as_bool o = match scalar_fault is_bool o with Some x => Raise x | None => Ok (option_map bool_of o) end.
Proof. destruct o as [v|]; [destruct v|]; reflexivity. Qed.
Lemma as_opt_int_total o :
  as_opt as_int o = match scalar_fault is_int o with Some x => Raise x | None => Ok (option_map int_of o) end.
Proof. destruct o as [v|]; [destruct v|]; reflexivity. Qed.

(* ---- the whole reader *)
Definition or_else (a b : option exn) : option exn := match a with Some x => Some x | None => b end.

Definition txn_fault (m : list (string * yv)) : option exn :=
  if all_present ["txn_id"; "txn_type"] m
  then if is_str (yget "txn_type" m)
       then if sdict_mem (str_of (yget "txn_type" m)) USER_CONFIG_TRANSACTION_TYPES
            then or_else (opt_call_fault (ymap_get_opt "application" m))
                (or_else (opt_call_fault (ymap_get_opt "logic_sig" m))
                (or_else (opt_rel_fault (ymap_get_opt "relative_indexes" m))
                (or_else (if is_str (yget "txn_id" m) then None else Some ETypeError)
                (or_else (scalar_fault is_bool (ymap_get_opt "has_logic_sig" m))
                         (scalar_fault is_int (ymap_get_opt "absolute_index" m))))))
            else Some T_txn_unknown
       else Some ETypeError
  else Some T_txn_missing.

Definition txn_record (m : list (string * yv)) : GroupConfigTransaction :=
  mkGroupConfigTransaction
    (str_of (yget "txn_id" m)) (str_of (yget "txn_type" m))
    (opt_call_record (ymap_get_opt "application" m))
    (option_map bool_of (ymap_get_opt "has_logic_sig" m))
    (opt_call_record (ymap_get_opt "logic_sig" m))
    (option_map int_of (ymap_get_opt "absolute_index" m))
    (opt_rel_record (ymap_get_opt "relative_indexes" m)).

Theorem txn_from_yaml_total m :
  GroupConfigTransaction_from_yaml_gen m = match txn_fault m with Some x => Raise x | None => Ok (txn_record m) end.
Proof.
  rewrite txn_from_yaml_unfold. unfold txn_fault, txn_record. rewrite check_fields_eq. cbn [rbind]. rewrite absent_test.
  destruct (all_present ["txn_id"; "txn_type"] m) eqn:Ep; cbn [negb]; [|reflexivity].
  unfold all_present in Ep. cbn [forallb] in Ep. rewrite !andb_true_iff in Ep. destruct Ep as (Hi & Ht & _).
  rewrite (sdict_get_yget _ _ Hi), (sdict_get_yget _ _ Ht). cbn [rbind]. rewrite !as_str_eq.
  destruct (is_str (yget "txn_type" m)); cbn [rbind]; [|reflexivity].
  destruct (sdict_mem (str_of (yget "txn_type" m)) USER_CONFIG_TRANSACTION_TYPES); cbn [negb]; [|reflexivity].
  rewrite !opt_call_reader_total.
  destruct (opt_call_fault (ymap_get_opt "application" m)) as [x|]; cbn [or_else rbind]; [reflexivity|].
  destruct (opt_call_fault (ymap_get_opt "logic_sig" m)) as [x|]; cbn [or_else rbind]; [reflexivity|].
  pose proof (opt_rel_reader_total (filter (fun f => negb (sdict_mem f m)) ["txn_id"; "txn_type"]) (ymap_get_opt "relative_indexes" m)) as Hr.
  destruct (opt_rel_fault (ymap_get_opt "relative_indexes" m)) as [x|]; cbn [or_else]; [rewrite Hr; reflexivity|].
  destruct Hr as [a' Hr]. rewrite Hr. cbn [rbind].
  destruct (is_str (yget "txn_id" m)); cbn [or_else rbind]; [|reflexivity].
  rewrite as_opt_bool_total, as_opt_int_total.
  destruct (scalar_fault is_bool (ymap_get_opt "has_logic_sig" m)) as [x|]; cbn [or_else rbind]; [reflexivity|].
  destruct (scalar_fault is_int (ymap_get_opt "absolute_index" m)) as [x|]; reflexivity.
Qed.
Print Assumptions txn_from_yaml_total.

(* ====================================================================== *)
(* 3. GroupConfigGroup.from_yaml                                            *)
(* ====================================================================== *)
Definition elem_fault (v : yv) : option exn := match v with YMap m' => txn_fault m' | _ => Some ETypeError end.
Definition elem_record (v : yv) : GroupConfigTransaction :=
  match v with YMap m' => txn_record m' | _ => mkGroupConfigTransaction "" "" None None None None None end.

Definition grp_fault (m : list (string * yv)) : option exn :=
  if all_present ["operation"; "transactions"] m
  then match yget "transactions" m with
       | YList l => or_else (first_fault elem_fault l) (if is_str (yget "operation" m) then None else Some ETypeError)
       | _ => Some ETypeError
       end
  else Some T_grp_missing.
Definition grp_record (m : list (string * yv)) : GroupConfigGroup :=
  mkGroupConfigGroup (str_of (yget "operation" m))
    (match yget "transactions" m with YList l => map elem_record l | _ => [] end).

Definition grp_body (st : list GroupConfigTransaction) (transaction : yv) : rs (list GroupConfigTransaction) :=
  rbind (as_map transaction) (fun t5 => rbind (GroupConfigTransaction_from_yaml_gen t5) (fun t6 => Ok (st ++ [t6]))).

Lemma grp_loop_total : forall l acc,
  foldE grp_body l acc = match first_fault elem_fault l with Some x => Raise x | None => Ok (acc ++ map elem_record l) end.
Proof.
  induction l as [|v l IH]; intros acc; cbn [foldE first_fault map]; [rewrite app_nil_r; reflexivity|].
  unfold grp_body at 1. destruct v; try reflexivity. cbn [as_map rbind elem_fault elem_record]. rewrite txn_from_yaml_total.
  destruct (txn_fault m) as [x|]; [reflexivity|]. cbn [rbind]. rewrite IH.
  destruct (first_fault elem_fault l); [reflexivity|]. rewrite <- app_assoc. reflexivity.
Qed.

Theorem grp_from_yaml_total m :
  GroupConfigGroup_from_yaml_gen m = match grp_fault m with Some x => Raise x | None => Ok (grp_record m) end.
Proof.
  unfold GroupConfigGroup_from_yaml_gen, grp_fault, grp_record. rewrite check_fields_eq. cbn [rbind]. rewrite absent_test.
  destruct (all_present ["operation"; "transactions"] m) eqn:Ep; cbn [negb]; [|reflexivity].
  unfold all_present in Ep. cbn [forallb] in Ep. rewrite !andb_true_iff in Ep. destruct Ep as (Ho & Ht & _).
  rewrite (sdict_get_yget _ _ Ho), (sdict_get_yget _ _ Ht). cbn [rbind].
  destruct (yget "transactions" m); try reflexivity. cbn [as_list rbind].
  change (foldE _ l []) with (foldE grp_body l []). rewrite grp_loop_total.
  destruct (first_fault elem_fault l) as [x|]; cbn [or_else rbind app]; [reflexivity|].
  rewrite as_str_eq. destruct (is_str (yget "operation" m)); reflexivity.
Qed.
Print Assumptions grp_from_yaml_total.

(* ====================================================================== *)
(* 4. Consequences                                                          *)
(* ====================================================================== *)
Ltac tmpl_neq :=
  unfold T_call_missing, T_txn_missing, T_txn_unknown, T_rel_missing, T_grp_missing in *; try discriminate; try congruence.

Lemma first_fault_some {A} (f : A -> option exn) l x : first_fault f l = Some x -> exists a, In a l /\ f a = Some x.
Proof.
  induction l as [|a l IH]; cbn [first_fault]; [discriminate|]. destruct (f a) as [y|] eqn:E.
  - intros H. inversion H; subst y. exists a. split; [left; reflexivity | exact E].
  - intros H. destruct (IH H) as (b & Hb & Hf). exists b. split; [right; exact Hb | exact Hf].
Qed.

Lemma first_fault_none {A} (f : A -> option exn) l : first_fault f l = None <-> forall a, In a l -> f a = None.
Proof.
  induction l as [|a l IH]; cbn [first_fault]; [split; [intros _ a [] | reflexivity]|]. destruct (f a) as [y|] eqn:E.
  - split; [discriminate | intros H; rewrite (H a (or_introl eq_refl)) in E; discriminate E].
  - rewrite IH. split; [intros H b [<-|Hb]; [exact E | exact (H b Hb)] | intros H b Hb; apply H; right; exact Hb].
Qed.

Lemma call_fault_y_range m x : call_fault_y m = Some x -> x = T_call_missing \/ x = ETypeError.
Proof.
  unfold call_fault_y. destruct (all_present _ m); [|intros H; inversion H; auto].
  destruct (_ && _)%bool; [discriminate | intros H; inversion H; auto].
Qed.
Lemma opt_call_fault_range o x : opt_call_fault o = Some x -> x = T_call_missing \/ x = ETypeError.
Proof. destruct o as [v|]; [|discriminate]. destruct v; cbn [opt_call_fault]; try (intros H; inversion H; auto; fail). apply call_fault_y_range. Qed.
Lemma rel_entry_fault_range v x : rel_entry_fault v = Some x -> x = T_rel_missing \/ x = ETypeError.
Proof.
  destruct v; cbn [rel_entry_fault]; try (intros H; inversion H; auto; fail).
  destruct (all_present _ m); [|intros H; inversion H; auto]. destruct (_ && _)%bool; [discriminate | intros H; inversion H; auto].
Qed.
Lemma opt_rel_fault_range o x : opt_rel_fault o = Some x -> x = T_rel_missing \/ x = ETypeError.
Proof.
  destruct o as [v|]; [|discriminate]. destruct v; cbn [opt_rel_fault]; try (intros H; inversion H; auto; fail).
  intros H. apply first_fault_some in H. destruct H as (a & _ & H). exact (rel_entry_fault_range a x H).
Qed.
Lemma scalar_fault_range p o x : scalar_fault p o = Some x -> x = ETypeError.
Proof. destruct o as [v|]; [|discriminate]. cbn [scalar_fault]. destruct (p v); [discriminate | intros H; inversion H; reflexivity]. Qed.

(* the reader of a transaction entry raises InvalidGroupConfiguration (four messages) or meets a value of the wrong YAML
   type; never KeyError *)
Theorem txn_fault_range m x :
  txn_fault m = Some x -> In x [T_txn_missing; T_txn_unknown; T_call_missing; T_rel_missing; ETypeError].
Proof.
  unfold txn_fault. cbn [In]. destruct (all_present _ m); [|intros H; inversion H; auto].
  destruct (is_str (yget "txn_type" m)); [|intros H; inversion H; auto 10].
  destruct (sdict_mem _ USER_CONFIG_TRANSACTION_TYPES); [|intros H; inversion H; auto].
  destruct (opt_call_fault (ymap_get_opt "application" m)) as [y|] eqn:E1; cbn [or_else].
  { intros H; inversion H; subst y. destruct (opt_call_fault_range _ _ E1); auto 10. }
  destruct (opt_call_fault (ymap_get_opt "logic_sig" m)) as [y|] eqn:E2; cbn [or_else].
  { intros H; inversion H; subst y. destruct (opt_call_fault_range _ _ E2); auto 10. }
  destruct (opt_rel_fault (ymap_get_opt "relative_indexes" m)) as [y|] eqn:E3; cbn [or_else].
  { intros H; inversion H; subst y. destruct (opt_rel_fault_range _ _ E3); auto 10. }
  destruct (is_str (yget "txn_id" m)); cbn [or_else]; [|intros H; inversion H; auto 10].
  destruct (scalar_fault is_bool (ymap_get_opt "has_logic_sig" m)) as [y|] eqn:E4; cbn [or_else].
  { intros H; inversion H; subst y. rewrite (scalar_fault_range _ _ _ E4). auto 10. }
  intros H. rewrite (scalar_fault_range _ _ _ H). auto 10.
Qed.

Theorem txn_from_yaml_raises_iff m x : GroupConfigTransaction_from_yaml_gen m = Raise x <-> txn_fault m = Some x.
Proof. rewrite txn_from_yaml_total. destruct (txn_fault m) as [y|]; split; intros H; inversion H; reflexivity. Qed.

Theorem txn_from_yaml_returns_iff m r : GroupConfigTransaction_from_yaml_gen m = Ok r <-> txn_fault m = None /\ r = txn_record m.
Proof.
  rewrite txn_from_yaml_total. destruct (txn_fault m) as [y|]; split.
  - discriminate.
  - intros [H _]; discriminate H.
  - intros H; inversion H; auto.
  - intros [_ ->]. reflexivity.
Qed.

Theorem txn_from_yaml_never_keyerror m : GroupConfigTransaction_from_yaml_gen m <> Raise EKeyError.
Proof.
  intros H. apply txn_from_yaml_raises_iff in H. apply txn_fault_range in H. cbn [In] in H.
  destruct H as [X|[X|[X|[X|[X|[]]]]]]; tmpl_neq.
Qed.

(* required field missing *)
Theorem txn_raises_missing_iff m :
  GroupConfigTransaction_from_yaml_gen m = Raise T_txn_missing <-> sdict_mem "txn_id" m = false \/ sdict_mem "txn_type" m = false.
Proof.
  rewrite txn_from_yaml_raises_iff. split.
  - intros H. destruct (all_present ["txn_id"; "txn_type"] m) eqn:Ep.
    + exfalso. unfold txn_fault in H. rewrite Ep in H.
      destruct (is_str (yget "txn_type" m)); [|tmpl_neq].
      destruct (sdict_mem _ USER_CONFIG_TRANSACTION_TYPES); [|tmpl_neq].
      destruct (opt_call_fault (ymap_get_opt "application" m)) as [y|] eqn:E1; cbn [or_else] in H.
      { inversion H; subst y. destruct (opt_call_fault_range _ _ E1); tmpl_neq. }
      destruct (opt_call_fault (ymap_get_opt "logic_sig" m)) as [y|] eqn:E2; cbn [or_else] in H.
      { inversion H; subst y. destruct (opt_call_fault_range _ _ E2); tmpl_neq. }
      destruct (opt_rel_fault (ymap_get_opt "relative_indexes" m)) as [y|] eqn:E3; cbn [or_else] in H.
      { inversion H; subst y. destruct (opt_rel_fault_range _ _ E3); tmpl_neq. }
      destruct (is_str (yget "txn_id" m)); cbn [or_else] in H; [|tmpl_neq].
      destruct (scalar_fault is_bool (ymap_get_opt "has_logic_sig" m)) as [y|] eqn:E4; cbn [or_else] in H.
      { inversion H; subst y. pose proof (scalar_fault_range _ _ _ E4). tmpl_neq. }
      pose proof (scalar_fault_range _ _ _ H). tmpl_neq.
    + unfold all_present in Ep. cbn [forallb] in Ep. destruct (sdict_mem "txn_id" m); [|left; reflexivity].
      destruct (sdict_mem "txn_type" m); [discriminate Ep | right; reflexivity].
  - intros H. unfold txn_fault, all_present. cbn [forallb]. destruct H as [H|H]; rewrite H; [reflexivity|].
    destruct (sdict_mem "txn_id" m); reflexivity.
Qed.

(* unknown transaction type *)
Theorem txn_raises_unknown_type_iff m :
  GroupConfigTransaction_from_yaml_gen m = Raise T_txn_unknown <->
  sdict_mem "txn_id" m = true /\ sdict_mem "txn_type" m = true /\
  exists ty, yget "txn_type" m = YStr ty /\ sdict_mem ty USER_CONFIG_TRANSACTION_TYPES = false.
Proof.
  rewrite txn_from_yaml_raises_iff. split.
  - intros H. unfold txn_fault in H. destruct (all_present ["txn_id"; "txn_type"] m) eqn:Ep; [|tmpl_neq].
    unfold all_present in Ep. cbn [forallb] in Ep. rewrite !andb_true_iff in Ep. destruct Ep as (Hi & Ht & _).
    split; [exact Hi|]. split; [exact Ht|].
    destruct (yget "txn_type" m) as [| | |ty| |] eqn:Ey; cbn [is_str str_of] in H; try (tmpl_neq; fail).
    exists ty. split; [reflexivity|].
    destruct (sdict_mem ty USER_CONFIG_TRANSACTION_TYPES); [|reflexivity]. exfalso.
    destruct (opt_call_fault (ymap_get_opt "application" m)) as [y|] eqn:E1; cbn [or_else] in H.
    { inversion H; subst y. destruct (opt_call_fault_range _ _ E1); tmpl_neq. }
    destruct (opt_call_fault (ymap_get_opt "logic_sig" m)) as [y|] eqn:E2; cbn [or_else] in H.
    { inversion H; subst y. destruct (opt_call_fault_range _ _ E2); tmpl_neq. }
    destruct (opt_rel_fault (ymap_get_opt "relative_indexes" m)) as [y|] eqn:E3; cbn [or_else] in H.
    { inversion H; subst y. destruct (opt_rel_fault_range _ _ E3); tmpl_neq. }
    destruct (is_str (yget "txn_id" m)); cbn [or_else] in H; [|tmpl_neq].
    destruct (scalar_fault is_bool (ymap_get_opt "has_logic_sig" m)) as [y|] eqn:E4; cbn [or_else] in H.
    { inversion H; subst y. pose proof (scalar_fault_range _ _ _ E4). tmpl_neq. }
    pose proof (scalar_fault_range _ _ _ H). tmpl_neq.
  - intros (Hi & Ht & ty & Ey & Hm). unfold txn_fault, all_present. cbn [forallb]. rewrite Hi, Ht, Ey. cbn [andb is_str str_of].
    rewrite Hm. reflexivity.
Qed.

(* a returned entry always names a transaction type of the table: the KeyError of init_tealer_from_config
   (USER_CONFIG_TRANSACTION_TYPES[txn.txn_type]) cannot happen on entries read by from_yaml *)
Theorem txn_returns_known_type m r :
  GroupConfigTransaction_from_yaml_gen m = Ok r -> sdict_mem (ct_txn_type r) USER_CONFIG_TRANSACTION_TYPES = true.
Proof.
  rewrite txn_from_yaml_returns_iff. intros [H ->]. unfold txn_fault in H. cbn [txn_record ct_txn_type].
  destruct (all_present _ m); [|discriminate H]. destruct (is_str (yget "txn_type" m)); [|discriminate H].
  destruct (sdict_mem _ USER_CONFIG_TRANSACTION_TYPES); [reflexivity | discriminate H].
Qed.

(* the fields of a returned entry are exactly the listed ones (absent or null optional field = None) *)
Theorem txn_returns_fields m r :
  GroupConfigTransaction_from_yaml_gen m = Ok r ->
  yget "txn_id" m = YStr (ct_txn_id r) /\ yget "txn_type" m = YStr (ct_txn_type r) /\
  ymap_get_opt "has_logic_sig" m = option_map YBool (ct_has_logic_sig r) /\
  ymap_get_opt "absolute_index" m = option_map YInt (ct_absolute_index r) /\
  match ct_application r with
  | None => ymap_get_opt "application" m = None
  | Some c => exists m', ymap_get_opt "application" m = Some (YMap m') /\
                         yget "contract" m' = YStr (fc_contract c) /\ yget "function" m' = YStr (fc_function c)
  end /\
  match ct_logic_sig r with
  | None => ymap_get_opt "logic_sig" m = None
  | Some c => exists m', ymap_get_opt "logic_sig" m = Some (YMap m') /\
                         yget "contract" m' = YStr (fc_contract c) /\ yget "function" m' = YStr (fc_function c)
  end /\
  match ct_relative_indexes r with
  | None => ymap_get_opt "relative_indexes" m = None
  | Some d => exists l, ymap_get_opt "relative_indexes" m = Some (YList l) /\
                        (forall v, In v l -> exists m', v = YMap m' /\ yget "other_txn_id" m' = YStr (fst (rel_entry_pair v)) /\
                                                        yget "offset" m' = YInt (snd (rel_entry_pair v))) /\
                        d = rel_record_from l []
  end.
Proof.
  rewrite txn_from_yaml_returns_iff. intros [H ->]. unfold txn_fault in H. cbn [txn_record ct_txn_id ct_txn_type ct_has_logic_sig ct_absolute_index ct_application ct_logic_sig ct_relative_indexes].
  destruct (all_present _ m); [|discriminate H]. destruct (yget "txn_type" m) as [| | |ty| |] eqn:Ety; try discriminate H. cbn [is_str str_of] in H |- *.
  destruct (sdict_mem ty USER_CONFIG_TRANSACTION_TYPES); [|discriminate H].
  assert (Hcall : forall o, opt_call_fault o = None ->
            match opt_call_record o with
            | None => o = None
            | Some c => exists m', o = Some (YMap m') /\ yget "contract" m' = YStr (fc_contract c) /\ yget "function" m' = YStr (fc_function c)
            end).
  { intros o Ho. destruct o as [v|]; [|reflexivity]. destruct v; try discriminate Ho. cbn [opt_call_fault opt_call_record] in *.
    exists m0. split; [reflexivity|]. unfold call_fault_y in Ho. destruct (all_present _ m0); [|discriminate Ho].
    unfold call_record. cbn [fc_contract fc_function].
    destruct (yget "contract" m0); try discriminate Ho. destruct (yget "function" m0); try discriminate Ho. split; reflexivity. }
  destruct (opt_call_fault (ymap_get_opt "application" m)) eqn:E1; cbn [or_else] in H; [discriminate H|].
  destruct (opt_call_fault (ymap_get_opt "logic_sig" m)) eqn:E2; cbn [or_else] in H; [discriminate H|].
  destruct (opt_rel_fault (ymap_get_opt "relative_indexes" m)) eqn:E3; cbn [or_else] in H; [discriminate H|].
  destruct (yget "txn_id" m) as [| | |tid| |]; cbn [is_str or_else] in H; try discriminate H. cbn [str_of].
  destruct (scalar_fault is_bool (ymap_get_opt "has_logic_sig" m)) eqn:E4; cbn [or_else] in H; [discriminate H|].
  split; [reflexivity|]. split; [reflexivity|].
  split. { destruct (ymap_get_opt "has_logic_sig" m) as [v|]; [|reflexivity]. destruct v; try discriminate E4. reflexivity. }
  split. { destruct (ymap_get_opt "absolute_index" m) as [v|]; [|reflexivity]. destruct v; try discriminate H. reflexivity. }
  split; [exact (Hcall _ E1)|]. split; [exact (Hcall _ E2)|].
  destruct (ymap_get_opt "relative_indexes" m) as [v|]; [|reflexivity]. destruct v; try discriminate E3.
  cbn [opt_rel_record opt_rel_fault] in *. exists l. split; [reflexivity|]. split; [|reflexivity].
  intros v Hv. pose proof (proj1 (first_fault_none _ _) E3 v Hv) as Hf. destruct v; try discriminate Hf.
  exists m0. split; [reflexivity|]. cbn [rel_entry_fault rel_entry_pair fst snd] in *. destruct (all_present _ m0); [|discriminate Hf].
  destruct (yget "other_txn_id" m0); try discriminate Hf. destruct (yget "offset" m0); try discriminate Hf. split; reflexivity.
Qed.

(* ---- the group reader *)
Theorem grp_from_yaml_raises_iff m x : GroupConfigGroup_from_yaml_gen m = Raise x <-> grp_fault m = Some x.
Proof. rewrite grp_from_yaml_total. destruct (grp_fault m) as [y|]; split; intros H; inversion H; reflexivity. Qed.

Theorem grp_from_yaml_returns_iff m r : GroupConfigGroup_from_yaml_gen m = Ok r <-> grp_fault m = None /\ r = grp_record m.
Proof.
  rewrite grp_from_yaml_total. destruct (grp_fault m) as [y|]; split.
  - discriminate.
  - intros [H _]; discriminate H.
  - intros H; inversion H; auto.
  - intros [_ ->]. reflexivity.
Qed.

Theorem grp_raises_missing_iff m :
  GroupConfigGroup_from_yaml_gen m = Raise T_grp_missing <-> sdict_mem "operation" m = false \/ sdict_mem "transactions" m = false.
Proof.
  rewrite grp_from_yaml_raises_iff. unfold grp_fault, all_present. cbn [forallb]. split.
  - intros H. destruct (sdict_mem "operation" m); [|left; reflexivity]. destruct (sdict_mem "transactions" m); [|right; reflexivity].
    exfalso. cbn [andb] in H. destruct (yget "transactions" m); try (tmpl_neq; fail).
    destruct (first_fault elem_fault l) as [y|] eqn:Ef; cbn [or_else] in H.
    + inversion H; subst y. apply first_fault_some in Ef. destruct Ef as (v & _ & Hv). destruct v; cbn [elem_fault] in Hv; try (tmpl_neq; fail).
      apply txn_fault_range in Hv. cbn [In] in Hv. destruct Hv as [X|[X|[X|[X|[X|[]]]]]]; tmpl_neq.
    + destruct (is_str (yget "operation" m)); tmpl_neq.
  - intros [H|H]; rewrite H; [reflexivity|]. destruct (sdict_mem "operation" m); reflexivity.
Qed.

(* every entry of a returned group names a known transaction type *)
Theorem grp_returns_known_types m r :
  GroupConfigGroup_from_yaml_gen m = Ok r ->
  forall e, In e (cg_transactions r) -> sdict_mem (ct_txn_type e) USER_CONFIG_TRANSACTION_TYPES = true.
Proof.
  rewrite grp_from_yaml_returns_iff. intros [H ->] e He. unfold grp_fault in H. cbn [grp_record cg_transactions] in He.
  destruct (all_present _ m); [|discriminate H]. destruct (yget "transactions" m); try discriminate H.
  destruct (first_fault elem_fault l) eqn:Ef; cbn [or_else] in H; [discriminate H|].
  apply in_map_iff in He. destruct He as (v & <- & Hv). pose proof (proj1 (first_fault_none _ _) Ef v Hv) as Hf.
  destruct v; try discriminate Hf. cbn [elem_fault elem_record] in *.
  apply (txn_returns_known_type m0). rewrite txn_from_yaml_total, Hf. reflexivity.
Qed.

(* ====================================================================== *)
(* 5. Entries with ALL fields (generalises YamlRelLemmas.from_yaml_relative_indexes)                                    *)
(* ====================================================================== *)
Definition ycall_of (c : GroupConfigFunctionCall) : yv := ycall (fc_contract c) (fc_function c).
Definition opt_field (k : string) (o : option yv) : list (string * yv) := match o with Some v => [(k, v)] | None => [] end.
(* the YAML map that lists exactly the given fields; relative_indexes as a listing of (offset, other id) pairs *)
Definition yaml_of_entry (tid ty : string) (app : option GroupConfigFunctionCall) (hl : option bool)
    (ls : option GroupConfigFunctionCall) (ab : option Z) (rel : option (list (Z * string))) : list (string * yv) :=
  [("txn_id", YStr tid); ("txn_type", YStr ty)] ++ opt_field "application" (option_map ycall_of app) ++
  opt_field "has_logic_sig" (option_map YBool hl) ++ opt_field "logic_sig" (option_map ycall_of ls) ++
  opt_field "absolute_index" (option_map YInt ab) ++ opt_field "relative_indexes" (option_map (fun l => YList (yentries l)) rel).

Lemma rel_fault_yentries l : first_fault rel_entry_fault (yentries l) = None.
Proof. induction l as [|[off id] l IH]; [reflexivity|]. cbn [yentries map first_fault]. exact IH. Qed.

Lemma rel_record_yentries : forall l d,
  rel_record_from (yentries l) d = fold_left (fun d '(off, id) => sdict_put id off d) l d.
Proof.
  induction l as [|[off id] l IH]; intros d; [reflexivity|]. unfold rel_record_from in *. cbn [yentries map fold_left].
  change (rel_entry_pair (yrel id off)) with (id, off). cbn [fst snd]. rewrite <- sdict_put_is_sdict_set. apply IH.
Qed.

Theorem from_yaml_of_entry tid ty app hl ls ab rel :
  GroupConfigTransaction_from_yaml_gen (yaml_of_entry tid ty app hl ls ab rel) =
  if sdict_mem ty USER_CONFIG_TRANSACTION_TYPES
  then Ok (mkGroupConfigTransaction tid ty app hl ls ab (option_map yaml_dict rel))
  else Raise T_txn_unknown.
Proof.
  rewrite txn_from_yaml_total. set (m := yaml_of_entry tid ty app hl ls ab rel).
  assert (Hp : all_present ["txn_id"; "txn_type"] m = true) by reflexivity.
  assert (Hi : yget "txn_id" m = YStr tid) by reflexivity.
  assert (Ht : yget "txn_type" m = YStr ty) by reflexivity.
  assert (Ha : ymap_get_opt "application" m = option_map ycall_of app) by (destruct app, hl, ls, ab, rel; reflexivity).
  assert (Hh : ymap_get_opt "has_logic_sig" m = option_map YBool hl) by (destruct app, hl, ls, ab, rel; reflexivity).
  assert (Hl : ymap_get_opt "logic_sig" m = option_map ycall_of ls) by (destruct app, hl, ls, ab, rel; reflexivity).
  assert (Hb : ymap_get_opt "absolute_index" m = option_map YInt ab) by (destruct app, hl, ls, ab, rel; reflexivity).
  assert (Hr : ymap_get_opt "relative_indexes" m = option_map (fun l => YList (yentries l)) rel) by (destruct app, hl, ls, ab, rel; reflexivity).
  unfold txn_fault, txn_record. rewrite Hp, Hi, Ht, Ha, Hh, Hl, Hb, Hr. cbn [is_str str_of].
  destruct (sdict_mem ty USER_CONFIG_TRANSACTION_TYPES); [|reflexivity].
  assert (Hc : forall o, opt_call_fault (option_map ycall_of o) = None /\ opt_call_record (option_map ycall_of o) = o).
  { intros [[c f]|]; split; reflexivity. }
  rewrite (proj1 (Hc app)), (proj1 (Hc ls)), (proj2 (Hc app)), (proj2 (Hc ls)). cbn [or_else].
  assert (Hrel : opt_rel_fault (option_map (fun l => YList (yentries l)) rel) = None /\
                 opt_rel_record (option_map (fun l => YList (yentries l)) rel) = option_map yaml_dict rel).
  { destruct rel as [l|]; [|split; reflexivity]. cbn [option_map opt_rel_fault opt_rel_record]. split; [apply rel_fault_yentries|].
    rewrite rel_record_yentries. reflexivity. }
  rewrite (proj1 Hrel), (proj2 Hrel). cbn [or_else].
  destruct hl as [b|], ab as [z|]; reflexivity.
Qed.
Print Assumptions from_yaml_of_entry.

(* ====================================================================== *)
(* 6. Non-vacuity                                                           *)
(* ====================================================================== *)
Example txn_fault_examples :
  txn_fault ex_yaml_a = None /\
  txn_record ex_yaml_a = mkGroupConfigTransaction "a" "pay" None None (Some (mkGroupConfigFunctionCall "ls" "f")) (Some 1%Z) (Some [("b", 3%Z); ("c", 2%Z)]) /\
  txn_fault [("txn_id", YStr "a"); ("txn_type", YStr "Pay")] = Some T_txn_unknown /\
  txn_fault [("txn_type", YStr "pay")] = Some T_txn_missing /\
  txn_fault [("txn_id", YStr "a"); ("txn_type", YStr "pay"); ("relative_indexes", YList [YMap [("other_txn_id", YStr "b")]])] = Some T_rel_missing /\
  txn_fault [("txn_id", YStr "a"); ("txn_type", YStr "pay"); ("application", YMap [("contract", YStr "c")])] = Some T_call_missing /\
  txn_fault [("txn_id", YStr "a"); ("txn_type", YStr "pay"); ("absolute_index", YStr "1")] = Some ETypeError /\
  txn_fault [("txn_id", YInt 7); ("txn_type", YStr "pay")] = Some ETypeError /\
  txn_fault [("txn_id", YStr "a"); ("txn_type", YStr "pay"); ("absolute_index", YNull); ("logic_sig", YNull)] = None /\
  grp_fault [("operation", YStr "op")] = Some T_grp_missing /\
  grp_fault [("operation", YStr "op"); ("transactions", YList [YMap ex_yaml_a; YStr "x"])] = Some ETypeError /\
  grp_fault [("operation", YStr "op"); ("transactions", YList [YMap ex_yaml_a; YMap ex_yaml_c])] = None.
Proof. repeat split; vm_compute; reflexivity. Qed.

Example from_yaml_of_entry_example :
  GroupConfigTransaction_from_yaml_gen
    (yaml_of_entry "a" "pay" None (Some true) (Some (mkGroupConfigFunctionCall "ls" "f")) (Some (-1)%Z) (Some [(1%Z, "b"); (2%Z, "c"); (3%Z, "b")])) =
  Ok (mkGroupConfigTransaction "a" "pay" None (Some true) (Some (mkGroupConfigFunctionCall "ls" "f")) (Some (-1)%Z) (Some [("b", 3%Z); ("c", 2%Z)])).
Proof. vm_compute. reflexivity. Qed.

(* ====================================================================== *)
(* 7. Reader followed by the construction of the objects                    *)
(* ====================================================================== *)
Theorem grp_fault_range m x :
  grp_fault m = Some x -> In x [T_grp_missing; T_txn_missing; T_txn_unknown; T_call_missing; T_rel_missing; ETypeError].
Proof.
  unfold grp_fault. cbn [In]. destruct (all_present _ m); [|intros H; inversion H; auto].
  destruct (yget "transactions" m); try (intros H; inversion H; auto 10; fail).
  destruct (first_fault elem_fault l) as [y|] eqn:Ef; cbn [or_else].
  - intros H; inversion H; subst y. apply first_fault_some in Ef. destruct Ef as (v & _ & Hv).
    destruct v; cbn [elem_fault] in Hv; try (inversion Hv; auto 10; fail).
    apply txn_fault_range in Hv. cbn [In] in Hv. intuition auto 10.
  - destruct (is_str (yget "operation" m)); [discriminate | intros H; inversion H; auto 10].
Qed.

(* one group of the configuration file, from the parsed YAML map to the Transaction objects *)
Definition read_group (cs : list (string * tcontract)) (m : list (string * yv)) : rs (list tobj * gobj) :=
  rbind (GroupConfigGroup_from_yaml_gen m) (init_group_gen cs).

Theorem read_group_returns_iff cs m :
  (exists r, read_group cs m = Ok r) <-> grp_fault m = None /\ group_cfg_ok cs (cg_transactions (grp_record m)) = true.
Proof.
  unfold read_group. rewrite grp_from_yaml_total. destruct (grp_fault m) as [x|]; cbn [rbind].
  - split; [intros [r H]; discriminate H | intros [H _]; discriminate H].
  - rewrite init_group_returns_iff. split; [intros H; split; [reflexivity | exact H] | intros [_ H]; exact H].
Qed.

(* the KeyError of `USER_CONFIG_TRANSACTION_TYPES[txn.txn_type]` is unreachable from a configuration file: from_yaml has
   refused the unknown type before *)
Theorem read_group_never_keyerror cs m : read_group cs m <> Raise EKeyError.
Proof.
  unfold read_group. intros H. destruct (GroupConfigGroup_from_yaml_gen m) as [grp|x] eqn:Eg; cbn [rbind] in H.
  - apply init_raises_unknown_type in H. destruct H as (pre & e & post & E & _ & Hm).
    rewrite (grp_returns_known_types m grp Eg e) in Hm; [discriminate Hm|]. rewrite E. apply in_or_app. right. left. reflexivity.
  - inversion H; subst x. apply grp_from_yaml_raises_iff in Eg. apply grp_fault_range in Eg. cbn [In] in Eg.
    destruct Eg as [X|[X|[X|[X|[X|[X|[]]]]]]]; tmpl_neq.
Qed.
Print Assumptions read_group_never_keyerror.

Example read_group_example :
  exists heap g, read_group ex_contracts [("operation", YStr "op"); ("transactions", YList [YMap ex_yaml_a; YMap ex_yaml_c])] = Raise E_foreign /\
                 read_group ex_contracts [("operation", YStr "op"); ("transactions", YList [YMap ex_yaml_c])] = Ok (heap, g) /\
                 view_group heap g = [mkTxn "c" "Appl" false None (Some 1) None []].
Proof. eexists. eexists. split; [vm_compute; reflexivity|]. split; vm_compute; reflexivity. Qed.
