(* The index/key classification functions REGENERATED from tealer's Python source (Gen/KeysGen.v:
   get_index_gen, get_index_and_field_gen, value_matches_gen, translated statement by statement from
   group_helpers._get_index, group_helpers.get_index_and_field, key_helpers.is_value_matches_key)
   against the hand-written ones of Model/Keys.v (get_index, get_index_and_field, value_matches).

   Result.  They are equal on every value whose Sub/Add nodes (at the places the functions look at) have at most
   two operands; they DIFFER on ill-formed values: Python reads args[0], args[1] and ignores further operands,
   Keys.v matches the operand list against [a1; a2] exactly (witnesses: the ..._witness / ..._eq_refuted theorems below).  Such values cannot
   arise: every value built by the stack emulation has len(args) = stack_pop_size (emulate_arity_ok), and a
   value with a semantics (Spec/Eval.sv_eval) has the right arity too.  Hence the correctness theorems of
   Lemmas/SingleLemmas.v transfer to the generated functions without any extra hypothesis
   (get_index_gen_correct, classify_gen_correct), and on the tool's values the Python code raises no
   exception (the ..._no_exception theorems). *)
From Coq Require Import String List NArith ZArith Bool Arith Lia.
From Tealer Require Import Tables Syntax Parse Cfg StackAst Keys KeysGen Eval StackLemmas SingleLemmas.
Import ListNotations.
Open Scope string_scope.
Open Scope list_scope.

(* ====================================================================== *)
(* 0. Small facts about the prelude of Gen/KeysGen.v                       *)
(* ====================================================================== *)
Lemma TI_abs : forall n, TransactionIndex IT_Absolute (Z.of_N n) = Some (XAbs n).
Proof.
  intros n. unfold TransactionIndex.
  destruct (Z.ltb_spec (Z.of_N n) 0) as [H | H]; [lia|]. rewrite N2Z.id. reflexivity.
Qed.

Lemma Z_of_N_eqb : forall a b, (Z.of_N a =? Z.of_N b)%Z = (a =? b)%N.
Proof.
  intros a b. destruct (N.eqb_spec a b) as [-> | Hne].
  - apply Z.eqb_refl.
  - apply Z.eqb_neq. lia.
Qed.

(* the operand-count conditions under which the two readings coincide *)
Definition arity_le2 (v : sval) : bool :=
  match v with
  | SKnown ISub _ args _ | SKnown IAdd _ args _ => Nat.leb (length args) 2
  | _ => true
  end.
Definition arity_eq2 (v : sval) : bool :=
  match v with
  | SKnown ISub _ args _ | SKnown IAdd _ args _ => Nat.eqb (length args) 2
  | _ => true
  end.

Lemma arity_eq2_le2 : forall v, arity_eq2 v = true -> arity_le2 v = true.
Proof.
  intros v H. destruct v as [| op pos args out]; [reflexivity|].
  destruct op; try reflexivity; cbn [arity_eq2 arity_le2] in *;
    apply Nat.eqb_eq in H; rewrite H; reflexivity.
Qed.

Local Opaque is_int_push_ins.
Local Arguments TransactionIndex : simpl never.

(* case analysis on the results of is_int_push_ins that occur in the goal *)
Ltac ipi :=
  repeat match goal with
  | |- context [is_int_push_ins ?c ?o] => destruct (is_int_push_ins c o); cbn
  end; rewrite ?TI_abs.
Ltac fin := ipi; try reflexivity.
Ltac fin_ne := ipi; try discriminate; unfold TransactionIndex; discriminate.
(* case analysis on a `isinstance(<field>, GroupIndex)` test *)
Ltac gi :=
  first [ match goal with |- context [isinstance_field ?f "GroupIndex"] => is_var f; destruct f as [? ?] end
        | match goal with |- context [String.eqb (fst ?f) "GroupIndex"] => is_var f; destruct f as [? ?] end ];
  unfold isinstance_field; cbn [fst];
  match goal with |- context [String.eqb ?s "GroupIndex"] => destruct (String.eqb s "GroupIndex") end; cbn.

(* ====================================================================== *)
(* 1. _get_index                                                           *)
(* ====================================================================== *)
(* UnknownStackValue().instruction: AttributeError (the caller never passes an unknown value) *)
Lemma get_index_genE_unknown : forall intcs, get_index_genE intcs SUnknown = None.
Proof. reflexivity. Qed.

(* when the Python code returns, it returns what Keys.get_index says; when it raises, Keys.get_index says
   Unknown *)
Lemma get_index_genE_spec : forall intcs v,
  arity_le2 v = true ->
  match get_index_genE intcs v with
  | Some x => x = get_index intcs v
  | None => get_index intcs v = XUnknown
  end.
Proof.
  intros intcs v Hw. destruct v as [| op pos args out]; [reflexivity|].
  unfold get_index_genE, get_index.
  destruct op; cbn; try (fin; fail).
  - (* Txn *) gi; fin.
  - (* Add *)
    destruct (is_int_push_ins intcs IAdd); cbn; rewrite ?TI_abs; try reflexivity.
    destruct args as [| a1 [| a2 [| a3 rest]]]; try reflexivity; [| cbn in Hw; discriminate].
    destruct a1 as [| o1 p1 r1 u1]; [reflexivity|]. destruct a2 as [| o2 p2 r2 u2]; [reflexivity|].
    cbn.
    destruct o1; cbn; try (destruct o2; cbn; try (fin; fail); gi; fin; fail).
    gi; [fin|]. destruct o2; cbn; try (fin; fail). gi; fin.
  - (* Sub *)
    destruct (is_int_push_ins intcs ISub); cbn; rewrite ?TI_abs; try reflexivity.
    destruct args as [| a1 [| a2 [| a3 rest]]]; try reflexivity; [| cbn in Hw; discriminate].
    destruct a1 as [| o1 p1 r1 u1]; [reflexivity|]. destruct a2 as [| o2 p2 r2 u2]; [reflexivity|].
    cbn. destruct o1; cbn; try (fin; fail). gi; fin.
Qed.

(* no exception on a known value whose Sub/Add node has its two operands *)
Lemma get_index_genE_some : forall intcs op pos args out,
  arity_eq2 (SKnown op pos args out) = true ->
  get_index_genE intcs (SKnown op pos args out) <> None.
Proof.
  intros intcs op pos args out Hw.
  unfold get_index_genE.
  destruct op; cbn; try (fin_ne; fail).
  - (* Txn *) gi; fin_ne.
  - (* Add *)
    destruct (is_int_push_ins intcs IAdd); cbn; rewrite ?TI_abs; try discriminate.
    destruct args as [| a1 [| a2 [| a3 rest]]]; try (cbn in Hw; discriminate).
    destruct a1 as [| o1 p1 r1 u1]; [discriminate|]. destruct a2 as [| o2 p2 r2 u2]; [discriminate|].
    cbn.
    destruct o1; cbn; try (destruct o2; cbn; try (fin_ne; fail); gi; fin_ne; fail).
    gi; [fin_ne|]. destruct o2; cbn; try (fin_ne; fail). gi; fin_ne.
  - (* Sub *)
    destruct (is_int_push_ins intcs ISub); cbn; rewrite ?TI_abs; try discriminate.
    destruct args as [| a1 [| a2 [| a3 rest]]]; try (cbn in Hw; discriminate).
    destruct a1 as [| o1 p1 r1 u1]; [discriminate|]. destruct a2 as [| o2 p2 r2 u2]; [discriminate|].
    cbn. destruct o1; cbn; try (fin_ne; fail). gi; fin_ne.
Qed.

Theorem get_index_genE_exact : forall intcs op pos args out,
  arity_eq2 (SKnown op pos args out) = true ->
  get_index_genE intcs (SKnown op pos args out) = Some (get_index intcs (SKnown op pos args out)).
Proof.
  intros intcs op pos args out Hw.
  pose proof (get_index_genE_spec intcs _ (arity_eq2_le2 _ Hw)) as Hs.
  pose proof (get_index_genE_some intcs op pos args out Hw) as Hn.
  destruct (get_index_genE intcs (SKnown op pos args out)) as [x|]; [| contradiction].
  rewrite Hs. reflexivity.
Qed.

(* the generated function = the hand-written one, whenever a Sub/Add root has at most two operands *)
Theorem get_index_gen_eq_partial : forall intcs v,
  arity_le2 v = true -> get_index_gen intcs v = get_index intcs v.
Proof.
  intros intcs v Hw. unfold get_index_gen.
  pose proof (get_index_genE_spec intcs v Hw) as Hs.
  destruct (get_index_genE intcs v) as [x|]; [exact Hs | symmetry; exact Hs].
Qed.
Print Assumptions get_index_gen_eq_partial.

(* ... and NOT in general: Python reads args[0], args[1] of a Sub and ignores a third operand (-> Relative -1),
   Keys.get_index requires the operand list to be exactly [a1; a2] (-> Unknown).  The generated function
   mirrors the Python; the value is ill-formed (Sub pops two values). *)
Definition sv1 (op : instr) (args : list sval) : sval := SKnown op 0 args 0.
Definition sub3_witness : sval :=
  sv1 ISub [sv1 (ITxn ("GroupIndex", None)) []; sv1 (IInt (IANum 1)) []; SUnknown].

Theorem get_index_gen_witness :
  get_index_gen None sub3_witness = XRel (-1) /\ get_index None sub3_witness = XUnknown.
Proof. split; vm_compute; reflexivity. Qed.

Theorem get_index_gen_eq_refuted : exists intcs v, get_index_gen intcs v <> get_index intcs v.
Proof. exists None, sub3_witness. vm_compute. discriminate. Qed.
Print Assumptions get_index_gen_eq_refuted.

Local Arguments get_index_genE : simpl never.

(* ====================================================================== *)
(* 2. get_index_and_field                                                  *)
(* ====================================================================== *)
(* the operand of gtxns is present and, if it is a Sub/Add, has at most / exactly two operands *)
Definition gif_arity_le (v : sval) : bool :=
  match v with
  | SKnown (IGtxns _) _ args _ => match args with a :: _ => arity_le2 a | [] => false end
  | _ => true
  end.
Definition gif_arity_eq (v : sval) : bool :=
  match v with
  | SKnown (IGtxns _) _ args _ => match args with a :: _ => arity_eq2 a | [] => false end
  | _ => true
  end.
(* the weaker condition that suffices for is_value_matches_key (a missing gtxns operand is harmless there) *)
Definition vm_arity (v : sval) : bool :=
  match v with
  | SKnown (IGtxns _) _ (a :: _) _ => arity_le2 a
  | _ => true
  end.

Lemma gif_arity_le_vm : forall v, gif_arity_le v = true -> vm_arity v = true.
Proof.
  intros v H. destruct v as [| op pos args out]; [reflexivity|].
  destruct op; try reflexivity. destruct args; [reflexivity | exact H].
Qed.

Lemma gif_arity_eq_le : forall v, gif_arity_eq v = true -> gif_arity_le v = true.
Proof.
  intros v H. destruct v as [| op pos args out]; [reflexivity|].
  destruct op; try reflexivity. destruct args; [discriminate|]. apply arity_eq2_le2. exact H.
Qed.

(* when the Python code returns, it returns what Keys.get_index_and_field says; when it raises, the value
   matches no key in the hand-written model *)
Lemma get_index_and_field_genE_spec : forall intcs v,
  vm_arity v = true ->
  match get_index_and_field_genE intcs v with
  | Some r => r = get_index_and_field intcs v
  | None => (v = SUnknown \/ exists f pos out, v = SKnown (IGtxns f) pos [] out)
            \/ exists f pos a rest out, v = SKnown (IGtxns f) pos (a :: rest) out /\ a <> SUnknown /\
                                        get_index_genE intcs a = None /\ get_index intcs a = XUnknown
  end.
Proof.
  intros intcs v Hw. destruct v as [| op pos args out]; [left; left; reflexivity|].
  unfold get_index_and_field_genE, get_index_and_field.
  destruct op; cbn; try reflexivity.
  - (* Gtxn *) rewrite TI_abs. reflexivity.
  - (* Gtxns *)
    destruct args as [| a rest]; cbn.
    + left. right. exists f, pos, out. reflexivity.
    + destruct a as [| o p r u]; [reflexivity|]. cbn.
      pose proof (get_index_genE_spec intcs (SKnown o p r u) Hw) as Hs.
      destruct (get_index_genE intcs (SKnown o p r u)) as [x|] eqn:E; cbn.
      * rewrite Hs. reflexivity.
      * right. exists f, pos, (SKnown o p r u), rest, out.
        split; [reflexivity|]. split; [discriminate|]. split; [exact E | exact Hs].
Qed.

Theorem get_index_and_field_genE_exact : forall intcs op pos args out,
  gif_arity_eq (SKnown op pos args out) = true ->
  get_index_and_field_genE intcs (SKnown op pos args out)
  = Some (get_index_and_field intcs (SKnown op pos args out)).
Proof.
  intros intcs op pos args out Hw.
  unfold get_index_and_field_genE, get_index_and_field.
  destruct op; cbn; try reflexivity.
  - rewrite TI_abs. reflexivity.
  - destruct args as [| a rest]; [discriminate|]. cbn.
    destruct a as [| o p r u]; [reflexivity|]. cbn.
    rewrite (get_index_genE_exact intcs o p r u Hw). reflexivity.
Qed.

(* equality needs the exact operand counts here: an IndexError (missing gtxns operand, or a Sub/Add index with
   fewer than two operands) is read as None by the total function, and as (Unknown, field) by Keys.v *)
Theorem get_index_and_field_gen_eq_partial : forall intcs v,
  gif_arity_eq v = true -> get_index_and_field_gen intcs v = get_index_and_field intcs v.
Proof.
  intros intcs v Hw. destruct v as [| op pos args out]; [reflexivity|].
  unfold get_index_and_field_gen. rewrite (get_index_and_field_genE_exact intcs op pos args out Hw).
  reflexivity.
Qed.
Print Assumptions get_index_and_field_gen_eq_partial.

(* a gtxns whose index operand is a Sub/Add with fewer than two operands: Python raises IndexError inside
   _get_index, which the total function reads as "not a field" (None) whereas Keys.v says (Unknown, field);
   likewise for a gtxns without operand.  Both are ill-formed values, and both answers make
   is_value_matches_key false (value_matches_gen_eq_partial below needs no hypothesis about them). *)
Definition gtxns0_witness : sval := sv1 (IGtxns ("Fee", None)) [].
Theorem get_index_and_field_gen_witness :
  get_index_and_field_gen None gtxns0_witness = None /\
  get_index_and_field None gtxns0_witness = Some (XUnknown, ("Fee", None)).
Proof. split; vm_compute; reflexivity. Qed.

Theorem get_index_and_field_gen_eq_refuted :
  exists intcs v, get_index_and_field_gen intcs v <> get_index_and_field intcs v.
Proof. exists None, gtxns0_witness. vm_compute. discriminate. Qed.

Local Arguments get_index_and_field_genE : simpl never.

(* ====================================================================== *)
(* 3. is_value_matches_key                                                 *)
(* ====================================================================== *)
(* the decision tree of is_value_matches_key on the result of get_index_and_field *)
Lemma value_matches_tree : forall intcs fam fld v r,
  get_index_and_field_genE intcs v = Some r ->
  r = get_index_and_field intcs v ->
  value_matches_genE intcs fam fld v = Some (value_matches intcs fam fld v).
Proof.
  intros intcs fam fld v r E Hr.
  unfold value_matches_genE, value_matches. rewrite E. rewrite <- Hr. cbn.
  destruct r as [[ix [fname oi]] |]; cbn; [| reflexivity].
  unfold isinstance_field. cbn [fst].
  destruct ix; cbn; try reflexivity;
    destruct (String.eqb fname fld); cbn; try reflexivity;
    destruct fam; cbn; rewrite ?Z_of_N_eqb; try reflexivity;
    match goal with |- context [if ?b then _ else _] => destruct b; reflexivity end.
Qed.

Lemma value_matches_unknown_index : forall intcs fam fld f pos a rest out,
  get_index intcs a = XUnknown ->
  value_matches intcs fam fld (SKnown (IGtxns f) pos (a :: rest) out) = false.
Proof.
  intros intcs fam fld f pos a rest out H. unfold value_matches. cbn [get_index_and_field].
  rewrite H. destruct f as [fname oi]. reflexivity.
Qed.

(* the generated function = the hand-written one, whenever the index operand of a gtxns, if it is a Sub/Add, has
   at most two operands *)
Theorem value_matches_gen_eq_partial : forall intcs fam fld v,
  vm_arity v = true -> value_matches_gen intcs fam fld v = value_matches intcs fam fld v.
Proof.
  intros intcs fam fld v Hw. unfold value_matches_gen.
  pose proof (get_index_and_field_genE_spec intcs v Hw) as Hs.
  destruct (get_index_and_field_genE intcs v) as [r|] eqn:E.
  - rewrite (value_matches_tree intcs fam fld v r E Hs). reflexivity.
  - unfold value_matches_genE. rewrite E. cbn [bind].
    destruct Hs as [[-> | (f & pos & out & ->)] | (f & pos & a & rest & out & -> & _ & _ & Hx)].
    + reflexivity.
    + destruct f as [fname oi]. reflexivity.
    + symmetry. apply value_matches_unknown_index. exact Hx.
Qed.
Print Assumptions value_matches_gen_eq_partial.

Theorem value_matches_genE_exact : forall intcs fam fld op pos args out,
  gif_arity_eq (SKnown op pos args out) = true ->
  value_matches_genE intcs fam fld (SKnown op pos args out)
  = Some (value_matches intcs fam fld (SKnown op pos args out)).
Proof.
  intros intcs fam fld op pos args out Hw.
  eapply value_matches_tree; [apply get_index_and_field_genE_exact; exact Hw | reflexivity].
Qed.

(* ... and not in general (same ill-formed Sub with three operands, below a gtxns) *)
Definition gtxns_sub3_witness : sval := sv1 (IGtxns ("Fee", None)) [sub3_witness].
Theorem value_matches_gen_witness :
  value_matches_gen None (KRel (-1)) "Fee" gtxns_sub3_witness = true /\
  value_matches None (KRel (-1)) "Fee" gtxns_sub3_witness = false.
Proof. split; vm_compute; reflexivity. Qed.

Theorem value_matches_gen_eq_refuted :
  exists intcs fam fld v, value_matches_gen intcs fam fld v <> value_matches intcs fam fld v.
Proof. exists None, (KRel (-1)), "Fee", gtxns_sub3_witness. vm_compute. discriminate. Qed.

(* Unconditionally, the hand-written model is the less informative of the two: whatever Keys.v classifies, the
   translated Python classifies in the same way *)
Local Transparent is_int_push_ins.
Lemma arity_gt2_unknown : forall intcs v, arity_le2 v = false -> get_index intcs v = XUnknown.
Proof.
  intros intcs v H. destruct v as [| op pos args out]; [discriminate|].
  destruct op; try discriminate; cbn [arity_le2] in H;
    destruct args as [| a1 [| a2 [| a3 rest]]]; try discriminate;
    unfold get_index; cbn [is_txn_groupindex];
    destruct (is_int_push_ins intcs _) eqn:E; try reflexivity.
  - cbn in E. discriminate.
  - cbn in E. discriminate.
Qed.
Local Opaque is_int_push_ins.

Theorem get_index_gen_refines : forall intcs v,
  get_index_gen intcs v = get_index intcs v \/ get_index intcs v = XUnknown.
Proof.
  intros intcs v. destruct (arity_le2 v) eqn:Hw.
  - left. apply get_index_gen_eq_partial. exact Hw.
  - right. apply arity_gt2_unknown. exact Hw.
Qed.

Theorem value_matches_implies_gen : forall intcs fam fld v,
  value_matches intcs fam fld v = true -> value_matches_gen intcs fam fld v = true.
Proof.
  intros intcs fam fld v H. destruct (vm_arity v) eqn:Hw.
  - rewrite (value_matches_gen_eq_partial intcs fam fld v Hw). exact H.
  - destruct v as [| op pos args out]; [discriminate|].
    destruct op; try discriminate. destruct args as [| a rest]; [discriminate|].
    cbn [vm_arity] in Hw.
    rewrite (value_matches_unknown_index intcs fam fld f pos a rest out (arity_gt2_unknown intcs a Hw)) in H.
    discriminate.
Qed.
Print Assumptions value_matches_implies_gen.

(* ====================================================================== *)
(* 4. The values of the tool: arities of the generated class table          *)
(* ====================================================================== *)
(* every SKnown node has as many operands as its instruction pops (Gen/Tables.v through stack_pop_size) *)
Definition arityQ (op : instr) (pos : nat) (args : list sval) (out : nat) : Prop :=
  stack_pop_size op = Some (length args).
Definition arity_ok (v : sval) : Prop := sv_ok arityQ v.

Lemma pop_sub : stack_pop_size ISub = Some 2. Proof. reflexivity. Qed.
Lemma pop_add : stack_pop_size IAdd = Some 2. Proof. reflexivity. Qed.
Lemma pop_gtxns : forall f, stack_pop_size (IGtxns f) = Some 1. Proof. reflexivity. Qed.

Lemma arity_ok_eq2 : forall v, arity_ok v -> arity_eq2 v = true.
Proof.
  intros v H. destruct v as [| op pos args out]; [reflexivity|].
  inversion H as [| op' pos' args' j HQ HF]; subst. unfold arityQ in HQ.
  destruct op; try reflexivity; cbn [arity_eq2].
  - rewrite pop_add in HQ. injection HQ as Hl. apply Nat.eqb_eq. lia.
  - rewrite pop_sub in HQ. injection HQ as Hl. apply Nat.eqb_eq. lia.
Qed.

Lemma arity_ok_gif : forall v, arity_ok v -> gif_arity_eq v = true.
Proof.
  intros v H. destruct v as [| op pos args out]; [reflexivity|].
  inversion H as [| op' pos' args' j HQ HF]; subst. unfold arityQ in HQ.
  destruct op; try reflexivity. cbn [gif_arity_eq].
  rewrite pop_gtxns in HQ. injection HQ as Hl.
  destruct args as [| a rest]; [discriminate|].
  apply arity_ok_eq2. inversion HF; assumption.
Qed.

(* on well-formed known values the Python code raises no exception and returns what Model/Keys.v says *)
Theorem get_index_genE_no_exception : forall intcs v,
  arity_ok v -> v <> SUnknown -> get_index_genE intcs v = Some (get_index intcs v).
Proof.
  intros intcs v Hw Hk. destruct v as [| op pos args out]; [contradiction|].
  apply get_index_genE_exact. apply arity_ok_eq2. exact Hw.
Qed.

Theorem get_index_and_field_genE_no_exception : forall intcs v,
  arity_ok v -> v <> SUnknown -> get_index_and_field_genE intcs v = Some (get_index_and_field intcs v).
Proof.
  intros intcs v Hw Hk. destruct v as [| op pos args out]; [contradiction|].
  apply get_index_and_field_genE_exact. apply arity_ok_gif. exact Hw.
Qed.

Theorem value_matches_genE_no_exception : forall intcs fam fld v,
  arity_ok v -> v <> SUnknown -> value_matches_genE intcs fam fld v = Some (value_matches intcs fam fld v).
Proof.
  intros intcs fam fld v Hw Hk. destruct v as [| op pos args out]; [contradiction|].
  apply value_matches_genE_exact. apply arity_ok_gif. exact Hw.
Qed.
Print Assumptions value_matches_genE_no_exception.

Theorem gen_eq_on_arity_ok : forall intcs v,
  arity_ok v ->
  get_index_gen intcs v = get_index intcs v /\
  get_index_and_field_gen intcs v = get_index_and_field intcs v /\
  forall fam fld, value_matches_gen intcs fam fld v = value_matches intcs fam fld v.
Proof.
  intros intcs v Hw. split; [| split].
  - apply get_index_gen_eq_partial. apply arity_eq2_le2. apply arity_ok_eq2. exact Hw.
  - apply get_index_and_field_gen_eq_partial. apply arity_ok_gif. exact Hw.
  - intros fam fld. apply value_matches_gen_eq_partial. apply gif_arity_le_vm. apply gif_arity_eq_le.
    apply arity_ok_gif. exact Hw.
Qed.

(* the stack emulation of a basic block (Model/StackAst.emulate = construct_stack_ast) only builds such values:
   the operands of every instruction, and every value pushed by it, are arity_ok at every depth *)
Theorem emulate_arity_ok : forall p poss ast,
  emulate p poss [] = Some ast ->
  forall k op args, In (k, op, args) ast ->
    Forall arity_ok args /\ forall out, arity_ok (SKnown op k args out).
Proof.
  intros p poss ast H k op args Hin.
  destruct (emulate_provenance p poss ast H k op args Hin) as (a1 & a2 & E & HF).
  assert (Hargs : Forall arity_ok args).
  { eapply Forall_impl; [| exact HF]. intros v Hv. unfold arity_ok.
    eapply sv_ok_mono; [| exact Hv].
    intros op' pos' args' j (Hin' & _ & _). unfold arityQ.
    apply (emulate_args_length p poss ast H pos' op' args').
    rewrite E. apply in_or_app. left. exact Hin'. }
  split; [exact Hargs|].
  intros out. constructor; [| exact Hargs].
  unfold arityQ. exact (emulate_args_length p poss ast H k op args Hin).
Qed.

Corollary emulate_gen_eq : forall p poss ast intcs,
  emulate p poss [] = Some ast ->
  forall k op args v, In (k, op, args) ast -> In v args ->
    get_index_gen intcs v = get_index intcs v /\
    get_index_and_field_gen intcs v = get_index_and_field intcs v /\
    forall fam fld, value_matches_gen intcs fam fld v = value_matches intcs fam fld v.
Proof.
  intros p poss ast intcs H k op args v Hin Hv.
  apply gen_eq_on_arity_ok.
  destruct (emulate_arity_ok p poss ast H k op args Hin) as [HF _].
  rewrite Forall_forall in HF. apply HF. exact Hv.
Qed.
Print Assumptions emulate_gen_eq.

(* ====================================================================== *)
(* 5. Transfer of the correctness theorems of Lemmas/SingleLemmas.v          *)
(* ====================================================================== *)
(* a value with a semantics has the operand counts of the semantics *)
Lemma eval_arity_eq2 : forall e v x, sv_eval e v = Some x -> arity_eq2 v = true.
Proof.
  intros e v x H. destruct v as [| op pos args out]; [reflexivity|].
  rewrite sv_eval_known in H.
  destruct op; try reflexivity; cbn [arity_eq2];
    destruct args as [| a1 [| a2 [| a3 rest]]]; try reflexivity; cbn [eval_op map] in H;
    try discriminate;
    repeat match goal with
    | H : match ?t with _ => _ end = Some _ |- _ => destruct t; try discriminate
    end.
Qed.

Lemma eval_vm_arity : forall e v x, sv_eval e v = Some x -> vm_arity v = true.
Proof.
  intros e v x H. destruct v as [| op pos args out]; [reflexivity|].
  destruct op; try reflexivity. destruct args as [| a rest]; [reflexivity|].
  cbn [vm_arity]. rewrite sv_eval_known in H. destruct f as [fname oi].
  cbn [eval_op map] in H. destruct oi; [discriminate|].
  destruct (sv_eval e a) as [xa|] eqn:Ea; [| discriminate].
  apply arity_eq2_le2. exact (eval_arity_eq2 e a xa Ea).
Qed.

(* SingleLemmas.get_index_correct, for the generated function: the index it computes denotes the value of the
   operand, for every value (no well-formedness hypothesis: an operand with a value is well-formed) *)
Theorem get_index_gen_correct : forall e v j,
  sv_eval e v = Some (VInt j) -> index_denotes e (get_index_gen (e_intcs e) v) j.
Proof.
  intros e v j Hv.
  rewrite (get_index_gen_eq_partial (e_intcs e) v (arity_eq2_le2 v (eval_arity_eq2 e v _ Hv))).
  apply get_index_correct. exact Hv.
Qed.
Print Assumptions get_index_gen_correct.

(* SingleLemmas.classify_correct, for the generated function: a value the translated is_value_matches_key
   attributes to a key is the value of the key's field in the transaction the key talks about *)
Theorem classify_gen_correct : forall e fam fld v x t,
  value_matches_gen (e_intcs e) fam fld v = true ->
  sv_eval e v = Some x ->
  key_txn e fam = Some t ->
  x = field_of e t fld.
Proof.
  intros e fam fld v x t Hm Hx Hk.
  rewrite (value_matches_gen_eq_partial (e_intcs e) fam fld v (eval_vm_arity e v x Hx)) in Hm.
  exact (classify_correct e fam fld v x t Hm Hx Hk).
Qed.
Print Assumptions classify_gen_correct.

(* the remaining top-level statements *)
Print Assumptions get_index_genE_exact.
Print Assumptions get_index_gen_witness.
Print Assumptions get_index_and_field_genE_exact.
Print Assumptions get_index_and_field_gen_witness.
Print Assumptions get_index_and_field_gen_eq_refuted.
Print Assumptions value_matches_genE_exact.
Print Assumptions value_matches_gen_witness.
Print Assumptions value_matches_gen_eq_refuted.
Print Assumptions get_index_gen_refines.
Print Assumptions get_index_genE_no_exception.
Print Assumptions get_index_and_field_genE_no_exception.
Print Assumptions gen_eq_on_arity_ok.
Print Assumptions emulate_arity_ok.
