(* The integer-constant resolution and the result storing of the int-fields analysis REGENERATED from tealer's Python
   source (Gen/ConstsGen.v, translated statement by statement by tools/translate_consts.py) against the hand-written
   model.

   1. utils/analyses.is_int_push_ins + Teal.get_int_constant  =  Model/Keys.is_int_push_ins
      (is_int_push_ins_gen_eq).  An Instruction object of a parsed contract is `contract_ins tl op`: its _bb is a block
      whose _teal is the contract's Teal object tl; the model's `intcs : option (list N)` is read as the attribute
      _int_constants through consts_of (None = the attribute was never set = []).  Equal on EVERY instruction except
      the junk constructors IIntcK k with k > 3, which the parser never builds (of_generic_intck_ok): the Python
      classes are Intc0 .. Intc3 only, Syntax.intck_class collapses k > 3 to Intc3 while Keys.is_int_push_ins reads
      the k-th constant (is_int_push_ins_gen_intck_refuted).  The TealerException branches (`_bb` or `_teal` unset)
      are is_int_push_ins_gen_no_block / _no_teal.
      Transported: C15_intc_regenerated, C15_pushint_regenerated, C15_named_constant_symbolic_regenerated.
   2. parse_teal._fill_intc_bytec_info + the constant-block lists of first_pass  =  the `intcs` of Model/Cfg.parse_teal
      (RewriteLemmas.pt_intcs): first_pass_constblocks_gen_eq, parse_teal_int_constants_gen_eq (any instruction heap
      whose .bb is the model's bb_of_pos), .._bb_assign (the heap create_bb_gen leaves), .._parse_teal, and
      .._pipeline: the heap the generated pruning loop leaves (prune_unreachable_gen_bb: the loop never touches _bb),
      i.e. the state at the call site in parse_teal.  Composition of 1 and 2: is_int_push_ins_gen_parse_teal.
      Python keeps `_int_constants = []` where the model says None; both mean "every intc is unknown".
      Transported: C15_constant_block_unique_regenerated (two intcblocks, or one outside the entry block: every intc
      is unknown; exactly one in the entry block: intc k is the k-th constant).
   3. GroupIndices._store_results  =  the index < size coupling of Domains.run_all (ExecLemmas.indices_of):
      store_results_gen_eq.  They DIFFER on a negative group index (Python's `& set(range(0, m))` drops it, the
      model's `filter (i <? max)` keeps it: store_results_gen_negative_refuted); no analysis result contains one
      (run_int_store_hyps).  Python's max(s, default=0) and the model's fold from 0 differ when every size is negative,
      and then both ranges are empty (zmax_default_py).
      Transported: C06_index_lt_size_regenerated (ExecLemmas.indices_sound + the coupling itself). *)
From Coq Require Import String List NArith ZArith Bool Arith Lia.
From Tealer Require Import Tables Syntax Parse Cfg StackAst Keys KeysGen CfgGen Analysis GraphGen SolverGen Domains ConstsGen.
From Tealer Require Import CfgLemmas SubLemmas RewriteLemmas CfgGenLemmas.
Import ListNotations.
Open Scope string_scope.
Open Scope list_scope.

(* ====================================================================== *)
(* 1. is_int_push_ins                                                      *)
(* ====================================================================== *)
(* the model's constant block as the attribute Teal._int_constants *)
Definition consts_of (o : option (list N)) : list N := match o with Some cs => cs | None => [] end.
(* an Instruction object of a parsed contract whose Teal object is tl *)
Definition contract_ins (tl : tealobj) (op : instr) : insobjc := mkInsC op (Some (mkBbObj (Some tl))).
(* the constructors the Python classes Intc0 .. Intc3 correspond to *)
Definition intck_ok (i : instr) : Prop := match i with IIntcK k => (k <= 3)%N | _ => True end.

Lemma get_int_constant_gen_spec t k :
  get_int_constant_genE t k =
  Some (match nth_error (to_int_constants t) (N.to_nat k) with Some v => (true, v) | None => (false, 0%N) end).
Proof.
  unfold get_int_constant_genE, len, subscriptN.
  destruct (N.leb_spec (N.of_nat (length (to_int_constants t))) k) as [Hle|Hlt].
  - assert (Hn : nth_error (to_int_constants t) (N.to_nat k) = None) by (apply nth_error_None; lia).
    rewrite Hn. reflexivity.
  - destruct (nth_error (to_int_constants t) (N.to_nat k)) as [v|] eqn:En; [reflexivity|].
    apply nth_error_None in En. lia.
Qed.

Lemma intck_cases k : (k <= 3)%N -> k = 0%N \/ k = 1%N \/ k = 2%N \/ k = 3%N.
Proof. lia. Qed.

(* THEOREM 1: on the Instruction objects of a contract the generated is_int_push_ins raises no exception and returns
   the model's intres *)
Theorem is_int_push_ins_gen_eq intcs bytecs op : intck_ok op ->
  is_int_push_ins_gen (contract_ins (mkTealObj (consts_of intcs) bytecs) op) = Some (is_int_push_ins intcs op).
Proof.
  intros Hok. unfold is_int_push_ins_gen, is_int_push_ins_genE, contract_ins.
  destruct op; try reflexivity; cbn [ic_op ic_bb orb attr_value attr_bb attr_teal attr_index bind ret notE orE ifE option_map
                                    truth_obj truth_opt negb bo_teal deref].
  - destruct a; reflexivity.
  - destruct a; reflexivity.
  - rewrite get_int_constant_gen_spec. cbn [bind to_int_constants is_int_push_ins].
    destruct intcs as [cs|]; cbn [consts_of].
    + destruct (nth_error cs (N.to_nat i)); reflexivity.
    + destruct (N.to_nat i); reflexivity.
  - cbn [intck_ok] in Hok.
    assert (Hi : intc_class_index (intck_class k) = Some k).
    { destruct (intck_cases k Hok) as [->|[->|[->| ->]]]; reflexivity. }
    rewrite Hi. cbn [bind]. rewrite get_int_constant_gen_spec. cbn [bind to_int_constants is_int_push_ins].
    destruct intcs as [cs|]; cbn [consts_of].
    + destruct (nth_error cs (N.to_nat k)); reflexivity.
    + destruct (N.to_nat k); reflexivity.
Qed.

(* the parser builds IIntcK k for k = 0 .. 3 only *)
Theorem of_generic_intck_ok c ps : intck_ok (of_generic c ps).
Proof.
  unfold of_generic.
  repeat match goal with
         | |- intck_ok (match ?x with _ => _ end) => destruct x
         | |- intck_ok (if ?b then _ else _) => destruct b
         end; cbn [intck_ok]; try exact I; lia.
Qed.

(* REFUTED outside intck_ok: the junk constructor IIntcK 4 is an Intc3 object for Syntax.intck_class (so the Python
   code reads constant 3) while Keys.is_int_push_ins reads constant 4 *)
Theorem is_int_push_ins_gen_intck_refuted : exists intcs bytecs k,
  is_int_push_ins_gen (contract_ins (mkTealObj (consts_of intcs) bytecs) (IIntcK k)) <> Some (is_int_push_ins intcs (IIntcK k)).
Proof. exists (Some [10; 11; 12; 13; 14]%N), [], 4%N. vm_compute. discriminate. Qed.

(* the two TealerException branches: an Intc* instruction whose _bb, or whose block's _teal, is not set *)
Theorem is_int_push_ins_gen_no_block op :
  (match op with IIntc _ | IIntcK _ => True | _ => False end) -> is_int_push_ins_gen (mkInsC op None) = None.
Proof. destruct op; intros []; reflexivity. Qed.
Theorem is_int_push_ins_gen_no_teal op :
  (match op with IIntc _ | IIntcK _ => True | _ => False end) -> is_int_push_ins_gen (mkInsC op (Some (mkBbObj None))) = None.
Proof. destruct op; intros []; reflexivity. Qed.
(* ... which int / pushint and every other class never reach *)
Theorem is_int_push_ins_gen_no_block_needed op bb :
  (match op with IIntc _ | IIntcK _ => False | _ => True end) ->
  is_int_push_ins_gen (mkInsC op bb) = Some (is_int_push_ins None op).
Proof. destruct op; intros []; try reflexivity; destruct a; reflexivity. Qed.

(* TRANSPORTED (Props/C15.v C15_intc, C15_pushint; RewriteLemmas.is_int_push_intc): rewriting `int c` into an entry-block
   intcblock + `intc k` / `intc_k`, or into `pushint c`, does not change what the generated code answers *)
Theorem C15_intc_regenerated : forall cs bytecs k c, nth_error cs (N.to_nat k) = Some c ->
  is_int_push_ins_gen (contract_ins (mkTealObj cs bytecs) (IIntc k)) = Some (IntNum c) /\
  ((k <= 3)%N -> is_int_push_ins_gen (contract_ins (mkTealObj cs bytecs) (IIntcK k)) = Some (IntNum c)) /\
  is_int_push_ins_gen (contract_ins (mkTealObj cs bytecs) (IIntc k)) =
  is_int_push_ins_gen (contract_ins (mkTealObj cs bytecs) (IInt (IANum c))).
Proof.
  intros cs bytecs k c H. destruct (is_int_push_intc cs k c H) as (A & B & C & _).
  change cs with (consts_of (Some cs)).
  split; [|split].
  - rewrite is_int_push_ins_gen_eq; [rewrite A; reflexivity | exact I].
  - intros Hk. rewrite is_int_push_ins_gen_eq; [rewrite B; reflexivity | exact Hk].
  - rewrite !is_int_push_ins_gen_eq; try exact I. rewrite C. reflexivity.
Qed.
Theorem C15_pushint_regenerated : forall tl a,
  is_int_push_ins_gen (contract_ins tl (IPushInt a)) = is_int_push_ins_gen (contract_ins tl (IInt a)).
Proof. intros tl a. destruct a; reflexivity. Qed.
(* a named constant stays symbolic, a number stays that number, whatever the constant block *)
Theorem C15_named_constant_symbolic_regenerated : forall tl s n,
  is_int_push_ins_gen (contract_ins tl (IInt (IAName s))) = Some (IntName s) /\
  is_int_push_ins_gen (contract_ins tl (IInt (IANum n))) = Some (IntNum n).
Proof. intros; split; reflexivity. Qed.

(* ====================================================================== *)
(* 2. the constant block: first_pass lists, _fill_intc_bytec_info          *)
(* ====================================================================== *)
(* the positions of the bytecblock instructions *)
Definition pt_bytecblocks (p : prog) : list nat :=
  flat_map (fun '(k, i) => if is_class "Bytecblock" (i_op i) then [k] else []) (combine (seq 0 (length p)) p).

Definition is_intcblock (i : instr) : bool := match i with IIntcblock _ => true | _ => false end.

(* the loop body of the generated function, by name *)
Definition cb_body (p : prog) : py (list nat * list nat) -> nat -> py (list nat * list nat) :=
  fun acc ins => bind acc (fun st =>
    let intcblock_ins := fst st in
    let bytecblock_ins := snd st in
    ifE (bind (ins_class p ins) (fun tmp1 => ret (match tmp1 with IIntcblock _ => true | _ => false end)))
        (let intcblock_ins := intcblock_ins ++ [ins] in ret (intcblock_ins, bytecblock_ins))
        (ifE (bind (ins_class p ins) (fun tmp2 => ret (is_class "Bytecblock" tmp2)))
             (let bytecblock_ins := bytecblock_ins ++ [ins] in ret (intcblock_ins, bytecblock_ins))
             (ret (intcblock_ins, bytecblock_ins)))).

Lemma first_pass_constblocks_gen_unfold p :
  first_pass_constblocks_gen p =
  bind (fold_left (cb_body p) (seq 0 (length p)) (ret ([], []))) (fun tmp3 => ret (fst tmp3, snd tmp3)).
Proof. reflexivity. Qed.

Lemma cb_step p A B k i : op_at p k = Some i ->
  cb_body p (Some (A, B)) k =
  Some (if is_intcblock i then (A ++ [k], B) else if is_class "Bytecblock" i then (A, B ++ [k]) else (A, B)).
Proof.
  intros H. unfold cb_body, ins_class. cbn [bind fst snd]. rewrite H. cbn [bind ret ifE].
  destruct i; try reflexivity; cbn [is_intcblock]; destruct (is_class "Bytecblock" _); reflexivity.
Qed.

Lemma cb_fold : forall q pre A B,
  fold_left (cb_body (pre ++ q)) (seq (length pre) (length q)) (Some (A, B)) =
  Some (A ++ map fst (flat_map (fun '(k, i) => match i_op i with IIntcblock cs => [(k, cs)] | _ => [] end)
                               (combine (seq (length pre) (length q)) q)),
        B ++ flat_map (fun '(k, i) => if is_class "Bytecblock" (i_op i) then [k] else [])
                      (combine (seq (length pre) (length q)) q)).
Proof.
  induction q as [|i q IH]; intros pre A B.
  - cbn. rewrite !app_nil_r. reflexivity.
  - cbn [length seq fold_left combine flat_map].
    assert (Hop : op_at (pre ++ i :: q) (length pre) = Some (i_op i)).
    { unfold op_at. rewrite nth_error_app_mid. reflexivity. }
    rewrite (cb_step _ A B _ _ Hop).
    replace (pre ++ i :: q) with ((pre ++ [i]) ++ q) by (rewrite <- app_assoc; reflexivity).
    replace (S (length pre)) with (length (pre ++ [i])) by (rewrite app_length; cbn; lia).
    destruct (i_op i) eqn:Ei; cbn [is_intcblock];
      try (destruct (is_class "Bytecblock" _) eqn:Ec; rewrite IH; cbn [map app]; rewrite <- ?app_assoc; reflexivity).
    assert (Ec : is_class "Bytecblock" (IIntcblock cs) = false) by reflexivity.
    rewrite Ec, IH. cbn [map app fst]. rewrite <- app_assoc. reflexivity.
Qed.

(* THEOREM 2a: the lists first_pass returns are the positions of the intcblock / bytecblock instructions, in order;
   no exception *)
Theorem first_pass_constblocks_gen_eq p :
  first_pass_constblocks_gen p = Some (map fst (pt_intcblocks p), pt_bytecblocks p).
Proof.
  rewrite first_pass_constblocks_gen_unfold. pose proof (cb_fold p [] [] []) as H. cbn [length app] in H.
  unfold ret. rewrite H. reflexivity.
Qed.

Lemma in_combine_seq {A} : forall (p : list A) s k i,
  In (k, i) (combine (seq s (length p)) p) -> s <= k /\ nth_error p (k - s) = Some i.
Proof.
  induction p as [|a p IH]; intros s k i H; [destruct H|].
  cbn [length seq combine] in H. destruct H as [H|H].
  - injection H as -> ->. rewrite Nat.sub_diag. split; [lia|reflexivity].
  - destruct (IH (S s) k i H) as [Hle Hn]. split; [lia|].
    replace (k - s) with (S (k - S s)) by lia. exact Hn.
Qed.

Lemma pt_intcblocks_const p k cs : In (k, cs) (pt_intcblocks p) -> op_at p k = Some (IIntcblock cs).
Proof.
  unfold pt_intcblocks. intros H. apply in_flat_map in H. destruct H as ((k', i) & Hin & Hk).
  destruct (i_op i) eqn:Ei; try (destruct Hk; fail). destruct Hk as [Hk|[]]. injection Hk as -> ->.
  destruct (in_combine_seq p 0 k i Hin) as [_ Hn]. rewrite Nat.sub_0_r in Hn.
  unfold op_at. rewrite Hn. cbn. rewrite Ei. reflexivity.
Qed.

Lemma pt_bytecblocks_lt p k : In k (pt_bytecblocks p) -> exists i, op_at p k = Some i /\ is_class "Bytecblock" i = true.
Proof.
  unfold pt_bytecblocks. intros H. apply in_flat_map in H. destruct H as ((k', i) & Hin & Hk).
  destruct (is_class "Bytecblock" (i_op i)) eqn:Ec; [|destruct Hk]. destruct Hk as [->|[]].
  destruct (in_combine_seq p 0 k i Hin) as [_ Hn]. rewrite Nat.sub_0_r in Hn.
  exists (i_op i). split; [|exact Ec]. unfold op_at. rewrite Hn. reflexivity.
Qed.

Lemma op_at_lt p k i : op_at p k = Some i -> k < length p.
Proof. unfold op_at. intros H. apply nth_error_Some. destruct (nth_error p k); [discriminate|discriminate]. Qed.

(* the second `if` of _fill_intc_bytec_info (the join point k1 of the generated function), by name *)
Definition bytec_part (p : prog) (iheap : ins_heap) (bytecblock_ins : list nat) (entry_block : nat) : tealobj -> py tealobj :=
  fun teal =>
    ifE (andE (ret (N.eqb (len bytecblock_ins) 1%N))
              (bind (bind (subscriptN bytecblock_ins 0%N) (fun tmp1 => ins_attr_bb iheap tmp1)) (fun tmp2 => ret (Nat.eqb tmp2 entry_block))))
        (bind (bind (bind (subscriptN bytecblock_ins 0%N) (fun tmp3 => ins_attr_byte_constants p tmp3))
                    (fun tmp4 => set_byte_constants_genE teal tmp4)) (fun teal => ret teal))
        (ret teal).

Lemma fill_intc_bytec_info_gen_unfold p iheap intcblock_ins bytecblock_ins entry_block teal :
  fill_intc_bytec_info_gen p iheap intcblock_ins bytecblock_ins entry_block teal =
  ifE (andE (ret (N.eqb (len intcblock_ins) 1%N))
            (bind (bind (subscriptN intcblock_ins 0%N) (fun tmp5 => ins_attr_bb iheap tmp5)) (fun tmp6 => ret (Nat.eqb tmp6 entry_block))))
      (bind (bind (bind (subscriptN intcblock_ins 0%N) (fun tmp7 => ins_attr_int_constants p tmp7))
                  (fun tmp8 => set_int_constants_genE teal tmp8)) (fun teal => bytec_part p iheap bytecblock_ins entry_block teal))
      (bytec_part p iheap bytecblock_ins entry_block teal).
Proof. reflexivity. Qed.

Lemma len_two {A} (a b : A) l : N.eqb (len (a :: b :: l)) 1%N = false.
Proof. apply N.eqb_neq. unfold len. cbn [length]. lia. Qed.

(* the bytecblock part raises no exception and leaves _int_constants alone *)
Lemma bytec_part_spec p ih B e teal :
  (forall k, In k B -> ins_attr_bb ih k <> None) ->
  (forall k, In k B -> exists i, op_at p k = Some i /\ is_class "Bytecblock" i = true) ->
  exists teal', bytec_part p ih B e teal = Some teal' /\ to_int_constants teal' = to_int_constants teal.
Proof.
  intros Hbb Hcl. unfold bytec_part. destruct B as [|b [|b' B']].
  - exists teal. split; reflexivity.
  - change (len [b]) with 1%N. cbn [N.eqb Pos.eqb andE ret subscriptN N.to_nat nth_error bind].
    destruct (ins_attr_bb ih b) as [c|] eqn:Ec; [|exfalso; exact (Hbb b (or_introl eq_refl) Ec)].
    cbn [bind ifE]. destruct (Nat.eqb c e); [|exists teal; split; reflexivity].
    destruct (Hcl b (or_introl eq_refl)) as (i & Hi & Hc).
    unfold ins_attr_byte_constants. rewrite Hi. cbn [bind]. rewrite Hc. cbn [bind set_byte_constants_genE ret].
    eexists. split; reflexivity.
  - rewrite len_two. exists teal. split; reflexivity.
Qed.

(* THEOREM 2b: for every instruction list with blocks bs and every instruction heap whose .bb attribute is the model's
   bb_of_pos, the statements of parse_teal around _fill_intc_bytec_info leave, in the fresh Teal object, exactly the
   constant block of the model's parse_teal (pt_intcs; None = the attribute keeps its initial []); no exception *)
Theorem parse_teal_int_constants_gen_eq p bs ih :
  build_blocks p = Some bs -> p <> [] ->
  (forall k, k < length p -> ins_attr_bb ih k = bb_of_pos bs k) ->
  option_map to_int_constants (parse_teal_int_constants_gen p ih (seq 0 (length bs))) = Some (consts_of (pt_intcs p bs)).
Proof.
  intros Hb Hne Hih.
  assert (Htot : forall k, k < length p -> bb_of_pos bs k <> None).
  { intros k Hk. pose proof Hb as Hb'. unfold build_blocks in Hb'. destruct (create_bb p) as [rbs|] eqn:Hc; [|discriminate].
    rewrite (bb_of_pos_block_of_pos p bs rbs k Hb Hc). apply block_of_pos_complete.
    rewrite (blocks_partition p rbs Hc Hne). apply in_seq. lia. }
  assert (Hbs : exists n, length bs = S n).
  { assert (H0 : 0 < length p) by (destruct p; [contradiction|cbn; lia]).
    specialize (Htot 0 H0). unfold bb_of_pos in Htot. destruct bs as [|b bs']; [exfalso; apply Htot; reflexivity|].
    exists (length bs'). reflexivity. }
  destruct Hbs as (n & Hn). unfold parse_teal_int_constants_gen.
  rewrite first_pass_constblocks_gen_eq. cbn [bind fst snd]. rewrite Hn. cbn [seq subscriptN N.to_nat nth_error bind].
  rewrite fill_intc_bytec_info_gen_unfold.
  assert (HB : forall teal, exists teal', bytec_part p ih (pt_bytecblocks p) 0 teal = Some teal' /\ to_int_constants teal' = to_int_constants teal).
  { intros teal. apply bytec_part_spec.
    - intros k Hk. destruct (pt_bytecblocks_lt p k Hk) as (i & Hi & _). rewrite (Hih k (op_at_lt p k i Hi)).
      exact (Htot k (op_at_lt p k i Hi)).
    - exact (pt_bytecblocks_lt p). }
  unfold pt_intcs. destruct (pt_intcblocks p) as [|[k cs] [|x rest]] eqn:Ei; cbn [map fst].
  - cbn [len length N.of_nat N.eqb andE ret ifE]. destruct (HB new_Teal) as (t' & -> & Ht). cbn [option_map]. rewrite Ht. reflexivity.
  - assert (Hop : op_at p k = Some (IIntcblock cs)) by (apply pt_intcblocks_const; rewrite Ei; left; reflexivity).
    pose proof (op_at_lt p k _ Hop) as Hk.
    change (len [k]) with 1%N. cbn [N.eqb Pos.eqb andE ret subscriptN N.to_nat nth_error bind].
    rewrite (Hih k Hk). destruct (bb_of_pos bs k) as [c|] eqn:Ec; [|exfalso; exact (Htot k Hk Ec)].
    cbn [bind]. destruct c as [|c]; cbn [Nat.eqb ifE].
    + unfold ins_attr_int_constants. rewrite Hop. cbn [bind set_int_constants_genE ret ifE].
      destruct (HB (set_to_int_constants new_Teal cs)) as (t' & -> & Ht). cbn [option_map]. rewrite Ht. reflexivity.
    + cbn [ret ifE]. destruct (HB new_Teal) as (t' & -> & Ht). cbn [option_map]. rewrite Ht. reflexivity.
  - rewrite len_two. cbn [andE ret ifE]. destruct (HB new_Teal) as (t' & -> & Ht). cbn [option_map]. rewrite Ht. reflexivity.
Qed.

(* ... in particular for the heap the generated create_bb leaves (CfgGenLemmas.create_bb_gen_eq: ins.bb set to the
   block of the position), whatever the edge lists *)
Lemma bb_assign_bs_bb p bs ih0 : build_blocks p = Some bs -> p <> [] -> length ih0 = length p ->
  forall k, k < length p -> ins_attr_bb (bb_assign_bs p ih0) k = bb_of_pos bs k.
Proof.
  intros Hb Hne Hlen k Hk. pose proof Hb as Hb'. unfold build_blocks in Hb'.
  destruct (create_bb p) as [rbs|] eqn:Hc; [|discriminate]. unfold bb_assign_bs. rewrite Hc.
  rewrite (bb_of_pos_block_of_pos p bs rbs k Hb Hc).
  unfold ins_attr_bb, bb_assign. rewrite bb_assign_from_nth. cbn [plus].
  destruct (nth_error ih0 k) as [o|] eqn:Eo; [|apply nth_error_None in Eo; lia]. cbn [option_map bind io_bb].
  destruct (block_of_pos rbs k 0) eqn:Eb; [reflexivity|]. exfalso.
  apply (block_of_pos_complete rbs k 0); [|exact Eb]. rewrite (blocks_partition p rbs Hc Hne). apply in_seq. lia.
Qed.

Theorem parse_teal_int_constants_gen_bb_assign p bs ih0 :
  build_blocks p = Some bs -> p <> [] -> length ih0 = length p ->
  option_map to_int_constants (parse_teal_int_constants_gen p (bb_assign_bs p ih0) (seq 0 (length bs))) = Some (consts_of (pt_intcs p bs)).
Proof.
  intros Hb Hne Hlen. apply (parse_teal_int_constants_gen_eq p bs _ Hb Hne). exact (bb_assign_bs_bb p bs ih0 Hb Hne Hlen).
Qed.

Lemma parse_teal_intcs p t : parse_teal p = Ok t -> exists bs, p <> [] /\ build_blocks p = Some bs /\ t_intcs t = pt_intcs p bs.
Proof.
  destruct p as [|i0 p0]; [discriminate|]. rewrite parse_teal_unfold.
  destruct (build_blocks (i0 :: p0)) as [bs|]; [|discriminate].
  destruct (pt_subs0 _ _ _) as [subs0|]; [|discriminate].
  intros H. injection H as <-. exists bs. split; [discriminate|]. split; reflexivity.
Qed.

(* THEOREM 2c: on every contract the model parses, the Teal object the generated code fills carries t_intcs *)
Theorem parse_teal_int_constants_gen_parse_teal p t ih :
  parse_teal p = Ok t ->
  exists bs, build_blocks p = Some bs /\
    ((forall k, k < length p -> ins_attr_bb ih k = bb_of_pos bs k) ->
     option_map to_int_constants (parse_teal_int_constants_gen p ih (seq 0 (length bs))) = Some (consts_of (t_intcs t))).
Proof.
  intros Hp. destruct (parse_teal_intcs p t Hp) as (bs & Hne & Hb & ->). exists bs. split; [exact Hb|].
  intros Hih. exact (parse_teal_int_constants_gen_eq p bs ih Hb Hne Hih).
Qed.

Lemma tealobj_eta tl : tl = mkTealObj (to_int_constants tl) (to_byte_constants tl).
Proof. destruct tl; reflexivity. Qed.

(* 1 and 2 composed: is_int_push_ins on the Instruction objects of a parsed contract, with the Teal object the
   generated parser code filled, answers Keys.is_int_push_ins (t_intcs t) *)
Theorem is_int_push_ins_gen_parse_teal p t bs ih tl op :
  parse_teal p = Ok t -> build_blocks p = Some bs ->
  (forall k, k < length p -> ins_attr_bb ih k = bb_of_pos bs k) ->
  parse_teal_int_constants_gen p ih (seq 0 (length bs)) = Some tl -> intck_ok op ->
  is_int_push_ins_gen (contract_ins tl op) = Some (is_int_push_ins (t_intcs t) op).
Proof.
  intros Hp Hb Hih Htl Hok. destruct (parse_teal_intcs p t Hp) as (bs' & Hne & Hb' & Hi).
  rewrite Hb in Hb'. injection Hb' as <-.
  pose proof (parse_teal_int_constants_gen_eq p bs ih Hb Hne Hih) as H. rewrite Htl in H. cbn [option_map] in H.
  injection H as H. rewrite (tealobj_eta tl), H, <- Hi. apply is_int_push_ins_gen_eq. exact Hok.
Qed.

(* TRANSPORTED (C15, constant-block resolution): the contract's intcblock is used iff it is the only one and sits in the
   entry block.  With two or more intcblock instructions, or none, or one outside block 0, every intc / intc_k is an
   unknown integer for the generated code; with exactly one in block 0, `intc k` is its k-th constant. *)
Theorem C15_constant_block_unique_regenerated p bs ih tl :
  build_blocks p = Some bs -> p <> [] ->
  (forall k, k < length p -> ins_attr_bb ih k = bb_of_pos bs k) ->
  parse_teal_int_constants_gen p ih (seq 0 (length bs)) = Some tl ->
  (length (pt_intcblocks p) <> 1 -> forall k, is_int_push_ins_gen (contract_ins tl (IIntc k)) = Some IntUnknown) /\
  (forall pos cs, pt_intcblocks p = [(pos, cs)] -> bb_of_pos bs pos <> Some 0 ->
     forall k, is_int_push_ins_gen (contract_ins tl (IIntc k)) = Some IntUnknown) /\
  (forall pos cs, pt_intcblocks p = [(pos, cs)] -> bb_of_pos bs pos = Some 0 ->
     forall k c, nth_error cs (N.to_nat k) = Some c -> is_int_push_ins_gen (contract_ins tl (IIntc k)) = Some (IntNum c)).
Proof.
  intros Hb Hne Hih Htl.
  pose proof (parse_teal_int_constants_gen_eq p bs ih Hb Hne Hih) as H. rewrite Htl in H. cbn [option_map] in H.
  injection H as H.
  assert (Hgen : forall k, is_int_push_ins_gen (contract_ins tl (IIntc k)) = Some (is_int_push_ins (pt_intcs p bs) (IIntc k))).
  { intros k. rewrite (tealobj_eta tl), H. apply is_int_push_ins_gen_eq. exact I. }
  split; [|split].
  - intros Hlen k. rewrite Hgen. unfold pt_intcs. destruct (pt_intcblocks p) as [|[pos cs] [|x r]]; try reflexivity.
    exfalso. apply Hlen. reflexivity.
  - intros pos cs Hi Hnz k. rewrite Hgen. unfold pt_intcs. rewrite Hi.
    destruct (bb_of_pos bs pos) as [[|c]|]; try reflexivity. exfalso. apply Hnz. reflexivity.
  - intros pos cs Hi Hz k c Hc. rewrite Hgen. unfold pt_intcs. rewrite Hi, Hz.
    cbn [is_int_push_ins]. rewrite Hc. reflexivity.
Qed.

(* ---------------------------------------------------------------- the heap at the call: after the pruning loop *)
(* parse_teal calls _fill_intc_bytec_info after the loop that unlinks the unreachable blocks
   (CfgGen.prune_unreachable_gen); that loop edits Instruction.next / prev only, never Instruction._bb *)
Lemma fold_bind_inv {S X : Type} (P : S -> Prop) (F : py S -> X -> py S) :
  (forall x, F None x = None) ->
  (forall s x s', P s -> F (Some s) x = Some s' -> P s') ->
  forall l s s', P s -> fold_left F l (Some s) = Some s' -> P s'.
Proof.
  intros Hn Hstep l. induction l as [|x l IH]; intros s s' Hs H; cbn [fold_left] in H.
  - injection H as <-. exact Hs.
  - destruct (F (Some s) x) as [s1|] eqn:E.
    + exact (IH s1 s' (Hstep s x s1 Hs E) H).
    + rewrite fold_bind_none in H by exact Hn. discriminate.
Qed.

Lemma upd_nth_bb (g : insobj -> py insobj) : (forall o o', g o = Some o' -> io_bb o' = io_bb o) ->
  forall h k h', upd_nth h k g = Some h' -> map io_bb h' = map io_bb h.
Proof.
  intros Hg. induction h as [|o t IH]; intros k h' H; destruct k as [|k]; cbn [upd_nth] in H; try discriminate.
  - destruct (g o) as [o'|] eqn:E; [|discriminate]. cbn [bind ret] in H. injection H as <-. cbn [map].
    rewrite (Hg _ _ E). reflexivity.
  - destruct (upd_nth t k g) as [t'|] eqn:E; [|discriminate]. cbn [bind ret] in H. injection H as <-. cbn [map].
    rewrite (IH _ _ E). reflexivity.
Qed.

Lemma ins_prev_remove_bb h k x h' : ins_prev_remove h k x = Some h' -> map io_bb h' = map io_bb h.
Proof.
  apply upd_nth_bb. intros o o' H. destruct (lst_remove (io_prev o) x); [|discriminate]. injection H as <-. reflexivity.
Qed.
Lemma ins_next_remove_bb h k x h' : ins_next_remove h k x = Some h' -> map io_bb h' = map io_bb h.
Proof.
  apply upd_nth_bb. intros o o' H. destruct (lst_remove (io_next o) x); [|discriminate]. injection H as <-. reflexivity.
Qed.

Lemma prune_body_bb reach st bi st' :
  prune_body reach (Some st) bi = Some st' -> map io_bb (snd st') = map io_bb (snd st).
Proof.
  destruct st as [[I bh] ih]. cbv beta delta [prune_body]. rewrite bind_some. cbv beta zeta. cbn [fst snd].
  destruct (negb (lst_mem bi reach)); [|intros H; injection H as <-; reflexivity].
  destruct (bb_next bh bi) as [nx|]; [|discriminate]. rewrite bind_some.
  match goal with |- bind ?X _ = _ -> _ => destruct X as [bh2|]; [|discriminate] end. rewrite bind_some. cbv beta zeta.
  destruct (bb_exit_instr bh2 bi) as [x|]; [|discriminate]. rewrite !bind_some.
  destruct (ins_attr_next ih x) as [nx2|]; [|discriminate]. rewrite bind_some.
  match goal with |- bind (fold_left ?F ?l ?a) _ = _ -> _ => destruct (fold_left F l a) as [ih2|] eqn:E2; [|discriminate] end.
  rewrite bind_some. cbv beta zeta.
  assert (Hih2 : map io_bb ih2 = map io_bb ih).
  { revert E2. unfold ret. apply (fold_bind_inv (fun h => map io_bb h = map io_bb ih)); [reflexivity| |reflexivity].
    intros s y s' Hs. rewrite !bind_some. cbv beta zeta.
    destruct (ins_prev_remove s y x) as [s1|] eqn:E1; [|discriminate]. rewrite !bind_some.
    destruct (ins_next_remove s1 x y) as [s2|] eqn:E3; [|discriminate]. rewrite !bind_some. unfold ret.
    intros H. injection H as <-. rewrite (ins_next_remove_bb _ _ _ _ E3), (ins_prev_remove_bb _ _ _ _ E1). exact Hs. }
  destruct (bb_instructions bh2 bi) as [il|]; [|discriminate]. rewrite bind_some.
  match goal with |- bind ?X _ = _ -> _ => destruct X as [I2|]; [|discriminate] end. rewrite bind_some. cbv beta zeta. unfold ret.
  intros H. injection H as <-. cbn [snd]. exact Hih2.
Qed.

Theorem prune_unreachable_gen_bb all_bbs reach I bh ih I' bh' ih' :
  prune_unreachable_gen all_bbs reach I bh ih = Some (I', bh', ih') ->
  forall k, ins_attr_bb ih' k = ins_attr_bb ih k.
Proof.
  rewrite prune_unreachable_gen_unfold. unfold ret at 1.
  destruct (fold_left (prune_body reach) all_bbs (Some (I, bh, ih))) as [r|] eqn:E; [|discriminate].
  cbn [bind ret]. intros H. injection H as <- <- <-.
  assert (Hm : map io_bb (snd r) = map io_bb ih).
  { revert E. apply (fold_bind_inv (fun st => map io_bb (snd st) = map io_bb ih)); [reflexivity| |reflexivity].
    intros s x s' Hs Hb. exact (eq_trans (prune_body_bb reach s x s' Hb) Hs). }
  intros k. unfold ins_attr_bb.
  assert (Hn : nth_error (map io_bb (snd r)) k = nth_error (map io_bb ih) k) by (rewrite Hm; reflexivity).
  rewrite !nth_error_map in Hn.
  destruct (nth_error (snd r) k), (nth_error ih k); cbn in Hn |- *; congruence.
Qed.

(* THEOREM 2d: the whole generated parser pipeline (first_pass; second_pass; create_bb; fourth_pass; the pruning loop;
   _fill_intc_bytec_info on the heap the pruning loop leaves) ends with t_intcs in the Teal object *)
Theorem parse_teal_int_constants_gen_pipeline p t :
  parse_teal p = Ok t ->
  exists ih bh subs0 bh' ih',
    passes_gen p = Some ih /\ build_gen p = Some bh /\
    prune_unreachable_gen (seq 0 (length bh)) (reachable_of bh subs0) (seq 0 (length p)) bh (bb_assign_bs p ih)
      = Some (t_retained_ins t, bh', ih') /\
    option_map to_int_constants (parse_teal_int_constants_gen p ih' (seq 0 (length bh))) = Some (consts_of (t_intcs t)).
Proof.
  intros Hp. destruct (build_gen_prune_parse_teal p t Hp) as (ih & bh & subs0 & bh' & ih' & H1 & H2 & H3 & _).
  exists ih, bh, subs0, bh', ih'. split; [exact H1|]. split; [exact H2|]. split; [exact H3|].
  destruct (parse_teal_intcs p t Hp) as (bs & Hne & Hb & ->). rewrite build_gen_eq, Hb in H2. injection H2 as <-.
  apply (parse_teal_int_constants_gen_eq p bs ih' Hb Hne). intros k Hk.
  rewrite (prune_unreachable_gen_bb _ _ _ _ _ _ _ _ H3 k).
  apply (bb_assign_bs_bb p bs ih Hb Hne); [|exact Hk].
  pose proof (passes_gen_spec p) as Hs. rewrite H1 in Hs. destruct Hs as (Hlen & _). exact Hlen.
Qed.

(* ====================================================================== *)
(* 3. GroupIndices._store_results                                          *)
(* ====================================================================== *)
From Tealer Require Import LeafPrelude Leaves LeafLemmas AssertedLemmas Instances SolverLemmas Eval Runs Exec SingleLemmas ExecLemmas
  SolverGenLemmas ExactInstances.

Notation LZ := (list Z).
Notation SZK := "GroupSize".
Notation IXK := "GroupIndex".

(* the three loop bodies of the generated function, by name *)
Definition sr_body1 : py (gdict LZ) -> nat -> py (gdict LZ) :=
  fun acc bi => bind acc (fun st =>
    let self_block_contexts := st in
    bind (bind (bind (dict_get LZ (ddict_get LZ self_block_contexts IXK) bi) (fun tmp3 =>
                  bind (bind (bind (dict_get LZ (ddict_get LZ self_block_contexts SZK) bi) (fun tmp1 => ret (py_max_default tmp1 0%Z)))
                             (fun tmp2 => ret (zrange 0%Z tmp2)))
                       (fun tmp4 => ret (zinter tmp3 tmp4))))
               (fun tmp5 => ret (ictx_store self_block_contexts IXK bi tmp5)))
         (fun self_block_contexts => ret self_block_contexts)).
Definition sr_body_store (d : gdict LZ) (key : string) : py tctx_attr -> nat -> py tctx_attr :=
  fun acc block => bind acc (fun st =>
    bind (bind (dict_get LZ (ddict_get LZ d key) block) (fun tmp7 => tc_store st block tmp7)) (fun t => ret t)).

Lemma store_results_gen_unfold f d ts ti :
  store_results_gen f d ts ti =
  bind (fold_left sr_body1 (function_blocks f) (ret d)) (fun d1 =>
  bind (fold_left (sr_body_store d1 SZK) (function_blocks f) (ret ts)) (fun ts1 =>
  bind (fold_left (sr_body_store d1 IXK) (function_blocks f) (ret ti)) (fun ti1 =>
  ret (d1, ts1, ti1)))).
Proof. reflexivity. Qed.

(* ---------------------------------------------------------------- the value written by the first loop *)
Definition couple_val (sizes : state LZ) (b : nat) (gi : LZ) : LZ :=
  zinter gi (zrange 0 (py_max_default (match lookup LZ sizes b with Some l => l | None => [] end) 0)).

Lemma zrange_In x m : In x (zrange 0 m) <-> (0 <= x < m)%Z.
Proof.
  unfold zrange. rewrite in_map_iff. split.
  - intros (k & <- & Hk). apply in_seq in Hk. lia.
  - intros H. exists (Z.to_nat x). split; [lia|]. apply in_seq. lia.
Qed.

Lemma zmem_zrange x m : zmem x (zrange 0 m) = ((0 <=? x)%Z && (x <? m)%Z)%bool.
Proof.
  unfold zmem. destruct (existsb (Z.eqb x) (zrange 0 m)) eqn:E.
  - apply existsb_exists in E. destruct E as (y & Hy & Hxy). apply Z.eqb_eq in Hxy. subst y.
    apply zrange_In in Hy. symmetry. apply andb_true_iff. split; [apply Z.leb_le | apply Z.ltb_lt]; lia.
  - symmetry. apply andb_false_iff.
    destruct (Z.leb_spec 0 x) as [H0|H0]; [|left; reflexivity]. right. apply Z.ltb_ge.
    destruct (Z.lt_ge_cases x m) as [Hlt|Hge]; [|exact Hge]. exfalso.
    assert (Hin : In x (zrange 0 m)) by (apply zrange_In; lia).
    assert (Ht : existsb (Z.eqb x) (zrange 0 m) = true) by (apply existsb_exists; exists x; split; [exact Hin|apply Z.eqb_refl]).
    congruence.
Qed.

Lemma fold_max_out : forall l a b, fold_left Z.max l (Z.max a b) = Z.max a (fold_left Z.max l b).
Proof.
  induction l as [|y l IH]; intros a b; cbn [fold_left]; [reflexivity|].
  rewrite <- Z.max_assoc. apply IH.
Qed.

(* Python's max(s, default=0) against the model's fold from 0: they differ only when every element is negative, and
   then both ranges are empty *)
Lemma zmax_default_py gs : zmax_default gs = Z.max 0 (py_max_default gs 0).
Proof.
  unfold zmax_default, py_max_default. destruct gs as [|x t]; [reflexivity|]. cbn [fold_left]. apply fold_max_out.
Qed.

Lemma couple_val_filter sizes b gi : (forall i, In i gi -> (0 <= i)%Z) ->
  couple_val sizes b gi =
  filter (fun i => Z.ltb i (zmax_default (match lookup LZ sizes b with Some l => l | None => [] end))) gi.
Proof.
  intros Hpos. unfold couple_val, zinter. apply filter_ext_in. intros i Hi.
  rewrite zmem_zrange, zmax_default_py. specialize (Hpos i Hi).
  assert (H0 : (0 <=? i)%Z = true) by (apply Z.leb_le; exact Hpos). rewrite H0. cbn [andb].
  destruct (Z.ltb_spec i (py_max_default (match lookup LZ sizes b with Some l => l | None => [] end) 0));
    symmetry; [apply Z.ltb_lt | apply Z.ltb_ge]; lia.
Qed.

(* ---------------------------------------------------------------- association lists *)
Lemma lookup_not_in {T} (st : state T) b : ~ In b (map fst st) -> lookup T st b = None.
Proof.
  intros H. destruct (lookup T st b) as [v|] eqn:E; [|reflexivity]. exfalso. apply H.
  exact (lookup_some_in_keys T st b v E).
Qed.

Lemma assoc_ext {T} : forall (l1 l2 : state T), map fst l1 = map fst l2 -> NoDup (map fst l1) ->
  (forall b, lookup T l1 b = lookup T l2 b) -> l1 = l2.
Proof.
  induction l1 as [|[k v] t IH]; intros [|[k' v'] t'] Hk Hnd Hl; try discriminate; [reflexivity|].
  cbn [map fst] in Hk, Hnd. injection Hk as <- Hk. inversion Hnd as [|? ? Hnk Hnd']; subst.
  pose proof (Hl k) as Hh. cbn [lookup] in Hh. rewrite Nat.eqb_refl in Hh. injection Hh as <-.
  f_equal. apply IH; [exact Hk|exact Hnd'|]. intros b. destruct (Nat.eq_dec k b) as [<-|Hne].
  - rewrite (lookup_not_in t k Hnk). rewrite Hk in Hnk. rewrite (lookup_not_in t' k Hnk). reflexivity.
  - specialize (Hl b). cbn [lookup] in Hl. apply Nat.eqb_neq in Hne. rewrite Hne in Hl. exact Hl.
Qed.

(* the first loop on the inner dictionary of the group indices *)
Definition cstep (sizes : state LZ) (st : state LZ) (b : nat) : state LZ :=
  match lookup LZ st b with Some gi => update LZ st b (couple_val sizes b gi) | None => st end.

Lemma cstep_keys sizes st b : map fst (cstep sizes st b) = map fst st.
Proof. unfold cstep. destruct (lookup LZ st b); [apply update_keys|reflexivity]. Qed.

Lemma cfold_keys sizes : forall bl st, map fst (fold_left (cstep sizes) bl st) = map fst st.
Proof. induction bl as [|a bl IH]; intros st; cbn [fold_left]; [reflexivity|]. rewrite IH. apply cstep_keys. Qed.

Lemma cstep_lookup_same sizes st b : lookup LZ (cstep sizes st b) b = option_map (couple_val sizes b) (lookup LZ st b).
Proof.
  unfold cstep. destruct (lookup LZ st b) as [gi|] eqn:E; cbn [option_map]; [|exact E].
  exact (lookup_update_same LZ st b _ gi E).
Qed.
Lemma cstep_lookup_other sizes st a b : a <> b -> lookup LZ (cstep sizes st a) b = lookup LZ st b.
Proof. intros H. unfold cstep. destruct (lookup LZ st a); [apply lookup_update_other; exact H|reflexivity]. Qed.

Lemma cfold_lookup sizes : forall bl, NoDup bl -> forall st b,
  lookup LZ (fold_left (cstep sizes) bl st) b =
  if nat_mem b bl then option_map (couple_val sizes b) (lookup LZ st b) else lookup LZ st b.
Proof.
  induction bl as [|a bl IH]; intros Hnd st b; [reflexivity|]. inversion Hnd as [|? ? Ha Hnd']; subst.
  cbn [fold_left]. rewrite (IH Hnd'). unfold nat_mem. cbn [existsb]. destruct (Nat.eqb_spec b a) as [->|Hne]; cbn [orb].
  - assert (Hm : existsb (Nat.eqb a) bl = false).
    { destruct (existsb (Nat.eqb a) bl) eqn:E; [|reflexivity]. apply existsb_exists in E. destruct E as (y & Hy & Hay).
      apply Nat.eqb_eq in Hay. subst y. contradiction. }
    unfold nat_mem. rewrite Hm. apply cstep_lookup_same.
  - rewrite (cstep_lookup_other sizes st a b) by (intros ->; apply Hne; reflexivity). reflexivity.
Qed.

Lemma indices_of_keys sizes idx0 : map fst (indices_of sizes idx0) = map fst idx0.
Proof. unfold indices_of. induction idx0 as [|[b gi] t IH]; cbn [map fst]; [reflexivity|]. rewrite IH. reflexivity. Qed.

Lemma nat_mem_In b l : nat_mem b l = true <-> In b l.
Proof.
  unfold nat_mem. rewrite existsb_exists. split.
  - intros (y & Hy & E). apply Nat.eqb_eq in E. subst. exact Hy.
  - intros H. exists b. split; [exact H|apply Nat.eqb_refl].
Qed.

(* the dictionary the first loop leaves = the model's coupling *)
Lemma cfold_indices_of sizes idx0 bl :
  NoDup bl -> NoDup (map fst idx0) -> (forall b, In b (map fst idx0) -> In b bl) ->
  (forall b gi i, lookup LZ idx0 b = Some gi -> In i gi -> (0 <= i)%Z) ->
  fold_left (cstep sizes) bl idx0 = indices_of sizes idx0.
Proof.
  intros Hnd Hk Hsub Hpos. apply assoc_ext.
  - rewrite cfold_keys, indices_of_keys. reflexivity.
  - rewrite cfold_keys. exact Hk.
  - intros b. rewrite (cfold_lookup sizes bl Hnd). unfold indices_of.
    rewrite (lookup_map_vals (fun b gi => filter (fun i => Z.ltb i (zmax_default
               match lookup _ sizes b with Some l => l | None => [] end)) gi) idx0 b).
    destruct (nat_mem b bl) eqn:Em.
    + destruct (lookup LZ idx0 b) as [gi|] eqn:E; cbn [option_map]; [|reflexivity].
      rewrite (couple_val_filter sizes b gi (fun i Hi => Hpos b gi i E Hi)). reflexivity.
    + assert (Hn : lookup LZ idx0 b = None).
      { apply lookup_not_in. intros Hin. apply Hsub, nat_mem_In in Hin. congruence. }
      rewrite Hn. reflexivity.
Qed.

Lemma kget_set_other (d : gdict LZ) k k' v : k <> k' -> kdict_get LZ (kdict_set LZ d k v) k' = kdict_get LZ d k'.
Proof.
  intros H. induction d as [|[k0 w] t IH]; cbn [kdict_set kdict_get].
  - destruct (String.eqb_spec k k'); [contradiction|reflexivity].
  - destruct (String.eqb_spec k0 k) as [->|Hne]; cbn [kdict_get].
    + destruct (String.eqb_spec k k'); [contradiction|reflexivity].
    + destruct (String.eqb k0 k'); [reflexivity|exact IH].
Qed.

Lemma ddict_ictx_same d k b v : ddict_get LZ (ictx_store d k b v) k = dict_set LZ (ddict_get LZ d k) b v.
Proof. unfold ictx_store, ddict_get at 1. rewrite kdict_get_set_same. reflexivity. Qed.
Lemma ddict_ictx_other d k k' b v : k <> k' -> ddict_get LZ (ictx_store d k b v) k' = ddict_get LZ d k'.
Proof. intros H. unfold ictx_store, ddict_get at 1. rewrite (kget_set_other _ _ _ _ H). reflexivity. Qed.

Lemma sr_fold1 : forall bl d,
  (forall b, In b bl -> lookup LZ (ddict_get LZ d IXK) b <> None /\ lookup LZ (ddict_get LZ d SZK) b <> None) ->
  exists d', fold_left sr_body1 bl (Some d) = Some d' /\
    ddict_get LZ d' SZK = ddict_get LZ d SZK /\
    ddict_get LZ d' IXK = fold_left (cstep (ddict_get LZ d SZK)) bl (ddict_get LZ d IXK).
Proof.
  induction bl as [|a bl IH]; intros d H; [exists d; repeat split; reflexivity|].
  destruct (H a (or_introl eq_refl)) as [Hi Hs].
  destruct (lookup LZ (ddict_get LZ d IXK) a) as [gi|] eqn:Ei; [|contradiction].
  destruct (lookup LZ (ddict_get LZ d SZK) a) as [gs|] eqn:Es; [|contradiction].
  set (v := zinter gi (zrange 0 (py_max_default gs 0))).
  assert (Hstep : sr_body1 (Some d) a = Some (ictx_store d IXK a v)).
  { unfold sr_body1, dict_get. cbn [bind]. rewrite Ei, Es. reflexivity. }
  assert (Hsz : ddict_get LZ (ictx_store d IXK a v) SZK = ddict_get LZ d SZK) by (apply ddict_ictx_other; discriminate).
  assert (Hix : ddict_get LZ (ictx_store d IXK a v) IXK = cstep (ddict_get LZ d SZK) (ddict_get LZ d IXK) a).
  { rewrite ddict_ictx_same, (dict_set_update LZ _ a v gi Ei). unfold cstep, couple_val. rewrite Ei, Es. reflexivity. }
  destruct (IH (ictx_store d IXK a v)) as (d' & Hf & H1 & H2).
  { intros b Hb. destruct (H b (or_intror Hb)) as [Hbi Hbs]. rewrite Hsz, Hix. split; [|exact Hbs].
    destruct (Nat.eq_dec a b) as [<-|Hne].
    - rewrite cstep_lookup_same, Ei. discriminate.
    - rewrite (cstep_lookup_other _ _ a b Hne). exact Hbi. }
  exists d'. cbn [fold_left]. rewrite Hstep. split; [exact Hf|]. rewrite H1, H2, Hsz, Hix. split; reflexivity.
Qed.

(* the two storing loops *)
Lemma sr_fold_store d key : forall bl (t : tctx_attr),
  (forall b, In b bl -> lookup LZ (ddict_get LZ d key) b <> None /\ lookup LZ t b <> None) ->
  exists t', fold_left (sr_body_store d key) bl (Some t) = Some t' /\ map fst t' = map fst t /\
    forall b, lookup LZ t' b = if nat_mem b bl then lookup LZ (ddict_get LZ d key) b else lookup LZ t b.
Proof.
  induction bl as [|a bl IH]; intros t H; [exists t; repeat split; reflexivity|].
  destruct (H a (or_introl eq_refl)) as [Hs Ht].
  destruct (lookup LZ (ddict_get LZ d key) a) as [v|] eqn:Es; [|contradiction].
  destruct (lookup LZ t a) as [old|] eqn:Et; [|contradiction].
  assert (Hstep : sr_body_store d key (Some t) a = Some (update LZ t a v)).
  { unfold sr_body_store, dict_get, tc_store. cbn [bind]. rewrite Es. cbn [bind]. rewrite Et. reflexivity. }
  destruct (IH (update LZ t a v)) as (t' & Hf & Hk & Hl).
  { intros b Hb. destruct (H b (or_intror Hb)) as [Hbs Hbt]. split; [exact Hbs|].
    destruct (Nat.eq_dec a b) as [<-|Hne].
    - rewrite (lookup_update_same LZ t a v old Et). discriminate.
    - rewrite (lookup_update_other LZ t a b v Hne). exact Hbt. }
  exists t'. cbn [fold_left]. rewrite Hstep. split; [exact Hf|]. split; [rewrite Hk; apply update_keys|].
  intros b. rewrite Hl. unfold nat_mem. cbn [existsb]. destruct (Nat.eqb_spec b a) as [->|Hne]; cbn [orb].
  - destruct (existsb (Nat.eqb a) bl); [reflexivity|]. rewrite (lookup_update_same LZ t a v old Et). symmetry. exact Es.
  - destruct (existsb (Nat.eqb b) bl); [reflexivity|]. apply lookup_update_other. intros ->. apply Hne. reflexivity.
Qed.

(* THEOREM 3: _store_results raises no exception, leaves the group sizes alone, replaces the dictionary of the group
   indices by the model's coupling (Domains.run_all / ExecLemmas.indices_of) and copies both into the block contexts.
   sizes / idx0 are the two inner dictionaries before the call; hypotheses: they and the context tables have an entry
   for every block of the function, the index dictionary has no other keys, and no listed index is negative *)
Theorem store_results_gen_eq f d ts ti :
  let bl := function_blocks f in
  let sizes := ddict_get LZ d SZK in
  let idx0 := ddict_get LZ d IXK in
  NoDup bl -> NoDup (map fst idx0) -> (forall b, In b (map fst idx0) -> In b bl) ->
  (forall b, In b bl -> lookup LZ idx0 b <> None /\ lookup LZ sizes b <> None /\ lookup LZ ts b <> None /\ lookup LZ ti b <> None) ->
  (forall b gi i, lookup LZ idx0 b = Some gi -> In i gi -> (0 <= i)%Z) ->
  exists d' ts' ti', store_results_gen f d ts ti = Some (d', ts', ti') /\
    ddict_get LZ d' SZK = sizes /\ ddict_get LZ d' IXK = indices_of sizes idx0 /\
    map fst ts' = map fst ts /\ map fst ti' = map fst ti /\
    (forall b, lookup LZ ts' b = if nat_mem b bl then lookup LZ sizes b else lookup LZ ts b) /\
    (forall b, lookup LZ ti' b = if nat_mem b bl then lookup LZ (indices_of sizes idx0) b else lookup LZ ti b).
Proof.
  intros bl sizes idx0 Hnd Hk Hsub Hall Hpos.
  destruct (sr_fold1 bl d) as (d1 & Hf1 & Hs1 & Hi1).
  { intros b Hb. destruct (Hall b Hb) as (A & B & _). split; assumption. }
  fold sizes idx0 in Hs1, Hi1. rewrite (cfold_indices_of sizes idx0 bl Hnd Hk Hsub Hpos) in Hi1.
  destruct (sr_fold_store d1 SZK bl ts) as (ts' & Hf2 & Hk2 & Hl2).
  { intros b Hb. destruct (Hall b Hb) as (_ & B & C & _). rewrite Hs1. split; assumption. }
  destruct (sr_fold_store d1 IXK bl ti) as (ti' & Hf3 & Hk3 & Hl3).
  { intros b Hb. destruct (Hall b Hb) as (A & _ & _ & D). rewrite Hi1. split; [|exact D].
    unfold indices_of. rewrite (lookup_map_vals (fun b gi => filter (fun i => Z.ltb i (zmax_default
               match lookup _ sizes b with Some l => l | None => [] end)) gi) idx0 b).
    destruct (lookup LZ idx0 b); [discriminate|contradiction]. }
  exists d1, ts', ti'. rewrite Hs1 in Hl2. rewrite Hi1 in Hl3. repeat split; try assumption.
  subst bl. rewrite store_results_gen_unfold. unfold ret. rewrite Hf1. cbn [bind]. rewrite Hf2. cbn [bind]. rewrite Hf3. reflexivity.
Qed.

(* REFUTED without the last hypothesis: Python's `& set(range(0, m))` drops a negative index, the model's
   `filter (i <? max)` keeps it.  No analysis result contains one (the universe of the indices is 0 .. 15:
   run_int_store_hyps below), so the difference is not observable *)
Theorem store_results_gen_negative_refuted : exists f d ts ti d' ts' ti',
  store_results_gen f d ts ti = Some (d', ts', ti') /\
  ddict_get LZ d' IXK <> indices_of (ddict_get LZ d SZK) (ddict_get LZ d IXK).
Proof.
  exists (mkFunc [] [mkBlock 0 [] [] []] 0 [0] [] [] None),
         [(SZK, [(0, [1%Z])]); (IXK, [(0, [(-1)%Z; 0%Z])])], [(0, [])], [(0, [])].
  eexists. eexists. eexists. split; [vm_compute; reflexivity|]. vm_compute. discriminate.
Qed.

(* the hypotheses of Theorem 3 hold for the results of the model's two runs *)
Lemma run_int_keys f fuel sz lo : run_int f fuel sz = Done lo -> map fst lo = function_blocks f.
Proof.
  intros H. destruct (run_int_inv f fuel sz lo H) as (bc & _ & Hs).
  apply solve_passes in Hs. destruct Hs as (ro & _ & Hb).
  rewrite (backward_keys _ _ _ _ _ _ _ _ _ _ _ Hb). unfold bwd_st0. rewrite map_map. reflexivity.
Qed.

Lemma run_int_store_hyps f fuel sizes idx0 d (ts ti : tctx_attr) :
  run_int f fuel true = Done sizes -> run_int f fuel false = Done idx0 ->
  ddict_get LZ d SZK = sizes -> ddict_get LZ d IXK = idx0 ->
  NoDup (function_blocks f) -> map fst ts = function_blocks f -> map fst ti = function_blocks f ->
  NoDup (map fst (ddict_get LZ d IXK)) /\
  (forall b, In b (map fst (ddict_get LZ d IXK)) -> In b (function_blocks f)) /\
  (forall b, In b (function_blocks f) ->
     lookup LZ (ddict_get LZ d IXK) b <> None /\ lookup LZ (ddict_get LZ d SZK) b <> None /\ lookup LZ ts b <> None /\ lookup LZ ti b <> None) /\
  (forall b gi i, lookup LZ (ddict_get LZ d IXK) b = Some gi -> In i gi -> (0 <= i)%Z).
Proof.
  intros Hs Hi -> -> Hnd Hts Hti.
  pose proof (run_int_keys f fuel true _ Hs) as Ks. pose proof (run_int_keys f fuel false _ Hi) as Ki.
  assert (Hex : forall (st : state LZ) b, map fst st = function_blocks f -> In b (function_blocks f) -> lookup LZ st b <> None).
  { intros st b Hk Hb. rewrite <- Hk in Hb. destruct (lookup_in_keys LZ st b Hb) as (v & ->). discriminate. }
  split; [rewrite Ki; exact Hnd|]. split; [intros b Hb; rewrite Ki in Hb; exact Hb|]. split.
  - intros b Hb. repeat split; apply Hex; assumption.
  - intros b gi i Hl Hin. pose proof (C06_listed_in_universe f false fuel _ Hi b gi Hl i Hin) as Hu.
    apply int_universal_groupindex_In in Hu. lia.
Qed.

Lemma fold_max_witness : forall l a, (a < fold_left Z.max l a)%Z -> In (fold_left Z.max l a) l.
Proof.
  induction l as [|y l IH]; intros a H; cbn [fold_left] in *; [lia|].
  destruct (Z.max_spec a y) as [[Hlt E]|[Hge E]]; rewrite E in *.
  - destruct (Z.eq_dec (fold_left Z.max l y) y) as [Ey|Hne].
    + left. symmetry. exact Ey.
    + right. apply IH. pose proof (fold_max_ge l y y (or_introl (Z.le_refl y))). lia.
  - right. apply IH. exact H.
Qed.

(* TRANSPORTED (C06, ExecLemmas.indices_sound and the coupling itself): with the model's two int-fields results in
   self._block_contexts, the generated _store_results stores group indices that (a) still contain the own index of
   every approving execution at every block it passes, and (b) are each below some stored group size of the block *)
Theorem C06_index_lt_size_regenerated e sem f fuel sizes idx0 cfgs d (ts ti : tctx_attr) :
  sem_ok e sem -> env_ok e -> fn_intcs f = e_intcs e -> graph_ok f ->
  int_leaves_ok f true -> int_leaves_ok f false ->
  run_int f fuel true = Done sizes -> run_int f fuel false = Done idx0 -> Accepts e sem f cfgs ->
  ddict_get LZ d SZK = sizes -> ddict_get LZ d IXK = idx0 ->
  NoDup (function_blocks f) -> map fst ts = function_blocks f -> map fst ti = function_blocks f ->
  exists d' ts' ti', store_results_gen f d ts ti = Some (d', ts', ti') /\
    index_sound ti' (e_own e) cfgs /\
    (forall b gs gi i, In b (function_blocks f) -> lookup LZ ts' b = Some gs -> lookup LZ ti' b = Some gi -> In i gi ->
       (0 <= i)%Z /\ exists s, In s gs /\ (i < s)%Z).
Proof.
  intros Hsem Hok Hint Hg Ht Hf Hs Hi Hacc Ed Ei Hnd Hts Hti. subst sizes idx0.
  set (sizes := ddict_get LZ d SZK) in *. set (idx0 := ddict_get LZ d IXK) in *.
  destruct (run_int_store_hyps f fuel sizes idx0 d ts ti Hs Hi eq_refl eq_refl Hnd Hts Hti) as (H1 & H2 & H3 & H4).
  destruct (store_results_gen_eq f d ts ti Hnd H1 H2 H3 H4) as (d' & ts' & ti' & Hrun & _ & _ & _ & _ & Ls & Li).
  fold sizes idx0 in Ls, Li, H4. exists d', ts', ti'. split; [exact Hrun|]. split.
  - intros b st Hin.
    destruct (indices_sound e sem f fuel sizes idx0 cfgs Hsem Hok Hint Hg Ht Hf Hs Hi Hacc b st Hin) as (gi & Hl & Hown).
    exists gi. split; [|exact Hown]. rewrite Li.
    assert (Hb : nat_mem b (function_blocks f) = true).
    { apply nat_mem_In. rewrite <- (run_int_keys f fuel false idx0 Hi), <- (indices_of_keys sizes idx0).
      exact (lookup_some_in_keys LZ _ b gi Hl). }
    rewrite Hb. exact Hl.
  - intros b gs gi i Hb Hgs Hgi Hin. apply nat_mem_In in Hb. rewrite Ls, Hb in Hgs. rewrite Li, Hb in Hgi.
    unfold indices_of in Hgi.
    rewrite (lookup_map_vals (fun b gi => filter (fun i => Z.ltb i (zmax_default
               match lookup _ sizes b with Some l => l | None => [] end)) gi) idx0 b) in Hgi.
    destruct (lookup LZ idx0 b) as [gi0|] eqn:E0; [|discriminate]. cbn [option_map] in Hgi. injection Hgi as <-.
    rewrite Hgs in Hin. apply filter_In in Hin. destruct Hin as [Hin Hlt]. apply Z.ltb_lt in Hlt.
    assert (H0 : (0 <= i)%Z) by exact (H4 b gi0 i E0 Hin).
    split; [exact H0|]. exists (zmax_default gs). split; [|exact Hlt].
    unfold zmax_default in *. apply fold_max_witness. lia.
Qed.

(* ====================================================================== *)
(* Assumption audit                                                         *)
(* ====================================================================== *)
Print Assumptions is_int_push_ins_gen_eq.
Print Assumptions of_generic_intck_ok.
Print Assumptions is_int_push_ins_gen_intck_refuted.
Print Assumptions C15_intc_regenerated.
Print Assumptions C15_named_constant_symbolic_regenerated.
Print Assumptions first_pass_constblocks_gen_eq.
Print Assumptions parse_teal_int_constants_gen_eq.
Print Assumptions parse_teal_int_constants_gen_bb_assign.
Print Assumptions parse_teal_int_constants_gen_parse_teal.
Print Assumptions is_int_push_ins_gen_parse_teal.
Print Assumptions C15_constant_block_unique_regenerated.
Print Assumptions prune_unreachable_gen_bb.
Print Assumptions parse_teal_int_constants_gen_pipeline.
Print Assumptions store_results_gen_eq.
Print Assumptions store_results_gen_negative_refuted.
Print Assumptions C06_index_lt_size_regenerated.
