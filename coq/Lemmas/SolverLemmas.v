(* Fixpoint / least-solution / order-independence lemmas for the worklist solvers of Model/Analysis.v. *)
From Coq Require Import String List NArith ZArith Bool Arith Lia.
From Tealer Require Import Tables Syntax Parse Cfg StackAst Keys Analysis.
From Tealer Require Domains.
Import ListNotations.
Open Scope list_scope.

(* ------------------------------------------------------------------ generic list helpers *)
Lemma fold_left_ext_in {A B} (g h : A -> B -> A) (l : list B) :
  (forall a x, In x l -> g a x = h a x) -> forall a, fold_left g l a = fold_left h l a.
Proof.
  induction l as [|x l IH]; intros H a; simpl; auto.
  rewrite H by (left; reflexivity). apply IH. intros; apply H; right; auto.
Qed.

Lemma nat_mem_In x l : nat_mem x l = true <-> In x l.
Proof.
  unfold nat_mem. rewrite existsb_exists. split.
  - intros [y [Hy He]]. apply Nat.eqb_eq in He. subst; auto.
  - intros H. exists x. split; auto. apply Nat.eqb_refl.
Qed.

Lemma append_new_In xs : forall wl x, In x (append_new wl xs) <-> In x wl \/ In x xs.
Proof.
  induction xs as [|y xs IH]; intros wl x; simpl.
  - tauto.
  - destruct (nat_mem y wl) eqn:E.
    + rewrite IH. apply nat_mem_In in E. split; [tauto|].
      intros [H|[H|H]]; subst; auto.
    + rewrite IH, in_app_iff. simpl. tauto.
Qed.

(* ------------------------------------------------------------------ blocks of a function *)
Lemma fblock_idx f n b : fblock f n = Some b -> b_idx b = n.
Proof. unfold fblock. intros H. apply find_some in H. destruct H as [_ H]. apply Nat.eqb_eq in H. auto. Qed.

Lemma fblock_In f n b : fblock f n = Some b -> In b (fn_blocks f).
Proof. unfold fblock. intros H. apply find_some in H. tauto. Qed.

Lemma fblock_ids f n : In n (map b_idx (fn_blocks f)) <-> exists b, fblock f n = Some b.
Proof.
  split.
  - intros H. apply in_map_iff in H. destruct H as [b [Hb Hin]].
    destruct (fblock f n) eqn:E; eauto.
    unfold fblock in E. eapply find_none in E; eauto. simpl in E. rewrite Hb, Nat.eqb_refl in E. discriminate.
  - intros [b H]. apply in_map_iff. exists b. split; [eapply fblock_idx|eapply fblock_In]; eauto.
Qed.

Section Solver.
  Variable T : Type.
  Variable t_eqb : T -> T -> bool.
  Variable univ null : T.
  Variable union inter : T -> T -> T.
  Variable single : instr -> nat -> list sval -> T * T.
  Variable f : func.

  Notation "a == b" := (t_eqb a b = true) (at level 70).
  Notation state := (Analysis.state T).
  Notation lookup := (Analysis.lookup T).
  Notation update := (Analysis.update T).
  Notation reachin := (Analysis.reachin T univ null union inter single f).
  Notation livein := (Analysis.livein T null union inter f).
  Notation edgec := (edge_constraint T univ null union inter single f).

  (* the block ids of the function *)
  Definition ids : list nat := map b_idx (fn_blocks f).

  (* ================================================================ 1. association lists *)
  Lemma lookup_update_same (st : state) b v old :
    lookup st b = Some old -> lookup (update st b v) b = Some v.
  Proof.
    induction st as [|[k w] st IH]; simpl; intros H; [discriminate|].
    destruct (Nat.eqb k b) eqn:E; simpl; rewrite E; auto.
  Qed.

  Lemma lookup_update_other (st : state) b b' v :
    b <> b' -> lookup (update st b v) b' = lookup st b'.
  Proof.
    intros Hne. induction st as [|[k w] st IH]; simpl; auto.
    destruct (Nat.eqb k b) eqn:E; simpl.
    - apply Nat.eqb_eq in E. subst k. destruct (Nat.eqb b b') eqn:E'; auto.
      apply Nat.eqb_eq in E'. contradiction.
    - rewrite IH. auto.
  Qed.

  Lemma update_keys (st : state) b v : map fst (update st b v) = map fst st.
  Proof.
    induction st as [|[k w] st IH]; simpl; auto.
    destruct (Nat.eqb k b); simpl; congruence.
  Qed.

  Lemma lookup_in_keys (st : state) b : In b (map fst st) -> exists v, lookup st b = Some v.
  Proof.
    induction st as [|[k w] st IH]; simpl; [intros []|].
    intros [H|H].
    - subst. rewrite Nat.eqb_refl. exists w. reflexivity.
    - destruct (Nat.eqb k b); [exists w; reflexivity|exact (IH H)].
  Qed.

  Lemma lookup_some_in_keys (st : state) b v : lookup st b = Some v -> In b (map fst st).
  Proof.
    induction st as [|[k w] st IH]; simpl; [discriminate|].
    destruct (Nat.eqb k b) eqn:E; intros H.
    - apply Nat.eqb_eq in E. auto.
    - right. auto.
  Qed.

  Lemma lookup_keys_iff (st : state) b : In b (map fst st) <-> exists v, lookup st b = Some v.
  Proof. split; [apply lookup_in_keys|intros [v H]; eapply lookup_some_in_keys; eauto]. Qed.

  (* lookup in a state built over the block list reads the first block with that id, like fblock *)
  Lemma lookup_map_blocks (g : block -> T) n :
    lookup (map (fun b => (b_idx b, g b)) (fn_blocks f)) n = option_map g (fblock f n).
  Proof.
    unfold fblock. induction (fn_blocks f) as [|b bs IH]; simpl; auto.
    destruct (Nat.eqb (b_idx b) n); simpl; auto.
  Qed.

  (* ================================================================ locality of reachin / livein *)
  Lemma reachin_ext (st1 st2 : state) xb :
    (forall ps p, prev_global f xb = Some ps -> In p ps -> lookup st1 p = lookup st2 p) ->
    (forall c, is_sub_return_point f xb = true -> callsub_block_of f xb = Some c -> lookup st1 c = lookup st2 c) ->
    reachin st1 xb = reachin st2 xb.
  Proof.
    intros Hp Hc. unfold Analysis.reachin.
    destruct (prev_global f xb) as [ps|]; simpl; auto.
    erewrite fold_left_ext_in.
    2:{ intros a x Hin. rewrite (Hp ps x eq_refl Hin). reflexivity. }
    match goal with |- obind ?o _ = _ => destruct o; simpl; auto end.
    destruct (is_sub_return_point f xb) eqn:E; auto.
    destruct (callsub_block_of f xb) as [c|]; simpl; auto.
    rewrite (Hc c); auto.
  Qed.

  Lemma livein_ext (st1 st2 : state) xb :
    (forall nx s, next_global f xb = Some nx -> In s nx -> lookup st1 s = lookup st2 s) ->
    (forall l r s, fexit_op f xb = Some (ICallsub l) -> sub_return_point xb = Some r ->
                   f_find_sub f l = Some s -> sub_retsub_blocks f s <> [] -> lookup st1 r = lookup st2 r) ->
    livein st1 xb = livein st2 xb.
  Proof.
    intros Hn Hr. unfold Analysis.livein.
    destruct (next_global f xb) as [nx|]; simpl; auto.
    erewrite fold_left_ext_in.
    2:{ intros a x Hin. rewrite (Hn nx x eq_refl Hin). reflexivity. }
    match goal with |- obind ?o _ = _ => destruct o; simpl; auto end.
    destruct (fexit_op f xb) as [[]|]; auto.
    destruct (sub_return_point xb) as [r|]; auto.
    destruct (f_find_sub f _) as [s|] eqn:Es; simpl; auto.
    destruct (sub_retsub_blocks f s) eqn:Er; auto.
    erewrite (Hr _ r s); eauto. rewrite Er. discriminate.
  Qed.

  (* ================================================================ 2. forward: Done results are fixpoints *)
  Section Fixpoints.
  Variable blockc : nat -> option T.
  Notation forward := (Analysis.forward T t_eqb univ null union inter single f blockc).
  Notation backward := (Analysis.backward T t_eqb null union inter f blockc).

  Hypothesis teq_refl : forall a, a == a.

  (* graph well-formedness used for the worklist coverage argument *)
  Definition cover_prev_P : Prop :=
    forall b x xb ps, fblock f x = Some xb -> prev_global f xb = Some ps -> In b ps ->
      exists bb nx, fblock f b = Some bb /\ next_global f bb = Some nx /\ In x nx.
  Definition cover_ret_P : Prop :=
    forall x xb c, fblock f x = Some xb -> is_sub_return_point f xb = true -> callsub_block_of f xb = Some c ->
      exists cb, fblock f c = Some cb /\ f_is_callsub f cb = true /\ sub_return_point cb = Some x.

  (* b satisfies its forward equation in st *)
  Definition fwd_ok (st : state) (b : nat) : Prop :=
    exists xb ri bc old,
      fblock f b = Some xb /\ reachin st xb = Some ri /\ blockc b = Some bc /\
      lookup st b = Some old /\ inter ri bc == old.

  Definition fwd_inv (wl : list nat) (st : state) : Prop :=
    forall b, In b ids -> ~ In b wl -> fwd_ok st b.

  Section Forward.
  Hypothesis cover_prev : cover_prev_P.
  Hypothesis cover_ret : cover_ret_P.

  (* one iteration with an unchanged value *)
  Lemma fwd_inv_same b wl st : fwd_ok st b -> fwd_inv (b :: wl) st -> fwd_inv wl st.
  Proof.
    intros Hb Hinv x Hx Hnin.
    destruct (Nat.eq_dec x b) as [->|Hne]; auto.
    apply Hinv; auto. simpl. intros [H|H]; auto.
  Qed.

  (* one iteration storing a new value *)
  Lemma fwd_inv_changed b xb ri bc old nx wl st :
    fblock f b = Some xb -> reachin st xb = Some ri -> blockc b = Some bc -> lookup st b = Some old ->
    next_global f xb = Some nx ->
    fwd_inv (b :: wl) st ->
    fwd_inv (append_new wl (nx ++ (if f_is_callsub f xb then match sub_return_point xb with Some r => [r] | None => [] end else [])))
            (update st b (inter ri bc)).
  Proof.
    intros Hfb Hri Hbc Hold Hnx Hinv x Hx Hnin.
    rewrite append_new_In, in_app_iff in Hnin.
    (* x's reachin does not read b *)
    assert (Hloc : forall xb', fblock f x = Some xb' ->
                     reachin (update st b (inter ri bc)) xb' = reachin st xb').
    { intros xb' Hfx. apply reachin_ext.
      - intros ps p Hps Hin. destruct (Nat.eq_dec b p) as [<-|Hne].
        + exfalso. destruct (cover_prev b x xb' ps Hfx Hps Hin) as [bb [nx' [H1 [H2 H3]]]].
          rewrite Hfb in H1. inversion H1; subst bb. rewrite Hnx in H2. inversion H2; subst nx'. tauto.
        + apply lookup_update_other; auto.
      - intros c Hrp Hc. destruct (Nat.eq_dec b c) as [<-|Hne].
        + exfalso. destruct (cover_ret x xb' b Hfx Hrp Hc) as [cb [H1 [H2 H3]]].
          rewrite Hfb in H1. inversion H1; subst cb. rewrite H2, H3 in Hnin. simpl in Hnin. tauto.
        + apply lookup_update_other; auto. }
    destruct (Nat.eq_dec x b) as [->|Hne].
    - exists xb, ri, bc, (inter ri bc). repeat split; auto.
      + rewrite Hloc; auto.
      + eapply lookup_update_same; eauto.
    - destruct (Hinv x Hx) as [xb' [ri' [bc' [old' [H1 [H2 [H3 [H4 H5]]]]]]]].
      { simpl. intros [H|H]; [congruence|tauto]. }
      exists xb', ri', bc', old'. repeat split; auto.
      + rewrite Hloc; auto.
      + rewrite lookup_update_other; auto.
  Qed.

  Theorem forward_fixpoint : forall fuel wl st st',
    fwd_inv wl st -> forward fuel wl st = Done st' -> forall b, In b ids -> fwd_ok st' b.
  Proof.
    induction fuel as [|fu IH]; intros wl st st' Hinv Hrun; [discriminate|].
    destruct wl as [|b wl].
    - simpl in Hrun. inversion Hrun; subst st'. intros b Hb. apply Hinv; auto.
    - simpl in Hrun.
      destruct (fblock f b) as [xb|] eqn:Hfb; [|discriminate].
      destruct (reachin st xb) as [ri|] eqn:Hri; [|discriminate].
      destruct (blockc b) as [bc|] eqn:Hbc; [|discriminate].
      destruct (lookup st b) as [old|] eqn:Hold; [|discriminate].
      destruct (t_eqb (inter ri bc) old) eqn:Heq.
      + eapply IH; [|exact Hrun]. eapply fwd_inv_same; eauto.
        exists xb, ri, bc, old. auto.
      + destruct (next_global f xb) as [nx|] eqn:Hnx; [|discriminate].
        eapply IH; [|exact Hrun]. eapply fwd_inv_changed; eauto.
  Qed.

  Corollary forward_fixpoint_initial fuel wl0 st0 st' :
    (forall b, In b ids -> In b wl0) ->
    forward fuel wl0 st0 = Done st' -> forall b, In b ids -> fwd_ok st' b.
  Proof.
    intros Hcov. apply forward_fixpoint. intros b Hb Hn. exfalso. auto.
  Qed.
  End Forward.


  (* generic induction principle over the states visited by the forward loop *)
  Lemma forward_state_ind (P : state -> Prop) :
    (forall st b xb ri bc old, P st -> fblock f b = Some xb -> reachin st xb = Some ri -> blockc b = Some bc ->
        lookup st b = Some old -> t_eqb (inter ri bc) old = false -> P (update st b (inter ri bc))) ->
    forall fuel wl st st', P st -> forward fuel wl st = Done st' -> P st'.
  Proof.
    intros Hstep. induction fuel as [|fu IH]; intros wl st st' HP Hrun; [discriminate|].
    destruct wl as [|b wl].
    - simpl in Hrun. inversion Hrun; subst st'. auto.
    - simpl in Hrun.
      destruct (fblock f b) as [xb|] eqn:Hfb; [|discriminate].
      destruct (reachin st xb) as [ri|] eqn:Hri; [|discriminate].
      destruct (blockc b) as [bc|] eqn:Hbc; [|discriminate].
      destruct (lookup st b) as [old|] eqn:Hold; [|discriminate].
      destruct (t_eqb (inter ri bc) old) eqn:Heq.
      + eapply IH; eauto.
      + destruct (next_global f xb) as [nx|] eqn:Hnx; [|discriminate].
        eapply IH; [|exact Hrun]. eapply Hstep; eauto.
  Qed.

  Lemma forward_keys fuel wl st st' : forward fuel wl st = Done st' -> map fst st' = map fst st.
  Proof.
    apply (forward_state_ind (fun s => map fst s = map fst st)); auto.
    intros. rewrite update_keys. auto.
  Qed.

  (* ================================================================ 3. backward: Done results are fixpoints *)
  (* livein of a non-leaf x reads its global successors ... *)
  Definition cover_next_P : Prop :=
    forall b x xb nx, fblock f x = Some xb -> leaf_global f xb = false -> next_global f xb = Some nx -> In b nx ->
      exists bb ps, fblock f b = Some bb /\ prev_global f bb = Some ps /\ In x ps.
  (* ... and, for a callsub block whose callee has retsub blocks, its return point *)
  Definition cover_call_P : Prop :=
    forall x xb l r s, fblock f x = Some xb -> fexit_op f xb = Some (ICallsub l) -> sub_return_point xb = Some r ->
      f_find_sub f l = Some s -> sub_retsub_blocks f s <> [] ->
      exists rb, fblock f r = Some rb /\ is_sub_return_point f rb = true /\ callsub_block_of f rb = Some x.
  (* the simpler (stronger) form suggested for cover_call *)
  Definition cover_call_simple_P : Prop :=
    forall x xb r, fblock f x = Some xb -> f_is_callsub f xb = true -> sub_return_point xb = Some r ->
      exists rb, fblock f r = Some rb /\ is_sub_return_point f rb = true /\ callsub_block_of f rb = Some x.
  Lemma cover_call_simple : cover_call_simple_P -> cover_call_P.
  Proof.
    intros H x xb l r s Hx Hop Hr _ _. apply (H x xb r); auto. unfold f_is_callsub. rewrite Hop. reflexivity.
  Qed.

  (* b is a leaf (never recomputed) or satisfies its backward equation in st *)
  Definition bwd_ok (st : state) (b : nat) : Prop :=
    exists xb, fblock f b = Some xb /\
      (leaf_global f xb = true \/
       exists li bc old, livein st xb = Some li /\ blockc b = Some bc /\ lookup st b = Some old /\ inter li bc == old).

  Definition bwd_inv (wl : list nat) (st : state) : Prop :=
    forall b, In b ids -> ~ In b wl -> bwd_ok st b.

  Section Backward.
  Hypothesis cover_next : cover_next_P.
  Hypothesis cover_call : cover_call_P.

  Lemma bwd_inv_same b wl st : bwd_ok st b -> bwd_inv (b :: wl) st -> bwd_inv wl st.
  Proof.
    intros Hb Hinv x Hx Hnin.
    destruct (Nat.eq_dec x b) as [->|Hne]; auto.
    apply Hinv; auto. simpl. intros [H|H]; auto.
  Qed.

  Lemma bwd_inv_changed b xb li bc old ps wl st :
    fblock f b = Some xb -> leaf_global f xb = false ->
    livein st xb = Some li -> blockc b = Some bc -> lookup st b = Some old ->
    prev_global f xb = Some ps ->
    bwd_inv (b :: wl) st ->
    bwd_inv (append_new wl (ps ++ (if is_sub_return_point f xb then match callsub_block_of f xb with Some c => [c] | None => [] end else [])))
            (update st b (inter li bc)).
  Proof.
    intros Hfb Hleaf Hli Hbc Hold Hps Hinv x Hx Hnin.
    rewrite append_new_In, in_app_iff in Hnin.
    assert (Hloc : forall xb', fblock f x = Some xb' -> leaf_global f xb' = false ->
                     livein (update st b (inter li bc)) xb' = livein st xb').
    { intros xb' Hfx Hlf. apply livein_ext.
      - intros nx s Hnx Hin. destruct (Nat.eq_dec b s) as [<-|Hne].
        + exfalso. destruct (cover_next b x xb' nx Hfx Hlf Hnx Hin) as [bb [ps' [H1 [H2 H3]]]].
          rewrite Hfb in H1. inversion H1; subst bb. rewrite Hps in H2. inversion H2; subst ps'. tauto.
        + apply lookup_update_other; auto.
      - intros l r s Hop Hr Hs Hne0. destruct (Nat.eq_dec b r) as [<-|Hne].
        + exfalso. destruct (cover_call x xb' l b s Hfx Hop Hr Hs Hne0) as [rb [H1 [H2 H3]]].
          rewrite Hfb in H1. inversion H1; subst rb. rewrite H2, H3 in Hnin. simpl in Hnin. tauto.
        + apply lookup_update_other; auto. }
    destruct (Nat.eq_dec x b) as [->|Hne].
    - exists xb. split; auto. right. exists li, bc, (inter li bc). repeat split; auto.
      + rewrite Hloc; auto.
      + eapply lookup_update_same; eauto.
    - destruct (Hinv x Hx) as [xb' [H1 [H2|[li' [bc' [old' [H2 [H3 [H4 H5]]]]]]]]].
      { simpl. intros [H|H]; [congruence|tauto]. }
      + exists xb'. auto.
      + exists xb'. split; auto. destruct (leaf_global f xb') eqn:Hlf; auto.
        right. exists li', bc', old'. repeat split; auto.
        * rewrite Hloc; auto.
        * rewrite lookup_update_other; auto.
  Qed.

  Theorem backward_fixpoint : forall fuel wl st st',
    bwd_inv wl st -> backward fuel wl st = Done st' -> forall b, In b ids -> bwd_ok st' b.
  Proof.
    induction fuel as [|fu IH]; intros wl st st' Hinv Hrun; [discriminate|].
    destruct wl as [|b wl].
    - simpl in Hrun. inversion Hrun; subst st'. intros b Hb. apply Hinv; auto.
    - simpl in Hrun.
      destruct (fblock f b) as [xb|] eqn:Hfb; [|discriminate].
      destruct (leaf_global f xb) eqn:Hleaf.
      { eapply IH; [|exact Hrun]. eapply bwd_inv_same; eauto. exists xb. auto. }
      destruct (livein st xb) as [li|] eqn:Hli; [|discriminate].
      destruct (blockc b) as [bc|] eqn:Hbc; [|discriminate].
      destruct (lookup st b) as [old|] eqn:Hold; [|discriminate].
      destruct (t_eqb (inter li bc) old) eqn:Heq.
      + eapply IH; [|exact Hrun]. eapply bwd_inv_same; eauto.
        exists xb. split; auto. right. exists li, bc, old. auto.
      + destruct (prev_global f xb) as [ps|] eqn:Hps; [|discriminate].
        eapply IH; [|exact Hrun]. eapply bwd_inv_changed; eauto.
  Qed.

  (* the initial worklist only has to contain the non-leaf blocks *)
  Corollary backward_fixpoint_initial fuel wl0 st0 st' :
    (forall b xb, fblock f b = Some xb -> leaf_global f xb = false -> In b wl0) ->
    backward fuel wl0 st0 = Done st' -> forall b, In b ids -> bwd_ok st' b.
  Proof.
    intros Hcov. apply backward_fixpoint. intros b Hb Hn.
    apply fblock_ids in Hb. destruct Hb as [xb Hxb]. exists xb. split; auto.
    destruct (leaf_global f xb) eqn:E; auto. exfalso. eauto.
  Qed.
  End Backward.

  Lemma backward_state_ind (P : state -> Prop) :
    (forall st b xb li bc old, P st -> fblock f b = Some xb -> leaf_global f xb = false ->
        livein st xb = Some li -> blockc b = Some bc ->
        lookup st b = Some old -> t_eqb (inter li bc) old = false -> P (update st b (inter li bc))) ->
    forall fuel wl st st', P st -> backward fuel wl st = Done st' -> P st'.
  Proof.
    intros Hstep. induction fuel as [|fu IH]; intros wl st st' HP Hrun; [discriminate|].
    destruct wl as [|b wl].
    - simpl in Hrun. inversion Hrun; subst st'. auto.
    - simpl in Hrun.
      destruct (fblock f b) as [xb|] eqn:Hfb; [|discriminate].
      destruct (leaf_global f xb) eqn:Hleaf.
      { eapply IH; eauto. }
      destruct (livein st xb) as [li|] eqn:Hli; [|discriminate].
      destruct (blockc b) as [bc|] eqn:Hbc; [|discriminate].
      destruct (lookup st b) as [old|] eqn:Hold; [|discriminate].
      destruct (t_eqb (inter li bc) old) eqn:Heq.
      + eapply IH; eauto.
      + destruct (prev_global f xb) as [ps|] eqn:Hps; [|discriminate].
        eapply IH; [|exact Hrun]. eapply Hstep; eauto.
  Qed.

  Lemma backward_keys fuel wl st st' : backward fuel wl st = Done st' -> map fst st' = map fst st.
  Proof.
    apply (backward_state_ind (fun s => map fst s = map fst st)); auto.
    intros. rewrite update_keys. auto.
  Qed.

  (* leaf blocks (and keys that are not blocks at all) keep their value: their equation is st' b = st b *)
  Lemma backward_leaf_unchanged fuel wl st st' b :
    (forall xb, fblock f b = Some xb -> leaf_global f xb = true) ->
    backward fuel wl st = Done st' -> lookup st' b = lookup st b.
  Proof.
    intros Hleaf. apply (backward_state_ind (fun s => lookup s b = lookup st b)); auto.
    intros s b0 xb li bc old HP Hfb Hlf _ _ _ _. rewrite lookup_update_other; auto.
    intros ->. rewrite (Hleaf xb Hfb) in Hlf. discriminate.
  Qed.

  End Fixpoints.

  (* ================================================================ start states; shape of Domains.solve *)
  (* the all-null start state of the forward pass *)
  Definition fwd_st0 : state := map (fun b => (b_idx b, null)) (fn_blocks f).

  (* the start state used by Domains.solve: forward result ro at leaves, null elsewhere *)
  Definition bwd_st0 (ro : state) : state :=
    map (fun b => (b_idx b, if leaf_global f b then match lookup ro (b_idx b) with Some v => v | None => null end else null))
        (fn_blocks f).

  Lemma solve_passes fuel bc lo :
    Domains.solve T t_eqb univ null union inter single f fuel bc = Done lo <->
    exists ro,
      Analysis.forward T t_eqb univ null union inter single f (lookup bc) fuel (forward_worklist f) fwd_st0 = Done ro /\
      Analysis.backward T t_eqb null union inter f (lookup ro) fuel (backward_worklist f) (bwd_st0 ro) = Done lo.
  Proof.
    unfold Domains.solve. fold fwd_st0. split.
    - destruct (Analysis.forward _ _ _ _ _ _ _ _ _ _ _ _) as [ro| |]; try discriminate.
      intros H. exists ro. split; auto.
    - intros [ro [H1 H2]]. rewrite H1. exact H2.
  Qed.

  (* ================================================================ 4. least solution, order independence *)
  Section Order.
  Variable leq : T -> T -> Prop.
  Hypothesis leq_refl : forall a, leq a a.
  Hypothesis leq_trans : forall a b c, leq a b -> leq b c -> leq a c.
  Hypothesis teq_leq : forall a b, a == b <-> leq a b /\ leq b a.
  Hypothesis union_mono : forall a a' b b', leq a a' -> leq b b' -> leq (union a b) (union a' b').
  Hypothesis inter_mono : forall a a' b b', leq a a' -> leq b b' -> leq (inter a b) (inter a' b').
  Hypothesis null_least : forall a, leq null a.

  Lemma teq_refl' a : a == a.
  Proof. apply teq_leq. auto. Qed.
  Lemma teq_sym' a b : a == b -> b == a.
  Proof. rewrite !teq_leq. tauto. Qed.
  Lemma teq_trans' a b c : a == b -> b == c -> a == c.
  Proof. rewrite !teq_leq. intros [? ?] [? ?]. split; eapply leq_trans; eauto. Qed.
  Lemma inter_cong' a a' b b' : a == a' -> b == b' -> inter a b == inter a' b'.
  Proof. rewrite !teq_leq. intros [? ?] [? ?]. split; apply inter_mono; auto. Qed.
  Lemma union_cong' a a' b b' : a == a' -> b == b' -> union a b == union a' b'.
  Proof. rewrite !teq_leq. intros [? ?] [? ?]. split; apply union_mono; auto. Qed.

  (* pointwise order / equivalence of states *)
  Definition ple (st sol : state) : Prop :=
    forall b v, lookup st b = Some v -> exists w, lookup sol b = Some w /\ leq v w.
  Definition peq (st1 st2 : state) : Prop :=
    map fst st1 = map fst st2 /\
    forall b v1 v2, lookup st1 b = Some v1 -> lookup st2 b = Some v2 -> v1 == v2.

  Lemma ple_refl st : ple st st.
  Proof. intros b v H. eauto. Qed.

  Lemma ple_antisym st1 st2 : map fst st1 = map fst st2 -> ple st1 st2 -> ple st2 st1 -> peq st1 st2.
  Proof.
    intros Hk H12 H21. split; auto. intros b v1 v2 E1 E2.
    destruct (H12 _ _ E1) as [w [E2' L1]]. destruct (H21 _ _ E2) as [w' [E1' L2]].
    rewrite E2 in E2'. inversion E2'; subst w. rewrite E1 in E1'. inversion E1'; subst w'.
    apply teq_leq. auto.
  Qed.

  Lemma ple_update st sol b v w :
    ple st sol -> lookup sol b = Some w -> leq v w -> ple (update st b v) sol.
  Proof.
    intros Hple Hw Hl k u Hk. destruct (Nat.eq_dec b k) as [<-|Hne].
    - destruct (lookup st b) as [old|] eqn:E.
      + rewrite (lookup_update_same st b v old E) in Hk. inversion Hk; subst u.
        exists w. split; [exact Hw|exact Hl].
      + exfalso. pose proof (lookup_some_in_keys _ _ _ Hk) as Hin.
        rewrite update_keys in Hin. apply lookup_in_keys in Hin. destruct Hin as [x Hx].
        rewrite E in Hx. discriminate Hx.
    - rewrite lookup_update_other in Hk by exact Hne. exact (Hple k u Hk).
  Qed.

  (* ---------------------------------------------------------------- reachin / livein are monotone in the state *)
  Definition rstep (st : state) (xb : block) (acc : option T) (p : nat) : option T :=
    match acc with
    | None => None
    | Some a =>
        match lookup st p with
        | None => None
        | Some ro =>
            match fblock f p with
            | None => None
            | Some pb => match edgec pb (b_idx xb) with None => None | Some ec => Some (union a (inter ro ec)) end
            end
        end
    end.

  Lemma reachin_unfold st xb :
    reachin st xb =
    match prev_global f xb with
    | None => None
    | Some ps =>
        match fold_left (rstep st xb) ps (Some (if Nat.eqb (b_idx xb) (fn_entry f) then univ else null)) with
        | None => None
        | Some acc =>
            if is_sub_return_point f xb then
              match callsub_block_of f xb with
              | None => None
              | Some c => match lookup st c with None => None | Some rc => Some (inter acc rc) end
              end
            else Some acc
        end
    end.
  Proof. reflexivity. Qed.

  Lemma rfold_none st xb ps : fold_left (rstep st xb) ps None = None.
  Proof. induction ps; simpl; auto. Qed.

  Lemma rfold_mono st sol xb : ple st sol -> forall ps a a' r r',
    leq a a' ->
    fold_left (rstep st xb) ps (Some a) = Some r -> fold_left (rstep sol xb) ps (Some a') = Some r' -> leq r r'.
  Proof.
    intros Hple. induction ps as [|p ps IH]; intros a a' r r' Hl H1 H2.
    - simpl in *. inversion H1; inversion H2; subst; auto.
    - cbn [fold_left] in H1, H2. unfold rstep at 2 in H1. unfold rstep at 2 in H2.
      destruct (lookup st p) as [ro|] eqn:E1; [|rewrite rfold_none in H1; discriminate].
      destruct (Hple _ _ E1) as [ro' [E2 Hro]]. rewrite E2 in H2.
      destruct (fblock f p) as [pb|]; [|rewrite rfold_none in H1; discriminate].
      destruct (edgec pb (b_idx xb)) as [ec|]; [|rewrite rfold_none in H1; discriminate].
      eapply IH; [|exact H1|exact H2]. apply union_mono; auto.
  Qed.

  Lemma reachin_mono st sol xb r r' :
    ple st sol -> reachin st xb = Some r -> reachin sol xb = Some r' -> leq r r'.
  Proof.
    intros Hple. rewrite !reachin_unfold.
    destruct (prev_global f xb) as [ps|]; [|discriminate].
    destruct (fold_left (rstep st xb) ps _) as [a|] eqn:F1; [|discriminate].
    destruct (fold_left (rstep sol xb) ps _) as [a'|] eqn:F2; [|discriminate].
    assert (La : leq a a') by (eapply rfold_mono; eauto).
    destruct (is_sub_return_point f xb).
    - destruct (callsub_block_of f xb) as [c|]; [|discriminate].
      destruct (lookup st c) as [rc|] eqn:E1; [|discriminate].
      destruct (Hple _ _ E1) as [rc' [E2 Hrc]]. rewrite E2.
      intros H1 H2. inversion H1; inversion H2; subst. apply inter_mono; auto.
    - intros H1 H2. inversion H1; inversion H2; subst. auto.
  Qed.

  Definition lstep (st : state) (acc : option T) (s : nat) : option T :=
    match acc with
    | None => None
    | Some a => match lookup st s with None => None | Some lo => Some (union a lo) end
    end.

  Lemma livein_unfold st xb :
    livein st xb =
    match next_global f xb with
    | None => None
    | Some nx =>
        match fold_left (lstep st) nx (Some null) with
        | None => None
        | Some acc =>
            match fexit_op f xb, sub_return_point xb with
            | Some (ICallsub l), Some rp =>
                match f_find_sub f l with
                | None => None
                | Some s =>
                    match sub_retsub_blocks f s with
                    | [] => Some acc
                    | _ => match lookup st rp with None => None | Some lr => Some (inter acc lr) end
                    end
                end
            | _, _ => Some acc
            end
        end
    end.
  Proof. reflexivity. Qed.

  Lemma lfold_none st nx : fold_left (lstep st) nx None = None.
  Proof. induction nx; simpl; auto. Qed.

  Lemma lfold_mono st sol : ple st sol -> forall nx a a' r r',
    leq a a' ->
    fold_left (lstep st) nx (Some a) = Some r -> fold_left (lstep sol) nx (Some a') = Some r' -> leq r r'.
  Proof.
    intros Hple. induction nx as [|p nx IH]; intros a a' r r' Hl H1 H2.
    - simpl in *. inversion H1; inversion H2; subst; auto.
    - cbn [fold_left] in H1, H2. unfold lstep at 2 in H1. unfold lstep at 2 in H2.
      destruct (lookup st p) as [ro|] eqn:E1; [|rewrite lfold_none in H1; discriminate].
      destruct (Hple _ _ E1) as [ro' [E2 Hro]]. rewrite E2 in H2.
      eapply IH; [|exact H1|exact H2]. apply union_mono; auto.
  Qed.

  Lemma livein_mono st sol xb r r' :
    ple st sol -> livein st xb = Some r -> livein sol xb = Some r' -> leq r r'.
  Proof.
    intros Hple. rewrite !livein_unfold.
    destruct (next_global f xb) as [nx|]; [|discriminate].
    destruct (fold_left (lstep st) nx _) as [a|] eqn:F1; [|discriminate].
    destruct (fold_left (lstep sol) nx _) as [a'|] eqn:F2; [|discriminate].
    assert (La : leq a a') by (eapply lfold_mono; eauto).
    assert (Hdef : Some a = Some r -> Some a' = Some r' -> leq r r').
    { intros H1 H2. inversion H1; inversion H2; subst. auto. }
    destruct (fexit_op f xb) as [[]|]; auto.
    destruct (sub_return_point xb) as [rp|]; auto.
    destruct (f_find_sub f _) as [s|]; [|discriminate].
    destruct (sub_retsub_blocks f s); auto.
    destruct (lookup st rp) as [lr|] eqn:E1; [|discriminate].
    destruct (Hple _ _ E1) as [lr' [E2 Hlr]]. rewrite E2.
    intros H1 H2. inversion H1; inversion H2; subst. apply inter_mono; auto.
  Qed.

  Section OrderB.
  Variable blockc : nat -> option T.
  Notation forward := (Analysis.forward T t_eqb univ null union inter single f blockc).
  Notation backward := (Analysis.backward T t_eqb null union inter f blockc).

  (* sol satisfies every forward equation (up to ==) *)
  Definition fwd_sol (sol : state) : Prop := forall b, In b ids -> fwd_ok blockc sol b.

  (* every state visited by the loop stays pointwise below any solution that the start state is below *)
  Lemma forward_le sol fuel wl st st' :
    fwd_sol sol -> ple st sol -> forward fuel wl st = Done st' -> ple st' sol.
  Proof.
    intros Hsol. apply (forward_state_ind blockc (fun s => ple s sol)).
    intros s b xb ri bc old HP Hfb Hri Hbc Hold _.
    destruct (Hsol b) as [xb' [ri' [bc' [old' [H1 [H2 [H3 [H4 H5]]]]]]]].
    { apply fblock_ids. eauto. }
    rewrite Hfb in H1. inversion H1; subst xb'. rewrite Hbc in H3. inversion H3; subst bc'.
    eapply ple_update; eauto.
    eapply leq_trans; [|apply teq_leq in H5; apply H5].
    apply inter_mono; auto. eapply reachin_mono; eauto.
  Qed.

  Lemma fwd_st0_le sol : fwd_sol sol -> ple fwd_st0 sol.
  Proof.
    intros Hsol b v H. unfold fwd_st0 in H. rewrite lookup_map_blocks in H.
    destruct (fblock f b) as [xb|] eqn:E; [|discriminate]. simpl in H. inversion H; subst v.
    destruct (Hsol b) as [xb' [ri' [bc' [old' [H1 [H2 [H3 [H4 H5]]]]]]]].
    { apply fblock_ids. eauto. }
    eauto.
  Qed.

  Theorem forward_least sol fuel wl st' :
    fwd_sol sol -> forward fuel wl fwd_st0 = Done st' -> ple st' sol.
  Proof. intros Hsol. apply forward_le; auto. apply fwd_st0_le; auto. Qed.

  Theorem forward_order_independent fu1 fu2 wl1 wl2 st1 st2 :
    cover_prev_P -> cover_ret_P ->
    (forall b, In b ids -> In b wl1) -> (forall b, In b ids -> In b wl2) ->
    forward fu1 wl1 fwd_st0 = Done st1 -> forward fu2 wl2 fwd_st0 = Done st2 ->
    peq st1 st2.
  Proof.
    intros Hcp Hcr Hw1 Hw2 H1 H2.
    assert (S1 : fwd_sol st1) by exact (forward_fixpoint_initial blockc teq_refl' Hcp Hcr fu1 wl1 fwd_st0 st1 Hw1 H1).
    assert (S2 : fwd_sol st2) by exact (forward_fixpoint_initial blockc teq_refl' Hcp Hcr fu2 wl2 fwd_st0 st2 Hw2 H2).
    apply ple_antisym.
    - rewrite (forward_keys blockc _ _ _ _ H1), (forward_keys blockc _ _ _ _ H2). reflexivity.
    - eapply forward_least; eauto.
    - eapply forward_least; eauto.
  Qed.

  (* ---------------------------------------------------------------- backward *)
  Definition bwd_sol (sol : state) : Prop := forall b, In b ids -> bwd_ok blockc sol b.

  Lemma backward_le sol fuel wl st st' :
    bwd_sol sol -> ple st sol -> backward fuel wl st = Done st' -> ple st' sol.
  Proof.
    intros Hsol. apply (backward_state_ind blockc (fun s => ple s sol)).
    intros s b xb li bc old HP Hfb Hleaf Hli Hbc Hold _.
    destruct (Hsol b) as [xb' [H1 H2]].
    { apply fblock_ids. eauto. }
    rewrite Hfb in H1. inversion H1; subst xb'.
    destruct H2 as [H2|[li' [bc' [old' [H2 [H3 [H4 H5]]]]]]]; [congruence|].
    rewrite Hbc in H3. inversion H3; subst bc'.
    eapply ple_update; eauto.
    eapply leq_trans; [|apply teq_leq in H5; apply H5].
    apply inter_mono; auto. eapply livein_mono; eauto.
  Qed.

  (* start states of the backward pass: null except (possibly) at keys that are never recomputed *)
  Definition bwd_start (st0 : state) : Prop :=
    forall b v, lookup st0 b = Some v ->
      v = null \/ (forall xb, fblock f b = Some xb -> leaf_global f xb = true).

  Lemma bwd_start_le fuel wl st0 st' :
    bwd_start st0 -> backward fuel wl st0 = Done st' -> ple st0 st'.
  Proof.
    intros Hst Hrun b v Hb.
    destruct (Hst b v Hb) as [->|Hleaf].
    - assert (Hk : In b (map fst st')).
      { rewrite (backward_keys blockc _ _ _ _ Hrun). eapply lookup_some_in_keys; eauto. }
      apply lookup_in_keys in Hk. destruct Hk as [w Hw]. eauto.
    - rewrite <- (backward_leaf_unchanged blockc _ _ _ _ b Hleaf Hrun) in Hb. eauto.
  Qed.

  Theorem backward_least sol fuel wl st0 st' :
    bwd_sol sol -> ple st0 sol -> backward fuel wl st0 = Done st' -> ple st' sol.
  Proof. apply backward_le. Qed.

  Theorem backward_order_independent fu1 fu2 wl1 wl2 st0 st1 st2 :
    cover_next_P -> cover_call_P ->
    bwd_start st0 ->
    (forall b xb, fblock f b = Some xb -> leaf_global f xb = false -> In b wl1) ->
    (forall b xb, fblock f b = Some xb -> leaf_global f xb = false -> In b wl2) ->
    backward fu1 wl1 st0 = Done st1 -> backward fu2 wl2 st0 = Done st2 ->
    peq st1 st2.
  Proof.
    intros Hcn Hcc Hst Hw1 Hw2 H1 H2.
    assert (S1 : bwd_sol st1) by exact (backward_fixpoint_initial blockc teq_refl' Hcn Hcc fu1 wl1 st0 st1 Hw1 H1).
    assert (S2 : bwd_sol st2) by exact (backward_fixpoint_initial blockc teq_refl' Hcn Hcc fu2 wl2 st0 st2 Hw2 H2).
    apply ple_antisym.
    - rewrite (backward_keys blockc _ _ _ _ H1), (backward_keys blockc _ _ _ _ H2). reflexivity.
    - eapply backward_le; eauto. eapply bwd_start_le; eauto.
    - eapply backward_le; eauto. eapply bwd_start_le; eauto.
  Qed.

  Lemma bwd_st0_start ro : bwd_start (bwd_st0 ro).
  Proof.
    intros b v H. unfold bwd_st0 in H. rewrite lookup_map_blocks in H.
    destruct (fblock f b) as [xb|] eqn:E; [|discriminate]. simpl in H. inversion H; clear H.
    destruct (leaf_global f xb) eqn:L; auto.
    right. intros xb' H'. congruence.
  Qed.
  End OrderB.

  (* ---------------------------------------------------------------- backward, varying blockc and start state; composition *)
  Lemma ple_trans s1 s2 s3 : ple s1 s2 -> ple s2 s3 -> ple s1 s3.
  Proof.
    intros H12 H23 b v E. destruct (H12 _ _ E) as [w [E2 L]]. destruct (H23 _ _ E2) as [u [E3 L']].
    exists u. split; auto. eapply leq_trans; eauto.
  Qed.

  Lemma peq_sym s1 s2 : peq s1 s2 -> peq s2 s1.
  Proof. intros [Hk H]. split; auto. intros b v1 v2 E1 E2. apply teq_sym'. eauto. Qed.

  Lemma peq_ple s1 s2 : peq s1 s2 -> ple s1 s2.
  Proof.
    intros [Hk H] b v E.
    assert (Hin : In b (map fst s2)) by (rewrite <- Hk; eapply lookup_some_in_keys; eauto).
    apply lookup_in_keys in Hin. destruct Hin as [w Hw]. exists w. split; auto.
    apply (teq_leq v w). eauto.
  Qed.

  (* two block-constraint maps are equivalent *)
  Definition bc_eq (bc1 bc2 : nat -> option T) : Prop :=
    forall b, (bc1 b = None /\ bc2 b = None) \/ (exists x y, bc1 b = Some x /\ bc2 b = Some y /\ x == y).

  Lemma bc_eq_sym bc1 bc2 : bc_eq bc1 bc2 -> bc_eq bc2 bc1.
  Proof.
    intros H b. destruct (H b) as [[? ?]|[x [y [? [? ?]]]]]; [left; auto|right].
    exists y, x. repeat split; auto. apply teq_sym'; auto.
  Qed.

  Lemma peq_bc_eq s1 s2 : peq s1 s2 -> bc_eq (lookup s1) (lookup s2).
  Proof.
    intros [Hk H] b. destruct (lookup s1 b) as [x|] eqn:E1; destruct (lookup s2 b) as [y|] eqn:E2.
    - right. exists x, y. repeat split; eauto.
    - exfalso. apply lookup_some_in_keys in E1. rewrite Hk in E1. apply lookup_in_keys in E1.
      destruct E1; congruence.
    - exfalso. apply lookup_some_in_keys in E2. rewrite <- Hk in E2. apply lookup_in_keys in E2.
      destruct E2; congruence.
    - left. auto.
  Qed.

  Lemma bwd_sol_bc_eq bc1 bc2 sol : bc_eq bc1 bc2 -> bwd_sol bc1 sol -> bwd_sol bc2 sol.
  Proof.
    intros Hbc Hsol b Hb. destruct (Hsol b Hb) as [xb [H1 H2]]. exists xb. split; auto.
    destruct H2 as [H2|[li [bc [old [H2 [H3 [H4 H5]]]]]]]; auto. right.
    destruct (Hbc b) as [[E _]|[x [y [E1 [E2 Hxy]]]]]; [congruence|].
    rewrite E1 in H3. inversion H3; subst x.
    exists li, y, old. repeat split; auto.
    eapply teq_trans'; [|exact H5]. apply inter_cong'; [apply teq_refl'|apply teq_sym'; auto].
  Qed.

  Lemma backward_le_gen bc1 bc2 fu1 fu2 wl1 wl2 st01 st02 st1 st2 :
    cover_next_P -> cover_call_P ->
    bc_eq bc1 bc2 -> bwd_start st01 -> peq st01 st02 ->
    (forall b xb, fblock f b = Some xb -> leaf_global f xb = false -> In b wl1) ->
    Analysis.backward T t_eqb null union inter f bc1 fu1 wl1 st01 = Done st1 ->
    Analysis.backward T t_eqb null union inter f bc2 fu2 wl2 st02 = Done st2 ->
    ple st2 st1.
  Proof.
    intros Hcn Hcc Hbc Hst Hpeq Hw1 H1 H2.
    assert (S1 : bwd_sol bc1 st1) by exact (backward_fixpoint_initial bc1 teq_refl' Hcn Hcc fu1 wl1 st01 st1 Hw1 H1).
    eapply (backward_le bc2); [eapply bwd_sol_bc_eq; eauto| |exact H2].
    eapply ple_trans; [apply peq_ple, peq_sym; eauto|]. eapply bwd_start_le; eauto.
  Qed.

  Theorem backward_order_independent_gen bc1 bc2 fu1 fu2 wl1 wl2 st01 st02 st1 st2 :
    cover_next_P -> cover_call_P ->
    bc_eq bc1 bc2 -> bwd_start st01 -> bwd_start st02 -> peq st01 st02 ->
    (forall b xb, fblock f b = Some xb -> leaf_global f xb = false -> In b wl1) ->
    (forall b xb, fblock f b = Some xb -> leaf_global f xb = false -> In b wl2) ->
    Analysis.backward T t_eqb null union inter f bc1 fu1 wl1 st01 = Done st1 ->
    Analysis.backward T t_eqb null union inter f bc2 fu2 wl2 st02 = Done st2 ->
    peq st1 st2.
  Proof.
    intros Hcn Hcc Hbc Hs1 Hs2 Hpeq Hw1 Hw2 H1 H2.
    apply ple_antisym.
    - rewrite (backward_keys bc1 _ _ _ _ H1), (backward_keys bc2 _ _ _ _ H2). apply Hpeq.
    - exact (backward_le_gen bc2 bc1 fu2 fu1 wl2 wl1 st02 st01 st2 st1 Hcn Hcc
               (bc_eq_sym _ _ Hbc) Hs2 (peq_sym _ _ Hpeq) Hw2 H2 H1).
    - exact (backward_le_gen bc1 bc2 fu1 fu2 wl1 wl2 st01 st02 st1 st2 Hcn Hcc Hbc Hs1 Hpeq Hw1 H1 H2).
  Qed.

  Lemma bwd_st0_peq ro1 ro2 : peq ro1 ro2 -> peq (bwd_st0 ro1) (bwd_st0 ro2).
  Proof.
    intros Hpeq. split.
    - unfold bwd_st0. rewrite !map_map. reflexivity.
    - intros b v1 v2. unfold bwd_st0. rewrite !lookup_map_blocks.
      destruct (fblock f b) as [xb|]; [|discriminate]. simpl.
      intros E1 E2. inversion E1; inversion E2; clear E1 E2.
      destruct (leaf_global f xb); [|apply teq_refl'].
      destruct (peq_bc_eq _ _ Hpeq (b_idx xb)) as [[-> ->]|[x [y [-> [-> Hxy]]]]]; auto. apply teq_refl'.
  Qed.

  (* forward pass followed by the backward pass seeded with the forward result (the shape of Domains.solve):
     the result does not depend on the worklists or the fuel, up to == *)
  Theorem passes_order_independent blockc fu1 fu2 fu3 fu4 wl1 wl2 wl3 wl4 ro1 ro2 lo1 lo2 :
    cover_prev_P -> cover_ret_P -> cover_next_P -> cover_call_P ->
    (forall b, In b ids -> In b wl1) -> (forall b, In b ids -> In b wl2) ->
    (forall b xb, fblock f b = Some xb -> leaf_global f xb = false -> In b wl3) ->
    (forall b xb, fblock f b = Some xb -> leaf_global f xb = false -> In b wl4) ->
    Analysis.forward T t_eqb univ null union inter single f blockc fu1 wl1 fwd_st0 = Done ro1 ->
    Analysis.forward T t_eqb univ null union inter single f blockc fu2 wl2 fwd_st0 = Done ro2 ->
    Analysis.backward T t_eqb null union inter f (lookup ro1) fu3 wl3 (bwd_st0 ro1) = Done lo1 ->
    Analysis.backward T t_eqb null union inter f (lookup ro2) fu4 wl4 (bwd_st0 ro2) = Done lo2 ->
    peq ro1 ro2 /\ peq lo1 lo2.
  Proof.
    intros Hcp Hcr Hcn Hcc Hw1 Hw2 Hw3 Hw4 F1 F2 B1 B2.
    assert (Hro : peq ro1 ro2)
      by exact (forward_order_independent blockc fu1 fu2 wl1 wl2 ro1 ro2 Hcp Hcr Hw1 Hw2 F1 F2).
    split; auto.
    exact (backward_order_independent_gen (lookup ro1) (lookup ro2) fu3 fu4 wl3 wl4 _ _ lo1 lo2 Hcn Hcc
             (peq_bc_eq _ _ Hro) (bwd_st0_start ro1) (bwd_st0_start ro2) (bwd_st0_peq _ _ Hro) Hw3 Hw4 B1 B2).
  Qed.

  (* Domains.solve agrees (up to ==, same keys) with any other schedule of the two passes *)
  Corollary solve_order_independent bc fuel fu1 fu2 wl1 wl2 lo ro' lo' :
    cover_prev_P -> cover_ret_P -> cover_next_P -> cover_call_P ->
    (forall b, In b ids -> In b (forward_worklist f)) ->
    (forall b xb, fblock f b = Some xb -> leaf_global f xb = false -> In b (backward_worklist f)) ->
    (forall b, In b ids -> In b wl1) ->
    (forall b xb, fblock f b = Some xb -> leaf_global f xb = false -> In b wl2) ->
    Domains.solve T t_eqb univ null union inter single f fuel bc = Done lo ->
    Analysis.forward T t_eqb univ null union inter single f (lookup bc) fu1 wl1 fwd_st0 = Done ro' ->
    Analysis.backward T t_eqb null union inter f (lookup ro') fu2 wl2 (bwd_st0 ro') = Done lo' ->
    peq lo lo'.
  Proof.
    intros Hcp Hcr Hcn Hcc Hf Hb Hw1 Hw2 Hs F B.
    apply solve_passes in Hs. destruct Hs as [ro [F0 B0]].
    exact (proj2 (passes_order_independent (lookup bc) fuel fu1 fuel fu2 _ wl1 _ wl2 ro ro' lo lo'
                    Hcp Hcr Hcn Hcc Hf Hw1 Hb Hw2 F0 F B0 B)).
  Qed.

  End Order.
End Solver.

Print Assumptions forward_fixpoint.
Print Assumptions forward_fixpoint_initial.
Print Assumptions backward_fixpoint.
Print Assumptions backward_fixpoint_initial.
Print Assumptions backward_leaf_unchanged.
Print Assumptions forward_least.
Print Assumptions forward_order_independent.
Print Assumptions backward_least.
Print Assumptions backward_order_independent.
Print Assumptions backward_order_independent_gen.
Print Assumptions passes_order_independent.
Print Assumptions solve_passes.
Print Assumptions solve_order_independent.
