(* Lemmas about the generated leaf functions (Gen/Leaves.v) and the list-set helpers of the model.
   All statements refer to the generated definitions by name; proofs go by unfolding + case analysis,
   so a semantic change of a generated function makes the corresponding proof fail. *)
From Coq Require Import String List ZArith Bool Arith Lia ZifyBool FinFun.
From Tealer Require Import Tables LeafPrelude Leaves Domains.
Import ListNotations.
Open Scope list_scope.

(* ====================================================================== *)
(* Generic list-as-set facts over a type with a boolean equality           *)
(* ====================================================================== *)
Section GenericSets.
  Variable A : Type.
  Variable eqb : A -> A -> bool.
  Hypothesis eqb_eq : forall x y, eqb x y = true <-> x = y.

  Definition gmem (x : A) (l : list A) : bool := existsb (eqb x) l.
  Definition gunion (a b : list A) : list A := a ++ filter (fun x => negb (gmem x a)) b.
  Definition ginter (a b : list A) : list A := filter (fun x => gmem x b) a.
  Definition gdiff (a b : list A) : list A := filter (fun x => negb (gmem x b)) a.
  Definition gsubset (a b : list A) : bool := forallb (fun x => gmem x b) a.
  Definition gset_eqb (a b : list A) : bool := gsubset a b && gsubset b a.

  Lemma gmem_In : forall x l, gmem x l = true <-> In x l.
  Proof.
    intros x l. unfold gmem. rewrite existsb_exists. split.
    - intros [y [Hy He]]. apply eqb_eq in He. subst. exact Hy.
    - intros H. exists x. split; [exact H|]. apply eqb_eq. reflexivity.
  Qed.

  Lemma gmem_false : forall x l, gmem x l = false <-> ~ In x l.
  Proof.
    intros x l. rewrite <- gmem_In. destruct (gmem x l); split.
    - discriminate.
    - intros H. exfalso. apply H. reflexivity.
    - intros _ H. discriminate.
    - reflexivity.
  Qed.

  Lemma gunion_In : forall a b x, In x (gunion a b) <-> In x a \/ In x b.
  Proof.
    intros a b x. unfold gunion. rewrite in_app_iff, filter_In, negb_true_iff, gmem_false.
    split.
    - intros [H | [H _]]; auto.
    - intros [H | H]; auto.
      destruct (gmem x a) eqn:E.
      + left. apply gmem_In. exact E.
      + right. split; [exact H|]. apply gmem_false. exact E.
  Qed.

  Lemma ginter_In : forall a b x, In x (ginter a b) <-> In x a /\ In x b.
  Proof. intros a b x. unfold ginter. rewrite filter_In, gmem_In. reflexivity. Qed.

  Lemma gdiff_In : forall a b x, In x (gdiff a b) <-> In x a /\ ~ In x b.
  Proof. intros a b x. unfold gdiff. rewrite filter_In, negb_true_iff, gmem_false. reflexivity. Qed.

  Lemma gsubset_spec : forall a b, gsubset a b = true <-> (forall x, In x a -> In x b).
  Proof.
    intros a b. unfold gsubset. rewrite forallb_forall. split.
    - intros H x Hx. apply gmem_In. apply H. exact Hx.
    - intros H x Hx. apply gmem_In. apply H. exact Hx.
  Qed.

  Lemma gset_eqb_spec : forall a b, gset_eqb a b = true <-> (forall x, In x a <-> In x b).
  Proof.
    intros a b. unfold gset_eqb. rewrite andb_true_iff, !gsubset_spec. split.
    - intros [H1 H2] x. split; auto.
    - intros H. split; intros x Hx; apply H; exact Hx.
  Qed.

  Lemma NoDup_filter' : forall (f : A -> bool) l, NoDup l -> NoDup (filter f l).
  Proof.
    intros f l H. induction H as [| y t Hy Ht IH]; cbn [filter].
    - constructor.
    - destruct (f y).
      + constructor; [| exact IH]. intros Hin. apply filter_In in Hin. apply Hy. apply Hin.
      + exact IH.
  Qed.

  Lemma ginter_NoDup : forall a b, NoDup a -> NoDup (ginter a b).
  Proof. intros a b H. apply NoDup_filter'. exact H. Qed.

  Lemma gdiff_NoDup : forall a b, NoDup a -> NoDup (gdiff a b).
  Proof. intros a b H. apply NoDup_filter'. exact H. Qed.

  Lemma gunion_NoDup : forall a b, NoDup a -> NoDup b -> NoDup (gunion a b).
  Proof.
    intros a b Ha Hb. unfold gunion.
    assert (Hr : forall x, In x (filter (fun x => negb (gmem x a)) b) -> ~ In x a).
    { intros x Hx. apply filter_In in Hx. destruct Hx as [_ Hx].
      apply negb_true_iff, gmem_false in Hx. exact Hx. }
    assert (Hnd : NoDup (filter (fun x => negb (gmem x a)) b)) by (apply NoDup_filter'; exact Hb).
    revert Hr Hnd. generalize (filter (fun x => negb (gmem x a)) b) as r. intros r Hr Hnd.
    revert Hr. induction Ha as [| z a' Hz Ha' IH]; intros Hr; cbn [app].
    - exact Hnd.
    - constructor.
      + rewrite in_app_iff. intros [H | H]; [exact (Hz H)|]. apply (Hr z H). left. reflexivity.
      + apply IH. intros x Hx Hin. apply (Hr x Hx). right. exact Hin.
  Qed.
End GenericSets.

(* ====================================================================== *)
(* PART 3a / PART 4: membership lemmas for the Z-sets and label sets       *)
(* ====================================================================== *)
Lemma zmem_In : forall x l, zmem x l = true <-> In x l.
Proof. exact (gmem_In Z Z.eqb Z.eqb_eq). Qed.
Lemma zmem_false : forall x l, zmem x l = false <-> ~ In x l.
Proof. exact (gmem_false Z Z.eqb Z.eqb_eq). Qed.
Lemma zunion_In : forall a b x, In x (zunion a b) <-> In x a \/ In x b.
Proof. exact (gunion_In Z Z.eqb Z.eqb_eq). Qed.
Lemma zinter_In : forall a b x, In x (zinter a b) <-> In x a /\ In x b.
Proof. exact (ginter_In Z Z.eqb Z.eqb_eq). Qed.
Lemma zdiff_In : forall a b x, In x (zdiff a b) <-> In x a /\ ~ In x b.
Proof. exact (gdiff_In Z Z.eqb Z.eqb_eq). Qed.
Lemma zsubset_spec : forall a b, zsubset a b = true <-> (forall x, In x a -> In x b).
Proof. exact (gsubset_spec Z Z.eqb Z.eqb_eq). Qed.
Lemma zset_eqb_spec : forall a b, zset_eqb a b = true <-> (forall x, In x a <-> In x b).
Proof. exact (gset_eqb_spec Z Z.eqb Z.eqb_eq). Qed.
Lemma zunion_NoDup : forall a b, NoDup a -> NoDup b -> NoDup (zunion a b).
Proof. exact (gunion_NoDup Z Z.eqb Z.eqb_eq). Qed.
Lemma zinter_NoDup : forall a b, NoDup a -> NoDup (zinter a b).
Proof. exact (ginter_NoDup Z Z.eqb). Qed.
Lemma zdiff_NoDup : forall a b, NoDup a -> NoDup (zdiff a b).
Proof. exact (gdiff_NoDup Z Z.eqb). Qed.

Lemma smem_In : forall x l, smem x l = true <-> In x l.
Proof. exact (gmem_In string String.eqb String.eqb_eq). Qed.
Lemma smem_false : forall x l, smem x l = false <-> ~ In x l.
Proof. exact (gmem_false string String.eqb String.eqb_eq). Qed.
Lemma lunion_In : forall a b x, In x (lunion a b) <-> In x a \/ In x b.
Proof. exact (gunion_In string String.eqb String.eqb_eq). Qed.
Lemma linter_In : forall a b x, In x (linter a b) <-> In x a /\ In x b.
Proof. exact (ginter_In string String.eqb String.eqb_eq). Qed.
Lemma ldiff_In : forall a b x, In x (ldiff a b) <-> In x a /\ ~ In x b.
Proof. exact (gdiff_In string String.eqb String.eqb_eq). Qed.
Lemma lsubset_spec : forall a b, lsubset a b = true <-> (forall x, In x a -> In x b).
Proof. exact (gsubset_spec string String.eqb String.eqb_eq). Qed.
Lemma lset_eqb_spec : forall a b, lset_eqb a b = true <-> (forall x, In x a <-> In x b).
Proof. exact (gset_eqb_spec string String.eqb String.eqb_eq). Qed.
Lemma lunion_NoDup : forall a b, NoDup a -> NoDup b -> NoDup (lunion a b).
Proof. exact (gunion_NoDup string String.eqb String.eqb_eq). Qed.
Lemma linter_NoDup : forall a b, NoDup a -> NoDup (linter a b).
Proof. exact (ginter_NoDup string String.eqb). Qed.
Lemma ldiff_NoDup : forall a b, NoDup a -> NoDup (ldiff a b).
Proof. exact (gdiff_NoDup string String.eqb). Qed.

(* the model compares address sets with  lsubset a b && lsubset b a  (Domains.sset_seteqb) *)
Lemma lsubset_both_spec : forall a b : list string,
  lsubset a b && lsubset b a = true <-> (forall x, In x a <-> In x b).
Proof. exact (gset_eqb_spec string String.eqb String.eqb_eq). Qed.
Lemma sset_seteqb_spec : forall a b, sset_seteqb a b = true <-> (forall x, In x a <-> In x b).
Proof. exact (gset_eqb_spec string String.eqb String.eqb_eq). Qed.

(* ====================================================================== *)
(* PART 1: fee chain lattice                                               *)
(* ====================================================================== *)
Definition fee_gamma (v : feeval) (x : Z) : Prop :=
  if fee_unknown v then (x <= MAX_TRANSACTION_COSTz)%Z else (x <= fee_value v)%Z.
(* unknown is always built with the default value *)
Definition fee_wf (v : feeval) : Prop := fee_unknown v = true -> fee_value v = MAX_UINT64z.
Definition fee_leq (a b : feeval) : Prop := forall x, fee_gamma a x -> fee_gamma b x.

Ltac fee_crush :=
  repeat match goal with
  | |- context [Z.gtb ?a ?b] => destruct (Z.gtb_spec a b)
  | |- context [Z.ltb ?a ?b] => destruct (Z.ltb_spec a b)
  end; cbn [fee_unknown fee_value]; try lia.

Theorem fee_union_exact : forall a b x,
  fee_gamma (fee_union a b) x <-> fee_gamma a x \/ fee_gamma b x.
Proof.
  intros [ua va] [ub vb] x. unfold fee_union, fee_gamma. cbn [fee_unknown fee_value].
  destruct ua, ub; cbn [andb]; fee_crush.
Qed.
Print Assumptions fee_union_exact.

Theorem fee_intersection_exact : forall a b x,
  fee_gamma (fee_intersection a b) x <-> fee_gamma a x /\ fee_gamma b x.
Proof.
  intros [ua va] [ub vb] x. unfold fee_intersection, fee_gamma. cbn [fee_unknown fee_value].
  destruct ua, ub; cbn [andb]; fee_crush.
Qed.
Print Assumptions fee_intersection_exact.

Lemma fee_union_cases : forall a b, fee_union a b = a \/ fee_union a b = b.
Proof.
  intros [ua va] [ub vb]. unfold fee_union. cbn [fee_unknown fee_value].
  destruct ua, ub; cbn [andb];
    repeat match goal with |- context [Z.gtb ?a ?b] => destruct (Z.gtb a b) end; auto.
Qed.

Lemma fee_intersection_cases : forall a b, fee_intersection a b = a \/ fee_intersection a b = b.
Proof.
  intros [ua va] [ub vb]. unfold fee_intersection. cbn [fee_unknown fee_value].
  destruct ua, ub; cbn [andb];
    repeat match goal with
           | |- context [Z.gtb ?a ?b] => destruct (Z.gtb a b)
           | |- context [Z.ltb ?a ?b] => destruct (Z.ltb a b)
           end; auto.
Qed.

Lemma fee_union_wf : forall a b, fee_wf a -> fee_wf b -> fee_wf (fee_union a b).
Proof. intros a b Ha Hb. destruct (fee_union_cases a b) as [-> | ->]; assumption. Qed.

Lemma fee_intersection_wf : forall a b, fee_wf a -> fee_wf b -> fee_wf (fee_intersection a b).
Proof. intros a b Ha Hb. destruct (fee_intersection_cases a b) as [-> | ->]; assumption. Qed.

Lemma fee_universal_wf : fee_wf fee_universal_set.
Proof. unfold fee_wf, fee_universal_set. cbn [fee_unknown]. discriminate. Qed.
Lemma fee_null_wf : fee_wf fee_null_set.
Proof. unfold fee_wf, fee_null_set. cbn [fee_unknown]. discriminate. Qed.
Lemma fee_unknown_wf : fee_wf (mkFee true MAX_UINT64z).
Proof. unfold fee_wf. reflexivity. Qed.
Lemma fee_known_wf : forall k, fee_wf (mkFee false k).
Proof. unfold fee_wf. cbn [fee_unknown]. discriminate. Qed.

Lemma fee_universal_gamma : forall x, (x <= MAX_UINT64z)%Z -> fee_gamma fee_universal_set x.
Proof. intros x H. unfold fee_universal_set, fee_gamma. cbn [fee_unknown fee_value]. exact H. Qed.

Lemma fee_universal_gamma_iff : forall x, fee_gamma fee_universal_set x <-> (x <= MAX_UINT64z)%Z.
Proof. intros x. unfold fee_universal_set, fee_gamma. cbn [fee_unknown fee_value]. reflexivity. Qed.

(* null set is the bound 0: only fee 0 *)
Lemma fee_null_gamma : forall x, (0 <= x)%Z -> (fee_gamma fee_null_set x <-> x = 0%Z).
Proof. intros x H. unfold fee_null_set, fee_gamma. cbn [fee_unknown fee_value]. lia. Qed.

Lemma fee_known_gamma : forall k x, fee_gamma (mkFee false k) x <-> (x <= k)%Z.
Proof. intros. unfold fee_gamma. cbn [fee_unknown fee_value]. reflexivity. Qed.
Lemma fee_unknown_gamma : forall k x, fee_gamma (mkFee true k) x <-> (x <= MAX_TRANSACTION_COSTz)%Z.
Proof. intros. unfold fee_gamma. cbn [fee_unknown fee_value]. reflexivity. Qed.

Lemma feeval_eqb_spec : forall a b, feeval_eqb a b = true <-> a = b.
Proof.
  intros [ua va] [ub vb]. unfold feeval_eqb. cbn [fee_unknown fee_value].
  rewrite andb_true_iff, Bool.eqb_true_iff, Z.eqb_eq. split.
  - intros [-> ->]. reflexivity.
  - intros H. injection H as -> ->. split; reflexivity.
Qed.

Lemma feeval_eqb_refl : forall a, feeval_eqb a a = true.
Proof. intros a. apply feeval_eqb_spec. reflexivity. Qed.

(* preorder and lattice corollaries *)
Lemma fee_leq_refl : forall a, fee_leq a a.
Proof. intros a x H. exact H. Qed.
Lemma fee_leq_trans : forall a b c, fee_leq a b -> fee_leq b c -> fee_leq a c.
Proof. intros a b c H1 H2 x H. apply H2, H1, H. Qed.

Lemma fee_union_ub_l : forall a b, fee_leq a (fee_union a b).
Proof. intros a b x H. apply fee_union_exact. left. exact H. Qed.
Lemma fee_union_ub_r : forall a b, fee_leq b (fee_union a b).
Proof. intros a b x H. apply fee_union_exact. right. exact H. Qed.
Lemma fee_union_lub : forall a b c, fee_leq a c -> fee_leq b c -> fee_leq (fee_union a b) c.
Proof. intros a b c H1 H2 x H. apply fee_union_exact in H. destruct H; auto. Qed.
Lemma fee_intersection_lb_l : forall a b, fee_leq (fee_intersection a b) a.
Proof. intros a b x H. apply fee_intersection_exact in H. apply H. Qed.
Lemma fee_intersection_lb_r : forall a b, fee_leq (fee_intersection a b) b.
Proof. intros a b x H. apply fee_intersection_exact in H. apply H. Qed.
Lemma fee_intersection_glb : forall a b c, fee_leq c a -> fee_leq c b -> fee_leq c (fee_intersection a b).
Proof. intros a b c H1 H2 x H. apply fee_intersection_exact. split; auto. Qed.

Lemma fee_union_mono : forall a a' b b',
  fee_leq a a' -> fee_leq b b' -> fee_leq (fee_union a b) (fee_union a' b').
Proof.
  intros a a' b b' H1 H2 x H. apply fee_union_exact in H. apply fee_union_exact.
  destruct H; [left; apply H1 | right; apply H2]; assumption.
Qed.
Lemma fee_intersection_mono : forall a a' b b',
  fee_leq a a' -> fee_leq b b' -> fee_leq (fee_intersection a b) (fee_intersection a' b').
Proof.
  intros a a' b b' H1 H2 x H. apply fee_intersection_exact in H. apply fee_intersection_exact.
  destruct H; split; [apply H1 | apply H2]; assumption.
Qed.

Lemma fee_union_comm_gamma : forall a b x, fee_gamma (fee_union a b) x <-> fee_gamma (fee_union b a) x.
Proof. intros. rewrite !fee_union_exact. tauto. Qed.
Lemma fee_intersection_comm_gamma : forall a b x,
  fee_gamma (fee_intersection a b) x <-> fee_gamma (fee_intersection b a) x.
Proof. intros. rewrite !fee_intersection_exact. tauto. Qed.
Lemma fee_union_idem_gamma : forall a x, fee_gamma (fee_union a a) x <-> fee_gamma a x.
Proof. intros. rewrite fee_union_exact. tauto. Qed.
Lemma fee_intersection_idem_gamma : forall a x, fee_gamma (fee_intersection a a) x <-> fee_gamma a x.
Proof. intros. rewrite fee_intersection_exact. tauto. Qed.
Lemma fee_union_idem : forall a, fee_union a a = a.
Proof. intros a. destruct (fee_union_cases a a); assumption. Qed.
Lemma fee_intersection_idem : forall a, fee_intersection a a = a.
Proof. intros a. destruct (fee_intersection_cases a a); assumption. Qed.
Lemma fee_union_assoc_gamma : forall a b c x,
  fee_gamma (fee_union (fee_union a b) c) x <-> fee_gamma (fee_union a (fee_union b c)) x.
Proof. intros. rewrite !fee_union_exact. tauto. Qed.
Lemma fee_intersection_assoc_gamma : forall a b c x,
  fee_gamma (fee_intersection (fee_intersection a b) c) x <->
  fee_gamma (fee_intersection a (fee_intersection b c)) x.
Proof. intros. rewrite !fee_intersection_exact. tauto. Qed.
Lemma fee_absorb_union_gamma : forall a b x, fee_gamma (fee_union a (fee_intersection a b)) x <-> fee_gamma a x.
Proof. intros. rewrite fee_union_exact, fee_intersection_exact. tauto. Qed.
Lemma fee_absorb_inter_gamma : forall a b x, fee_gamma (fee_intersection a (fee_union a b)) x <-> fee_gamma a x.
Proof. intros. rewrite fee_intersection_exact, fee_union_exact. tauto. Qed.

(* ====================================================================== *)
(* PART 2: fee comparison table                                            *)
(* ====================================================================== *)
Definition cmp_holds (c : cmpop) (x k : Z) : bool :=
  match c with
  | CEq => Z.eqb x k | CNeq => negb (Z.eqb x k)
  | CLess => Z.ltb x k | CLessE => Z.leb x k
  | CGreater => Z.gtb x k | CGreaterE => Z.geb x k
  | COther => true
  end.

Ltac cmp_unfold :=
  unfold fee_get_asserted_max_value, cmp_holds, fee_gamma in *;
  cbn [is_Eq is_Neq is_Less is_LessE is_Greater is_GreaterE fst snd fee_unknown fee_value] in *.

Theorem fee_cmp_sound_true : forall c k x,
  c <> COther -> (0 <= k)%Z -> (0 <= x <= MAX_UINT64z)%Z ->
  cmp_holds c x k = true ->
  fee_gamma (fst (fee_get_asserted_max_value c (mkFee false k))) x.
Proof.
  intros c k x Hc Hk Hx H. destruct c; try congruence; cmp_unfold; lia.
Qed.
Print Assumptions fee_cmp_sound_true.

Theorem fee_cmp_sound_false : forall c k x,
  c <> COther -> (0 <= k)%Z -> (0 <= x <= MAX_UINT64z)%Z ->
  cmp_holds c x k = false ->
  fee_gamma (snd (fee_get_asserted_max_value c (mkFee false k))) x.
Proof.
  intros c k x Hc Hk Hx H. destruct c; try congruence; cmp_unfold; lia.
Qed.
Print Assumptions fee_cmp_sound_false.

(* the exact table for a known compared value *)
Definition fee_cmp_expected (c : cmpop) (k : Z) : feeval * feeval :=
  match c with
  | CEq | CLessE => (mkFee false k, fee_universal_set)
  | CLess => (mkFee false (Z.max 0 (k - 1)), fee_universal_set)
  | CNeq | CGreater => (fee_universal_set, mkFee false k)
  | CGreaterE => (fee_universal_set, mkFee false (Z.max 0 (k - 1)))
  | COther => (fee_universal_set, fee_universal_set)
  end.

Theorem fee_cmp_exact_bound : forall c k,
  fee_get_asserted_max_value c (mkFee false k) = fee_cmp_expected c k.
Proof. intros c k. destruct c; reflexivity. Qed.
Print Assumptions fee_cmp_exact_bound.

Lemma fee_cmp_eq_known : forall k,
  fee_get_asserted_max_value CEq (mkFee false k) = (mkFee false k, fee_universal_set).
Proof. reflexivity. Qed.
Lemma fee_cmp_neq_known : forall k,
  fee_get_asserted_max_value CNeq (mkFee false k) = (fee_universal_set, mkFee false k).
Proof. reflexivity. Qed.
Lemma fee_cmp_less_known : forall k,
  fee_get_asserted_max_value CLess (mkFee false k) = (mkFee false (Z.max 0 (k - 1)), fee_universal_set).
Proof. reflexivity. Qed.
Lemma fee_cmp_lesse_known : forall k,
  fee_get_asserted_max_value CLessE (mkFee false k) = (mkFee false k, fee_universal_set).
Proof. reflexivity. Qed.
Lemma fee_cmp_greater_known : forall k,
  fee_get_asserted_max_value CGreater (mkFee false k) = (fee_universal_set, mkFee false k).
Proof. reflexivity. Qed.
Lemma fee_cmp_greatere_known : forall k,
  fee_get_asserted_max_value CGreaterE (mkFee false k) = (fee_universal_set, mkFee false (Z.max 0 (k - 1))).
Proof. reflexivity. Qed.
Lemma fee_cmp_other : forall v,
  fee_get_asserted_max_value COther v = (fee_universal_set, fee_universal_set).
Proof. reflexivity. Qed.

(* side selector: true-branch result / false-branch result *)
Definition fee_side (side : bool) (r : feeval * feeval) : feeval := if side then fst r else snd r.

(* Tightness: whenever a side's result is a known non-universal bound b and the side's condition is
   satisfiable by some fee in range, then b satisfies the condition itself and every non-negative fee
   satisfying it is <= b: b is the maximum of the satisfying fees. *)
Theorem fee_cmp_tight : forall c k side b,
  c <> COther -> (0 <= k)%Z ->
  fee_side side (fee_get_asserted_max_value c (mkFee false k)) = mkFee false b ->
  mkFee false b <> fee_universal_set ->
  (exists x, (0 <= x <= MAX_UINT64z)%Z /\ cmp_holds c x k = side) ->
  (0 <= b)%Z /\ cmp_holds c b k = side /\
  (forall x, (0 <= x)%Z -> cmp_holds c x k = side -> (x <= b)%Z).
Proof.
  intros c k side b Hc Hk Hb Hnu [w [Hw Hs]].
  rewrite fee_cmp_exact_bound in Hb.
  destruct c; try congruence; destruct side;
    unfold fee_side, fee_cmp_expected, fee_universal_set in *; cbn [fst snd] in *;
    try (exfalso; apply Hnu; symmetry; exact Hb);
    injection Hb as Hb; subst b; unfold cmp_holds in *;
    (split; [lia | split; [lia | intros x Hx0 Hx; lia]]).
Qed.
Print Assumptions fee_cmp_tight.

(* the same without the satisfiability hypothesis: the bound satisfies the condition, or it is 0 *)
Theorem fee_cmp_tight_or0 : forall c k side b,
  c <> COther -> (0 <= k)%Z ->
  fee_side side (fee_get_asserted_max_value c (mkFee false k)) = mkFee false b ->
  mkFee false b <> fee_universal_set ->
  (cmp_holds c b k = side \/ b = 0%Z) /\
  (forall x, (0 <= x)%Z -> cmp_holds c x k = side -> (x <= b)%Z).
Proof.
  intros c k side b Hc Hk Hb Hnu.
  rewrite fee_cmp_exact_bound in Hb.
  destruct c; try congruence; destruct side;
    unfold fee_side, fee_cmp_expected, fee_universal_set in *; cbn [fst snd] in *;
    try (exfalso; apply Hnu; symmetry; exact Hb);
    injection Hb as Hb; subst b; unfold cmp_holds in *;
    (split; [lia | intros x Hx0 Hx; lia]).
Qed.

Lemma cmp_holds_mirror : forall c x k, cmp_holds (mirror c) x k = cmp_holds c k x.
Proof.
  intros c x k. destruct c; unfold mirror, cmp_holds.
  - apply Z.eqb_sym.
  - f_equal. apply Z.eqb_sym.
  - apply Z.gtb_ltb.
  - apply Z.geb_leb.
  - symmetry. apply Z.gtb_ltb.
  - symmetry. apply Z.geb_leb.
  - reflexivity.
Qed.

Lemma mirror_involutive : forall c, mirror (mirror c) = c.
Proof. destruct c; reflexivity. Qed.
Lemma mirror_other : forall c, mirror c = COther <-> c = COther.
Proof. destruct c; cbn; split; congruence. Qed.

(* compared value unknown *)
Definition fee_cmp_expected_unknown (c : cmpop) : feeval * feeval :=
  let unk := mkFee true MAX_UINT64z in
  match c with
  | CEq | CLess | CLessE => (unk, fee_universal_set)
  | CNeq | CGreater | CGreaterE => (fee_universal_set, unk)
  | COther => (fee_universal_set, fee_universal_set)
  end.

Lemma fee_cmp_unknown : forall c,
  fee_get_asserted_max_value c (mkFee true MAX_UINT64z) = fee_cmp_expected_unknown c.
Proof. intros c. destruct c; reflexivity. Qed.

Lemma fee_cmp_unknown_cases : forall c,
  let unk := mkFee true MAX_UINT64z in
  let r := fee_get_asserted_max_value c unk in
  r = (unk, fee_universal_set) \/ r = (fee_universal_set, unk) \/ r = (fee_universal_set, fee_universal_set).
Proof. intros c. destruct c; cbv zeta; rewrite fee_cmp_unknown; cbn; auto. Qed.

Lemma fee_cmp_wf : forall c v, fee_wf v ->
  fee_wf (fst (fee_get_asserted_max_value c v)) /\ fee_wf (snd (fee_get_asserted_max_value c v)).
Proof.
  intros c [u v] H. unfold fee_get_asserted_max_value.
  destruct c; cbn [is_Eq is_Neq is_Less is_LessE is_Greater is_GreaterE fee_unknown];
    try destruct u; cbn [fst snd]; split; try exact H; try apply fee_known_wf.
Qed.

(* ====================================================================== *)
(* PART 3: integer sets                                                    *)
(* ====================================================================== *)
Lemma zrange_In : forall a b x, In x (zrange a b) <-> (a <= x < b)%Z.
Proof.
  intros a b x. unfold zrange. rewrite in_map_iff. split.
  - intros [i [Hi Hin]]. apply in_seq in Hin. lia.
  - intros H. exists (Z.to_nat (x - a)). split; [lia|]. apply in_seq. lia.
Qed.

Lemma zrange_NoDup : forall a b, NoDup (zrange a b).
Proof.
  intros a b. unfold zrange. apply Injective_map_NoDup.
  - intros i j H. lia.
  - apply seq_NoDup.
Qed.

Lemma NoDup_zrange : forall a b, NoDup (zrange a b).
Proof. exact zrange_NoDup. Qed.

Lemma int_universal_groupsize_In : forall x, In x int_universal_groupsize <-> (1 <= x <= 16)%Z.
Proof.
  intros x. unfold int_universal_groupsize. rewrite zrange_In.
  replace (Z.of_N MAX_GROUP_SIZE) with 16%Z by reflexivity. lia.
Qed.
Lemma int_universal_groupindex_In : forall x, In x int_universal_groupindex <-> (0 <= x <= 15)%Z.
Proof.
  intros x. unfold int_universal_groupindex. rewrite zrange_In.
  replace (Z.of_N MAX_GROUP_SIZE) with 16%Z by reflexivity. lia.
Qed.
Lemma int_universal_groupsize_NoDup : NoDup int_universal_groupsize.
Proof. apply zrange_NoDup. Qed.
Lemma int_universal_groupindex_NoDup : NoDup int_universal_groupindex.
Proof. apply zrange_NoDup. Qed.

Lemma remove_first_incl : forall k l x, In x (remove_first k l) -> In x l.
Proof.
  intros k l x. induction l as [| y t IH]; cbn [remove_first]; [auto|].
  destruct (Z.eqb k y); cbn [In]; intros H; [right; exact H|].
  destruct H; [left; assumption | right; auto].
Qed.

Lemma remove_first_In_NoDup : forall k l x, NoDup l ->
  (In x (remove_first k l) <-> In x l /\ x <> k).
Proof.
  intros k l x H. induction H as [| y t Hy Ht IH]; cbn [remove_first].
  - cbn. tauto.
  - destruct (Z.eqb_spec k y) as [-> | Hne]; cbn [In].
    + split.
      * intros Hin. split; [right; exact Hin|]. intros ->. exact (Hy Hin).
      * intros [[Heq | Hin] Hx]; [congruence | exact Hin].
    + rewrite IH. split.
      * intros [Heq | [Hin Hx]]; [subst; split; auto; congruence | split; auto].
      * intros [[Heq | Hin] Hx]; [left; exact Heq | right; split; assumption].
Qed.

Lemma remove_first_NoDup : forall k l, NoDup l -> NoDup (remove_first k l).
Proof.
  intros k l H. induction H as [| y t Hy Ht IH]; cbn [remove_first].
  - constructor.
  - destruct (Z.eqb k y); [exact Ht|].
    constructor; [| exact IH]. intros Hin. apply Hy. eapply remove_first_incl. exact Hin.
Qed.

Ltac int_unfold :=
  unfold int_get_asserted_int_values, cmp_holds;
  cbn [is_Eq is_Neq is_Less is_LessE is_Greater is_GreaterE].

Theorem int_asserted_exact : forall c k U x,
  NoDup U -> c <> COther -> c <> CEq ->
  (In x (int_get_asserted_int_values c k U) <-> In x U /\ cmp_holds c x k = true).
Proof.
  intros c k U x HU Hc1 Hc2. destruct c; try congruence; int_unfold; cbv zeta.
  - rewrite (remove_first_In_NoDup k U x HU), negb_true_iff, Z.eqb_neq. reflexivity.
  - rewrite filter_In. reflexivity.
  - rewrite filter_In. reflexivity.
  - rewrite filter_In. reflexivity.
  - rewrite filter_In. reflexivity.
Qed.
Print Assumptions int_asserted_exact.

Lemma int_asserted_eq : forall k U, int_get_asserted_int_values CEq k U = [k].
Proof. reflexivity. Qed.

Lemma int_asserted_other : forall k U, int_get_asserted_int_values COther k U = U.
Proof. reflexivity. Qed.

(* for Eq the asserted set is {k} regardless of U; it is exact whenever k is in U *)
Lemma int_asserted_eq_In : forall k U x,
  In x (int_get_asserted_int_values CEq k U) <-> cmp_holds CEq x k = true.
Proof.
  intros k U x. rewrite int_asserted_eq. unfold cmp_holds. cbn [In]. rewrite Z.eqb_eq.
  split; [intros [H | []]; auto | intros H; left; auto].
Qed.

Lemma int_asserted_eq_refuted :
  exists k U x, In x (int_get_asserted_int_values CEq k U) /\ ~ In x U.
Proof.
  exists 0%Z, int_universal_groupsize, 0%Z. split.
  - left. reflexivity.
  - rewrite int_universal_groupsize_In. lia.
Qed.

Lemma int_asserted_incl : forall c k U x,
  c <> CEq -> In x (int_get_asserted_int_values c k U) -> In x U.
Proof.
  intros c k U x Hc. destruct c; try congruence; int_unfold; cbv zeta;
    try (intros H; apply filter_In in H; apply H).
  - apply remove_first_incl.
  - auto.
Qed.

Lemma int_asserted_NoDup : forall c k U, NoDup U -> NoDup (int_get_asserted_int_values c k U).
Proof.
  intros c k U HU. destruct c; int_unfold; cbv zeta;
    try (apply NoDup_filter'; exact HU).
  - constructor; [intros [] | constructor].
  - apply remove_first_NoDup. exact HU.
  - exact HU.
Qed.

(* false side:  U \ asserted  is exactly the members of U falsifying the comparison (CEq included) *)
Theorem int_asserted_false_exact : forall c k U x,
  NoDup U -> c <> COther ->
  (In x (zdiff U (int_get_asserted_int_values c k U)) <-> In x U /\ cmp_holds c x k = false).
Proof.
  intros c k U x HU Hc. rewrite zdiff_In.
  destruct c; try congruence.
  - rewrite int_asserted_eq_In. destruct (cmp_holds CEq x k); intuition congruence.
  - rewrite int_asserted_exact by (assumption || congruence).
    destruct (cmp_holds CNeq x k); intuition congruence.
  - rewrite int_asserted_exact by (assumption || congruence).
    destruct (cmp_holds CLess x k); intuition congruence.
  - rewrite int_asserted_exact by (assumption || congruence).
    destruct (cmp_holds CLessE x k); intuition congruence.
  - rewrite int_asserted_exact by (assumption || congruence).
    destruct (cmp_holds CGreater x k); intuition congruence.
  - rewrite int_asserted_exact by (assumption || congruence).
    destruct (cmp_holds CGreaterE x k); intuition congruence.
Qed.
Print Assumptions int_asserted_false_exact.

(* ====================================================================== *)
(* PART 5: string sets and address sets with markers                        *)
(* ====================================================================== *)
Lemma mem_any_string : forall (x : string) (s : list string), mem_any x s = smem x s.
Proof. reflexivity. Qed.
Lemma mem_any_Z : forall (x : Z) (l : list Z), mem_any x l = zmem x l.
Proof. reflexivity. Qed.

Lemma sset_insert_In : forall x s y, In y (sset_insert x s) <-> y = x \/ In y s.
Proof.
  intros x s y. induction s as [| z t IH]; cbn [sset_insert].
  - cbn. intuition congruence.
  - destruct (String.eqb_spec x z) as [-> | Hne].
    + cbn [In]. intuition congruence.
    + destruct (string_ltb x z); cbn [In].
      * intuition congruence.
      * rewrite IH. intuition congruence.
Qed.

Lemma set_of_list_In : forall l y, In y (set_of_list l) <-> In y l.
Proof.
  intros l y. unfold set_of_list. induction l as [| x t IH]; cbn [fold_right].
  - reflexivity.
  - rewrite sset_insert_In, IH. cbn [In]. intuition congruence.
Qed.

Lemma set_union_In : forall a b y, In y (set_union a b) <-> In y a \/ In y b.
Proof.
  intros a b y. unfold set_union. induction a as [| x t IH]; cbn [fold_right].
  - cbn. tauto.
  - rewrite sset_insert_In, IH. cbn [In]. intuition congruence.
Qed.

Lemma set_inter_In : forall a b y, In y (set_inter a b) <-> In y a /\ In y b.
Proof. intros a b y. unfold set_inter. rewrite filter_In, smem_In. reflexivity. Qed.

Lemma set_diff_In : forall a b y, In y (set_diff a b) <-> In y a /\ ~ In y b.
Proof. intros a b y. unfold set_diff. rewrite filter_In, negb_true_iff, smem_false. reflexivity. Qed.

Definition is_marker (s : string) : bool := String.eqb s ANY_ADDRESS || String.eqb s NO_ADDRESS.
(* never a mixture *)
Definition addr_wf (s : sset) : Prop :=
  s = addr_universal_set \/ s = addr_null_set \/ (forall x, In x s -> is_marker x = false).
(* a ranges over names of concrete non-zero addresses *)
Definition addr_gamma (s : sset) (a : string) : Prop :=
  is_marker a = false /\ (smem ANY_ADDRESS s = true \/ smem a s = true).

Lemma is_marker_true : forall n, is_marker n = true <-> n = ANY_ADDRESS \/ n = NO_ADDRESS.
Proof. intros n. unfold is_marker. rewrite orb_true_iff, !String.eqb_eq. reflexivity. Qed.
Lemma is_marker_false : forall n, is_marker n = false <-> n <> ANY_ADDRESS /\ n <> NO_ADDRESS.
Proof. intros n. unfold is_marker. rewrite orb_false_iff, !String.eqb_neq. reflexivity. Qed.

Lemma addr_universal_set_eq : addr_universal_set = [ANY_ADDRESS].
Proof. reflexivity. Qed.
Lemma addr_null_set_eq : addr_null_set = [NO_ADDRESS].
Proof. reflexivity. Qed.
Lemma ANY_neq_NO : ANY_ADDRESS <> NO_ADDRESS.
Proof. discriminate. Qed.

Lemma addr_universal_In : forall x, In x addr_universal_set <-> x = ANY_ADDRESS.
Proof. intros x. rewrite addr_universal_set_eq. cbn [In]. intuition congruence. Qed.
Lemma addr_null_In : forall x, In x addr_null_set <-> x = NO_ADDRESS.
Proof. intros x. rewrite addr_null_set_eq. cbn [In]. intuition congruence. Qed.

Lemma addr_universal_wf : addr_wf addr_universal_set.
Proof. left. reflexivity. Qed.
Lemma addr_null_wf : addr_wf addr_null_set.
Proof. right. left. reflexivity. Qed.
Lemma addr_plain_wf : forall s, (forall x, In x s -> is_marker x = false) -> addr_wf s.
Proof. intros s H. right. right. exact H. Qed.

Lemma addr_wf_ANY : forall s, addr_wf s -> smem ANY_ADDRESS s = true -> s = addr_universal_set.
Proof.
  intros s [-> | [-> | H]] Hm.
  - reflexivity.
  - apply smem_In, addr_null_In in Hm. exfalso. exact (ANY_neq_NO Hm).
  - apply smem_In, H in Hm. apply is_marker_false in Hm. exfalso. apply (proj1 Hm). reflexivity.
Qed.
Lemma addr_wf_NO : forall s, addr_wf s -> smem NO_ADDRESS s = true -> s = addr_null_set.
Proof.
  intros s [-> | [-> | H]] Hm.
  - apply smem_In, addr_universal_In in Hm. exfalso. apply ANY_neq_NO. symmetry. exact Hm.
  - reflexivity.
  - apply smem_In, H in Hm. apply is_marker_false in Hm. exfalso. apply (proj2 Hm). reflexivity.
Qed.

Lemma addr_gamma_marker : forall s n, addr_gamma s n -> is_marker n = false.
Proof. intros s n H. apply H. Qed.
Lemma addr_gamma_any : forall s n, smem ANY_ADDRESS s = true -> (addr_gamma s n <-> is_marker n = false).
Proof. intros s n H. unfold addr_gamma. rewrite H. tauto. Qed.
Lemma addr_gamma_noany : forall s n, smem ANY_ADDRESS s = false ->
  (addr_gamma s n <-> is_marker n = false /\ In n s).
Proof. intros s n H. unfold addr_gamma. rewrite H, smem_In. intuition congruence. Qed.

Lemma addr_universal_gamma : forall n, is_marker n = false -> addr_gamma addr_universal_set n.
Proof. intros n H. apply addr_gamma_any; [reflexivity | exact H]. Qed.

Lemma addr_null_gamma : forall n, ~ addr_gamma addr_null_set n.
Proof.
  intros n [Hm [H | H]].
  - apply smem_In, addr_null_In in H. exact (ANY_neq_NO H).
  - apply smem_In, addr_null_In in H. apply is_marker_false in Hm. exact (proj2 Hm H).
Qed.

Lemma smem_ANY_universal : smem ANY_ADDRESS addr_universal_set = true.
Proof. reflexivity. Qed.

Theorem addr_union_exact : forall a b, addr_wf a -> addr_wf b ->
  forall n, addr_gamma (addr_union a b) n <-> addr_gamma a n \/ addr_gamma b n.
Proof.
  intros a b Ha Hb n. unfold addr_union. change (@mem_any string Mem_string) with smem.
  destruct (smem ANY_ADDRESS a) eqn:Aa; [| destruct (smem ANY_ADDRESS b) eqn:Ab]; cbn [orb].
  - rewrite (addr_gamma_any _ n smem_ANY_universal), (addr_gamma_any a n Aa).
    split; [auto | intros [H | H]; [exact H | exact (addr_gamma_marker _ _ H)]].
  - rewrite (addr_gamma_any _ n smem_ANY_universal), (addr_gamma_any b n Ab).
    split; [auto | intros [H | H]; [exact (addr_gamma_marker _ _ H) | exact H]].
  - destruct (smem NO_ADDRESS a) eqn:Na; [| destruct (smem NO_ADDRESS b) eqn:Nb]; cbn [andb].
    + pose proof (addr_wf_NO a Ha Na) as Ea. subst a.
      destruct (smem NO_ADDRESS b) eqn:Nb.
      * pose proof (addr_wf_NO b Hb Nb) as Eb. subst b.
        split; [intros H; exfalso; exact (addr_null_gamma n H) | intros [H | H]; exact H].
      * split; [auto | intros [H | H]; [exfalso; exact (addr_null_gamma n H) | exact H]].
    + pose proof (addr_wf_NO b Hb Nb) as Eb. subst b.
      split; [auto | intros [H | H]; [exact H | exfalso; exact (addr_null_gamma n H)]].
    + assert (Au : smem ANY_ADDRESS (set_union a b) = false).
      { apply smem_false. rewrite set_union_In. apply smem_false in Aa, Ab. tauto. }
      rewrite (addr_gamma_noany _ n Au), (addr_gamma_noany a n Aa), (addr_gamma_noany b n Ab), set_union_In.
      tauto.
Qed.
Print Assumptions addr_union_exact.

Theorem addr_intersection_exact : forall a b, addr_wf a -> addr_wf b ->
  forall n, addr_gamma (addr_intersection a b) n <-> addr_gamma a n /\ addr_gamma b n.
Proof.
  intros a b Ha Hb n. unfold addr_intersection. change (@mem_any string Mem_string) with smem.
  destruct (smem NO_ADDRESS a) eqn:Na; [| destruct (smem NO_ADDRESS b) eqn:Nb]; cbn [orb].
  - pose proof (addr_wf_NO a Ha Na) as Ea. subst a.
    split; [intros H | intros [H _]]; exfalso; exact (addr_null_gamma n H).
  - pose proof (addr_wf_NO b Hb Nb) as Eb. subst b.
    split; [intros H | intros [_ H]]; exfalso; exact (addr_null_gamma n H).
  - destruct (smem ANY_ADDRESS a) eqn:Aa; destruct (smem ANY_ADDRESS b) eqn:Ab; cbn [andb].
    + rewrite (addr_gamma_any _ n smem_ANY_universal), (addr_gamma_any a n Aa), (addr_gamma_any b n Ab). tauto.
    + assert (Au : smem ANY_ADDRESS (set_of_list b) = false).
      { apply smem_false. rewrite set_of_list_In. apply smem_false in Ab. exact Ab. }
      rewrite (addr_gamma_noany _ n Au), (addr_gamma_any a n Aa), (addr_gamma_noany b n Ab), set_of_list_In.
      tauto.
    + assert (Au : smem ANY_ADDRESS (set_of_list a) = false).
      { apply smem_false. rewrite set_of_list_In. apply smem_false in Aa. exact Aa. }
      rewrite (addr_gamma_noany _ n Au), (addr_gamma_noany a n Aa), (addr_gamma_any b n Ab), set_of_list_In.
      tauto.
    + assert (Au : smem ANY_ADDRESS (set_inter a b) = false).
      { apply smem_false. rewrite set_inter_In. apply smem_false in Aa. tauto. }
      rewrite (addr_gamma_noany _ n Au), (addr_gamma_noany a n Aa), (addr_gamma_noany b n Ab), set_inter_In.
      tauto.
Qed.
Print Assumptions addr_intersection_exact.

Lemma no_markers_plain : forall s,
  smem ANY_ADDRESS s = false -> smem NO_ADDRESS s = false -> forall x, In x s -> is_marker x = false.
Proof.
  intros s Ha Hn x Hx. apply smem_false in Ha, Hn. apply is_marker_false.
  split; intros ->; auto.
Qed.

Theorem addr_union_wf : forall a b, addr_wf a -> addr_wf b -> addr_wf (addr_union a b).
Proof.
  intros a b Ha Hb. unfold addr_union. change (@mem_any string Mem_string) with smem.
  destruct (smem ANY_ADDRESS a) eqn:Aa; [| destruct (smem ANY_ADDRESS b) eqn:Ab]; cbn [orb];
    try apply addr_universal_wf.
  destruct (smem NO_ADDRESS a) eqn:Na; destruct (smem NO_ADDRESS b) eqn:Nb; cbn [andb];
    try apply addr_null_wf; try assumption.
  apply addr_plain_wf. intros x Hx. rewrite set_union_In in Hx.
  destruct Hx as [Hx | Hx]; [exact (no_markers_plain a Aa Na x Hx) | exact (no_markers_plain b Ab Nb x Hx)].
Qed.

Theorem addr_intersection_wf : forall a b, addr_wf a -> addr_wf b -> addr_wf (addr_intersection a b).
Proof.
  intros a b Ha Hb. unfold addr_intersection. change (@mem_any string Mem_string) with smem.
  destruct (smem NO_ADDRESS a) eqn:Na; [| destruct (smem NO_ADDRESS b) eqn:Nb]; cbn [orb];
    try apply addr_null_wf.
  destruct (smem ANY_ADDRESS a) eqn:Aa; destruct (smem ANY_ADDRESS b) eqn:Ab; cbn [andb];
    try apply addr_universal_wf.
  - apply addr_plain_wf. intros x Hx. rewrite set_of_list_In in Hx. exact (no_markers_plain b Ab Nb x Hx).
  - apply addr_plain_wf. intros x Hx. rewrite set_of_list_In in Hx. exact (no_markers_plain a Aa Na x Hx).
  - apply addr_plain_wf. intros x Hx. rewrite set_inter_In in Hx. exact (no_markers_plain a Aa Na x (proj1 Hx)).
Qed.

(* without well-formedness the intersection is not exact: a mixture of NO_ADDRESS and a concrete name *)
Lemma addr_intersection_exact_nowf_refuted :
  exists a b n, (addr_gamma a n /\ addr_gamma b n) /\ ~ addr_gamma (addr_intersection a b) n.
Proof.
  exists [NO_ADDRESS; "X"%string], ["X"%string], "X"%string. split.
  - split; (split; [reflexivity | right; reflexivity]).
  - change (addr_intersection [NO_ADDRESS; "X"%string] ["X"%string]) with addr_null_set.
    apply addr_null_gamma.
Qed.
