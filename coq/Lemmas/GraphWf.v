(* Executable well-formedness check for function graphs, and its reflection into the graph hypotheses
   of Lemmas/SolverLemmas.v (cover_prev_P, cover_ret_P, cover_next_P, cover_call_P, worklist coverage). *)
From Coq Require Import String List NArith ZArith Bool Ascii Arith Lia.
From Tealer Require Import Tables Syntax Parse Cfg StackAst Keys Analysis Domains Detect CfgLemmas SolverLemmas SubLemmas.
Import ListNotations.
Close Scope string_scope.
Open Scope nat_scope.
Open Scope list_scope.

(* ================================================================== boolean checks *)
Definition onat_eqb (o : option nat) (n : nat) : bool :=
  match o with Some m => Nat.eqb m n | None => false end.

Fixpoint nodupb (l : list nat) : bool :=
  match l with [] => true | x :: t => negb (nat_mem x t) && nodupb t end.

(* every global predecessor b of x has x among its global successors *)
Definition cover_prev_b (f : func) : bool :=
  forallb (fun xb =>
    match prev_global f xb with
    | None => true
    | Some ps =>
        forallb (fun b => match fblock f b with
                          | Some bb => match next_global f bb with
                                       | Some nx => nat_mem (b_idx xb) nx
                                       | None => false end
                          | None => false end) ps
    end) (fn_blocks f).

(* the callsub block found for a return point is a callsub block returning to it *)
Definition cover_ret_b (f : func) : bool :=
  forallb (fun xb =>
    if is_sub_return_point f xb then
      match callsub_block_of f xb with
      | None => true
      | Some c => match fblock f c with
                  | Some cb => f_is_callsub f cb && onat_eqb (sub_return_point cb) (b_idx xb)
                  | None => false end
      end
    else true) (fn_blocks f).

(* every global successor b of a non-leaf x has x among its global predecessors *)
Definition cover_next_b (f : func) : bool :=
  forallb (fun xb =>
    if leaf_global f xb then true else
    match next_global f xb with
    | None => true
    | Some nx =>
        forallb (fun b => match fblock f b with
                          | Some bb => match prev_global f bb with
                                       | Some ps => nat_mem (b_idx xb) ps
                                       | None => false end
                          | None => false end) nx
    end) (fn_blocks f).

(* the return point of a callsub block (whose callee has retsub blocks) finds that callsub block *)
Definition cover_call_b (f : func) : bool :=
  forallb (fun xb =>
    match fexit_op f xb, sub_return_point xb with
    | Some (ICallsub l), Some r =>
        match f_find_sub f l with
        | None => true
        | Some s =>
            match sub_retsub_blocks f s with
            | [] => true
            | _ => match fblock f r with
                   | Some rb => is_sub_return_point f rb && onat_eqb (callsub_block_of f rb) (b_idx xb)
                   | None => false end
            end
        end
    | _, _ => true
    end) (fn_blocks f).

Definition fwd_cover_b (f : func) : bool :=
  forallb (fun b => nat_mem (b_idx b) (forward_worklist f)) (fn_blocks f).

Definition bwd_cover_b (f : func) : bool :=
  forallb (fun b => leaf_global f b || nat_mem (b_idx b) (backward_worklist f)) (fn_blocks f).

Definition ids_nodup_b (f : func) : bool := nodupb (map b_idx (fn_blocks f)).
Definition next_nodup_b (f : func) : bool := forallb (fun b => nodupb (b_next b)) (fn_blocks f).

Definition graph_wf (f : func) : bool :=
  cover_prev_b f && cover_ret_b f && cover_next_b f && cover_call_b f &&
  fwd_cover_b f && bwd_cover_b f && ids_nodup_b f && next_nodup_b f.

(* ================================================================== soundness of the checks *)
Lemma onat_eqb_eq o n : onat_eqb o n = true -> o = Some n.
Proof. destruct o as [m|]; simpl; [|discriminate]. intros H. apply Nat.eqb_eq in H. congruence. Qed.

Lemma nodupb_sound l : nodupb l = true -> NoDup l.
Proof.
  induction l as [|x l IH]; simpl; intros H; [constructor|].
  apply andb_true_iff in H. destruct H as [H1 H2]. constructor; [|apply IH; assumption].
  intro Hin. apply nat_mem_In in Hin. rewrite Hin in H1. discriminate.
Qed.

Lemma nodupb_complete l : NoDup l -> nodupb l = true.
Proof.
  induction 1 as [|x l Hn Hnd IH]; simpl; [reflexivity|]. rewrite IH, andb_true_r.
  destruct (nat_mem x l) eqn:E; [|reflexivity]. apply nat_mem_In in E. contradiction.
Qed.

Lemma cover_prev_sound f : cover_prev_b f = true -> cover_prev_P f.
Proof.
  unfold cover_prev_b, cover_prev_P. intros H b x xb ps Hx Hps Hin.
  rewrite forallb_forall in H. specialize (H xb (fblock_In f x xb Hx)). rewrite Hps in H.
  rewrite forallb_forall in H. specialize (H b Hin).
  destruct (fblock f b) as [bb|]; [|discriminate]. destruct (next_global f bb) as [nx|] eqn:E2; [|discriminate].
  exists bb, nx. split; [reflexivity|]. split; [exact E2|].
  apply nat_mem_In. rewrite (fblock_idx f x xb Hx) in H. exact H.
Qed.

Lemma cover_ret_sound f : cover_ret_b f = true -> cover_ret_P f.
Proof.
  unfold cover_ret_b, cover_ret_P. intros H x xb c Hx Hrp Hc.
  rewrite forallb_forall in H. specialize (H xb (fblock_In f x xb Hx)). rewrite Hrp, Hc in H.
  destruct (fblock f c) as [cb|]; [|discriminate]. apply andb_true_iff in H. destruct H as [H1 H2].
  exists cb. split; [reflexivity|]. split; [assumption|].
  apply onat_eqb_eq in H2. rewrite (fblock_idx f x xb Hx) in H2. exact H2.
Qed.

Lemma cover_next_sound f : cover_next_b f = true -> cover_next_P f.
Proof.
  unfold cover_next_b, cover_next_P. intros H b x xb nx Hx Hleaf Hnx Hin.
  rewrite forallb_forall in H. specialize (H xb (fblock_In f x xb Hx)). rewrite Hleaf, Hnx in H.
  rewrite forallb_forall in H. specialize (H b Hin).
  destruct (fblock f b) as [bb|]; [|discriminate]. destruct (prev_global f bb) as [ps|] eqn:E2; [|discriminate].
  exists bb, ps. split; [reflexivity|]. split; [exact E2|].
  apply nat_mem_In. rewrite (fblock_idx f x xb Hx) in H. exact H.
Qed.

Lemma cover_call_sound f : cover_call_b f = true -> cover_call_P f.
Proof.
  unfold cover_call_b, cover_call_P. intros H x xb l r s Hx Hop Hr Hs Hne.
  rewrite forallb_forall in H. specialize (H xb (fblock_In f x xb Hx)). rewrite Hop, Hr, Hs in H.
  destruct (sub_retsub_blocks f s) as [|r0 rs]; [congruence|].
  destruct (fblock f r) as [rb|]; [|discriminate]. apply andb_true_iff in H. destruct H as [H1 H2].
  exists rb. split; [reflexivity|]. split; [assumption|].
  apply onat_eqb_eq in H2. rewrite (fblock_idx f x xb Hx) in H2. exact H2.
Qed.

Lemma fwd_cover_sound f : fwd_cover_b f = true ->
  forall b, In b (map b_idx (fn_blocks f)) -> In b (forward_worklist f).
Proof.
  unfold fwd_cover_b. intros H b Hb. rewrite forallb_forall in H.
  apply in_map_iff in Hb. destruct Hb as (xb & <- & Hin). apply nat_mem_In. apply H. assumption.
Qed.

Lemma bwd_cover_sound f : bwd_cover_b f = true ->
  forall b xb, fblock f b = Some xb -> leaf_global f xb = false -> In b (backward_worklist f).
Proof.
  unfold bwd_cover_b. intros H b xb Hx Hleaf. rewrite forallb_forall in H.
  specialize (H xb (fblock_In f b xb Hx)). rewrite Hleaf in H. simpl in H.
  apply nat_mem_In. rewrite (fblock_idx f b xb Hx) in H. exact H.
Qed.

Lemma ids_nodup_sound f : ids_nodup_b f = true -> NoDup (map b_idx (fn_blocks f)).
Proof. apply nodupb_sound. Qed.

Lemma next_nodup_sound f : next_nodup_b f = true -> forall n b, fblock f n = Some b -> NoDup (b_next b).
Proof.
  unfold next_nodup_b. intros H n b Hb. rewrite forallb_forall in H.
  apply nodupb_sound. apply H. eapply fblock_In; eauto.
Qed.

Theorem graph_wf_sound f :
  graph_wf f = true ->
  cover_prev_P f /\ cover_ret_P f /\ cover_next_P f /\ cover_call_P f /\
  (forall b, In b (map b_idx (fn_blocks f)) -> In b (forward_worklist f)) /\
  (forall b xb, fblock f b = Some xb -> leaf_global f xb = false -> In b (backward_worklist f)) /\
  NoDup (map b_idx (fn_blocks f)) /\
  (forall n b, fblock f n = Some b -> NoDup (b_next b)).
Proof.
  unfold graph_wf. rewrite !andb_true_iff.
  intros [[[[[[[H1 H2] H3] H4] H5] H6] H7] H8].
  split; [apply cover_prev_sound; assumption|].
  split; [apply cover_ret_sound; assumption|].
  split; [apply cover_next_sound; assumption|].
  split; [apply cover_call_sound; assumption|].
  split; [apply fwd_cover_sound; assumption|].
  split; [apply bwd_cover_sound; assumption|].
  split; [apply ids_nodup_sound; assumption | apply next_nodup_sound; assumption].
Qed.

Print Assumptions graph_wf_sound.

(* ================================================================== examples *)
Definition nl : string := String (ascii_of_nat 10) EmptyString.
Definition unlines (ls : list string) : string := String.concat nl ls.

Definition func_of_lines (ls : list string) : option func :=
  match parse_program (unlines ls) with
  | Ok p => match parse_teal p with Ok t => Some (whole_function t) | Err _ => None end
  | Err _ => None
  end.

Open Scope string_scope.
Definition ex_good : list string :=
  ["#pragma version 6"; "txn RekeyTo"; "global ZeroAddress"; "=="; "bz skip"; "callsub f"; "int 1"; "pop";
   "skip:"; "int 1"; "return"; "f:"; "int 1"; "assert"; "retsub"].
Definition ex_bad : list string :=
  ["txn RekeyTo"; "global ZeroAddress"; "=="; "bz skip"; "callsub f"; "skip:"; "int 1"; "return";
   "f:"; "int 1"; "assert"; "retsub"].
Close Scope string_scope.


(* one subroutine, called once, return point not a jump target: the check succeeds *)
Example graph_wf_good : option_map graph_wf (func_of_lines ex_good) = Some true.
Proof. vm_compute. reflexivity. Qed.

(* the return point "skip:" (directly after the callsub) is also the target of the bz: the check fails
   (cover_next: block 0 jumps to the return point, whose global predecessors are the callee's retsub blocks) *)
Example graph_wf_bad : option_map graph_wf (func_of_lines ex_bad) = Some false.
Proof. vm_compute. reflexivity. Qed.
Example graph_wf_bad_reason :
  option_map (fun f => (cover_prev_b f, cover_ret_b f, cover_next_b f, cover_call_b f))
             (func_of_lines ex_bad) = Some (true, true, false, true).
Proof. vm_compute. reflexivity. Qed.

(* ================================================================== stretch: worklists of a closed graph *)
(* local successors as the postorder DFS reads them *)
Definition fsuccs (f : func) (n : nat) : list nat :=
  match fblock f n with Some b => b_next b | None => [] end.

Inductive FReach (f : func) (e : nat) : nat -> Prop :=
| FReach_refl : FReach f e e
| FReach_step x y : FReach f e x -> In y (fsuccs f x) -> FReach f e y.

Definition po_step (fu : nat) (f : func) : list nat * list nat -> nat -> list nat * list nat :=
  fun '(v, o) s => if nat_mem s v then (v, o) else postorder_dfs fu f s v o.

Lemma postorder_dfs_S fu f n visited order :
  postorder_dfs (S fu) f n visited order =
  let '(v2, o2) := fold_left (po_step fu f) (fsuccs f n) (n :: visited, order) in (v2, o2 ++ [n]).
Proof. reflexivity. Qed.

(* number of (occurrences of) universe elements not yet visited *)
Definition unv (U visited : list nat) : nat :=
  length (filter (fun x => negb (nat_mem x visited)) U).

Lemma unv_mono U v v' : incl v v' -> unv U v' <= unv U v.
Proof.
  intros Hi. unfold unv. induction U as [|a U IH]; simpl; [lia|].
  destruct (nat_mem a v') eqn:E'; destruct (nat_mem a v) eqn:E; simpl; try lia.
  apply nat_mem_In in E. apply Hi in E. apply nat_mem_In in E. congruence.
Qed.

Lemma unv_lt U v n : In n U -> ~ In n v -> unv U (n :: v) < unv U v.
Proof.
  intros Hin Hn. unfold unv. induction U as [|a U IH]; [destruct Hin|].
  assert (Hle : length (filter (fun x => negb (nat_mem x (n :: v))) U) <=
                length (filter (fun x => negb (nat_mem x v)) U)).
  { apply (unv_mono U v (n :: v)). intros x Hx. right; assumption. }
  cbn [filter]. destruct Hin as [->|Hin].
  - assert (E1 : nat_mem n (n :: v) = true) by (apply nat_mem_In; left; reflexivity).
    assert (E2 : nat_mem n v = false).
    { destruct (nat_mem n v) eqn:E; [|reflexivity]. apply nat_mem_In in E. contradiction. }
    rewrite E1, E2. cbn [negb length]. lia.
  - specialize (IH Hin).
    destruct (nat_mem a (n :: v)) eqn:E'; destruct (nat_mem a v) eqn:E; cbn [negb length]; try lia.
    exfalso. apply nat_mem_In in E. assert (In a (n :: v)) by (right; assumption).
    apply nat_mem_In in H. congruence.
Qed.

Section Postorder.
  Variable f : func.
  Variable U : list nat.
  Hypothesis U_closed : forall n y, In y (fsuccs f n) -> In y U.

  (* result (v', o') of a call or of a fold started from (v, o) *)
  Definition po_rel (v o v' o' : list nat) : Prop :=
    incl v v' /\
    (forall x, In x v' -> ~ In x v -> forall y, In y (fsuccs f x) -> In y v') /\
    (forall x, In x o' <-> In x o \/ (In x v' /\ ~ In x v)).

  Lemma po_rel_refl v o : po_rel v o v o.
  Proof.
    split; [apply incl_refl|]. split; [intros x H1 H2; contradiction|].
    intros x. split; [tauto | intros [H|[H1 H2]]; [assumption | contradiction]].
  Qed.

  Lemma po_rel_trans v0 o0 v1 o1 v2 o2 : po_rel v0 o0 v1 o1 -> po_rel v1 o1 v2 o2 -> po_rel v0 o0 v2 o2.
  Proof.
    intros (I1 & C1 & O1) (I2 & C2 & O2). split; [eapply incl_tran; eauto|]. split.
    - intros x Hx Hn y Hy. destruct (in_dec Nat.eq_dec x v1) as [H1|H1].
      + apply I2. eapply C1; eauto.
      + eapply C2; eauto.
    - intros x. rewrite O2, O1. split.
      + intros [[H|[H1 H2]]|[H1 H2]]; [tauto | right; split; auto | right; split; auto].
      + intros [H|[H1 H2]]; [tauto|]. destruct (in_dec Nat.eq_dec x v1) as [H3|H3]; [left; right; auto | right; auto].
  Qed.

  Lemma po_call : forall fuel n visited order,
    In n U -> ~ In n visited -> unv U visited < fuel ->
    forall v' o', postorder_dfs fuel f n visited order = (v', o') ->
    po_rel visited order v' o' /\ In n v'.
  Proof.
    induction fuel as [|fu IH]; intros n visited order HnU Hnv Hfuel v' o' Hrun; [lia|].
    rewrite postorder_dfs_S in Hrun.
    (* the fold over the successors *)
    assert (Hfold : forall l v o v2 o2,
              incl l U -> incl (n :: visited) v ->
              fold_left (po_step fu f) l (v, o) = (v2, o2) ->
              po_rel v o v2 o2 /\ incl l v2).
    { induction l as [|s l IHl]; intros v o v2 o2 HlU Hv Hf.
      - simpl in Hf. inversion Hf; subst. split; [apply po_rel_refl | intros x []].
      - cbn [fold_left] in Hf. unfold po_step at 2 in Hf.
        assert (HlU' : incl l U) by (intros x Hx; apply HlU; right; assumption).
        destruct (nat_mem s v) eqn:Es.
        + apply nat_mem_In in Es. destruct (IHl v o v2 o2 HlU' Hv Hf) as [HR Hl]. split; [assumption|].
          intros x [<-|Hx]; [apply (proj1 HR); assumption | apply Hl; assumption].
        + assert (Hsv : ~ In s v) by (intro H; apply nat_mem_In in H; congruence).
          destruct (postorder_dfs fu f s v o) as [v1 o1] eqn:Ecall.
          assert (Hfu : unv U v < fu).
          { pose proof (unv_mono U _ _ Hv). pose proof (unv_lt U visited n HnU Hnv). lia. }
          destruct (IH s v o (HlU s (or_introl eq_refl)) Hsv Hfu v1 o1 Ecall) as [HR1 Hs1].
          assert (Hv1 : incl (n :: visited) v1) by (eapply incl_tran; [exact Hv | apply (proj1 HR1)]).
          destruct (IHl v1 o1 v2 o2 HlU' Hv1 Hf) as [HR2 Hl]. split; [eapply po_rel_trans; eauto|].
          intros x [<-|Hx]; [apply (proj1 HR2); assumption | apply Hl; assumption]. }
    destruct (fold_left (po_step fu f) (fsuccs f n) (n :: visited, order)) as [v2 o2] eqn:Ef.
    inversion Hrun; subst v' o'; clear Hrun.
    destruct (Hfold _ _ _ _ _ (fun y Hy => U_closed n y Hy) (incl_refl _) Ef) as [(I & C & O) Hl].
    assert (Hn2 : In n v2) by (apply I; left; reflexivity).
    split; [|assumption]. split; [|split].
    - intros x Hx. apply I. right; assumption.
    - intros x Hx Hnx y Hy. destruct (Nat.eq_dec x n) as [->|Hne].
      + apply Hl. assumption.
      + apply (C x Hx); [|assumption]. intros [H|H]; [congruence | contradiction].
    - intros x. rewrite in_app_iff, O. simpl. split.
      + intros [[H|[H1 H2]]|[<-|[]]]; [tauto | right; split; tauto | right; split; assumption].
      + intros [H|[H1 H2]]; [tauto|]. destruct (Nat.eq_dec n x) as [E|E]; [right; left; assumption|].
        left. right. split; [assumption|]. intros [H|H]; [congruence | contradiction].
  Qed.

  Theorem postorder_complete e x :
    U = map b_idx (fn_blocks f) -> In e U -> FReach f e x -> In x (postorder f e).
  Proof.
    intros HU He Hr. unfold postorder.
    destruct (postorder_dfs (S (length (fn_blocks f))) f e [] []) as [v' o'] eqn:Erun.
    assert (Hfuel : unv U [] < S (length (fn_blocks f))).
    { assert (Hall : forall l : list nat, filter (fun x => negb (nat_mem x [])) l = l).
      { induction l; simpl in *; congruence. }
      unfold unv. rewrite Hall, HU, map_length. lia. }
    destruct (po_call _ e [] [] He (fun H => H) Hfuel v' o' Erun) as [(I & C & O) Hev].
    simpl. apply O. right. split; [|intros []].
    induction Hr; [assumption|]. eapply C; eauto.
  Qed.
End Postorder.

(* ================================================================== stretch: the whole-contract function *)
Definition dedup_s (l : list string) : list string := dedup_first l.
Definition wf_direct (t : teal) : list string := dedup_s (called_from t (s_blocks (t_main t))).
Definition wf_used (t : teal) : list string :=
  used_subs (S (length (t_subs t))) t (wf_direct t) (wf_direct t).
Definition wf_subs (t : teal) : list subroutine :=
  flat_map (fun n => match find_sub t n with Some s => [s] | None => [] end) (wf_used t).
Definition wf_ids (t : teal) : list nat := s_blocks (t_main t) ++ flat_map s_blocks (wf_subs t).
Definition lookup_blocks (t : teal) (ids : list nat) : list block :=
  flat_map (fun n => match tblock t n with Some b => [b] | None => [] end) ids.

Lemma whole_function_eq t :
  whole_function t =
  mkFunc (t_prog t) (lookup_blocks t (wf_ids t)) 0 (s_blocks (t_main t)) (wf_subs t) (t_subs t) (t_intcs t).
Proof. reflexivity. Qed.

Lemma find_sub_some t n s : find_sub t n = Some s -> In s (t_subs t) /\ s_name s = n.
Proof.
  unfold find_sub. intros H. apply find_some in H. destruct H as [H1 H2].
  apply String.eqb_eq in H2. auto.
Qed.

Lemma wf_subs_In t s : In s (wf_subs t) <-> exists n, In n (wf_used t) /\ find_sub t n = Some s.
Proof.
  unfold wf_subs. rewrite in_flat_map. split.
  - intros (n & Hn & Hs). exists n. split; [assumption|].
    destruct (find_sub t n) as [s'|]; [|destruct Hs]. destruct Hs as [->|[]]. reflexivity.
  - intros (n & Hn & Hs). exists n. split; [assumption|]. rewrite Hs. left; reflexivity.
Qed.

Lemma wf_subs_sub t s : In s (wf_subs t) -> In s (t_subs t).
Proof. intros H. apply wf_subs_In in H. destruct H as (n & _ & H). apply find_sub_some in H. tauto. Qed.

Lemma wf_ids_In t n :
  In n (wf_ids t) <-> In n (s_blocks (t_main t)) \/ exists s, In s (wf_subs t) /\ In n (s_blocks s).
Proof. unfold wf_ids. rewrite in_app_iff, in_flat_map. tauto. Qed.

(* ================================================================== stretch: the used-subroutine closure *)
Lemma smem_In x l : LeafPrelude.smem x l = true <-> In x l.
Proof.
  unfold LeafPrelude.smem. rewrite existsb_exists. split.
  - intros (y & Hy & He). apply String.eqb_eq in He. subst; assumption.
  - intros H. exists x. split; [assumption | apply String.eqb_refl].
Qed.

Lemma dedup_s_In l x : In x (dedup_s l) <-> In x l.
Proof.
  unfold dedup_s. induction l as [|a l IH]; cbn [dedup_first]; [tauto|].
  cbn [In]. rewrite filter_In, IH. split.
  - intros [H|[H _]]; tauto.
  - intros [H|H]; [left; assumption|]. destruct (string_dec a x) as [E|E]; [left; assumption|].
    right. split; [assumption|]. apply (proj2 (String.eqb_neq a x)) in E. rewrite E. reflexivity.
Qed.

Lemma dedup_s_NoDup l : NoDup (dedup_s l).
Proof.
  unfold dedup_s. induction l as [|a l IH]; cbn [dedup_first]; [constructor|].
  constructor; [|apply NoDup_filter; assumption].
  rewrite filter_In. intros [_ H]. rewrite String.eqb_refl in H. discriminate.
Qed.

Definition callees (t : teal) (u : string) : list string :=
  match find_sub t u with Some sb => called_from t (s_blocks sb) | None => [] end.

Definition new_callees (t : teal) (acc : list string) (u : string) : list string :=
  dedup_s (filter (fun c => negb (LeafPrelude.smem c acc)) (callees t u)).

Lemma used_subs_S fu t s w acc :
  used_subs (S fu) t (s :: w) acc = used_subs fu t (w ++ new_callees t acc s) (acc ++ new_callees t acc s).
Proof. reflexivity. Qed.

Lemma new_callees_In t acc u x : In x (new_callees t acc u) <-> In x (callees t u) /\ ~ In x acc.
Proof.
  unfold new_callees. rewrite dedup_s_In, filter_In. split; intros [H1 H2]; split; auto.
  - intro H. apply smem_In in H. rewrite H in H2. discriminate.
  - destruct (LeafPrelude.smem x acc) eqn:E; [|reflexivity]. apply smem_In in E. contradiction.
Qed.

Lemma NoDup_app_intro {A} (l1 l2 : list A) :
  NoDup l1 -> NoDup l2 -> (forall x, In x l1 -> In x l2 -> False) -> NoDup (l1 ++ l2).
Proof.
  induction l1 as [|a l1 IH]; intros H1 H2 Hd; [assumption|].
  simpl. apply NoDup_cons_iff in H1. destruct H1 as [Ha H1]. constructor.
  - rewrite in_app_iff. intros [H|H]; [contradiction | apply (Hd a); [left; reflexivity | assumption]].
  - apply IH; try assumption. intros x Hx1 Hx2. apply (Hd x); [right; assumption | assumption].
Qed.

Lemma used_subs_spec t (names : list string) :
  (forall u x, In x (callees t u) -> In x names) ->
  forall fuel work acc,
    NoDup acc -> incl work acc -> incl acc names ->
    (forall u, In u acc -> ~ In u work -> incl (callees t u) acc) ->
    length work + length names < fuel + length acc ->
    let r := used_subs fuel t work acc in
    NoDup r /\ incl acc r /\ (forall u, In u r -> incl (callees t u) r).
Proof.
  intros Hnames. induction fuel as [|fu IH]; intros work acc Hnd Hw Hacc Hclosed Hfuel.
  - exfalso. pose proof (NoDup_incl_length Hnd Hacc). simpl in Hfuel. lia.
  - destruct work as [|s w].
    + simpl. split; [assumption|]. split; [apply incl_refl|]. intros u Hu. apply Hclosed; [assumption | intros []].
    + rewrite used_subs_S. set (new := new_callees t acc s).
      assert (Hnew : forall x, In x new <-> In x (callees t s) /\ ~ In x acc) by (intros x; apply new_callees_In).
      destruct (IH (w ++ new) (acc ++ new)) as (R1 & R2 & R3).
      * apply NoDup_app_intro; [assumption | apply dedup_s_NoDup|].
        intros x H1 H2. apply Hnew in H2. tauto.
      * intros x Hx. apply in_app_iff in Hx. apply in_or_app. destruct Hx as [Hx|Hx]; [left; apply Hw; right; assumption | right; assumption].
      * intros x Hx. apply in_app_iff in Hx. destruct Hx as [Hx|Hx]; [apply Hacc; assumption|].
        apply Hnew in Hx. eapply Hnames. apply Hx.
      * intros u Hu Hnw x Hx. rewrite in_app_iff in Hu, Hnw. apply in_or_app.
        destruct Hu as [Hu|Hu]; [|tauto].
        destruct (in_dec string_dec x acc) as [Hxa|Hxa]; [left; assumption|].
        destruct (string_dec u s) as [->|Hne].
        -- right. apply Hnew. auto.
        -- left. apply (Hclosed u Hu); [|assumption]. intros [E|Hin]; [congruence | tauto].
      * rewrite !app_length. simpl in Hfuel. lia.
      * split; [assumption|]. split; [|assumption].
        intros x Hx. apply R2. apply in_or_app. left; assumption.
Qed.

Section Whole.
  Variables (p : prog) (t : teal) (bs : list block).
  Hypothesis Hparse : parse_teal p = Ok t.
  Hypothesis Hbs : build_blocks p = Some bs.
  Let f := whole_function t.

  Lemma main_reach n : In n (s_blocks (t_main t)) <-> Reach bs 0 n.
  Proof. destruct (main_blocks_are_local_reach p t bs Hparse Hbs) as (_ & H & _). apply H. Qed.

  Lemma sub_reach s n : In s (t_subs t) -> (In n (s_blocks s) <-> Reach bs (s_entry s) n).
  Proof. intros Hs. destruct (sub_blocks_are_local_reach p t bs s Hparse Hbs Hs) as (H & _). apply H. Qed.

  Lemma wf_ids_retained n : In n (wf_ids t) -> In n (retained_ids t).
  Proof.
    intros H. destruct (retained_char p t bs Hparse Hbs) as (Hr & _). apply Hr.
    apply wf_ids_In in H. destruct H as [H|(s & Hs & H)].
    - left. apply main_reach. assumption.
    - right. apply wf_subs_sub in Hs. exists s. split; [assumption|]. apply sub_reach; assumption.
  Qed.

  Lemma wf_ids_tblock n : In n (wf_ids t) -> exists b, tblock t n = Some b.
  Proof. intros H. apply (tblock_retained_ids p t n Hparse). apply wf_ids_retained. assumption. Qed.

  Lemma tblock_idx n b : tblock t n = Some b -> b_idx b = n.
  Proof. unfold tblock. intros H. apply find_some in H. apply Nat.eqb_eq. tauto. Qed.

  Lemma fn_blocks_In b : In b (fn_blocks f) <-> In (b_idx b) (wf_ids t) /\ tblock t (b_idx b) = Some b.
  Proof.
    unfold f. rewrite whole_function_eq. simpl. unfold lookup_blocks. rewrite in_flat_map. split.
    - intros (n & Hn & Hb). destruct (tblock t n) as [b'|] eqn:E; [|destruct Hb].
      destruct Hb as [->|[]]. rewrite (tblock_idx n b E). auto.
    - intros [Hn Hb]. exists (b_idx b). split; [assumption|]. rewrite Hb. left; reflexivity.
  Qed.

  Lemma fblock_whole n b : fblock f n = Some b <-> In n (wf_ids t) /\ tblock t n = Some b.
  Proof.
    split.
    - intros H. pose proof (fblock_idx f n b H) as Ei. apply fblock_In in H.
      apply fn_blocks_In in H. rewrite Ei in H. exact H.
    - intros [Hn Hb]. destruct (fblock f n) as [b'|] eqn:E.
      + pose proof (fblock_idx f n b' E) as Ei. apply fblock_In in E. apply fn_blocks_In in E.
        rewrite Ei in E. destruct E as [_ E]. congruence.
      + exfalso. unfold fblock in E.
        assert (Hin : In b (fn_blocks f)) by (apply fn_blocks_In; rewrite (tblock_idx n b Hb); auto).
        pose proof (find_none _ _ E b Hin) as Hf. simpl in Hf.
        rewrite (tblock_idx n b Hb), Nat.eqb_refl in Hf. discriminate.
  Qed.

  Lemma fn_blocks_ids : map b_idx (fn_blocks f) = wf_ids t.
  Proof.
    unfold f. rewrite whole_function_eq. simpl. unfold lookup_blocks.
    assert (H : forall l, incl l (wf_ids t) ->
              map b_idx (flat_map (fun n => match tblock t n with Some b => [b] | None => [] end) l) = l).
    { induction l as [|n l IH]; intros Hl; [reflexivity|]. simpl.
      destruct (wf_ids_tblock n (Hl n (or_introl eq_refl))) as (b & Hb). rewrite Hb. simpl.
      rewrite (tblock_idx n b Hb). f_equal. apply IH. intros x Hx. apply Hl. right; assumption. }
    apply H. apply incl_refl.
  Qed.

  Lemma fsuccs_whole n : In n (wf_ids t) -> fsuccs f n = next_of bs n.
  Proof.
    intros Hn. destruct (wf_ids_tblock n Hn) as (b & Hb). unfold fsuccs.
    rewrite (proj2 (fblock_whole n b) (conj Hn Hb)). eapply tblock_next; eauto.
  Qed.

  Lemma fsuccs_outside n : ~ In n (wf_ids t) -> fsuccs f n = [].
  Proof.
    intros Hn. unfold fsuccs. destruct (fblock f n) as [b|] eqn:E; [|reflexivity].
    apply fblock_whole in E. tauto.
  Qed.

  Lemma wf_ids_closed n y : In n (wf_ids t) -> In y (next_of bs n) -> In y (wf_ids t).
  Proof.
    intros Hn Hy. apply wf_ids_In. apply wf_ids_In in Hn. destruct Hn as [Hn|(s & Hs & Hn)].
    - left. apply main_reach. apply main_reach in Hn. econstructor; eauto.
    - right. exists s. split; [assumption|]. pose proof (wf_subs_sub t s Hs) as Hs'.
      apply (sub_reach s y Hs'). apply (sub_reach s n Hs') in Hn. econstructor; eauto.
  Qed.

  Lemma fsuccs_closed n y : In y (fsuccs f n) -> In y (wf_ids t).
  Proof.
    intros Hy. destruct (in_dec Nat.eq_dec n (wf_ids t)) as [Hn|Hn].
    - rewrite (fsuccs_whole n Hn) in Hy. eapply wf_ids_closed; eauto.
    - rewrite (fsuccs_outside n Hn) in Hy. destruct Hy.
  Qed.

  Lemma Reach_FReach e x : In e (wf_ids t) -> Reach bs e x -> FReach f e x /\ In x (wf_ids t).
  Proof.
    intros He H. induction H as [|x y Hx [IH1 IH2] Hy].
    - split; [constructor | assumption].
    - split; [|eapply wf_ids_closed; eauto]. econstructor; [exact IH1|].
      rewrite (fsuccs_whole x IH2). exact Hy.
  Qed.

  Lemma in_some_postorder n :
    In n (wf_ids t) -> exists l, In l (postorders f) /\ In n l.
  Proof.
    intros Hn. pose proof Hn as Hn0. apply wf_ids_In in Hn. destruct Hn as [Hn|(s & Hs & Hn)].
    - exists (postorder f (fn_entry f)). split; [left; reflexivity|].
      assert (H0 : In 0 (wf_ids t)) by (apply wf_ids_In; left; apply main_reach; constructor).
      apply (postorder_complete f (wf_ids t) fsuccs_closed 0 n (eq_sym fn_blocks_ids) H0).
      apply main_reach in Hn. apply (Reach_FReach 0 n H0 Hn).
    - exists (postorder f (s_entry s)). split.
      + right. apply in_map_iff. exists s. split; [reflexivity|].
        unfold f. rewrite whole_function_eq. exact Hs.
      + pose proof (wf_subs_sub t s Hs) as Hs'.
        assert (He : In (s_entry s) (wf_ids t)).
        { apply wf_ids_In. right. exists s. split; [assumption|]. apply (sub_reach s _ Hs'). constructor. }
        apply (postorder_complete f (wf_ids t) fsuccs_closed (s_entry s) n (eq_sym fn_blocks_ids) He).
        apply (sub_reach s n Hs') in Hn. apply (Reach_FReach _ n He Hn).
  Qed.

  (* worklist coverage holds for every parsed contract, without further hypotheses *)
  Theorem whole_forward_cover b : In b (map b_idx (fn_blocks f)) -> In b (forward_worklist f).
  Proof.
    rewrite fn_blocks_ids. intros Hb. destruct (in_some_postorder b Hb) as (l & Hl & Hin).
    unfold forward_worklist. apply in_flat_map. exists l. split; [assumption|]. rewrite <- in_rev. assumption.
  Qed.

  Theorem whole_backward_cover b xb :
    fblock f b = Some xb -> leaf_global f xb = false -> In b (backward_worklist f).
  Proof.
    intros Hx Hleaf. assert (Hb : In b (wf_ids t)) by (apply fblock_whole in Hx; tauto).
    destruct (in_some_postorder b Hb) as (l & Hl & Hin).
    unfold backward_worklist. apply in_flat_map. exists l. split; [assumption|].
    apply filter_In. split; [assumption|]. fold f. rewrite Hx, Hleaf. reflexivity.
  Qed.

  Theorem whole_next_nodup n b : fblock f n = Some b -> NoDup (b_next b).
  Proof.
    intros H. apply fblock_whole in H. destruct H as [_ H].
    rewrite (tblock_next p t bs n b Hparse Hbs H). unfold next_of, get_block.
    destruct (nth_error bs n) as [b0|] eqn:E; [|constructor].
    eapply next_nodup; eauto. eapply nth_error_In; eauto.
  Qed.

  (* ---------------------------------------------------------------- used subroutines are closed under calls *)
  Lemma called_from_In blks l :
    In l (called_from t blks) <->
    exists n b, In n blks /\ tblock t n = Some b /\ exit_op t b = Some (ICallsub l).
  Proof.
    unfold called_from. rewrite in_flat_map. split.
    - intros (n & Hn & Hl). destruct (tblock t n) as [b|] eqn:Eb; [|destruct Hl].
      destruct (exit_op t b) as [i|] eqn:Ee; [|destruct Hl]. destruct i; try (destruct Hl; fail).
      destruct Hl as [->|[]]. exists n, b. auto.
    - intros (n & b & Hn & Hb & He). exists n. split; [assumption|]. rewrite Hb, He. left; reflexivity.
  Qed.

  Lemma find_sub_called b l c :
    tblock t c = Some b -> exit_op t b = Some (ICallsub l) ->
    exists s, find_sub t l = Some s /\ In s (t_subs t) /\ s_name s = l.
  Proof.
    intros Hb He. destruct (called_subroutine_spec p t c b l Hparse Hb He) as (s & Hs & Hin & Hn).
    unfold called_subroutine in Hs. rewrite He in Hs. eauto.
  Qed.

  Lemma callees_names u x : In x (callees t u) -> In x (map s_name (t_subs t)).
  Proof.
    unfold callees. destruct (find_sub t u) as [sb|]; [|intros []].
    intros H. apply called_from_In in H. destruct H as (n & b & _ & Hb & He).
    destruct (find_sub_called b x n Hb He) as (s & _ & Hin & Hn). rewrite <- Hn. apply in_map. assumption.
  Qed.

  Lemma wf_used_spec :
    NoDup (wf_used t) /\ incl (wf_direct t) (wf_used t) /\
    (forall u, In u (wf_used t) -> incl (callees t u) (wf_used t)).
  Proof.
    unfold wf_used.
    apply (used_subs_spec t (map s_name (t_subs t)) callees_names).
    - apply dedup_s_NoDup.
    - apply incl_refl.
    - intros x Hx. unfold wf_direct in Hx. rewrite dedup_s_In in Hx. rewrite called_from_In in Hx.
      destruct Hx as (n & b & _ & Hb & He).
      destruct (find_sub_called b x n Hb He) as (s & _ & Hin & Hn). rewrite <- Hn. apply in_map. assumption.
    - intros u Hu Hn. contradiction.
    - rewrite map_length. lia.
  Qed.

  Lemma callsub_closure c cb l :
    fblock f c = Some cb -> exit_op t cb = Some (ICallsub l) ->
    exists s, find_sub t l = Some s /\ In s (wf_subs t) /\ s_name s = l.
  Proof.
    intros Hc He. apply fblock_whole in Hc. destruct Hc as [Hin Hb].
    destruct (find_sub_called cb l c Hb He) as (s & Hf & _ & Hn).
    exists s. split; [assumption|]. split; [|assumption].
    apply wf_subs_In. exists l. split; [|assumption].
    destruct wf_used_spec as (_ & Hd & Hcl).
    apply wf_ids_In in Hin. destruct Hin as [Hin|(s' & Hs' & Hin)].
    - apply Hd. unfold wf_direct. apply dedup_s_In. apply called_from_In. exists c, cb. auto.
    - apply wf_subs_In in Hs'. destruct Hs' as (u & Hu & Hfu). apply (Hcl u Hu).
      unfold callees. rewrite Hfu. apply called_from_In. exists c, cb. auto.
  Qed.

  Lemma sub_blocks_in_ids s n : In s (wf_subs t) -> In n (s_blocks s) -> In n (wf_ids t).
  Proof. intros Hs Hn. apply wf_ids_In. right. eauto. Qed.

  Lemma sub_entry_in_blocks s : In s (t_subs t) -> In (s_entry s) (s_blocks s).
  Proof. intros Hs. apply (sub_reach s _ Hs). constructor. Qed.

  (* ---------------------------------------------------------------- the function view of the model's predicates *)
  Lemma fexit_whole b : fexit_op f b = exit_op t b.
  Proof. reflexivity. Qed.
  Lemma f_is_callsub_whole b : f_is_callsub f b = is_callsub_block t b.
  Proof. reflexivity. Qed.
  Lemma f_is_retsub_whole b : f_is_retsub f b = is_retsub_block t b.
  Proof. reflexivity. Qed.
  Lemma f_find_sub_whole name : f_find_sub f name = find_sub t name.
  Proof. reflexivity. Qed.

  Lemma f_used_sub_some s : In s (wf_subs t) -> exists s', f_used_sub f (s_name s) = Some s'.
  Proof.
    intros Hs. unfold f_used_sub.
    destruct (find (fun s0 => String.eqb (s_name s0) (s_name s)) (fn_subs f)) as [s'|] eqn:E; [eauto|].
    exfalso. assert (Hin : In s (fn_subs f)) by exact Hs.
    pose proof (find_none _ _ E s Hin) as Hf. simpl in Hf. rewrite String.eqb_refl in Hf. discriminate.
  Qed.

  Lemma f_used_sub_in name s' : f_used_sub f name = Some s' -> In s' (wf_subs t) /\ s_name s' = name.
  Proof.
    unfold f_used_sub. intros H. apply find_some in H. destruct H as [H1 H2].
    apply String.eqb_eq in H2. split; [exact H1 | exact H2].
  Qed.

  Lemma names_nodup : NoDup (map s_name (t_subs t)).
  Proof. apply (subs_are_callsub_targets p t Hparse). Qed.

  Lemma find_sub_self s : In s (t_subs t) -> find_sub t (s_name s) = Some s.
  Proof.
    intros Hs. unfold find_sub. pose proof names_nodup as Hnd. revert Hs Hnd.
    induction (t_subs t) as [|a l IH]; intros Hs Hnd; [destruct Hs|].
    simpl in *. apply NoDup_cons_iff in Hnd. destruct Hnd as [Ha Hnd]. destruct Hs as [->|Hs].
    - rewrite String.eqb_refl. reflexivity.
    - destruct (String.eqb (s_name a) (s_name s)) eqn:E.
      + apply String.eqb_eq in E. exfalso. apply Ha. rewrite E. apply in_map. assumption.
      + apply IH; assumption.
  Qed.

  (* ---------------------------------------------------------------- structural hypotheses *)
  Record struct_ok : Prop := {
    (* every retained block belongs to at most one routine *)
    so_main_disj : forall s n, In s (t_subs t) -> In n (s_blocks s) -> ~ In n (s_blocks (t_main t));
    so_sub_disj : forall s1 s2 n, In s1 (t_subs t) -> In s2 (t_subs t) ->
                                  In n (s_blocks s1) -> In n (s_blocks s2) -> s1 = s2;
    (* "" is reserved for the function's main *)
    so_names : forall s, In s (t_subs t) -> s_name s <> EmptyString;
    (* routine entries have no (retained) local predecessor *)
    so_entries : forall e b, (e = 0 \/ exists s, In s (t_subs t) /\ e = s_entry s) ->
                             tblock t e = Some b -> b_prev b = [];
    (* a return point is entered only from its callsub block (it is not a jump target) *)
    so_retpoints : forall c cb r rb m, tblock t c = Some cb -> is_callsub_block t cb = true ->
                                       In r (b_next cb) -> tblock t r = Some rb -> In m (b_prev rb) -> m = c }.

  Hypothesis Hok : struct_ok.

  Lemma f_sub_of_main n : In n (s_blocks (t_main t)) -> f_sub_of f n = Some EmptyString.
  Proof.
    intros Hn. unfold f_sub_of. change (fn_main f) with (s_blocks (t_main t)).
    apply nat_mem_In in Hn. rewrite Hn. reflexivity.
  Qed.

  Lemma f_sub_of_sub s n : In s (t_subs t) -> In n (s_blocks s) -> f_sub_of f n = Some (s_name s).
  Proof.
    intros Hs Hn. unfold f_sub_of. change (fn_main f) with (s_blocks (t_main t)).
    change (fn_all_subs f) with (t_subs t).
    destruct (nat_mem n (s_blocks (t_main t))) eqn:Em.
    { apply nat_mem_In in Em. exfalso. eapply (so_main_disj Hok); eauto. }
    destruct (find (fun s0 => nat_mem n (s_blocks s0)) (rev (t_subs t))) as [s'|] eqn:E.
    - apply find_some in E. destruct E as [H1 H2]. apply in_rev in H1. apply nat_mem_In in H2.
      rewrite (so_sub_disj Hok s' s n H1 Hs H2 Hn). reflexivity.
    - exfalso. assert (Hin : In s (rev (t_subs t))) by (apply in_rev in Hs; rewrite <- in_rev; rewrite <- in_rev in Hs; assumption).
      pose proof (find_none _ _ E s Hin) as Hf. simpl in Hf. apply nat_mem_In in Hn. congruence.
  Qed.

  (* owner of a block of the function *)
  Inductive owner (n : nat) : string -> Prop :=
  | own_main : In n (s_blocks (t_main t)) -> owner n EmptyString
  | own_sub s : In s (wf_subs t) -> In n (s_blocks s) -> owner n (s_name s).

  Lemma owner_exists n : In n (wf_ids t) -> exists name, owner n name.
  Proof.
    intros H. apply wf_ids_In in H. destruct H as [H|(s & Hs & H)].
    - exists EmptyString. constructor; assumption.
    - exists (s_name s). econstructor; eauto.
  Qed.

  Lemma owner_sub_of n name : owner n name -> f_sub_of f n = Some name.
  Proof.
    intros [H|s Hs H]; [apply f_sub_of_main; assumption|].
    apply f_sub_of_sub; [apply wf_subs_sub|]; assumption.
  Qed.

  (* local predecessors of a block of f are blocks of f *)
  Lemma pred_in_ids x xb m : In x (wf_ids t) -> tblock t x = Some xb -> In m (b_prev xb) -> In m (wf_ids t).
  Proof.
    intros Hx Hxb Hm.
    destruct (retained_char p t bs Hparse Hbs) as (Hr & _ & _ & _ & Hprev & _).
    assert (Hmr : In m (retained_ids t)).
    { apply (Hprev xb m); [|assumption]. apply (in_t_blocks p t xb Hparse). rewrite (tblock_idx x xb Hxb). assumption. }
    destruct (proj1 (tblock_retained_ids p t m Hparse) Hmr) as (bm & Hbm).
    assert (Hnx : In x (next_of bs m)).
    { rewrite <- (tblock_next p t bs m bm Hparse Hbs Hbm). apply (tblock_mirror p t m x bm xb Hparse Hbm Hxb). assumption. }
    apply Hr in Hmr. apply wf_ids_In in Hx. apply wf_ids_In.
    destruct Hmr as [Hm0|(s' & Hs' & Hms)].
    - left. apply main_reach. assumption.
    - assert (Hxs' : In x (s_blocks s')) by (apply (sub_reach s' x Hs'); econstructor; eauto).
      destruct Hx as [Hx|(s & Hs & Hx)].
      + exfalso. eapply (so_main_disj Hok); eauto.
      + right. exists s. split; [assumption|].
        rewrite <- (so_sub_disj Hok s' s x Hs' (wf_subs_sub t s Hs) Hxs' Hx).
        apply (sub_reach s' m Hs'). assumption.
  Qed.

  (* a callsub block of f has at most one successor: the following block *)
  Lemma callsub_next c cb r :
    tblock t c = Some cb -> is_callsub_block t cb = true -> In r (b_next cb) -> b_next cb = [S c] /\ r = S c.
  Proof.
    intros Hc Hcs Hr. destruct (return_point p t c cb Hparse Hc Hcs) as [[E _]|[E _]].
    - rewrite E in Hr. destruct Hr.
    - rewrite E in Hr. destruct Hr as [<-|[]]. auto.
  Qed.

  (* ---------------------------------------------------------------- unfolding prev_global *)
  Definition prev_nonentry (g : func) (b : block) : option (list nat) :=
    if is_sub_return_point g b then
      match callsub_block_of g b with
      | Some c =>
          match fblock g c with
          | Some cb => match fexit_op g cb with
                       | Some (ICallsub l) => option_map (sub_retsub_blocks g) (f_find_sub g l)
                       | _ => None end
          | None => None
          end
      | None => None
      end
    else Some (b_prev b).

  Definition is_entry_of (g : func) (name : string) (n : nat) : bool :=
    match sub_entry_of g name with Some e => Nat.eqb e n | None => false end.

  Lemma prev_global_eq g b :
    prev_global g b =
    match f_sub_of g (b_idx b) with
    | None => None
    | Some name =>
        if is_entry_of g name (b_idx b) then
          if String.eqb name EmptyString then Some []
          else match f_used_sub g name with Some _ => Some (map b_idx (f_callers g name)) | None => None end
        else prev_nonentry g b
    end.
  Proof. reflexivity. Qed.

  Lemma is_entry_main n : is_entry_of f EmptyString n = Nat.eqb 0 n.
  Proof. reflexivity. Qed.

  Lemma is_entry_sub s n : In s (t_subs t) -> is_entry_of f (s_name s) n = Nat.eqb (s_entry s) n.
  Proof.
    intros Hs. unfold is_entry_of, sub_entry_of.
    destruct (String.eqb (s_name s) EmptyString) eqn:E.
    { apply String.eqb_eq in E. exfalso. eapply (so_names Hok); eauto. }
    rewrite f_find_sub_whole, (find_sub_self s Hs). reflexivity.
  Qed.

  (* callsub predecessors: what is_sub_return_point / callsub_block_of find *)
  Lemma is_rp_true x xb c cb :
    tblock t x = Some xb -> In c (b_prev xb) -> fblock f c = Some cb -> is_callsub_block t cb = true ->
    is_sub_return_point f xb = true.
  Proof.
    intros Hx Hc Hcb Hcs. unfold is_sub_return_point. apply existsb_exists. exists c.
    split; [assumption|]. rewrite Hcb. exact Hcs.
  Qed.

  Lemma callsub_block_of_some xb c :
    callsub_block_of f xb = Some c ->
    In c (b_prev xb) /\ exists cb, fblock f c = Some cb /\ is_callsub_block t cb = true.
  Proof.
    unfold callsub_block_of. intros H. apply find_some in H. destruct H as [H1 H2].
    split; [assumption|]. destruct (fblock f c) as [cb|]; [|discriminate]. exists cb. auto.
  Qed.

  Lemma is_rp_callsub_block xb :
    is_sub_return_point f xb = true -> exists c, callsub_block_of f xb = Some c.
  Proof.
    unfold is_sub_return_point, callsub_block_of. intros H. apply existsb_exists in H.
    destruct H as (c & Hc & Hp).
    destruct (find _ (b_prev xb)) as [c'|] eqn:E; [eauto|].
    pose proof (find_none _ _ E c Hc) as Hf. simpl in Hf. congruence.
  Qed.

  (* the callsub block found for the return point of a callsub block x is x itself *)
  Lemma callsub_block_of_unique x xb r rb :
    fblock f x = Some xb -> is_callsub_block t xb = true -> In r (b_next xb) -> fblock f r = Some rb ->
    is_sub_return_point f rb = true /\ callsub_block_of f rb = Some x.
  Proof.
    intros Hx Hcs Hr Hrb.
    pose proof (proj2 (proj1 (fblock_whole x xb) Hx)) as Htx.
    pose proof (proj2 (proj1 (fblock_whole r rb) Hrb)) as Htr.
    assert (Hpx : In x (b_prev rb)) by (apply (tblock_mirror p t x r xb rb Hparse Htx Htr); assumption).
    assert (Hrp : is_sub_return_point f rb = true) by (eapply is_rp_true; eauto).
    split; [assumption|]. destruct (is_rp_callsub_block rb Hrp) as (c & Hc). rewrite Hc. f_equal.
    destruct (callsub_block_of_some rb c Hc) as (Hcp & cb & Hcb & Hccs).
    pose proof (proj2 (proj1 (fblock_whole c cb) Hcb)) as Htc.
    assert (Hrc : In r (b_next cb)) by (apply (tblock_mirror p t c r cb rb Hparse Htc Htr); assumption).
    destruct (callsub_next c cb r Htc Hccs Hrc) as [_ E1].
    destruct (callsub_next x xb r Htx Hcs Hr) as [_ E2]. lia.
  Qed.

  Lemma callsub_exit xb : is_callsub_block t xb = true -> exists l, exit_op t xb = Some (ICallsub l).
  Proof.
    unfold is_callsub_block. destruct (exit_op t xb) as [i|]; [|discriminate].
    destruct i; try discriminate. eauto.
  Qed.

  Lemma retsub_exit xb : is_retsub_block t xb = true -> exit_op t xb = Some IRetsub.
  Proof.
    unfold is_retsub_block. destruct (exit_op t xb) as [i|]; [|discriminate].
    destruct i; try discriminate. reflexivity.
  Qed.

  Lemma in_f_callers cb l :
    In cb (f_callers f l) <-> In cb (fn_blocks f) /\ exit_op t cb = Some (ICallsub l).
  Proof.
    unfold f_callers. rewrite filter_In, fexit_whole. split; intros [H1 H2]; split; auto.
    - destruct (exit_op t cb) as [i|]; [|discriminate]. destruct i; try discriminate.
      apply String.eqb_eq in H2. congruence.
    - rewrite H2. apply String.eqb_refl.
  Qed.

  Lemma fn_blocks_fblock b : In b (fn_blocks f) -> fblock f (b_idx b) = Some b.
  Proof. intros H. apply fn_blocks_In in H. apply fblock_whole. exact H. Qed.

  (* next_global of the three kinds of blocks *)
  Lemma next_global_callsub xb l s :
    exit_op t xb = Some (ICallsub l) -> find_sub t l = Some s -> next_global f xb = Some [s_entry s].
  Proof.
    intros He Hs. unfold next_global, f_is_retsub. rewrite fexit_whole, He, f_find_sub_whole, Hs. reflexivity.
  Qed.

  Lemma next_global_plain xb :
    is_retsub_block t xb = false -> is_callsub_block t xb = false -> next_global f xb = Some (b_next xb).
  Proof.
    intros Hr Hc. unfold next_global. rewrite f_is_retsub_whole, Hr, fexit_whole.
    unfold is_callsub_block in Hc. destruct (exit_op t xb) as [i|]; [|reflexivity].
    destruct i; try reflexivity. discriminate.
  Qed.

  Lemma next_global_retsub xb name s' :
    is_retsub_block t xb = true -> f_sub_of f (b_idx xb) = Some name -> f_used_sub f name = Some s' ->
    next_global f xb = Some (f_return_points f name).
  Proof.
    intros Hr Hn Hu. unfold next_global. rewrite f_is_retsub_whole, Hr, Hn, Hu. reflexivity.
  Qed.

  (* x is a return point of sub l: some caller of l in f has b_next = [x] *)
  Lemma in_return_points c cb l x :
    fblock f c = Some cb -> exit_op t cb = Some (ICallsub l) -> In x (b_next cb) ->
    In x (f_return_points f l).
  Proof.
    intros Hc He Hx. unfold f_return_points. apply in_flat_map. exists cb. split.
    - apply in_f_callers. split; [eapply fblock_In; eauto | assumption].
    - pose proof (proj2 (proj1 (fblock_whole c cb) Hc)) as Htc.
      assert (Hcs : is_callsub_block t cb = true) by (unfold is_callsub_block; rewrite He; reflexivity).
      destruct (callsub_next c cb x Htc Hcs Hx) as [E ->]. rewrite E. left; reflexivity.
  Qed.

  (* ---------------------------------------------------------------- cover_ret, cover_call: no hypotheses needed *)
  Theorem whole_cover_ret : cover_ret_P f.
  Proof.
    intros x xb c Hx Hrp Hc. destruct (callsub_block_of_some xb c Hc) as (Hcp & cb & Hcb & Hcs).
    exists cb. split; [assumption|]. split; [exact Hcs|].
    pose proof (proj2 (proj1 (fblock_whole x xb) Hx)) as Htx.
    pose proof (proj2 (proj1 (fblock_whole c cb) Hcb)) as Htc.
    assert (Hxc : In x (b_next cb)) by (apply (tblock_mirror p t c x cb xb Hparse Htc Htx); assumption).
    destruct (callsub_next c cb x Htc Hcs Hxc) as [E ->]. unfold sub_return_point. rewrite E. reflexivity.
  Qed.

  Theorem whole_cover_call : cover_call_P f.
  Proof.
    intros x xb l r s Hx Hop Hr _ _. rewrite fexit_whole in Hop.
    assert (Hcs : is_callsub_block t xb = true) by (unfold is_callsub_block; rewrite Hop; reflexivity).
    assert (Hrn : In r (b_next xb)).
    { unfold sub_return_point in Hr. destruct (b_next xb); [discriminate|]. inversion Hr. left; reflexivity. }
    assert (Hri : In r (wf_ids t)).
    { apply (fsuccs_closed x). unfold fsuccs. fold f. rewrite Hx. assumption. }
    destruct (wf_ids_tblock r Hri) as (rb & Hrb).
    assert (Hfr : fblock f r = Some rb) by (apply fblock_whole; auto).
    exists rb. split; [assumption|]. eapply callsub_block_of_unique; eauto.
  Qed.

  (* ---------------------------------------------------------------- cover_prev *)
  Lemma cover_prev_nonentry b x xb ps :
    fblock f x = Some xb -> prev_nonentry f xb = Some ps -> In b ps ->
    exists bb nx, fblock f b = Some bb /\ next_global f bb = Some nx /\ In x nx.
  Proof.
    intros Hx Hps Hin.
    destruct (proj1 (fblock_whole x xb) Hx) as [Hxi Htx].
    unfold prev_nonentry in Hps. destruct (is_sub_return_point f xb) eqn:Hrp.
    - destruct (callsub_block_of f xb) as [c|] eqn:Hc; [|discriminate].
      destruct (callsub_block_of_some xb c Hc) as (Hcp & cb & Hcb & Hcs).
      rewrite Hcb in Hps. destruct (callsub_exit cb Hcs) as (l & He). rewrite fexit_whole, He in Hps.
      destruct (callsub_closure c cb l Hcb He) as (s & Hfs & Hsw & Hsn).
      rewrite f_find_sub_whole, Hfs in Hps. simpl in Hps. inversion Hps; subst ps.
      unfold sub_retsub_blocks in Hin. apply filter_In in Hin. destruct Hin as [Hbs' Hbr].
      destruct (fblock f b) as [bb|] eqn:Hbb; [|discriminate].
      exists bb, (f_return_points f l). split; [reflexivity|]. split.
      + destruct (f_used_sub_some s Hsw) as (s' & Hu). rewrite Hsn in Hu.
        apply (next_global_retsub bb l s'); [exact Hbr| |exact Hu].
        rewrite (fblock_idx f b bb Hbb). rewrite <- Hsn. apply f_sub_of_sub; [apply wf_subs_sub|]; assumption.
      + pose proof (proj2 (proj1 (fblock_whole c cb) Hcb)) as Htc.
        assert (Hxc : In x (b_next cb)) by (apply (tblock_mirror p t c x cb xb Hparse Htc Htx); assumption).
        eapply in_return_points; eauto.
    - inversion Hps; subst ps.
      pose proof (pred_in_ids x xb b Hxi Htx Hin) as Hbi.
      destruct (wf_ids_tblock b Hbi) as (bb & Htb).
      assert (Hfb : fblock f b = Some bb) by (apply fblock_whole; auto).
      assert (Hxn : In x (b_next bb)) by (apply (tblock_mirror p t b x bb xb Hparse Htb Htx); assumption).
      exists bb, (b_next bb). split; [assumption|]. split; [|assumption].
      apply next_global_plain.
      + destruct (is_retsub_block t bb) eqn:E; [|reflexivity]. exfalso.
        rewrite (retsub_no_next p t b bb Hparse Htb E) in Hxn. destruct Hxn.
      + destruct (is_callsub_block t bb) eqn:E; [|reflexivity]. exfalso.
        rewrite (is_rp_true x xb b bb Htx Hin Hfb E) in Hrp. discriminate.
  Qed.

  Theorem whole_cover_prev : cover_prev_P f.
  Proof.
    intros b x xb ps Hx Hps Hin. rewrite prev_global_eq, (fblock_idx f x xb Hx) in Hps.
    destruct (proj1 (fblock_whole x xb) Hx) as [Hxi Htx].
    destruct (owner_exists x Hxi) as (name & Hown). rewrite (owner_sub_of x name Hown) in Hps.
    destruct Hown as [Hm|s Hs Hxs].
    - rewrite is_entry_main in Hps. destruct (Nat.eqb 0 x) eqn:E0.
      + simpl in Hps. inversion Hps; subst ps. destruct Hin.
      + eapply cover_prev_nonentry; eauto.
    - pose proof (wf_subs_sub t s Hs) as Hs'.
      rewrite (is_entry_sub s x Hs') in Hps. destruct (Nat.eqb (s_entry s) x) eqn:E0.
      + apply Nat.eqb_eq in E0.
        destruct (String.eqb (s_name s) EmptyString) eqn:En.
        { apply String.eqb_eq in En. exfalso. eapply (so_names Hok); eauto. }
        destruct (f_used_sub f (s_name s)); [|discriminate]. inversion Hps; subst ps.
        apply in_map_iff in Hin. destruct Hin as (cb & <- & Hcb). apply in_f_callers in Hcb.
        destruct Hcb as [Hcbin Hce].
        exists cb, [s_entry s]. split; [apply fn_blocks_fblock; assumption|]. split; [|left; assumption].
        apply next_global_callsub with (l := s_name s); [assumption | apply find_sub_self; assumption].
      + eapply cover_prev_nonentry; eauto.
  Qed.

  (* ---------------------------------------------------------------- cover_next *)
  Lemma not_entry_of b bb m nb :
    tblock t b = Some bb -> In m (b_prev bb) -> owner b nb -> is_entry_of f nb b = false.
  Proof.
    intros Htb Hm Hown. destruct Hown as [Hmain|s Hs Hbs'].
    - rewrite is_entry_main. destruct (Nat.eqb 0 b) eqn:E; [|reflexivity]. apply Nat.eqb_eq in E. exfalso.
      rewrite (so_entries Hok b bb (or_introl (eq_sym E)) Htb) in Hm. destruct Hm.
    - pose proof (wf_subs_sub t s Hs) as Hs'. rewrite (is_entry_sub s b Hs').
      destruct (Nat.eqb (s_entry s) b) eqn:E; [|reflexivity]. apply Nat.eqb_eq in E. exfalso.
      assert (He : b = 0 \/ exists s0, In s0 (t_subs t) /\ b = s_entry s0) by (right; exists s; auto).
      rewrite (so_entries Hok b bb He Htb) in Hm. destruct Hm.
  Qed.

  Lemma succ_block x xb b :
    fblock f x = Some xb -> In b (b_next xb) ->
    exists bb, In b (wf_ids t) /\ tblock t b = Some bb /\ fblock f b = Some bb /\ In x (b_prev bb).
  Proof.
    intros Hx Hb. destruct (proj1 (fblock_whole x xb) Hx) as [Hxi Htx].
    assert (Hbi : In b (wf_ids t)).
    { apply (fsuccs_closed x). unfold fsuccs. fold f. rewrite Hx. assumption. }
    destruct (wf_ids_tblock b Hbi) as (bb & Htb). exists bb.
    split; [assumption|]. split; [assumption|]. split; [apply fblock_whole; auto|].
    apply (tblock_mirror p t x b xb bb Hparse Htx Htb). assumption.
  Qed.

  Theorem whole_cover_next : cover_next_P f.
  Proof.
    intros b x xb nx Hx Hleaf Hnx Hin.
    destruct (proj1 (fblock_whole x xb) Hx) as [Hxi Htx].
    destruct (is_retsub_block t xb) eqn:Hr.
    - (* x is a retsub block: b is a return point of x's subroutine *)
      unfold next_global in Hnx. rewrite f_is_retsub_whole, Hr, (fblock_idx f x xb Hx) in Hnx.
      destruct (owner_exists x Hxi) as (name & Hown). rewrite (owner_sub_of x name Hown) in Hnx.
      destruct (f_used_sub f name) as [s'|] eqn:Hu; [|discriminate]. inversion Hnx; subst nx.
      destruct (f_used_sub_in name s' Hu) as [Hs'w Hs'n].
      destruct Hown as [Hm|s Hs Hxs].
      { exfalso. eapply (so_names Hok); [apply (wf_subs_sub t s' Hs'w) | exact Hs'n]. }
      pose proof (wf_subs_sub t s Hs) as Hst.
      unfold f_return_points in Hin. apply in_flat_map in Hin. destruct Hin as (cb & Hcb & Hbn).
      apply in_f_callers in Hcb. destruct Hcb as [Hcbin Hce].
      pose proof (fn_blocks_fblock cb Hcbin) as Hfc.
      assert (Hbnx : In b (b_next cb)).
      { destruct (b_next cb) as [|r [|r' l']]; simpl in Hbn; try (destruct Hbn; fail).
        destruct Hbn as [<-|[]]. left; reflexivity. }
      assert (Hcs : is_callsub_block t cb = true) by (unfold is_callsub_block; rewrite Hce; reflexivity).
      destruct (succ_block (b_idx cb) cb b Hfc Hbnx) as (bb & Hbi & Htb & Hfb & Hcp).
      exists bb, (sub_retsub_blocks f s). split; [assumption|]. split.
      + rewrite prev_global_eq, (fblock_idx f b bb Hfb).
        destruct (owner_exists b Hbi) as (nb & Hownb). rewrite (owner_sub_of b nb Hownb).
        rewrite (not_entry_of b bb (b_idx cb) nb Htb Hcp Hownb). unfold prev_nonentry.
        destruct (callsub_block_of_unique (b_idx cb) cb b bb Hfc Hcs Hbnx Hfb) as [Hrp Hcbo].
        rewrite Hrp, Hcbo, Hfc, fexit_whole, Hce, f_find_sub_whole, (find_sub_self s Hst). reflexivity.
      + unfold sub_retsub_blocks. apply filter_In. split; [assumption|]. rewrite Hx. exact Hr.
    - destruct (is_callsub_block t xb) eqn:Hc.
      + (* x is a callsub block: b is the entry of the callee *)
        destruct (callsub_exit xb Hc) as (l & He).
        destruct (callsub_closure x xb l Hx He) as (s & Hfs & Hsw & Hsn).
        rewrite (next_global_callsub xb l s He Hfs) in Hnx. inversion Hnx; subst nx. destruct Hin as [<-|[]].
        pose proof (wf_subs_sub t s Hsw) as Hst.
        pose proof (sub_entry_in_blocks s Hst) as Hein.
        pose proof (sub_blocks_in_ids s _ Hsw Hein) as Hbi.
        destruct (wf_ids_tblock _ Hbi) as (bb & Htb).
        assert (Hfb : fblock f (s_entry s) = Some bb) by (apply fblock_whole; auto).
        exists bb, (map b_idx (f_callers f l)). split; [assumption|]. split.
        * rewrite prev_global_eq, (fblock_idx f _ bb Hfb), (f_sub_of_sub s _ Hst Hein),
            (is_entry_sub s _ Hst), Nat.eqb_refl.
          destruct (String.eqb (s_name s) EmptyString) eqn:En.
          { apply String.eqb_eq in En. exfalso. eapply (so_names Hok); eauto. }
          destruct (f_used_sub_some s Hsw) as (s' & Hu). rewrite Hu, Hsn. reflexivity.
        * apply in_map_iff. exists xb. split; [eapply fblock_idx; eauto|].
          apply in_f_callers. split; [eapply fblock_In; eauto | assumption].
      + (* plain block: local edge *)
        rewrite (next_global_plain xb Hr Hc) in Hnx. inversion Hnx; subst nx.
        destruct (succ_block x xb b Hx Hin) as (bb & Hbi & Htb & Hfb & Hxp).
        exists bb, (b_prev bb). split; [assumption|]. split; [|assumption].
        rewrite prev_global_eq, (fblock_idx f b bb Hfb).
        destruct (owner_exists b Hbi) as (nb & Hownb). rewrite (owner_sub_of b nb Hownb).
        rewrite (not_entry_of b bb x nb Htb Hxp Hownb). unfold prev_nonentry.
        destruct (is_sub_return_point f bb) eqn:Hrp; [|reflexivity]. exfalso.
        destruct (is_rp_callsub_block bb Hrp) as (c & Hcc).
        destruct (callsub_block_of_some bb c Hcc) as (Hcp & cb & Hcb & Hcs).
        pose proof (proj2 (proj1 (fblock_whole c cb) Hcb)) as Htc.
        assert (Hbc : In b (b_next cb)) by (apply (tblock_mirror p t c b cb bb Hparse Htc Htb); assumption).
        pose proof (so_retpoints Hok c cb b bb x Htc Hcs Hbc Htb Hxp) as E. subst c.
        rewrite Hx in Hcb. inversion Hcb; subst cb. congruence.
  Qed.

  (* ---------------------------------------------------------------- distinct block ids *)
  Lemma NoDup_flat_map {A B} (g : A -> list B) : forall l : list A,
    NoDup l -> (forall a, In a l -> NoDup (g a)) ->
    (forall a b x, In a l -> In b l -> In x (g a) -> In x (g b) -> a = b) ->
    NoDup (flat_map g l).
  Proof.
    induction l as [|a l IH]; intros Hnd Hg Hinj; [constructor|].
    simpl. apply NoDup_cons_iff in Hnd. destruct Hnd as [Ha Hnd]. apply NoDup_app_intro.
    - apply Hg. left; reflexivity.
    - apply IH; [assumption | intros; apply Hg; right; assumption|].
      intros a0 b0 x H1 H2. apply Hinj; right; assumption.
    - intros x Hx1 Hx2. apply in_flat_map in Hx2. destruct Hx2 as (b0 & Hb0 & Hx2).
      apply Ha. rewrite (Hinj a b0 x (or_introl eq_refl) (or_intror Hb0) Hx1 Hx2). assumption.
  Qed.

  Lemma wf_subs_nodup : NoDup (wf_subs t).
  Proof.
    unfold wf_subs. apply NoDup_flat_map.
    - apply wf_used_spec.
    - intros u _. destruct (find_sub t u); [constructor; [intros [] | constructor] | constructor].
    - intros u1 u2 s _ _ H1 H2.
      destruct (find_sub t u1) as [s1|] eqn:E1; [|destruct H1]. destruct H1 as [->|[]].
      destruct (find_sub t u2) as [s2|] eqn:E2; [|destruct H2]. destruct H2 as [->|[]].
      apply find_sub_some in E1. apply find_sub_some in E2. destruct E1 as [_ <-]. destruct E2 as [_ <-]. reflexivity.
  Qed.

  Theorem whole_ids_nodup : NoDup (map b_idx (fn_blocks f)).
  Proof.
    rewrite fn_blocks_ids. unfold wf_ids. apply NoDup_app_intro.
    - apply (main_blocks_are_local_reach p t bs Hparse Hbs).
    - apply NoDup_flat_map.
      + apply wf_subs_nodup.
      + intros s Hs. apply (sub_blocks_are_local_reach p t bs s Hparse Hbs (wf_subs_sub t s Hs)).
      + intros s1 s2 x H1 H2 Hx1 Hx2.
        apply (so_sub_disj Hok s1 s2 x); auto using wf_subs_sub.
    - intros x Hx1 Hx2. apply in_flat_map in Hx2. destruct Hx2 as (s & Hs & Hx2).
      apply (so_main_disj Hok s x (wf_subs_sub t s Hs) Hx2 Hx1).
  Qed.
End Whole.

(* ================================================================== completeness of the boolean checks *)
Section Complete.
  Variable f : func.
  Hypothesis blocks_found : forall xb, In xb (fn_blocks f) -> fblock f (b_idx xb) = Some xb.

  Lemma cover_prev_complete : cover_prev_P f -> cover_prev_b f = true.
  Proof.
    intros H. unfold cover_prev_b. apply forallb_forall. intros xb Hxb.
    destruct (prev_global f xb) as [ps|] eqn:Hps; [|reflexivity].
    apply forallb_forall. intros b Hb.
    destruct (H b (b_idx xb) xb ps (blocks_found xb Hxb) Hps Hb) as (bb & nx & H1 & H2 & H3).
    rewrite H1, H2. apply nat_mem_In. assumption.
  Qed.

  Lemma cover_ret_complete : cover_ret_P f -> cover_ret_b f = true.
  Proof.
    intros H. unfold cover_ret_b. apply forallb_forall. intros xb Hxb.
    destruct (is_sub_return_point f xb) eqn:Hrp; [|reflexivity].
    destruct (callsub_block_of f xb) as [c|] eqn:Hc; [|reflexivity].
    destruct (H (b_idx xb) xb c (blocks_found xb Hxb) Hrp Hc) as (cb & H1 & H2 & H3).
    rewrite H1, H2, H3. simpl. apply Nat.eqb_refl.
  Qed.

  Lemma cover_next_complete : cover_next_P f -> cover_next_b f = true.
  Proof.
    intros H. unfold cover_next_b. apply forallb_forall. intros xb Hxb.
    destruct (leaf_global f xb) eqn:Hleaf; [reflexivity|].
    destruct (next_global f xb) as [nx|] eqn:Hnx; [|reflexivity].
    apply forallb_forall. intros b Hb.
    destruct (H b (b_idx xb) xb nx (blocks_found xb Hxb) Hleaf Hnx Hb) as (bb & ps & H1 & H2 & H3).
    rewrite H1, H2. apply nat_mem_In. assumption.
  Qed.

  Lemma cover_call_complete : cover_call_P f -> cover_call_b f = true.
  Proof.
    intros H. unfold cover_call_b. apply forallb_forall. intros xb Hxb.
    destruct (fexit_op f xb) as [i|] eqn:Hop; [|reflexivity]. destruct i; try reflexivity.
    destruct (sub_return_point xb) as [r|] eqn:Hr; [|reflexivity].
    destruct (f_find_sub f l) as [s|] eqn:Hs; [|reflexivity].
    destruct (sub_retsub_blocks f s) as [|r0 rs] eqn:Hrs; [reflexivity|].
    destruct (H (b_idx xb) xb l r s (blocks_found xb Hxb) Hop Hr Hs) as (rb & H1 & H2 & H3).
    { rewrite Hrs. discriminate. }
    rewrite H1, H2, H3. simpl. apply Nat.eqb_refl.
  Qed.

  Theorem graph_wf_complete :
    cover_prev_P f -> cover_ret_P f -> cover_next_P f -> cover_call_P f ->
    (forall b, In b (map b_idx (fn_blocks f)) -> In b (forward_worklist f)) ->
    (forall b xb, fblock f b = Some xb -> leaf_global f xb = false -> In b (backward_worklist f)) ->
    NoDup (map b_idx (fn_blocks f)) ->
    (forall n b, fblock f n = Some b -> NoDup (b_next b)) ->
    graph_wf f = true.
  Proof.
    intros H1 H2 H3 H4 H5 H6 H7 H8. unfold graph_wf.
    rewrite (cover_prev_complete H1), (cover_ret_complete H2), (cover_next_complete H3), (cover_call_complete H4).
    simpl.
    assert (E5 : fwd_cover_b f = true).
    { apply forallb_forall. intros b Hb. apply nat_mem_In. apply H5. apply in_map. assumption. }
    assert (E6 : bwd_cover_b f = true).
    { apply forallb_forall. intros b Hb. destruct (leaf_global f b) eqn:E; [reflexivity|]. simpl.
      apply nat_mem_In. eapply H6; eauto. }
    assert (E7 : ids_nodup_b f = true) by (apply nodupb_complete; assumption).
    assert (E8 : next_nodup_b f = true).
    { apply forallb_forall. intros b Hb. apply nodupb_complete. eapply H8; eauto. }
    rewrite E5, E6, E7, E8. reflexivity.
  Qed.
End Complete.

(* ================================================================== the stretch theorem *)
Theorem graph_wf_whole_function p t :
  parse_teal p = Ok t -> struct_ok t -> graph_wf (whole_function t) = true.
Proof.
  intros H Hok. destruct (parse_teal_blocks p t H) as (bs & Hbs).
  apply graph_wf_complete.
  - intros xb Hxb. eapply fn_blocks_fblock; eauto.
  - eapply whole_cover_prev; eauto.
  - eapply whole_cover_ret; eauto.
  - eapply whole_cover_next; eauto.
  - eapply whole_cover_call; eauto.
  - eapply whole_forward_cover; eauto.
  - eapply whole_backward_cover; eauto.
  - eapply whole_ids_nodup; eauto.
  - eapply whole_next_nodup; eauto.
Qed.

(* the conjuncts that need no structural hypothesis *)
Theorem whole_function_unconditional p t :
  parse_teal p = Ok t ->
  let f := whole_function t in
  cover_ret_P f /\ cover_call_P f /\
  (forall b, In b (map b_idx (fn_blocks f)) -> In b (forward_worklist f)) /\
  (forall b xb, fblock f b = Some xb -> leaf_global f xb = false -> In b (backward_worklist f)) /\
  (forall n b, fblock f n = Some b -> NoDup (b_next b)).
Proof.
  intros H f. destruct (parse_teal_blocks p t H) as (bs & Hbs).
  split; [eapply whole_cover_ret; eauto|].
  split; [eapply whole_cover_call; eauto|].
  split; [eapply whole_forward_cover; eauto|].
  split; [eapply whole_backward_cover; eauto | eapply whole_next_nodup; eauto].
Qed.

Print Assumptions graph_wf_whole_function.
Print Assumptions whole_function_unconditional.

(* ================================================================== executable form of the structural hypotheses *)
Fixpoint pairwise_disj (l : list subroutine) : bool :=
  match l with
  | [] => true
  | s :: r => forallb (fun s2 => forallb (fun n => negb (nat_mem n (s_blocks s2))) (s_blocks s)) r && pairwise_disj r
  end.

Definition struct_okb (t : teal) : bool :=
  forallb (fun s => forallb (fun n => negb (nat_mem n (s_blocks (t_main t)))) (s_blocks s)) (t_subs t) &&
  pairwise_disj (t_subs t) &&
  forallb (fun s => negb (String.eqb (s_name s) EmptyString)) (t_subs t) &&
  forallb (fun e => match tblock t e with
                    | Some b => match b_prev b with [] => true | _ => false end
                    | None => true end) (0 :: map s_entry (t_subs t)) &&
  forallb (fun cb => if is_callsub_block t cb then
                       forallb (fun r => match tblock t r with
                                         | Some rb => forallb (fun m => Nat.eqb m (b_idx cb)) (b_prev rb)
                                         | None => true end) (b_next cb)
                     else true) (t_blocks t).

Lemma negb_nat_mem_false n l : negb (nat_mem n l) = true -> ~ In n l.
Proof. intros H Hin. apply nat_mem_In in Hin. rewrite Hin in H. discriminate. Qed.

Lemma pairwise_disj_sound l :
  pairwise_disj l = true ->
  forall s1 s2 n, In s1 l -> In s2 l -> In n (s_blocks s1) -> In n (s_blocks s2) -> s1 = s2.
Proof.
  induction l as [|s r IH]; intros H s1 s2 n H1 H2 Hn1 Hn2; [destruct H1|].
  simpl in H. apply andb_true_iff in H. destruct H as [Hh Ht]. rewrite forallb_forall in Hh.
  destruct H1 as [<-|H1]; destruct H2 as [<-|H2].
  - reflexivity.
  - exfalso. specialize (Hh s2 H2). rewrite forallb_forall in Hh. apply (negb_nat_mem_false _ _ (Hh n Hn1)). assumption.
  - exfalso. specialize (Hh s1 H1). rewrite forallb_forall in Hh. apply (negb_nat_mem_false _ _ (Hh n Hn2)). assumption.
  - eapply IH; eauto.
Qed.

Theorem struct_okb_sound t : struct_okb t = true -> struct_ok t.
Proof.
  unfold struct_okb. rewrite !andb_true_iff. intros [[[[H1 H2] H3] H4] H5]. constructor.
  - intros s n Hs Hn. rewrite forallb_forall in H1. specialize (H1 s Hs). rewrite forallb_forall in H1.
    apply negb_nat_mem_false. apply H1. assumption.
  - apply pairwise_disj_sound. assumption.
  - intros s Hs E. rewrite forallb_forall in H3. specialize (H3 s Hs). rewrite E in H3. discriminate.
  - intros e b He Hb. rewrite forallb_forall in H4.
    assert (Hin : In e (0 :: map s_entry (t_subs t))).
    { destruct He as [->|(s & Hs & ->)]; [left; reflexivity | right; apply in_map; assumption]. }
    specialize (H4 e Hin). rewrite Hb in H4. destruct (b_prev b); [reflexivity | discriminate].
  - intros c cb r rb m Hc Hcs Hr Hrb Hm. rewrite forallb_forall in H5.
    unfold tblock in Hc. apply find_some in Hc. destruct Hc as [Hin Hidx]. apply Nat.eqb_eq in Hidx.
    specialize (H5 cb Hin). rewrite Hcs in H5. rewrite forallb_forall in H5. specialize (H5 r Hr).
    rewrite Hrb in H5. rewrite forallb_forall in H5. specialize (H5 m Hm). apply Nat.eqb_eq in H5. congruence.
Qed.

Corollary graph_wf_whole_function_b p t :
  parse_teal p = Ok t -> struct_okb t = true -> graph_wf (whole_function t) = true.
Proof. intros H Hb. eapply graph_wf_whole_function; eauto. apply struct_okb_sound. assumption. Qed.

Print Assumptions graph_wf_whole_function_b.

(* non-vacuity: the hypotheses hold on the good example and fail on the bad one *)
Definition teal_of_lines (ls : list string) : option teal :=
  match parse_program (unlines ls) with
  | Ok p => match parse_teal p with Ok t => Some t | Err _ => None end
  | Err _ => None
  end.

Example struct_ok_good : option_map struct_okb (teal_of_lines ex_good) = Some true.
Proof. vm_compute. reflexivity. Qed.
Example struct_ok_bad : option_map struct_okb (teal_of_lines ex_bad) = Some false.
Proof. vm_compute. reflexivity. Qed.

(* without structural hypotheses the statement is false: a loop back to the entry block of main
   (prev_blocks_global of the entry block is [] although block 0 is its own local predecessor) *)
Open Scope string_scope.
Definition ex_loop : list string := ["loop:"; "int 1"; "bnz loop"; "int 1"; "return"].
Close Scope string_scope.

Definition ex_loop_prog : prog :=
  [ mkIns 1 (ILabel "loop"%string); mkIns 2 (IInt (IANum 1)); mkIns 3 (IBNZ "loop"%string);
    mkIns 4 (IInt (IANum 1)); mkIns 5 IReturn ].

Example ex_loop_parses : parse_program (unlines ex_loop) = Ok ex_loop_prog.
Proof. vm_compute. reflexivity. Qed.

Example ex_loop_false :
  match parse_teal ex_loop_prog with Ok t => graph_wf (whole_function t) | Err _ => true end = false.
Proof. vm_compute. reflexivity. Qed.

Example graph_wf_whole_function_refuted :
  exists p t, parse_teal p = Ok t /\ graph_wf (whole_function t) = false.
Proof.
  exists ex_loop_prog. pose proof ex_loop_false as H.
  destruct (parse_teal ex_loop_prog) as [t|e]; [|discriminate].
  exists t. split; [reflexivity | exact H].
Qed.
Example ex_loop_reason :
  option_map (fun f => (cover_prev_b f, cover_ret_b f, cover_next_b f, cover_call_b f, fwd_cover_b f, bwd_cover_b f))
             (func_of_lines ex_loop) = Some (true, true, false, true, true, true).
Proof. vm_compute. reflexivity. Qed.
