(* Totality of the path search of Model/Detect.v (search / detect_paths / run_detector): under the
   definedness check of TotalSolver and a check on the main routine, the search never returns Exn and
   returns Done as soon as the fuel (a depth bound) exceeds an explicit bound. *)
From Coq Require Import String List NArith ZArith Bool Arith Lia.
From Tealer Require Import Tables LeafPrelude Leaves Syntax Parse Cfg StackAst Keys Analysis Domains Detect Paths.
From Tealer Require Import SolverLemmas SearchLemmas TotalSolver TotalDomains.
Import ListNotations.
Open Scope string_scope.
Open Scope list_scope.

(* ================================================================== the check on the main routine *)
(* the entry is a block of main; main is closed under local successors; main has no retsub block *)
Definition search_okb (f : func) : bool :=
  idsb f (fn_entry f) && nat_mem (fn_entry f) (fn_main f) &&
  forallb (fun b => if nat_mem (b_idx b) (fn_main f)
                    then negb (f_is_retsub f b) && forallb (fun x => nat_mem x (fn_main f)) (b_next b)
                    else true) (fn_blocks f).

(* depth bound of the search: paths visit each block at most once per activation, activations nest at most
   once per subroutine *)
Definition search_bound (f : func) : nat :=
  S (length (ids f) * (S (length (ids f))) ^ (length (fn_all_subs f))).

(* ================================================================== list helpers *)
Lemma but_last_l_snoc {A} (l : list A) a : but_last_l (l ++ [a]) = l.
Proof. rewrite but_last_l_removelast. apply removelast_last. Qed.

Lemma NoDup_snoc {A} (l : list A) a : NoDup l -> ~ In a l -> NoDup (l ++ [a]).
Proof.
  intros Hl Ha. induction Hl as [|x l Hx Hl IH]; simpl.
  - constructor; [intros []|constructor].
  - constructor.
    + rewrite in_app_iff. intros [H|[H|[]]]; [contradiction|]. subst. apply Ha. left. reflexivity.
    + apply IH. intros H. apply Ha. right. exact H.
Qed.

Lemma NoDup_snoc_inv {A} (l : list A) a : NoDup (l ++ [a]) -> NoDup l.
Proof. intros H. apply NoDup_remove_1 in H. rewrite app_nil_r in H. exact H. Qed.

Lemma fold_collect_total {A} (g : nat -> outcome (list A)) nx :
  (forall nb, In nb nx -> exists qs, g nb = Done qs) ->
  forall ps0, exists ps, fold_left (collect g) nx (Done ps0) = Done ps.
Proof.
  induction nx as [|n nx IH]; intros H ps0; [simpl; eauto|].
  simpl. destruct (H n (or_introl eq_refl)) as [qs ->]. apply IH. intros nb Hnb. apply H. right. exact Hnb.
Qed.

Lemma fold_collect_no_exn {A} (g : nat -> outcome (list A)) nx :
  (forall nb, In nb nx -> forall e, g nb <> Exn e) ->
  forall acc, (forall e, acc <> Exn e) -> forall e, fold_left (collect g) nx acc <> Exn e.
Proof.
  induction nx as [|n nx IH]; intros H acc Hacc e; [simpl; auto|].
  simpl. apply IH; [intros nb Hnb; apply H; right; exact Hnb|].
  intros e'. unfold collect. destruct acc as [ps|e0|]; [|apply Hacc|discriminate].
  destruct (g n) as [qs|e1|] eqn:Eg; try discriminate.
  exfalso. exact (H n (or_introl eq_refl) e1 Eg).
Qed.

Section SearchTotal.
  Variable f : func.
  Variable validated : nat -> bool.
  Variable report : list nat -> bool.
  Notation search := (Detect.search f validated report).

  Hypothesis Hdef : defined_okb f = true.
  Hypothesis Hsok : search_okb f = true.

  (* ---------------------------------------------------------------- the facts packed in search_okb *)
  Lemma sok_entry : In (fn_entry f) (ids f) /\ In (fn_entry f) (fn_main f).
  Proof.
    unfold search_okb in Hsok. rewrite !andb_true_iff in Hsok. destruct Hsok as [[H1 H2] _].
    split; [apply idsb_In; exact H1|apply nat_mem_In; exact H2].
  Qed.

  Lemma sok_main b : In b (fn_blocks f) -> In (b_idx b) (fn_main f) ->
    f_is_retsub f b = false /\ forall x, In x (b_next b) -> In x (fn_main f).
  Proof.
    intros Hb Hm. unfold search_okb in Hsok. rewrite !andb_true_iff in Hsok. destruct Hsok as [_ H].
    rewrite forallb_forall in H. specialize (H b Hb). apply nat_mem_In in Hm. rewrite Hm in H.
    apply andb_true_iff in H. destruct H as [H1 H2]. split; [apply negb_true_iff; exact H1|].
    rewrite forallb_forall in H2. intros x Hx. apply nat_mem_In. auto.
  Qed.

  (* ---------------------------------------------------------------- the invariant *)
  Definition frame_ok (fr : frame) : Prop :=
    exists cs cb, fst fr = Some cs /\ fblock f cs = Some cb /\ f_is_callsub f cb = true /\
                  In (snd fr) (map s_name (fn_all_subs f)).
  (* the block of main the current activation chain hangs from *)
  Definition anchor (bb : nat) (rest : list frame) : nat :=
    match rest with (Some cs, _) :: _ => cs | _ => bb end.

  Record sinv (bb : nat) (stack : list frame) : Prop := {
    si_bb : In bb (ids f);
    si_stack : exists fr0 rest, stack = fr0 :: rest /\ fst fr0 = None /\ Forall frame_ok rest /\
                                In (anchor bb rest) (fn_main f);
    si_nodup : NoDup (map snd stack) }.

  Lemma anchor_cons bb bb' x rest : frame_ok x -> anchor bb (x :: rest) = anchor bb' (x :: rest).
  Proof. intros (cs & cb & H & _). destruct x as [[c|] nm]; simpl in *; [reflexivity|discriminate]. Qed.

  Lemma anchor_snoc bb bb' x rest y : frame_ok x -> anchor bb ((x :: rest) ++ [y]) = anchor bb' (x :: rest).
  Proof. intros (cs & cb & H & _). destruct x as [[c|] nm]; simpl in *; [reflexivity|discriminate]. Qed.

  Lemma find_sub_name l s : f_find_sub f l = Some s -> In l (map s_name (fn_all_subs f)).
  Proof.
    unfold f_find_sub. intros H. apply find_some in H. destruct H as [Hin He].
    apply String.eqb_eq in He. subst l. apply in_map. exact Hin.
  Qed.

  Lemma plain_next b :
    (forall l, fexit_op f b <> Some (ICallsub l)) -> fexit_op f b <> Some IRetsub ->
    next_global f b = Some (b_next b).
  Proof.
    intros Hc Hr. unfold next_global, f_is_retsub.
    destruct (fexit_op f b) as [op|]; [|reflexivity].
    destruct op; try reflexivity; [exfalso; eapply Hc; reflexivity|exfalso; apply Hr; reflexivity].
  Qed.

  (* one step of each kind preserves the invariant *)
  Lemma sinv_edge bb b stack nb :
    sinv bb stack -> fblock f bb = Some b -> next_global f b = Some (b_next b) -> In nb (b_next b) -> sinv nb stack.
  Proof.
    intros [Hbb (fr0 & rest & Hst & Hfr0 & Hrest & Hanch) Hnd] Hb Hnx Hnb.
    destruct (def_next f Hdef b (fblock_In f bb b Hb)) as [nx [Hnx' Hin]].
    rewrite Hnx in Hnx'. inversion Hnx'; subst nx. constructor.
    - apply Hin. apply in_or_app. left. exact Hnb.
    - exists fr0, rest. repeat (split; [assumption|]).
      destruct rest as [|x rest].
      + simpl in *. apply (proj2 (sok_main b (fblock_In f bb b Hb) ltac:(rewrite (fblock_idx f bb b Hb); exact Hanch))). exact Hnb.
      + inversion Hrest as [|? ? Hx _]; subst.
        destruct Hx as (c & cb' & Hc & _). destruct x as [o nm']. simpl in Hc. subst o. exact Hanch.
    - exact Hnd.
  Qed.

  Lemma sinv_call bb b stack l s :
    sinv bb stack -> fblock f bb = Some b -> fexit_op f b = Some (ICallsub l) ->
    existsb (fun '(_, s) => s =? l) stack = false -> f_find_sub f l = Some s ->
    sinv (s_entry s) (stack ++ [(Some bb, l)]).
  Proof.
    intros [Hbb (fr0 & rest & Hst & Hfr0 & Hrest & Hanch) Hnd] Hb Hop Hstk Hs.
    destruct (def_next f Hdef b (fblock_In f bb b Hb)) as [nx [Hnx Hin]].
    assert (Hnx' : nx = [s_entry s]).
    { unfold next_global, f_is_retsub in Hnx. rewrite Hop, Hs in Hnx. simpl in Hnx. congruence. }
    assert (Hfr : frame_ok (Some bb, l)).
    { exists bb, b. simpl. repeat split; auto.
      - unfold f_is_callsub. rewrite Hop. reflexivity.
      - eapply find_sub_name; eauto. }
    constructor.
    - apply Hin. subst nx. left. reflexivity.
    - exists fr0, (rest ++ [(Some bb, l)]). subst stack. split; [reflexivity|]. split; [assumption|].
      split; [apply Forall_app; split; [assumption|constructor; [exact Hfr|constructor]]|].
      destruct rest as [|x rest]; [exact Hanch|].
      inversion Hrest as [|? ? Hx _]; subst.
      destruct Hx as (c & cb' & Hc & _). destruct x as [o nm']. simpl in Hc. subst o. exact Hanch.
    - rewrite map_app. apply NoDup_snoc; [exact Hnd|]. apply on_stack_false. exact Hstk.
  Qed.

  Lemma sinv_ret_shape bb b stack :
    sinv bb stack -> fblock f bb = Some b -> fexit_op f b = Some IRetsub ->
    exists fr0 rest0 cs nm cb,
      stack = (fr0 :: rest0) ++ [(Some cs, nm)] /\ fst fr0 = None /\ Forall frame_ok rest0 /\
      fblock f cs = Some cb /\ f_is_callsub f cb = true /\
      (rest0 = [] -> In cs (fn_main f)).
  Proof.
    intros [Hbb (fr0 & rest & Hst & Hfr0 & Hrest & Hanch) Hnd] Hb Hop.
    destruct rest as [|x rest].
    - exfalso. simpl in Hanch.
      assert (Hm : In (b_idx b) (fn_main f)) by (rewrite (fblock_idx f bb b Hb); exact Hanch).
      pose proof (proj1 (sok_main b (fblock_In f bb b Hb) Hm)) as Hr.
      unfold f_is_retsub in Hr. rewrite Hop in Hr. discriminate.
    - destruct (exists_last (l := x :: rest)) as [rest0 [lastfr E]]; [discriminate|].
      rewrite E in Hrest. apply Forall_app in Hrest. destruct Hrest as [Hr0 Hl]. inversion Hl as [|? ? Hlast _]; subst.
      destruct Hlast as (cs & cb & H1 & H2 & H3 & H4). destruct lastfr as [o nm]. simpl in H1. subst o.
      exists fr0, rest0, cs, nm, cb. rewrite E. repeat (split; [auto|]).
      intros ->. simpl in E. inversion E; subst. simpl in Hanch. exact Hanch.
  Qed.

  Lemma sinv_ret bb fr0 rest0 cs nm cb rp :
    sinv bb ((fr0 :: rest0) ++ [(Some cs, nm)]) -> fst fr0 = None -> Forall frame_ok rest0 ->
    fblock f cs = Some cb -> f_is_callsub f cb = true -> (rest0 = [] -> In cs (fn_main f)) ->
    sub_return_point cb = Some rp ->
    sinv rp (fr0 :: rest0).
  Proof.
    intros [Hbb (fr0' & rest & Hst & _ & Hrest & Hanch) Hnd] Hfr0 Hr0 Hcb Hcs Hmain Hrp.
    destruct (def_next f Hdef cb (fblock_In f cs cb Hcb)) as [nx [Hnx Hin]].
    assert (Hrpn : In rp (b_next cb)).
    { unfold sub_return_point in Hrp. destruct (b_next cb); [discriminate|]. inversion Hrp. left. reflexivity. }
    constructor.
    - apply Hin. apply in_or_app. right. unfold next_rp. rewrite Hcs, Hrp. left. reflexivity.
    - exists fr0, rest0. repeat (split; [auto|]).
      destruct rest0 as [|x rest0].
      + simpl. apply (proj2 (sok_main cb (fblock_In f cs cb Hcb)
                               ltac:(rewrite (fblock_idx f cs cb Hcb); apply Hmain; reflexivity))). exact Hrpn.
      + inversion Hr0 as [|? ? Hx _]; subst. simpl in Hst. inversion Hst; subst fr0' rest.
        destruct Hx as (c & cb' & Hc & _). destruct x as [o nm']. simpl in Hc. subst o. exact Hanch.
    - rewrite map_app in Hnd. cbn [map] in Hnd. apply (NoDup_snoc_inv (map snd (fr0 :: rest0)) nm). exact Hnd.
  Qed.

  (* ================================================================ 1. no exception, for every fuel *)
  Theorem search_no_exn : forall fuel bb path stack ex,
    sinv bb stack -> forall e, search fuel bb path stack ex <> Exn e.
  Proof.
    induction fuel as [|fu IH]; intros bb path stack ex Hinv e; [discriminate|].
    rewrite search_S0.
    destruct (nat_mem bb (last ex [])); [discriminate|].
    destruct (validated bb); [discriminate|]. cbv zeta.
    destruct (proj1 (fblock_ids f bb) (si_bb _ _ Hinv)) as [b Hb]. rewrite Hb.
    destruct (leaf_global f b); [discriminate|].
    destruct (fexit_op f b) as [op|] eqn:Hop.
    2:{ assert (Hnx : next_global f b = Some (b_next b))
          by (apply plain_next; [intros l|]; rewrite Hop; discriminate).
        rewrite Hnx. apply fold_collect_no_exn; [|discriminate].
        intros nb Hnb e'. apply IH. eapply sinv_edge; eauto. }
    destruct op;
      try (assert (Hnx : next_global f b = Some (b_next b))
             by (apply plain_next; [intros l0|]; rewrite Hop; discriminate);
           rewrite Hnx; apply fold_collect_no_exn; [|discriminate];
           intros nb Hnb e'; apply IH; eapply sinv_edge; eauto).
    - (* callsub *)
      destruct (existsb (fun '(_, s) => s =? l) stack) eqn:Hstk; [discriminate|].
      destruct (def_next f Hdef b (fblock_In f bb b Hb)) as [nx [Hnx _]].
      destruct (next_global_callsub_inv f b l nx Hop Hnx) as [s Hs]. rewrite Hs.
      apply IH. eapply sinv_call; eauto.
    - (* retsub *)
      destruct (sinv_ret_shape bb b stack Hinv Hb Hop) as (fr0 & rest0 & cs & nm & cb & E & H0 & Hr0 & Hcb & Hcs & Hm).
      rewrite E, last_last, Hcb.
      destruct (sub_return_point cb) as [rp|] eqn:Hrp; [|discriminate].
      rewrite but_last_l_snoc. apply IH. rewrite E in Hinv. eapply sinv_ret; eauto.
  Qed.

  (* ================================================================ 2. termination *)
  Notation N := (length (ids f)).
  Notation M := (S (length (ids f))).
  Notation d := (length (fn_all_subs f)).

  (* blocks not yet visited in an activation *)
  Definition unvisited (e : list nat) : nat := length (filter (fun x => negb (nat_mem x e)) (ids f)).

  Lemma unvisited_le e : unvisited e <= N.
  Proof. apply filter_length_le. Qed.

  Lemma unvisited_visit e bb : In bb (ids f) -> nat_mem bb e = false -> unvisited (e ++ [bb]) < unvisited e.
  Proof.
    intros Hbb He. unfold unvisited. apply filter_length_lt.
    - intros x _ Hx. apply negb_true_iff in Hx. apply negb_true_iff.
      apply nat_mem_false. apply nat_mem_false in Hx. intros H. apply Hx. apply in_or_app. left. exact H.
    - exists bb. split; [exact Hbb|]. split.
      + apply negb_false_iff. apply nat_mem_In. apply in_or_app. right. left. reflexivity.
      + rewrite He. reflexivity.
  Qed.

  (* mixed-radix potential of the outer activations *)
  Fixpoint phi (dd : nat) (ex : list (list nat)) : nat :=
    match ex with
    | [] => 0
    | e :: r => unvisited e * M ^ dd + phi (pred dd) r
    end.

  Lemma phi_snoc ex : forall dd e, phi dd (ex ++ [e]) = phi dd ex + unvisited e * M ^ (dd - length ex).
  Proof.
    induction ex as [|x ex IH]; intros dd e; simpl.
    - rewrite Nat.sub_0_r. lia.
    - rewrite IH. replace (pred dd - length ex) with (dd - S (length ex)) by lia. lia.
  Qed.

  Lemma pow_pos j : 1 <= M ^ j.
  Proof. induction j as [|j IH]; simpl; lia. Qed.

  Lemma stack_depth bb stack : sinv bb stack -> length stack <= S d.
  Proof.
    intros [_ (fr0 & rest & Hst & _ & Hrest & _) Hnd]. subst stack. simpl.
    simpl in Hnd. apply NoDup_cons_iff in Hnd. destruct Hnd as [_ Hnd].
    assert (Hincl : incl (map snd rest) (map s_name (fn_all_subs f))).
    { intros x Hx. apply in_map_iff in Hx. destruct Hx as [fr [<- Hfr]].
      rewrite Forall_forall in Hrest. destruct (Hrest fr Hfr) as (_ & _ & _ & _ & _ & H). exact H. }
    pose proof (NoDup_incl_length Hnd Hincl) as Hlen. rewrite !map_length in Hlen. apply le_n_S. exact Hlen.
  Qed.

  Theorem search_total : forall fuel bb path stack ex0 e,
    sinv bb stack -> S (length ex0) = length stack ->
    phi d ex0 + unvisited e * M ^ (d - length ex0) < fuel ->
    exists ps, search fuel bb path stack (ex0 ++ [e]) = Done ps.
  Proof.
    induction fuel as [|fu IH]; intros bb path stack ex0 e Hinv Hlen Hfuel; [lia|].
    rewrite search_S0. rewrite last_last.
    destruct (nat_mem bb e) eqn:Hvis; [eauto|].
    destruct (validated bb); [eauto|]. cbv zeta.
    destruct (proj1 (fblock_ids f bb) (si_bb _ _ Hinv)) as [b Hb]. rewrite Hb.
    destruct (leaf_global f b); [eauto|].
    rewrite but_last_l_snoc.
    pose proof (unvisited_visit e bb (si_bb _ _ Hinv) Hvis) as Hk.
    pose proof (pow_pos (d - length ex0)) as Hp.
    assert (Hedge : next_global f b = Some (b_next b) ->
                    exists ps, fold_left (collect (fun nb => search fu nb (path ++ [bb]) stack (ex0 ++ [e ++ [bb]])))
                                 (b_next b) (Done []) = Done ps).
    { intros Hnx. apply fold_collect_total. intros nb Hnb. apply IH; [eapply sinv_edge; eauto|exact Hlen|]. nia. }
    destruct (fexit_op f b) as [op|] eqn:Hop.
    2:{ assert (Hnx : next_global f b = Some (b_next b))
          by (apply plain_next; [intros l|]; rewrite Hop; discriminate).
        rewrite Hnx. auto. }
    destruct op;
      try (assert (Hnx : next_global f b = Some (b_next b))
             by (apply plain_next; [intros l0|]; rewrite Hop; discriminate);
           rewrite Hnx; auto).
    - (* callsub *)
      destruct (existsb (fun '(_, s) => s =? l) stack) eqn:Hstk; [eauto|].
      destruct (def_next f Hdef b (fblock_In f bb b Hb)) as [nx [Hnx _]].
      destruct (next_global_callsub_inv f b l nx Hop Hnx) as [s Hs]. rewrite Hs.
      pose proof (sinv_call bb b stack l s Hinv Hb Hop Hstk Hs) as Hinv'.
      pose proof (stack_depth _ _ Hinv') as Hdepth. rewrite app_length in Hdepth. simpl in Hdepth.
      apply IH; [exact Hinv'|rewrite !app_length; simpl; unfold frame in *; lia|].
      rewrite phi_snoc, app_length. simpl. unfold frame in *.
      assert (Hj : d - length ex0 = S (d - (length ex0 + 1))) by lia.
      rewrite Hj in *. rewrite Nat.pow_succ_r' in *.
      pose proof (pow_pos (d - (length ex0 + 1))) as Hw.
      pose proof (unvisited_le []) as Hn.
      set (W := M ^ (d - (length ex0 + 1))) in *. set (k := unvisited e) in *. set (k' := unvisited (e ++ [bb])) in *.
      set (n0 := unvisited []) in *.
      assert (H1 : k' * (M * W) + n0 * W < k * (M * W)) by nia.
      lia.
    - (* retsub *)
      destruct (sinv_ret_shape bb b stack Hinv Hb Hop) as (fr0 & rest0 & cs & nm & cb & E & H0 & Hr0 & Hcb & Hcs & Hm).
      rewrite E, last_last, Hcb.
      destruct (sub_return_point cb) as [rp|] eqn:Hrp; [|eauto].
      rewrite !but_last_l_snoc.
      assert (Hinv' : sinv rp (fr0 :: rest0)) by (rewrite E in Hinv; eapply sinv_ret; eauto).
      rewrite E, app_length in Hlen. simpl in Hlen.
      destruct (exists_last (l := ex0)) as [ex1 [e1 E1]].
      { intros ->. simpl in Hlen. unfold frame in *. lia. }
      rewrite E1. apply IH; [exact Hinv'| |].
      + rewrite E1, app_length in Hlen. simpl in *. unfold frame in *. lia.
      + rewrite <- phi_snoc, <- E1. nia.
  Qed.

  Theorem detect_paths_no_exn fuel e : detect_paths f validated report fuel <> Exn e.
  Proof.
    unfold detect_paths. apply search_no_exn. destruct sok_entry as [He Hm]. constructor.
    - exact He.
    - exists (None, ""), []. repeat split; auto.
    - simpl. constructor; [intros []|constructor].
  Qed.

  Theorem detect_paths_terminates fuel :
    search_bound f <= fuel -> exists ps, detect_paths f validated report fuel = Done ps.
  Proof.
    intros Hfuel. unfold detect_paths. change [[]] with (([] : list (list nat)) ++ [[]]).
    destruct sok_entry as [He Hm]. apply search_total.
    - constructor.
      + exact He.
      + exists (None, ""), []. repeat split; auto.
      + simpl. constructor; [intros []|constructor].
    - reflexivity.
    - simpl. rewrite Nat.sub_0_r. unfold search_bound in Hfuel.
      pose proof (unvisited_le []) as Hn.
      assert (unvisited [] * M ^ d <= N * M ^ d) by (apply Nat.mul_le_mono_r; exact Hn). lia.
  Qed.

  Theorem detect_paths_fuel_mono fuel fuel' ps :
    detect_paths f validated report fuel = Done ps -> fuel <= fuel' ->
    detect_paths f validated report fuel' = Done ps.
  Proof. unfold detect_paths. intros H Hle. eapply search_fuel_mono; eauto. Qed.
End SearchTotal.

(* ================================================================== run_detector *)
Theorem run_detector_no_exn f r fuel name checks e :
  defined_okb f = true -> search_okb f = true -> run_detector f r fuel name checks <> Exn e.
Proof. intros Hd Hs. unfold run_detector. apply detect_paths_no_exn; assumption. Qed.

Theorem run_detector_terminates f r fuel name checks :
  defined_okb f = true -> search_okb f = true -> search_bound f <= fuel ->
  exists ps, run_detector f r fuel name checks = Done ps.
Proof. intros Hd Hs Hfuel. unfold run_detector. apply detect_paths_terminates; assumption. Qed.

Theorem run_detector_fuel_mono f r fuel fuel' name checks ps :
  run_detector f r fuel name checks = Done ps -> fuel <= fuel' -> run_detector f r fuel' name checks = Done ps.
Proof. unfold run_detector. apply detect_paths_fuel_mono. Qed.

Print Assumptions search_no_exn.
Print Assumptions search_total.
Print Assumptions run_detector_no_exn.
Print Assumptions run_detector_terminates.
Print Assumptions run_detector_fuel_mono.
