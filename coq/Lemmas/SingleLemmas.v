(* The per-leaf functions of the four analyses (Domains.int_single, fee_single, addr_single, type_single)
   against the concrete semantics of operand trees (Spec/Eval.v). *)
From Coq Require Import String List NArith ZArith Bool Arith Lia.
From Tealer Require Import Tables LeafPrelude Leaves Syntax StackAst Keys Domains LeafLemmas Eval.
Import ListNotations.
Open Scope string_scope.
Open Scope list_scope.

(* ====================================================================== *)
(* 0. Basic facts about the semantics                                      *)
(* ====================================================================== *)
Lemma sv_eval_known : forall e op pos args out,
  sv_eval e (SKnown op pos args out) = eval_op e op (map (sv_eval e) args).
Proof. reflexivity. Qed.

(* the tool's notion of "integer constant" agrees with the semantics *)
Lemma int_push_const : forall e op n,
  is_int_push_ins (e_intcs e) op = IntNum n -> int_const e op = Some n.
Proof.
  intros e op n. unfold is_int_push_ins, int_const.
  destruct op; try discriminate;
    try (destruct a; cbn [intarg_res]; intros H; inversion H; reflexivity);
    (destruct (e_intcs e) as [cs|]; [| discriminate];
     destruct (nth_error cs _); intros H; inversion H; reflexivity).
Qed.

Lemma int_push_eval : forall e op pos args out n,
  is_int_push_ins (e_intcs e) op = IntNum n ->
  sv_eval e (SKnown op pos args out) = Some (VInt (Z.of_N n)).
Proof.
  intros e op pos args out n H. rewrite sv_eval_known.
  pose proof (int_push_const e op n H) as Hc.
  destruct op; try discriminate; unfold eval_op; rewrite Hc; reflexivity.
Qed.

Lemma groupindex_eval : forall e v x,
  is_txn_groupindex v = true -> sv_eval e v = Some x -> x = VInt (Z.of_N (e_own e)).
Proof.
  intros e v x Hg Hx. destruct v as [| op pos args out]; [discriminate|].
  destruct op; try discriminate. destruct f as [f oi]. cbn [is_txn_groupindex] in Hg.
  rewrite sv_eval_known in Hx. cbn [eval_op] in Hx. destruct oi; [discriminate|].
  inversion Hx. unfold field_of. rewrite Hg. reflexivity.
Qed.

Lemma member_some : forall e j t, member e j = Some t -> (0 <= j < Z.of_N (e_size e))%Z /\ t = Z.to_N j.
Proof.
  intros e j t. unfold member.
  destruct (Z.leb_spec 0 j); destruct (Z.ltb_spec j (Z.of_N (e_size e))); cbn [andb];
    intros Hm; inversion Hm; split; [lia | reflexivity].
Qed.

(* ====================================================================== *)
(* (a) C10: reads are attributed to the right transaction                  *)
(* ====================================================================== *)
(* meaning of a classified index: the integer position it denotes *)
Definition index_denotes (e : env) (ix : txindex) (j : Z) : Prop :=
  match ix with
  | XSelf => j = Z.of_N (e_own e)
  | XAbs n => j = Z.of_N n
  | XRel off => j = (Z.of_N (e_own e) + off)%Z
  | XUnknown => True
  end.

Lemma eval_binop_args : forall e a1 a2 x1 x2,
  sv_eval e a1 = Some (VInt x1) -> sv_eval e a2 = Some (VInt x2) ->
  map (sv_eval e) [a1; a2] = [Some (VInt x1); Some (VInt x2)].
Proof. intros. cbn [map]. rewrite H, H0. reflexivity. Qed.

Theorem get_index_correct : forall e v j,
  sv_eval e v = Some (VInt j) -> index_denotes e (get_index (e_intcs e) v) j.
Proof.
  intros e v j Hv. destruct v as [| op pos args out]; [exact I|].
  unfold get_index.
  destruct (is_txn_groupindex (SKnown op pos args out)) eqn:Hg.
  { apply (groupindex_eval e _ _ Hg) in Hv. inversion Hv. reflexivity. }
  destruct (is_int_push_ins (e_intcs e) op) as [| | n | s] eqn:Hi; try exact I.
  2:{ rewrite (int_push_eval e op pos args out n Hi) in Hv. inversion Hv. reflexivity. }
  rewrite sv_eval_known in Hv.
  destruct op; try exact I.
  - (* IAdd *)
    destruct args as [| a1 [| a2 [| a3 rest]]]; try exact I.
    destruct a1 as [| o1 p1 r1 u1]; [exact I|]. destruct a2 as [| o2 p2 r2 u2]; [exact I|].
    cbn [eval_op map] in Hv.
    destruct (sv_eval e (SKnown o1 p1 r1 u1)) as [[x1| |]|] eqn:E1; try discriminate.
    destruct (sv_eval e (SKnown o2 p2 r2 u2)) as [[x2| |]|] eqn:E2; try discriminate.
    destruct (x1 + x2 <? two64)%Z; [| discriminate]. inversion Hv; subst j.
    destruct (is_txn_groupindex (SKnown o1 p1 r1 u1)) eqn:G1.
    + destruct (is_int_push_ins (e_intcs e) o2) as [| | n | s] eqn:I2; try exact I.
      apply (groupindex_eval e _ _ G1) in E1. inversion E1.
      rewrite (int_push_eval e o2 p2 r2 u2 n I2) in E2. inversion E2. reflexivity.
    + destruct (is_txn_groupindex (SKnown o2 p2 r2 u2)) eqn:G2; [| exact I].
      destruct (is_int_push_ins (e_intcs e) o1) as [| | n | s] eqn:I1; try exact I.
      apply (groupindex_eval e _ _ G2) in E2. inversion E2.
      rewrite (int_push_eval e o1 p1 r1 u1 n I1) in E1. inversion E1. cbn [index_denotes]. lia.
  - (* ISub *)
    destruct args as [| a1 [| a2 [| a3 rest]]]; try exact I.
    destruct a1 as [| o1 p1 r1 u1]; [exact I|]. destruct a2 as [| o2 p2 r2 u2]; [exact I|].
    cbn [eval_op map] in Hv.
    destruct (sv_eval e (SKnown o1 p1 r1 u1)) as [[x1| |]|] eqn:E1; try discriminate.
    destruct (sv_eval e (SKnown o2 p2 r2 u2)) as [[x2| |]|] eqn:E2; try discriminate.
    destruct (x2 <=? x1)%Z; [| discriminate]. inversion Hv; subst j.
    destruct (is_txn_groupindex (SKnown o1 p1 r1 u1)) eqn:G1; [| exact I].
    destruct (is_int_push_ins (e_intcs e) o2) as [| | n | s] eqn:I2; try exact I.
    apply (groupindex_eval e _ _ G1) in E1. inversion E1.
    rewrite (int_push_eval e o2 p2 r2 u2 n I2) in E2. inversion E2. cbn [index_denotes]. lia.
Qed.

(* value_matches, unfolded: the classified (index, field name) and the family test *)
Definition fam_index_ok (fam : keyfam) (ix : txindex) : bool :=
  match fam, ix with
  | KAtIndex i, XAbs n | KAbs i, XAbs n => N.eqb n i
  | KRel off, XRel o => Z.eqb o off
  | KSelf, XSelf => true
  | _, _ => false
  end.

Lemma value_matches_inv : forall intcs fam fld v,
  value_matches intcs fam fld v = true ->
  exists ix fname oi, get_index_and_field intcs v = Some (ix, (fname, oi)) /\
                      fname = fld /\ fam_index_ok fam ix = true.
Proof.
  intros intcs fam fld v H. unfold value_matches in H.
  destruct (get_index_and_field intcs v) as [[ix [fname oi]]|] eqn:E; [| discriminate].
  exists ix, fname, oi. split; [reflexivity|].
  destruct (String.eqb_spec fname fld) as [-> | Hne].
  - split; [reflexivity|]. destruct ix, fam; cbn in *; try discriminate; assumption.
  - destruct ix; cbn in H; discriminate.
Qed.

(* the member denoted by a family agrees with the member denoted by a matching index *)
Lemma fam_index_member : forall e fam ix j t t',
  fam_index_ok fam ix = true -> index_denotes e ix j ->
  member e j = Some t' -> key_txn e fam = Some t -> t' = t.
Proof.
  intros e fam ix j t t' Hok Hd Hm Hk.
  apply member_some in Hm. destruct Hm as [Hj ->].
  destruct fam, ix; cbn [fam_index_ok] in Hok; try discriminate; cbn [index_denotes key_txn] in *.
  - inversion Hk. subst. apply N2Z.id.
  - apply N.eqb_eq in Hok. subst. destruct (N.eqb_spec (e_own e) i); inversion Hk. subst.
    apply N2Z.id.
  - apply N.eqb_eq in Hok. subst. destruct (i <? e_size e)%N; inversion Hk.
    subst. apply N2Z.id.
  - apply Z.eqb_eq in Hok. subst. apply member_some in Hk. destruct Hk as [_ ->]. reflexivity.
Qed.

Theorem classify_correct : forall e fam fld v x t,
  value_matches (e_intcs e) fam fld v = true ->
  sv_eval e v = Some x ->
  key_txn e fam = Some t ->
  x = field_of e t fld.
Proof.
  intros e fam fld v x t Hm Hx Hk.
  apply value_matches_inv in Hm. destruct Hm as (ix & fname & oi & Hgf & -> & Hok).
  destruct v as [| op pos args out]; [discriminate|].
  rewrite sv_eval_known in Hx.
  destruct op; try discriminate; cbn [get_index_and_field] in Hgf.
  - (* txn f *)
    inversion Hgf; subst. cbn [eval_op] in Hx. destruct oi; [discriminate|]. inversion Hx.
    destruct fam; try discriminate. cbn in Hk. inversion Hk. reflexivity.
  - (* gtxn i f *)
    inversion Hgf; subst. cbn [eval_op] in Hx. destruct oi; [discriminate|].
    destruct (N.ltb_spec i (e_size e)); [| discriminate]. inversion Hx.
    destruct fam; try discriminate; cbn [fam_index_ok] in Hok; apply N.eqb_eq in Hok; subst; cbn [key_txn] in Hk.
    + destruct (N.eqb_spec (e_own e) i0); inversion Hk. subst. reflexivity.
    + destruct (i0 <? e_size e)%N; inversion Hk. reflexivity.
  - (* gtxns f *)
    destruct f as [f oi']. cbn [eval_op] in Hx. destruct oi'; [discriminate|].
    destruct args as [| a rest]; [discriminate|].
    inversion Hgf; subst. cbn [map] in Hx.
    destruct (sv_eval e a) as [[j| |]|] eqn:Ea; try discriminate.
    destruct rest; [| discriminate]. cbn [map] in Hx.
    destruct (member e j) as [t'|] eqn:Em; [| discriminate]. cbn [option_map] in Hx. inversion Hx.
    pose proof (get_index_correct e a j Ea) as Hd.
    rewrite (fam_index_member e fam _ j t t' Hok Hd Em Hk). reflexivity.
Qed.
Print Assumptions classify_correct.

(* the six index forms are all classified (so classify_correct is not vacuous on any of them) *)
Definition sv0 (op : instr) (args : list sval) : sval := SKnown op 0 args 0.
Example form_txn : value_matches None KSelf "Fee" (sv0 (ITxn ("Fee", None)) []) = true.
Proof. reflexivity. Qed.
Example form_gtxn : value_matches None (KAbs 2) "Fee" (sv0 (IGtxn 2 ("Fee", None)) []) = true
                 /\ value_matches None (KAtIndex 2) "Fee" (sv0 (IGtxn 2 ("Fee", None)) []) = true.
Proof. split; reflexivity. Qed.
Example form_gtxns_int : value_matches None (KAbs 2) "Fee" (sv0 (IGtxns ("Fee", None)) [sv0 (IInt (IANum 2)) []]) = true.
Proof. reflexivity. Qed.
Example form_gtxns_intc :
  value_matches (Some [7; 2]%N) (KAbs 2) "Fee" (sv0 (IGtxns ("Fee", None)) [sv0 (IIntcK 1) []]) = true.
Proof. reflexivity. Qed.
Example form_gtxns_self : value_matches None KSelf "Fee" (sv0 (IGtxns ("Fee", None)) [sv0 (ITxn ("GroupIndex", None)) []]) = true.
Proof. reflexivity. Qed.
Example form_gtxns_add_l :
  value_matches None (KRel 1) "Fee"
    (sv0 (IGtxns ("Fee", None)) [sv0 IAdd [sv0 (ITxn ("GroupIndex", None)) []; sv0 (IInt (IANum 1)) []]]) = true.
Proof. reflexivity. Qed.
Example form_gtxns_add_r :
  value_matches None (KRel 1) "Fee"
    (sv0 (IGtxns ("Fee", None)) [sv0 IAdd [sv0 (IInt (IANum 1)) []; sv0 (ITxn ("GroupIndex", None)) []]]) = true.
Proof. reflexivity. Qed.
Example form_gtxns_sub :
  value_matches None (KRel (-1)) "Fee"
    (sv0 (IGtxns ("Fee", None)) [sv0 ISub [sv0 (ITxn ("GroupIndex", None)) []; sv0 (IInt (IANum 1)) []]]) = true.
Proof. reflexivity. Qed.
(* ... and evaluate: in a group of 3 whose member i pays fee 1000+i, seen from member 1 *)
Definition env3 : env :=
  mkEnv 3 1 (fun i f => if f =? "Fee" then VInt (1000 + Z.of_N i) else VOther) "C" None.
Example eval_gtxns_sub :
  sv_eval env3 (sv0 (IGtxns ("Fee", None)) [sv0 ISub [sv0 (ITxn ("GroupIndex", None)) []; sv0 (IInt (IANum 1)) []]])
    = Some (VInt 1000) /\ key_txn env3 (KRel (-1)) = Some 0%N.
Proof. split; reflexivity. Qed.
Example eval_gtxns_add_r :
  sv_eval env3 (sv0 (IGtxns ("Fee", None)) [sv0 IAdd [sv0 (IInt (IANum 1)) []; sv0 (ITxn ("GroupIndex", None)) []]])
    = Some (VInt 1002) /\ key_txn env3 (KRel 1) = Some 2%N.
Proof. split; reflexivity. Qed.

(* ====================================================================== *)
(* Leaf truth: inversion                                                   *)
(* ====================================================================== *)
Lemma int_cmp_holds : forall op x y b,
  int_cmp op x y = Some b -> cmp_of op <> COther /\ b = cmp_holds (cmp_of op) x y.
Proof.
  intros op x y b H. destruct op; try discriminate; cbn in H; inversion H; split;
    try discriminate; reflexivity.
Qed.

Lemma addr_cmp_inv : forall op x y b,
  addr_cmp op x y = Some b -> (op = IEq /\ b = (x =? y)) \/ (op = INeq /\ b = negb (x =? y)).
Proof. intros op x y b H. destruct op; try discriminate; inversion H; auto. Qed.

Lemma leaf_truth_inv : forall e op args b,
  leaf_truth e op args = Some b ->
  exists a1 a2, args = [a1; a2] /\
    ((exists x y, sv_eval e a1 = Some (VInt x) /\ sv_eval e a2 = Some (VInt y) /\ int_cmp op x y = Some b) \/
     (exists x y, sv_eval e a1 = Some (VAddr x) /\ sv_eval e a2 = Some (VAddr y) /\ addr_cmp op x y = Some b)).
Proof.
  intros e op args b H. unfold leaf_truth in H.
  destruct args as [| a1 [| a2 [| a3 rest]]]; try discriminate.
  exists a1, a2. split; [reflexivity|].
  destruct (sv_eval e a1) as [[x| x |]|]; try discriminate;
    destruct (sv_eval e a2) as [[y| y |]|]; try discriminate.
  - left. exists x, y. auto.
  - right. exists x, y. auto.
Qed.

(* a matching operand is never an integer constant, and cannot be SUnknown *)
Lemma value_matches_known : forall intcs fam fld v,
  value_matches intcs fam fld v = true ->
  exists o p a u, v = SKnown o p a u /\ is_int_push_ins intcs o = NotInt.
Proof.
  intros intcs fam fld v H. unfold value_matches in H.
  destruct v as [| o p a u]; [discriminate|]. exists o, p, a, u. split; [reflexivity|].
  destruct o; try discriminate; reflexivity.
Qed.

Definition is_const (intcs : option (list N)) (v : sval) : bool :=
  match v with
  | SKnown o _ _ _ => match is_int_push_ins intcs o with IntNum _ => true | _ => false end
  | SUnknown => false
  end.

Lemma is_const_inv : forall intcs v, is_const intcs v = true ->
  exists o p a u n, v = SKnown o p a u /\ is_int_push_ins intcs o = IntNum n.
Proof.
  intros intcs v H. destruct v as [| o p a u]; [discriminate|]. cbn in H.
  destruct (is_int_push_ins intcs o) eqn:E; try discriminate. exists o, p, a, u, n. auto.
Qed.

(* ====================================================================== *)
(* (b) fee_field                                                           *)
(* ====================================================================== *)
(* const_compared: whenever one operand of the leaf is the read of the key's field, the other operand is
   produced by an integer constant known to the tool.  (When the comparand is not a constant the code falls
   back to a documented heuristic -- an "unknown" value bounded by MAX_TRANSACTION_COST -- which is
   not sound in general, see fee_unknown_heuristic_refuted.) *)
Definition const_compared (intcs : option (list N)) (fam : keyfam) (fld : string) (args : list sval) : Prop :=
  forall a b, args = [a; b] ->
    (value_matches intcs fam fld a = true -> is_const intcs b = true) /\
    (value_matches intcs fam fld b = true -> is_const intcs a = true).

Definition fee_cv (intcs : option (list N)) (fam : keyfam) (c : cmpop) (args : list sval) : option (feeval * cmpop) :=
  let unk := mkFee true MAX_UINT64z in
  match args with
  | [SUnknown; SUnknown] => None
  | [SUnknown; v2] => if value_matches intcs fam "Fee" v2 then Some (unk, mirror c) else None
  | [v1; SUnknown] => if value_matches intcs fam "Fee" v1 then Some (unk, c) else None
  | [SKnown o1 _ _ _ as v1; SKnown o2 _ _ _ as v2] =>
      if value_matches intcs fam "Fee" v1 then
        Some (match is_int_push_ins intcs o2 with IntNum n => mkFee false (Z.of_N n) | _ => unk end, c)
      else if value_matches intcs fam "Fee" v2 then
        Some (match is_int_push_ins intcs o1 with IntNum n => mkFee false (Z.of_N n) | _ => unk end, mirror c)
      else None
  | _ => None
  end.

Lemma fee_single_eq : forall intcs fam op pos args,
  fee_single intcs fam op pos args =
  match fee_cv intcs fam (cmp_of op) args with
  | Some (v, c') => fee_get_asserted_max_value c' v
  | None => (fee_universal_set, fee_universal_set)
  end.
Proof.
  intros. unfold fee_single. destruct (cmp_of op); try reflexivity.
  unfold fee_cv.
  destruct args as [| v1 [| v2 [| v3 rest]]];
    [reflexivity | destruct v1; reflexivity | | destruct v1, v2; reflexivity].
  destruct v1 as [|o1 p1 a1 u1], v2 as [|o2 p2 a2 u2]; try reflexivity;
    repeat match goal with |- context [if ?x then _ else _] => destruct x end; reflexivity.
Qed.

(* under const_compared, the comparison the tool extracts is one of: nothing, field-vs-constant, constant-vs-field *)
Lemma fee_cv_cases : forall intcs fam c args,
  const_compared intcs fam "Fee" args ->
  fee_cv intcs fam c args = None \/
  (exists v1 v2 n, args = [v1; v2] /\ value_matches intcs fam "Fee" v1 = true /\
                   (exists o p a u, v2 = SKnown o p a u /\ is_int_push_ins intcs o = IntNum n) /\
                   fee_cv intcs fam c args = Some (mkFee false (Z.of_N n), c)) \/
  (exists v1 v2 n, args = [v1; v2] /\ value_matches intcs fam "Fee" v2 = true /\
                   (exists o p a u, v1 = SKnown o p a u /\ is_int_push_ins intcs o = IntNum n) /\
                   fee_cv intcs fam c args = Some (mkFee false (Z.of_N n), mirror c)).
Proof.
  intros intcs fam c args Hcc.
  destruct args as [| v1 [| v2 [| v3 rest]]];
    [left; reflexivity | left; destruct v1; reflexivity | | left; destruct v1, v2; reflexivity].
  destruct (Hcc v1 v2 eq_refl) as [H1 H2].
  destruct (value_matches intcs fam "Fee" v1) eqn:M1.
  - specialize (H1 eq_refl). destruct (is_const_inv _ _ H1) as (o & p & a & u & n & -> & Hi).
    destruct (value_matches_known _ _ _ _ M1) as (o1 & p1 & a1 & u1 & -> & _).
    right; left. exists (SKnown o1 p1 a1 u1), (SKnown o p a u), n.
    repeat split; eauto 10. unfold fee_cv. rewrite M1, Hi. reflexivity.
  - destruct (value_matches intcs fam "Fee" v2) eqn:M2.
    + specialize (H2 eq_refl). destruct (is_const_inv _ _ H2) as (o & p & a & u & n & -> & Hi).
      destruct (value_matches_known _ _ _ _ M2) as (o2 & p2 & a2 & u2 & -> & _).
      right; right. exists (SKnown o p a u), (SKnown o2 p2 a2 u2), n.
      repeat split; eauto 10. unfold fee_cv. rewrite M1, M2, Hi. reflexivity.
    + left. unfold fee_cv. destruct v1, v2; rewrite ?M1, ?M2; reflexivity.
Qed.

Lemma mirror_not_other : forall c, c <> COther -> mirror c <> COther.
Proof. intros c H. destruct c; cbn; congruence. Qed.

Theorem fee_single_sound : forall e fam op pos args t x b,
  key_txn e fam = Some t ->
  e_field e t "Fee" = VInt x -> (0 <= x <= MAX_UINT64z)%Z ->
  const_compared (e_intcs e) fam "Fee" args ->
  leaf_truth e op args = Some b ->
  let r := fee_single (e_intcs e) fam op pos args in
  fee_gamma (if b then fst r else snd r) x.
Proof.
  intros e fam op pos args t x b Hk Hf Hx Hcc Hb r. subst r.
  rewrite fee_single_eq.
  assert (HU : fee_gamma fee_universal_set x) by (apply fee_universal_gamma; lia).
  assert (Hfld : forall v xv, value_matches (e_intcs e) fam "Fee" v = true -> sv_eval e v = Some xv -> xv = VInt x).
  { intros v xv Hm Hv. rewrite (classify_correct e fam "Fee" v xv t Hm Hv Hk).
    unfold field_of. cbn. exact Hf. }
  destruct (fee_cv_cases (e_intcs e) fam (cmp_of op) args Hcc) as [-> | [H | H]].
  - destruct b; exact HU.
  - destruct H as (v1 & v2 & n & -> & M1 & (o & p & a & u & -> & Hi) & ->).
    apply leaf_truth_inv in Hb. destruct Hb as (a1 & a2 & Ea & Hb). inversion Ea; subst a1 a2.
    rewrite (int_push_eval e o p a u n Hi) in Hb.
    destruct Hb as [(x' & y & E1 & E2 & Hc) | (x' & y & _ & E2 & _)]; [| discriminate].
    apply (Hfld v1 _ M1) in E1. inversion E1; subst x'. inversion E2; subst y.
    apply int_cmp_holds in Hc. destruct Hc as [Hne ->].
    destruct (cmp_holds (cmp_of op) x (Z.of_N n)) eqn:Hh.
    + apply fee_cmp_sound_true; auto. lia.
    + apply fee_cmp_sound_false; auto. lia.
  - destruct H as (v1 & v2 & n & -> & M2 & (o & p & a & u & -> & Hi) & ->).
    apply leaf_truth_inv in Hb. destruct Hb as (a1 & a2 & Ea & Hb). inversion Ea; subst a1 a2.
    rewrite (int_push_eval e o p a u n Hi) in Hb.
    destruct Hb as [(y & x' & E1 & E2 & Hc) | (y & x' & E1 & _ & _)]; [| discriminate].
    apply (Hfld v2 _ M2) in E2. inversion E2; subst x'. inversion E1; subst y.
    apply int_cmp_holds in Hc. destruct Hc as [Hne ->].
    rewrite <- cmp_holds_mirror.
    destruct (cmp_holds (mirror (cmp_of op)) x (Z.of_N n)) eqn:Hh.
    + apply fee_cmp_sound_true; auto using mirror_not_other. lia.
    + apply fee_cmp_sound_false; auto using mirror_not_other. lia.
Qed.
Print Assumptions fee_single_sound.

(* Without const_compared the heuristic for a non-constant comparand is unsound:
   txn Fee; txn FirstValid; <=   holds with Fee = 5_000_000 and FirstValid = 10_000_000, but the true side is
   the "unknown" element, whose concretisation is bounded by MAX_TRANSACTION_COST = 272000. *)
Lemma fee_unknown_heuristic_refuted :
  exists e fam op args t x,
    key_txn e fam = Some t /\ e_field e t "Fee" = VInt x /\ (0 <= x <= MAX_UINT64z)%Z /\
    leaf_truth e op args = Some true /\
    ~ fee_gamma (fst (fee_single (e_intcs e) fam op 0 args)) x.
Proof.
  exists (mkEnv 1 0 (fun _ f => if f =? "Fee" then VInt 5000000 else if f =? "FirstValid" then VInt 10000000 else VOther)
                "C" None),
         KSelf, ILessE, [sv0 (ITxn ("Fee", None)) []; sv0 (ITxn ("FirstValid", None)) []], 0%N, 5000000%Z.
  split; [reflexivity|]. split; [reflexivity|]. split; [vm_compute; split; discriminate|].
  split; [reflexivity|]. vm_compute. intros H. apply H. reflexivity.
Qed.

(* ====================================================================== *)
(* (c) int_fields: GroupSize (sz = true) and GroupIndex (sz = false)       *)
(* ====================================================================== *)
Definition int_U (sz : bool) : list Z := if sz then int_universal_groupsize else int_universal_groupindex.
Definition int_isf (sz : bool) : instr -> bool := if sz then is_groupsize_read else is_groupindex_read.
Definition int_value (sz : bool) (e : env) : Z := if sz then Z.of_N (e_size e) else Z.of_N (e_own e).
Definition ordered (op : instr) : bool :=
  match op with ILess | ILessE | IGreater | IGreaterE => true | _ => false end.

(* the D2 pattern: constant on the left, the field on the right, an order comparison *)
Definition mirrored_ordered (sz : bool) (intcs : option (list N)) (op : instr) (args : list sval) : bool :=
  match args with
  | [SKnown o1 _ _ _ as v1; SKnown o2 _ _ _] => negb (int_isf sz o1) && int_isf sz o2 && is_const intcs v1 && ordered op
  | _ => false
  end.

(* the constant the tool compares the field with *)
Definition int_cv (sz : bool) (intcs : option (list N)) (args : list sval) : option N :=
  match args with
  | [SKnown o1 _ _ _; SKnown o2 _ _ _] =>
      if int_isf sz o1 then match is_int_push_ins intcs o2 with IntNum n => Some n | _ => None end
      else if int_isf sz o2 then match is_int_push_ins intcs o1 with IntNum n => Some n | _ => None end
      else None
  | _ => None
  end.

Lemma int_single_other : forall sz intcs op pos args,
  cmp_of op = COther -> int_single sz intcs op pos args = (int_U sz, int_U sz).
Proof. intros. unfold int_single. rewrite H. reflexivity. Qed.

Lemma int_single_eq : forall sz intcs op pos args,
  cmp_of op <> COther ->
  int_single sz intcs op pos args =
  match int_cv sz intcs args with
  | Some n => let a := int_get_asserted_int_values (cmp_of op) (Z.of_N n) (int_U sz) in (a, zdiff (int_U sz) a)
  | None => (int_U sz, int_U sz)
  end.
Proof.
  intros sz intcs op pos args Hc. unfold int_single, int_cv. fold (int_U sz). fold (int_isf sz).
  destruct (cmp_of op); try congruence;
    (destruct args as [| [|o1 p1 a1 u1] [| [|o2 p2 a2 u2] [| v3 rest]]]; try reflexivity;
     destruct (int_isf sz o1); [destruct (is_int_push_ins intcs o2); reflexivity|];
     destruct (int_isf sz o2); [destruct (is_int_push_ins intcs o1); reflexivity | reflexivity]).
Qed.

Lemma int_U_In : forall sz x, In x (int_U sz) <-> (if sz then 1 <= x <= 16 else 0 <= x <= 15)%Z.
Proof. intros [|] x; [apply int_universal_groupsize_In | apply int_universal_groupindex_In]. Qed.
Lemma int_U_NoDup : forall sz, NoDup (int_U sz).
Proof. intros [|]; [apply int_universal_groupsize_NoDup | apply int_universal_groupindex_NoDup]. Qed.

Lemma int_value_in_U : forall sz e, env_ok e -> In (int_value sz e) (int_U sz).
Proof. intros sz e [H1 H2]. apply int_U_In. destruct sz; cbn [int_value]; lia. Qed.

(* the read of the field evaluates to the concrete value *)
Lemma int_field_eval : forall sz e o p a u xv,
  int_isf sz o = true -> sv_eval e (SKnown o p a u) = Some xv -> xv = VInt (int_value sz e).
Proof.
  intros sz e o p a u xv Hf Hv. destruct sz; cbn [int_isf int_value] in *.
  - destruct o; try discriminate. cbn [is_groupsize_read] in Hf. rewrite sv_eval_known in Hv.
    cbn [eval_op] in Hv. rewrite Hf in Hv. inversion Hv. reflexivity.
  - apply (groupindex_eval e (SKnown o p a u)); [| exact Hv].
    destruct o; try discriminate. exact Hf.
Qed.

(* one side of the pair always contains a member of U, according to the truth of the comparison *)
Lemma int_asserted_sound : forall c k U x,
  NoDup U -> In x U -> c <> COther ->
  let a := int_get_asserted_int_values c k U in
  In x (if cmp_holds c x k then a else zdiff U a).
Proof.
  intros c k U x HU Hx Hc a. subst a. destruct (cmp_holds c x k) eqn:Hh.
  - destruct c; try congruence; try (apply int_asserted_exact; [assumption | congruence | congruence | auto]).
    apply int_asserted_eq_In. exact Hh.
  - apply int_asserted_false_exact; auto.
Qed.

Lemma cmpop_eq_other : forall c : cmpop, c = COther \/ c <> COther.
Proof. destruct c; (left; reflexivity) || (right; discriminate). Qed.

Lemma cmp_holds_sym_eq : forall op x y, cmp_of op <> COther -> ordered op = false ->
  cmp_holds (cmp_of op) x y = cmp_holds (cmp_of op) y x.
Proof.
  intros op x y Hc Ho. destruct op; cbn in *; try congruence; try discriminate;
    rewrite (Z.eqb_sym x y); reflexivity.
Qed.

Theorem int_single_sound_partial : forall sz e op pos args b,
  env_ok e ->
  leaf_truth e op args = Some b ->
  mirrored_ordered sz (e_intcs e) op args = false ->
  let r := int_single sz (e_intcs e) op pos args in
  In (int_value sz e) (if b then fst r else snd r).
Proof.
  intros sz e op pos args b Hok Hb Hex r. subst r.
  pose proof (int_value_in_U sz e Hok) as HXU.
  assert (HUU : In (int_value sz e)
                   (if b then fst (int_U sz, int_U sz) else snd (int_U sz, int_U sz))) by (destruct b; exact HXU).
  destruct (cmpop_eq_other (cmp_of op)) as [Hc | Hc]; [rewrite int_single_other; assumption|].
  rewrite int_single_eq by assumption.
  destruct (int_cv sz (e_intcs e) args) as [n|] eqn:Hcv; [| exact HUU].
  unfold int_cv in Hcv.
  destruct args as [| [|o1 p1 a1 u1] [| [|o2 p2 a2 u2] [| v3 rest]]]; try discriminate.
  apply leaf_truth_inv in Hb. destruct Hb as (v1 & v2 & Ea & Hb). inversion Ea; subst v1 v2. clear Ea.
  cbv zeta.
  pose proof (int_asserted_sound (cmp_of op) (Z.of_N n) (int_U sz) (int_value sz e) (int_U_NoDup sz) HXU Hc) as HS.
  cbv zeta in HS.
  destruct (int_isf sz o1) eqn:F1.
  - (* field on the left *)
    destruct (is_int_push_ins (e_intcs e) o2) as [| | n' |] eqn:I2; try discriminate.
    inversion Hcv; subst n'. rewrite (int_push_eval e o2 p2 a2 u2 n I2) in Hb.
    destruct Hb as [(x & y & E1 & E2 & Hh) | (x & y & _ & E2 & _)]; [| discriminate].
    apply (int_field_eval sz e _ _ _ _ _ F1) in E1. inversion E1; subst x. inversion E2; subst y.
    apply int_cmp_holds in Hh. destruct Hh as [_ ->].
    destruct (cmp_holds (cmp_of op) (int_value sz e) (Z.of_N n)); exact HS.
  - (* field on the right: only == and != *)
    destruct (int_isf sz o2) eqn:F2; [| discriminate].
    destruct (is_int_push_ins (e_intcs e) o1) as [| | n' |] eqn:I1; try discriminate.
    inversion Hcv; subst n'. rewrite (int_push_eval e o1 p1 a1 u1 n I1) in Hb.
    destruct Hb as [(x & y & E1 & E2 & Hh) | (x & y & E1 & _ & _)]; [| discriminate].
    apply (int_field_eval sz e _ _ _ _ _ F2) in E2. inversion E2; subst y. inversion E1; subst x.
    apply int_cmp_holds in Hh. destruct Hh as [_ ->].
    cbn [mirrored_ordered is_const] in Hex. rewrite F1, F2, I1 in Hex. cbn in Hex.
    rewrite (cmp_holds_sym_eq op _ _ Hc Hex).
    destruct (cmp_holds (cmp_of op) (int_value sz e) (Z.of_N n)); exact HS.
Qed.
Print Assumptions int_single_sound_partial.

(* the two instances asked for: field as LEFT operand (any comparison), and == / != in either order *)
Corollary int_single_sound_left : forall sz e op pos o1 p1 a1 u1 v2 b,
  env_ok e -> int_isf sz o1 = true ->
  leaf_truth e op [SKnown o1 p1 a1 u1; v2] = Some b ->
  let r := int_single sz (e_intcs e) op pos [SKnown o1 p1 a1 u1; v2] in
  In (int_value sz e) (if b then fst r else snd r).
Proof.
  intros sz e op pos o1 p1 a1 u1 v2 b Hok F1 Hb. apply int_single_sound_partial; auto.
  destruct v2; cbn [mirrored_ordered]; [reflexivity|]. rewrite F1. reflexivity.
Qed.

Corollary int_single_sound_eq : forall sz e op pos args b,
  env_ok e -> ordered op = false ->
  leaf_truth e op args = Some b ->
  let r := int_single sz (e_intcs e) op pos args in
  In (int_value sz e) (if b then fst r else snd r).
Proof.
  intros sz e op pos args b Hok Ho Hb. apply int_single_sound_partial; auto.
  unfold mirrored_ordered. rewrite Ho.
  destruct args as [| [|o1 p1 a1 u1] [| [|o2 p2 a2 u2] [| v3 rest]]]; try reflexivity.
  apply andb_false_r.
Qed.

(* D2: the operand order is ignored.   int 3; global GroupSize; <   in a group of 5 is true (3 < 5),
   but the true side is {1, 2} (the sizes below 3). *)
Lemma int_single_mirrored_refuted :
  exists e op args,
    env_ok e /\ leaf_truth e op args = Some true /\
    mirrored_ordered true (e_intcs e) op args = true /\
    fst (int_single true (e_intcs e) op 0 args) = [1; 2]%Z /\
    ~ In (int_value true e) (fst (int_single true (e_intcs e) op 0 args)).
Proof.
  exists (mkEnv 5 0 (fun _ _ => VOther) "C" None), ILess,
         [sv0 (IInt (IANum 3)) []; sv0 (IGlobal "GroupSize") []].
  split; [split; vm_compute; split; congruence|].
  split; [reflexivity|]. split; [reflexivity|]. split; [reflexivity|].
  vm_compute. intros [H | [H | []]]; discriminate.
Qed.

(* the same for GroupIndex:  int 1; txn GroupIndex; <=  at index 2 of 3 is true, the true side is {0, 1} *)
Lemma int_single_mirrored_refuted_index :
  exists e op args,
    env_ok e /\ leaf_truth e op args = Some true /\
    ~ In (int_value false e) (fst (int_single false (e_intcs e) op 0 args)).
Proof.
  exists (mkEnv 3 2 (fun _ _ => VOther) "C" None), ILessE,
         [sv0 (IInt (IANum 1)) []; sv0 (ITxn ("GroupIndex", None)) []].
  split; [split; vm_compute; split; congruence|].
  split; [reflexivity|].
  vm_compute. intros [H | [H | []]]; discriminate.
Qed.

(* ---------------------------------------------------------------- exactness *)
(* concretisation relative to the universe of the dimension *)
Definition int_gamma (sz : bool) (s : list Z) (x : Z) : Prop := In x (int_U sz) /\ In x s.

(* a direct comparison: the field on the left, a constant known to the tool on the right *)
Definition int_direct (sz : bool) (intcs : option (list N)) (op : instr) (args : list sval) : option (cmpop * N) :=
  match cmp_of op, args with
  | COther, _ => None
  | c, [SKnown o1 _ _ _; SKnown o2 _ _ _] =>
      if int_isf sz o1 then match is_int_push_ins intcs o2 with IntNum n => Some (c, n) | _ => None end else None
  | _, _ => None
  end.
Definition int_related (sz : bool) (args : list sval) : bool :=
  match args with
  | [SKnown o1 _ _ _; SKnown o2 _ _ _] => int_isf sz o1 || int_isf sz o2
  | _ => false
  end.

Lemma int_direct_inv : forall sz intcs op args c n,
  int_direct sz intcs op args = Some (c, n) ->
  c = cmp_of op /\ c <> COther /\ int_cv sz intcs args = Some n.
Proof.
  intros sz intcs op args c n H. unfold int_direct in H. unfold int_cv.
  destruct (cmp_of op) eqn:Hc; try discriminate;
    (destruct args as [| [|o1 p1 a1 u1] [| [|o2 p2 a2 u2] [| v3 rest]]]; try discriminate;
     destruct (int_isf sz o1); [| discriminate];
     destruct (is_int_push_ins intcs o2); try discriminate;
     inversion H; subst; repeat split; discriminate).
Qed.

Theorem int_single_exact_direct : forall sz intcs op pos args c n,
  int_direct sz intcs op args = Some (c, n) ->
  let r := int_single sz intcs op pos args in
  forall x,
    (int_gamma sz (fst r) x <-> In x (int_U sz) /\ cmp_holds c x (Z.of_N n) = true) /\
    (int_gamma sz (snd r) x <-> In x (int_U sz) /\ cmp_holds c x (Z.of_N n) = false).
Proof.
  intros sz intcs op pos args c n H r x. subst r.
  apply int_direct_inv in H. destruct H as (-> & Hc & Hcv).
  rewrite int_single_eq, Hcv by assumption. cbv zeta. cbn [fst snd]. unfold int_gamma. split.
  - destruct (cmp_of op) eqn:E; try congruence;
      try (rewrite int_asserted_exact by (try apply int_U_NoDup; congruence); tauto).
    rewrite int_asserted_eq_In. tauto.
  - rewrite int_asserted_false_exact by (try apply int_U_NoDup; congruence). tauto.
Qed.
Print Assumptions int_single_exact_direct.

(* as plain sets: the false side always, the true side unless the comparison is == with a constant outside U *)
Theorem int_single_exact_direct_sets : forall sz intcs op pos args c n,
  int_direct sz intcs op args = Some (c, n) ->
  let r := int_single sz intcs op pos args in
  (forall x, In x (snd r) <-> In x (int_U sz) /\ cmp_holds c x (Z.of_N n) = false) /\
  (c <> CEq \/ In (Z.of_N n) (int_U sz) ->
   forall x, In x (fst r) <-> In x (int_U sz) /\ cmp_holds c x (Z.of_N n) = true).
Proof.
  intros sz intcs op pos args c n H r. subst r.
  apply int_direct_inv in H. destruct H as (-> & Hc & Hcv).
  rewrite int_single_eq, Hcv by assumption. cbv zeta. cbn [fst snd]. split.
  - intros x. apply int_asserted_false_exact; [apply int_U_NoDup | assumption].
  - intros Hside x. destruct (cmp_of op) eqn:E; try congruence;
      try (apply int_asserted_exact; [apply int_U_NoDup | congruence | congruence]).
    destruct Hside as [Hside | Hside]; [congruence|].
    rewrite int_asserted_eq_In. unfold cmp_holds. rewrite Z.eqb_eq. split.
    + intros ->. auto.
    + tauto.
Qed.

(* global GroupSize; int 0; ==  : the true side is {0}, which is not a group size *)
Lemma int_single_exact_eq_refuted :
  exists sz intcs op args c n x,
    int_direct sz intcs op args = Some (c, n) /\
    In x (fst (int_single sz intcs op 0 args)) /\ ~ In x (int_U sz).
Proof.
  exists true, None, IEq, [sv0 (IGlobal "GroupSize") []; sv0 (IInt (IANum 0)) []], CEq, 0%N, 0%Z.
  split; [reflexivity|]. split; [left; reflexivity|].
  rewrite int_U_In. lia.
Qed.

Theorem int_single_exact_unrelated : forall sz intcs op pos args,
  int_related sz args = false ->
  int_single sz intcs op pos args = (int_U sz, int_U sz).
Proof.
  intros sz intcs op pos args H.
  destruct (cmpop_eq_other (cmp_of op)) as [Hc | Hc]; [apply int_single_other; assumption|].
  rewrite int_single_eq by assumption. unfold int_cv. unfold int_related in H.
  destruct args as [| [|o1 p1 a1 u1] [| [|o2 p2 a2 u2] [| v3 rest]]]; try reflexivity.
  apply orb_false_iff in H. destruct H as [-> ->]. reflexivity.
Qed.

(* packaged in the shape of AssertedLemmas.leaf_exact (det := direct comparisons), for concrete values in U *)
Definition int_det (sz : bool) (intcs : option (list N)) (op : instr) (pos : nat) (args : list sval) : option (Z -> bool) :=
  match int_direct sz intcs op args with
  | Some (c, n) => Some (fun x => cmp_holds c x (Z.of_N n))
  | None => None
  end.

Theorem int_single_leaf_exact : forall sz intcs op pos args x,
  In x (int_U sz) ->
  match int_det sz intcs op pos args with
  | Some f => (int_gamma sz (fst (int_single sz intcs op pos args)) x <-> f x = true) /\
              (int_gamma sz (snd (int_single sz intcs op pos args)) x <-> f x = false)
  | None => int_related sz args = false ->
            int_gamma sz (fst (int_single sz intcs op pos args)) x /\
            int_gamma sz (snd (int_single sz intcs op pos args)) x
  end.
Proof.
  intros sz intcs op pos args x Hx. unfold int_det.
  destruct (int_direct sz intcs op args) as [[c n]|] eqn:E.
  - destruct (int_single_exact_direct sz intcs op pos args c n E x) as [H1 H2].
    rewrite H1, H2. tauto.
  - intros Hr. rewrite (int_single_exact_unrelated sz intcs op pos args Hr). unfold int_gamma. cbn. tauto.
Qed.

(* ====================================================================== *)
(* (d) addr_fields                                                         *)
(* ====================================================================== *)
(* abstract name of a concrete (non-zero) address: the creator is known to the tool as CREATOR_ADDRESS *)
Definition abs_name (e : env) (a : string) : string := if a =? e_creator e then CREATOR_ADDRESS else a.

(* comparands the tool understands: global ZeroAddress, global CreatorAddress, addr <literal> *)
Definition is_addr_const (v : sval) : bool :=
  match v with
  | SKnown (IGlobal g) _ _ _ => (g =? "ZeroAddress") || (g =? "CreatorAddress")
  | SKnown (IAddr _) _ _ _ => true
  | _ => false
  end.
Definition addr_const_compared (intcs : option (list N)) (fam : keyfam) (fld : string) (args : list sval) : Prop :=
  forall a b, args = [a; b] ->
    (value_matches intcs fam fld a = true -> is_addr_const b = true) /\
    (value_matches intcs fam fld b = true -> is_addr_const a = true).

Definition literal_of (v : sval) : option string :=
  match v with SKnown (IAddr a) _ _ _ => Some a | _ => None end.
(* D19: the analyzer's ZERO_ADDRESS literal is taken for the zero address; it must then denote it *)
Definition zero_literal_ok (args : list sval) : Prop :=
  forall v lit, In v args -> literal_of v = Some lit -> lit = ZERO_ADDRESS -> addr_name lit = "ZERO".
(* the creator's address is not spelled out as a literal (the tool would not recognise it as the creator) *)
Definition creator_not_literal (e : env) (args : list sval) : Prop :=
  forall v lit, In v args -> literal_of v = Some lit -> addr_name lit <> e_creator e.

Definition addr_asserted (intcs : option (list N)) (fam : keyfam) (fld : string) (args : list sval) : option sset :=
  match args with
  | [SUnknown; SUnknown] => None
  | [SUnknown; v2] => if value_matches intcs fam fld v2 then Some (set_of_list [SOME_ADDRESS]) else None
  | [v1; SUnknown] => if value_matches intcs fam fld v1 then Some (set_of_list [SOME_ADDRESS]) else None
  | [SKnown o1 _ _ _ as v1; SKnown o2 _ _ _ as v2] =>
      if value_matches intcs fam fld v1 then Some (asserted_address o2)
      else if value_matches intcs fam fld v2 then Some (asserted_address o1)
      else None
  | _ => None
  end.

Lemma addr_single_eq : forall intcs fam fld op pos args,
  addr_single intcs fam fld op pos args =
  match op with
  | IEq => match addr_asserted intcs fam fld args with Some a => (a, addr_universal_set) | None => (addr_universal_set, addr_universal_set) end
  | INeq => match addr_asserted intcs fam fld args with Some a => (addr_universal_set, a) | None => (addr_universal_set, addr_universal_set) end
  | _ => (addr_universal_set, addr_universal_set)
  end.
Proof. intros. destruct op; reflexivity. Qed.

Lemma addr_asserted_cases : forall intcs fam fld args,
  addr_const_compared intcs fam fld args ->
  addr_asserted intcs fam fld args = None \/
  (exists v1 o p a u, args = [v1; SKnown o p a u] /\ value_matches intcs fam fld v1 = true /\
                      is_addr_const (SKnown o p a u) = true /\
                      addr_asserted intcs fam fld args = Some (asserted_address o)) \/
  (exists v2 o p a u, args = [SKnown o p a u; v2] /\ value_matches intcs fam fld v2 = true /\
                      is_addr_const (SKnown o p a u) = true /\
                      addr_asserted intcs fam fld args = Some (asserted_address o)).
Proof.
  intros intcs fam fld args Hcc.
  destruct args as [| v1 [| v2 [| v3 rest]]];
    [left; reflexivity | left; destruct v1; reflexivity | | left; destruct v1, v2; reflexivity].
  destruct (Hcc v1 v2 eq_refl) as [H1 H2].
  destruct (value_matches intcs fam fld v1) eqn:M1.
  - specialize (H1 eq_refl). destruct v2 as [| o p a u]; [discriminate|].
    destruct (value_matches_known _ _ _ _ M1) as (o1 & p1 & a1 & u1 & -> & _).
    right; left. exists (SKnown o1 p1 a1 u1), o, p, a, u. repeat split; auto.
    unfold addr_asserted. rewrite M1. reflexivity.
  - destruct (value_matches intcs fam fld v2) eqn:M2.
    + specialize (H2 eq_refl). destruct v1 as [| o p a u]; [discriminate|].
      destruct (value_matches_known _ _ _ _ M2) as (o2 & p2 & a2 & u2 & -> & _).
      right; right. exists (SKnown o2 p2 a2 u2), o, p, a, u. repeat split; auto.
      unfold addr_asserted. rewrite M1, M2. reflexivity.
    + left. unfold addr_asserted. destruct v1, v2; rewrite ?M1, ?M2; reflexivity.
Qed.

(* an understood comparand evaluates to an address; if the field's address equals it, the abstract name of
   the field's address belongs to the set the tool asserts *)
Lemma addr_const_sound : forall e o p r u a,
  is_addr_const (SKnown o p r u) = true ->
  (forall lit, o = IAddr lit -> lit = ZERO_ADDRESS -> addr_name lit = "ZERO") ->
  (forall lit, o = IAddr lit -> addr_name lit <> e_creator e) ->
  a <> "ZERO" ->
  exists y, sv_eval e (SKnown o p r u) = Some (VAddr y) /\
            (a = y -> In (abs_name e a) (asserted_address o)).
Proof.
  intros e o p r u a Hc Hz Hcr Ha. rewrite sv_eval_known.
  destruct o; try discriminate; cbn [is_addr_const] in Hc.
  - (* addr lit *)
    exists (addr_name a0). split; [reflexivity|]. intros ->.
    unfold asserted_address. destruct (String.eqb_spec a0 ZERO_ADDRESS) as [E | E].
    + exfalso. apply Ha. apply (Hz a0 eq_refl E).
    + apply set_of_list_In. left. unfold abs_name.
      destruct (String.eqb_spec (addr_name a0) (e_creator e)) as [E2 | E2];
        [exfalso; exact (Hcr a0 eq_refl E2)|].
      unfold addr_name in *. destruct (a0 =? ZERO_ADDRESS_TEXT); [exfalso; apply Ha; reflexivity | reflexivity].
  - (* global *)
    apply orb_true_iff in Hc. destruct Hc as [Hc | Hc]; apply String.eqb_eq in Hc; subst f.
    + exists "ZERO". split; [reflexivity|]. intros ->. exfalso. apply Ha. reflexivity.
    + exists (e_creator e). split; [reflexivity|]. intros ->.
      unfold abs_name. rewrite String.eqb_refl. left. reflexivity.
Qed.

Lemma CREATOR_not_marker : is_marker CREATOR_ADDRESS = false.
Proof. reflexivity. Qed.

Lemma abs_name_not_marker : forall e a, is_marker a = false -> is_marker (abs_name e a) = false.
Proof. intros e a H. unfold abs_name. destruct (a =? e_creator e); [reflexivity | exact H]. Qed.

Lemma addr_gamma_In : forall s n, is_marker n = false -> In n s -> addr_gamma s n.
Proof. intros s n Hm Hin. split; [exact Hm|]. right. apply smem_In. exact Hin. Qed.

Theorem addr_single_sound : forall e fam fld op pos args t a b,
  fld <> "GroupIndex" ->
  key_txn e fam = Some t ->
  e_field e t fld = VAddr a -> a <> "ZERO" -> is_marker a = false ->
  addr_const_compared (e_intcs e) fam fld args ->
  zero_literal_ok args ->
  creator_not_literal e args ->
  leaf_truth e op args = Some b ->
  let r := addr_single (e_intcs e) fam fld op pos args in
  addr_gamma (if b then fst r else snd r) (abs_name e a).
Proof.
  intros e fam fld op pos args t a b Hfld Hk Hf Ha Hm Hcc Hz Hcr Hb r. subst r.
  pose proof (abs_name_not_marker e a Hm) as Hnm.
  pose proof (addr_universal_gamma _ Hnm) as HU.
  assert (HUU : addr_gamma (if b then fst (addr_universal_set, addr_universal_set)
                            else snd (addr_universal_set, addr_universal_set)) (abs_name e a))
    by (destruct b; exact HU).
  assert (Hval : forall v xv, value_matches (e_intcs e) fam fld v = true -> sv_eval e v = Some xv -> xv = VAddr a).
  { intros v xv Hvm Hv. rewrite (classify_correct e fam fld v xv t Hvm Hv Hk).
    unfold field_of. apply String.eqb_neq in Hfld. rewrite Hfld. exact Hf. }
  rewrite addr_single_eq.
  destruct (addr_asserted_cases (e_intcs e) fam fld args Hcc) as [E | [H | H]].
  - rewrite E. destruct op; exact HUU.
  - destruct H as (v1 & o & p & r & u & -> & M1 & Hc & ->).
    destruct (addr_const_sound e o p r u a Hc) as (y & Ey & Hin); auto.
    { intros lit -> E. apply (Hz (SKnown (IAddr lit) p r u) lit); cbn; auto. }
    { intros lit ->. apply (Hcr (SKnown (IAddr lit) p r u) lit); cbn; auto. }
    apply leaf_truth_inv in Hb. destruct Hb as (a1 & a2 & Ea & Hb). inversion Ea; subst a1 a2. clear Ea.
    rewrite Ey in Hb. destruct Hb as [(x' & y' & _ & E2 & _) | (x' & y' & E1 & E2 & Hh)]; [discriminate|].
    apply (Hval v1 _ M1) in E1. inversion E1; subst x'. inversion E2; subst y'.
    apply addr_cmp_inv in Hh. destruct Hh as [[-> ->] | [-> ->]]; cbn [fst snd];
      destruct (String.eqb_spec a y) as [Eq | Ne]; cbn [negb fst snd]; try exact HU;
      apply addr_gamma_In; auto.
  - destruct H as (v2 & o & p & r & u & -> & M2 & Hc & ->).
    destruct (addr_const_sound e o p r u a Hc) as (y & Ey & Hin); auto.
    { intros lit -> E. apply (Hz (SKnown (IAddr lit) p r u) lit); cbn; auto. }
    { intros lit ->. apply (Hcr (SKnown (IAddr lit) p r u) lit); cbn; auto. }
    apply leaf_truth_inv in Hb. destruct Hb as (a1 & a2 & Ea & Hb). inversion Ea; subst a1 a2. clear Ea.
    rewrite Ey in Hb. destruct Hb as [(x' & y' & E1 & _ & _) | (y' & x' & E1 & E2 & Hh)]; [discriminate|].
    apply (Hval v2 _ M2) in E2. inversion E2; subst x'. inversion E1; subst y'.
    apply addr_cmp_inv in Hh. destruct Hh as [[-> ->] | [-> ->]]; cbn [fst snd];
      destruct (String.eqb_spec y a) as [Eq | Ne]; cbn [negb fst snd]; try exact HU;
      apply addr_gamma_In; auto.
Qed.
Print Assumptions addr_single_sound.

Lemma addr_fields_not_groupindex : forall fld, In fld addr_fields_list -> fld <> "GroupIndex".
Proof. intros fld H. cbn in H. intuition (subst; discriminate). Qed.

(* D19.  Tables.ZERO_ADDRESS is not the zero address (it decodes to the public key 10^10) ... *)
Lemma ZERO_ADDRESS_not_zero : addr_name ZERO_ADDRESS <> "ZERO".
Proof. vm_compute. discriminate. Qed.

(* ... so   txn RekeyTo; addr <ZERO_ADDRESS>; ==   may hold for a rekey to that (non-zero) account,
   while the tool's true side is the null set (no rekeying at all).  All other hypotheses of addr_single_sound hold. *)
Lemma addr_zero_literal_refuted :
  exists e fam fld op args t a,
    In fld addr_fields_list /\ key_txn e fam = Some t /\ e_field e t fld = VAddr a /\ a <> "ZERO" /\
    is_marker a = false /\ addr_const_compared (e_intcs e) fam fld args /\ creator_not_literal e args /\
    leaf_truth e op args = Some true /\
    fst (addr_single (e_intcs e) fam fld op 0 args) = addr_null_set /\
    ~ addr_gamma (fst (addr_single (e_intcs e) fam fld op 0 args)) (abs_name e a).
Proof.
  exists (mkEnv 1 0 (fun _ f => if f =? "RekeyTo" then VAddr ZERO_ADDRESS else VOther) "C" None),
         KSelf, "RekeyTo", IEq, [sv0 (ITxn ("RekeyTo", None)) []; sv0 (IAddr ZERO_ADDRESS) []], 0%N, ZERO_ADDRESS.
  split; [left; reflexivity|]. split; [reflexivity|]. split; [reflexivity|].
  split; [vm_compute; discriminate|]. split; [reflexivity|].
  split; [intros a b E; inversion E; subst; split; [reflexivity | discriminate]|].
  split.
  { intros v lit [<- | [<- | []]] Hl; inversion Hl. vm_compute. discriminate. }
  split; [reflexivity|]. split; [reflexivity|].
  change (fst (addr_single None KSelf "RekeyTo" IEq 0
                 [sv0 (ITxn ("RekeyTo", None)) []; sv0 (IAddr ZERO_ADDRESS) []])) with addr_null_set.
  apply addr_null_gamma.
Qed.

(* creator_not_literal is needed: the creator's address written as a literal is not recognised as CREATOR_ADDRESS *)
Lemma addr_creator_literal_refuted :
  exists e fam fld op args t a,
    In fld addr_fields_list /\ key_txn e fam = Some t /\ e_field e t fld = VAddr a /\ a <> "ZERO" /\
    is_marker a = false /\ addr_const_compared (e_intcs e) fam fld args /\ zero_literal_ok args /\
    leaf_truth e op args = Some true /\
    ~ addr_gamma (fst (addr_single (e_intcs e) fam fld op 0 args)) (abs_name e a).
Proof.
  exists (mkEnv 1 0 (fun _ f => if f =? "Sender" then VAddr "X" else VOther) "X" None),
         KSelf, "Sender", IEq, [sv0 (ITxn ("Sender", None)) []; sv0 (IAddr "X") []], 0%N, "X".
  split; [right; right; right; left; reflexivity|]. split; [reflexivity|]. split; [reflexivity|].
  split; [discriminate|]. split; [reflexivity|].
  split; [intros a b E; inversion E; subst; split; [reflexivity | discriminate]|].
  split.
  { intros v lit [<- | [<- | []]] Hl; inversion Hl. subst lit. vm_compute. discriminate. }
  split; [reflexivity|].
  vm_compute. intros [_ [H | H]]; discriminate.
Qed.

(* addr_const_compared is needed: a comparand the tool does not understand yields a placeholder set *)
Lemma addr_unknown_comparand_refuted :
  exists e fam fld op args t a,
    In fld addr_fields_list /\ key_txn e fam = Some t /\ e_field e t fld = VAddr a /\ a <> "ZERO" /\
    is_marker a = false /\ zero_literal_ok args /\ creator_not_literal e args /\
    leaf_truth e op args = Some true /\
    ~ addr_gamma (fst (addr_single (e_intcs e) fam fld op 0 args)) (abs_name e a).
Proof.
  exists (mkEnv 1 0 (fun _ f => if f =? "RekeyTo" then VAddr "X" else if f =? "Sender" then VAddr "X" else VOther) "C" None),
         KSelf, "RekeyTo", IEq, [sv0 (ITxn ("RekeyTo", None)) []; sv0 (ITxn ("Sender", None)) []], 0%N, "X".
  split; [left; reflexivity|]. split; [reflexivity|]. split; [reflexivity|].
  split; [discriminate|]. split; [reflexivity|].
  split; [intros v lit [<- | [<- | []]] Hl; inversion Hl|].
  split; [intros v lit [<- | [<- | []]] Hl; inversion Hl|].
  split; [reflexivity|].
  vm_compute. intros [_ [H | H]]; discriminate.
Qed.

(* ---------------------------------------------------------------- well-formedness *)
Lemma singleton_wf : forall x, addr_wf (set_of_list [x]).
Proof.
  intros x. change (set_of_list [x]) with [x]. destruct (is_marker x) eqn:E.
  - apply is_marker_true in E. destruct E as [-> | ->]; [left | right; left]; reflexivity.
  - right; right. intros y [<- | []]. exact E.
Qed.

Lemma asserted_address_wf : forall o, addr_wf (asserted_address o).
Proof.
  intros o. unfold asserted_address.
  destruct o; try apply singleton_wf.
  - destruct (a =? ZERO_ADDRESS); [apply addr_null_wf | apply singleton_wf].
  - destruct (f =? "ZeroAddress"); [apply addr_null_wf|].
    destruct (f =? "CreatorAddress"); apply singleton_wf.
Qed.

Theorem addr_single_wf : forall intcs fam fld op pos args,
  addr_wf (fst (addr_single intcs fam fld op pos args)) /\
  addr_wf (snd (addr_single intcs fam fld op pos args)).
Proof.
  intros. rewrite addr_single_eq.
  assert (HA : match addr_asserted intcs fam fld args with Some s => addr_wf s | None => True end).
  { unfold addr_asserted.
    destruct args as [| v1 [| v2 [| v3 rest]]]; try exact I; try (destruct v1; exact I).
    - destruct v1 as [|o1 p1 a1 u1], v2 as [|o2 p2 a2 u2]; try exact I;
        repeat match goal with |- context [if ?x then _ else _] => destruct x end;
        try exact I; try apply singleton_wf; apply asserted_address_wf.
    - destruct v1, v2; exact I. }
  destruct op; cbn [fst snd]; try (split; apply addr_universal_wf);
    destruct (addr_asserted intcs fam fld args); cbn [fst snd]; split;
    try apply addr_universal_wf; exact HA.
Qed.
Print Assumptions addr_single_wf.

(* ====================================================================== *)
(* (e) txn_types: shapes of the results (no soundness claim here)           *)
(* ====================================================================== *)
Definition tpair := (list string * list string)%type.
Definition type_orient (op : instr) (p : tpair) : tpair := match op with IEq => p | _ => (snd p, fst p) end.

Definition type_tf0 (intcs : option (list N)) (fam : keyfam) (v1 v2 : sval) (r1 r2 : intres) : option tpair :=
  if value_matches intcs fam "ApplicationID" v1 && res_known r2 then
    match r2 with IntNum 0%N => Some (appl_creation, appl_not_creation) | _ => None end
  else if value_matches intcs fam "ApplicationID" v2 && res_known r1 then
    match r1 with IntNum 0%N => Some (appl_creation, appl_not_creation) | _ => None end
  else None.
Definition type_tf1 (intcs : option (list N)) (fam : keyfam) (v1 v2 : sval) (r1 r2 : intres) (tf0 : option tpair) : option tpair :=
  if value_matches intcs fam "TypeEnum" v1 && res_known r2 then
    match transaction_type_to_tealer_type r2 with
    | Some c => Some ([c], ldiff TYPEENUM_TRANSACTION_TYPES [c]) | None => tf0 end
  else if value_matches intcs fam "TypeEnum" v2 && res_known r1 then
    match transaction_type_to_tealer_type r1 with
    | Some c => Some ([c], ldiff TYPEENUM_TRANSACTION_TYPES [c]) | None => tf0 end
  else tf0.
Definition type_tf2 (intcs : option (list N)) (fam : keyfam) (v1 v2 : sval) (r1 r2 : intres) (tf1 : option tpair) : option tpair :=
  if value_matches intcs fam "OnCompletion" v1 && res_known r2 then
    match oncompletion_to_tealer_type r2 with
    | Some c => Some ([c], ldiff APPLICATION_TRANSACTION_TYPES [c]) | None => tf1 end
  else if value_matches intcs fam "OnCompletion" v2 && res_known r1 then
    match oncompletion_to_tealer_type r1 with
    | Some c => Some ([c], ldiff APPLICATION_TRANSACTION_TYPES [c]) | None => tf1 end
  else tf1.
Definition type_tf intcs fam v1 v2 r1 r2 : option tpair :=
  type_tf2 intcs fam v1 v2 r1 r2 (type_tf1 intcs fam v1 v2 r1 r2 (type_tf0 intcs fam v1 v2 r1 r2)).

Definition type_UU : tpair := (ALL_TRANSACTION_TYPES, ALL_TRANSACTION_TYPES).

Lemma match_pair_eta : forall (o : option tpair) (op : instr),
  match o with
  | Some (tv, fv) => match op with IEq => (tv, fv) | _ => (fv, tv) end
  | None => type_UU
  end = match o with Some p => type_orient op p | None => type_UU end.
Proof. intros [[tv fv]|] op; destruct op; reflexivity. Qed.

Lemma type_single_eq : forall intcs fam op pos args,
  type_single intcs fam op pos args =
  if value_matches intcs fam "ApplicationID" (SKnown op pos args 0) then (appl_not_creation, appl_creation) else
  match op with
  | IEq | INeq =>
      match args with
      | [SKnown o1 p1 a1 x1 as v1; SKnown o2 p2 a2 x2 as v2] =>
          let r1 := is_int_push_ins intcs o1 in
          let r2 := is_int_push_ins intcs o2 in
          if Bool.eqb (res_is_int r1) (res_is_int r2) then type_UU else
          match type_tf intcs fam v1 v2 r1 r2 with
          | Some p => type_orient op p
          | None => type_UU
          end
      | _ => type_UU
      end
  | _ => type_UU
  end.
Proof.
  intros. unfold type_single.
  destruct (value_matches intcs fam "ApplicationID" (SKnown op pos args 0)); [reflexivity|].
  destruct op; try reflexivity;
    (destruct args as [| [|o1 p1 a1 u1] [| [|o2 p2 a2 u2] [| v3 rest]]]; try reflexivity;
     cbv zeta; destruct (Bool.eqb _ _); [reflexivity|]).
  - exact (match_pair_eta (type_tf intcs fam (SKnown o1 p1 a1 u1) (SKnown o2 p2 a2 u2)
                                   (is_int_push_ins intcs o1) (is_int_push_ins intcs o2)) IEq).
  - exact (match_pair_eta (type_tf intcs fam (SKnown o1 p1 a1 u1) (SKnown o2 p2 a2 u2)
                                   (is_int_push_ins intcs o1) (is_int_push_ins intcs o2)) INeq).
Qed.

(* the (true, false) pairs for == ; for != they are swapped *)
Definition type_base_pairs : list tpair :=
  (appl_creation, appl_not_creation)
  :: map (fun c => ([c], ldiff TYPEENUM_TRANSACTION_TYPES [c])) (map snd transaction_type_to_tealer_type_ints)
  ++ map (fun c => ([c], ldiff APPLICATION_TRANSACTION_TYPES [c])) (map snd oncompletion_to_tealer_type_ints).
Definition type_pairs : list tpair :=
  type_UU :: (appl_not_creation, appl_creation)
  :: type_base_pairs ++ map (fun p => (snd p, fst p)) type_base_pairs.

Lemma assocN_In : forall A n (l : list (N * A)) c, assocN n l = Some c -> In c (map snd l).
Proof.
  intros A n l c. induction l as [| [k v] t IH]; cbn [assocN map snd]; [discriminate|].
  destruct (N.eqb k n); intros H; [inversion H; left; reflexivity | right; auto].
Qed.
Lemma to_tealer_type_In : forall names ints r c, to_tealer_type names ints r = Some c -> In c (map snd ints).
Proof.
  intros names ints r c. unfold to_tealer_type. destruct r; try discriminate.
  - apply assocN_In.
  - destruct (Parse.assoc s names); [apply assocN_In | discriminate].
Qed.

Lemma type_tf_shape : forall intcs fam v1 v2 r1 r2 p,
  type_tf intcs fam v1 v2 r1 r2 = Some p -> In p type_base_pairs.
Proof.
  intros intcs fam v1 v2 r1 r2 p.
  assert (H0 : forall q, type_tf0 intcs fam v1 v2 r1 r2 = Some q -> In q type_base_pairs).
  { intros q. unfold type_tf0.
    destruct (_ && _); [destruct r2 as [| | [|?] |]; try discriminate; intros H; inversion H; left; reflexivity|].
    destruct (_ && _); [destruct r1 as [| | [|?] |]; try discriminate; intros H; inversion H; left; reflexivity|].
    discriminate. }
  assert (HT : forall r c, transaction_type_to_tealer_type r = Some c ->
                           In ([c], ldiff TYPEENUM_TRANSACTION_TYPES [c]) type_base_pairs).
  { intros r c H. right. apply in_or_app. left.
    apply (in_map (fun c => ([c], ldiff TYPEENUM_TRANSACTION_TYPES [c]))).
    exact (to_tealer_type_In _ _ _ _ H). }
  assert (HO : forall r c, oncompletion_to_tealer_type r = Some c ->
                           In ([c], ldiff APPLICATION_TRANSACTION_TYPES [c]) type_base_pairs).
  { intros r c H. right. apply in_or_app. right.
    apply (in_map (fun c => ([c], ldiff APPLICATION_TRANSACTION_TYPES [c]))).
    exact (to_tealer_type_In _ _ _ _ H). }
  assert (H1 : forall q, type_tf1 intcs fam v1 v2 r1 r2 (type_tf0 intcs fam v1 v2 r1 r2) = Some q ->
                         In q type_base_pairs).
  { intros q. unfold type_tf1.
    destruct (_ && _).
    { destruct (transaction_type_to_tealer_type r2) eqn:E; [intros H; inversion H; eapply HT; eauto | apply H0]. }
    destruct (_ && _).
    { destruct (transaction_type_to_tealer_type r1) eqn:E; [intros H; inversion H; eapply HT; eauto | apply H0]. }
    apply H0. }
  unfold type_tf, type_tf2.
  destruct (_ && _).
  { destruct (oncompletion_to_tealer_type r2) eqn:E; [intros H; inversion H; eapply HO; eauto | apply H1]. }
  destruct (_ && _).
  { destruct (oncompletion_to_tealer_type r1) eqn:E; [intros H; inversion H; eapply HO; eauto | apply H1]. }
  apply H1.
Qed.

Lemma type_orient_pairs : forall op p, In p type_base_pairs -> In (type_orient op p) type_pairs.
Proof.
  intros op p H. unfold type_pairs. right; right. apply in_or_app.
  destruct op; cbn [type_orient];
    try (right; apply (in_map (fun p => (snd p, fst p))); exact H).
  left. exact H.
Qed.

(* the result of a leaf is always one of 27 pairs *)
Theorem type_single_shapes_partial : forall intcs fam op pos args,
  In (type_single intcs fam op pos args) type_pairs.
Proof.
  intros. rewrite type_single_eq.
  assert (HU : In type_UU type_pairs) by (left; reflexivity).
  destruct (value_matches intcs fam "ApplicationID" (SKnown op pos args 0)); [right; left; reflexivity|].
  destruct op; try exact HU;
    (destruct args as [| [|o1 p1 a1 u1] [| [|o2 p2 a2 u2] [| v3 rest]]]; try exact HU;
     cbv zeta; destruct (Bool.eqb _ _); [exact HU|];
     match goal with |- In (match ?T with _ => _ end) _ => destruct T as [p|] eqn:E end;
     [apply type_orient_pairs; eapply type_tf_shape; exact E | exact HU]).
Qed.
Print Assumptions type_single_shapes_partial.

Definition type_labels_ext : list string := ALL_TRANSACTION_TYPES ++ ["Afrz"].

Lemma type_pairs_incl : forall p, In p type_pairs -> incl (fst p) type_labels_ext /\ incl (snd p) type_labels_ext.
Proof.
  assert (H : forallb (fun p : tpair => lsubset (fst p) type_labels_ext && lsubset (snd p) type_labels_ext) type_pairs = true)
    by (vm_compute; reflexivity).
  rewrite forallb_forall in H. intros p Hp. specialize (H p Hp).
  apply andb_true_iff in H. destruct H as [H1 H2]. rewrite lsubset_spec in H1, H2. split; assumption.
Qed.

(* both sides are made of transaction-type labels -- plus "Afrz", which TYPEENUM_TRANSACTION_TYPES has
   and ALL_TRANSACTION_TYPES lacks *)
Corollary type_single_labels : forall intcs fam op pos args,
  incl (fst (type_single intcs fam op pos args)) type_labels_ext /\
  incl (snd (type_single intcs fam op pos args)) type_labels_ext.
Proof. intros. apply type_pairs_incl. apply type_single_shapes_partial. Qed.

(* the statement "both sides are sublists of ALL_TRANSACTION_TYPES" is false:
   txn TypeEnum; int 5 (afrz); ==   gives true side {Afrz};   txn TypeEnum; int pay; ==  has Afrz on the false side *)
Lemma type_single_shapes_refuted :
  exists intcs fam op args,
    ~ incl (fst (type_single intcs fam op 0 args)) ALL_TRANSACTION_TYPES /\
    exists args', ~ incl (snd (type_single intcs fam op 0 args')) ALL_TRANSACTION_TYPES.
Proof.
  exists None, KSelf, IEq, [sv0 (ITxn ("TypeEnum", None)) []; sv0 (IInt (IANum 5)) []].
  split.
  - intros H. apply (proj2 (lsubset_spec _ _)) in H. vm_compute in H. discriminate.
  - exists [sv0 (ITxn ("TypeEnum", None)) []; sv0 (IInt (IAName "pay")) []].
    intros H. apply (proj2 (lsubset_spec _ _)) in H. vm_compute in H. discriminate.
Qed.

(* ---------------------------------------------------------------- the three patterns, exactly *)
Definition type_fields : list string := ["TypeEnum"; "OnCompletion"; "ApplicationID"].

(* the (true, false) pair of   <field fld of the key>  ==  <constant r> ;  None: no information *)
Definition type_expected (fld : string) (r : intres) : option tpair :=
  if fld =? "TypeEnum" then
    option_map (fun c => ([c], ldiff TYPEENUM_TRANSACTION_TYPES [c])) (transaction_type_to_tealer_type r)
  else if fld =? "OnCompletion" then
    option_map (fun c => ([c], ldiff APPLICATION_TRANSACTION_TYPES [c])) (oncompletion_to_tealer_type r)
  else if fld =? "ApplicationID" then
    match r with IntNum 0%N => Some (appl_creation, appl_not_creation) | _ => None end
  else None.

Lemma value_matches_fld_unique : forall intcs fam F F' v,
  value_matches intcs fam F v = true -> F' <> F -> value_matches intcs fam F' v = false.
Proof.
  intros intcs fam F F' v H Hne. unfold value_matches in *.
  destruct (get_index_and_field intcs v) as [[ix [fname oi]]|]; [| reflexivity].
  destruct (String.eqb_spec fname F) as [-> | E].
  - apply not_eq_sym, String.eqb_neq in Hne. rewrite Hne. destruct ix; reflexivity.
  - destruct ix; discriminate.
Qed.

Lemma value_matches_int_false : forall intcs fam F o p a u,
  is_int_push_ins intcs o <> NotInt -> value_matches intcs fam F (SKnown o p a u) = false.
Proof. intros intcs fam F o p a u H. destruct o; try reflexivity; exfalso; apply H; reflexivity. Qed.

Lemma res_known_is_int : forall r, res_known r = true -> res_is_int r = true /\ r <> NotInt.
Proof. intros [| | n | s] H; try discriminate; split; (reflexivity || discriminate). Qed.

Lemma type_tf_left : forall intcs fam fld v1 o2 p2 a2 x2,
  In fld type_fields ->
  value_matches intcs fam fld v1 = true ->
  res_known (is_int_push_ins intcs o2) = true ->
  type_tf intcs fam v1 (SKnown o2 p2 a2 x2) NotInt (is_int_push_ins intcs o2)
  = type_expected fld (is_int_push_ins intcs o2).
Proof.
  intros intcs fam fld v1 o2 p2 a2 x2 Hin M1 Hk.
  assert (V2 : forall F, value_matches intcs fam F (SKnown o2 p2 a2 x2) = false).
  { intros F. apply value_matches_int_false. apply res_known_is_int. exact Hk. }
  pose proof (fun F' H => value_matches_fld_unique intcs fam fld F' v1 M1 H) as Hneq.
  unfold type_tf, type_tf2, type_tf1, type_tf0. rewrite !V2, Hk. cbn [andb res_known]. rewrite !andb_true_r.
  destruct Hin as [<- | [<- | [<- | []]]]; rewrite M1.
  - rewrite (Hneq "OnCompletion"), (Hneq "ApplicationID") by discriminate.
    change (type_expected "TypeEnum" (is_int_push_ins intcs o2))
      with (option_map (fun c => ([c], ldiff TYPEENUM_TRANSACTION_TYPES [c])) (transaction_type_to_tealer_type (is_int_push_ins intcs o2))).
    destruct (transaction_type_to_tealer_type (is_int_push_ins intcs o2)); reflexivity.
  - change (type_expected "OnCompletion" (is_int_push_ins intcs o2))
      with (option_map (fun c => ([c], ldiff APPLICATION_TRANSACTION_TYPES [c])) (oncompletion_to_tealer_type (is_int_push_ins intcs o2))).
    destruct (oncompletion_to_tealer_type (is_int_push_ins intcs o2)); [reflexivity|].
    rewrite (Hneq "TypeEnum"), (Hneq "ApplicationID") by discriminate. reflexivity.
  - rewrite (Hneq "OnCompletion"), (Hneq "TypeEnum") by discriminate. reflexivity.
Qed.

Lemma type_tf_right : forall intcs fam fld v2 o1 p1 a1 x1,
  In fld type_fields ->
  value_matches intcs fam fld v2 = true ->
  res_known (is_int_push_ins intcs o1) = true ->
  type_tf intcs fam (SKnown o1 p1 a1 x1) v2 (is_int_push_ins intcs o1) NotInt
  = type_expected fld (is_int_push_ins intcs o1).
Proof.
  intros intcs fam fld v2 o1 p1 a1 x1 Hin M2 Hk.
  assert (V1 : forall F, value_matches intcs fam F (SKnown o1 p1 a1 x1) = false).
  { intros F. apply value_matches_int_false. apply res_known_is_int. exact Hk. }
  pose proof (fun F' H => value_matches_fld_unique intcs fam fld F' v2 M2 H) as Hneq.
  unfold type_tf, type_tf2, type_tf1, type_tf0. rewrite !V1, Hk. cbn [andb res_known]. rewrite !andb_true_r.
  destruct Hin as [<- | [<- | [<- | []]]]; rewrite M2.
  - rewrite (Hneq "OnCompletion"), (Hneq "ApplicationID") by discriminate.
    change (type_expected "TypeEnum" (is_int_push_ins intcs o1))
      with (option_map (fun c => ([c], ldiff TYPEENUM_TRANSACTION_TYPES [c])) (transaction_type_to_tealer_type (is_int_push_ins intcs o1))).
    destruct (transaction_type_to_tealer_type (is_int_push_ins intcs o1)); reflexivity.
  - change (type_expected "OnCompletion" (is_int_push_ins intcs o1))
      with (option_map (fun c => ([c], ldiff APPLICATION_TRANSACTION_TYPES [c])) (oncompletion_to_tealer_type (is_int_push_ins intcs o1))).
    destruct (oncompletion_to_tealer_type (is_int_push_ins intcs o1)); [reflexivity|].
    rewrite (Hneq "TypeEnum"), (Hneq "ApplicationID") by discriminate. reflexivity.
  - rewrite (Hneq "OnCompletion"), (Hneq "TypeEnum") by discriminate. reflexivity.
Qed.

(* field == constant / field != constant *)
Theorem type_single_compare_left : forall intcs fam op pos fld v1 o2 p2 a2 x2,
  op = IEq \/ op = INeq ->
  In fld type_fields ->
  value_matches intcs fam fld v1 = true ->
  res_known (is_int_push_ins intcs o2) = true ->
  type_single intcs fam op pos [v1; SKnown o2 p2 a2 x2] =
  match type_expected fld (is_int_push_ins intcs o2) with
  | Some p => type_orient op p
  | None => type_UU
  end.
Proof.
  intros intcs fam op pos fld v1 o2 p2 a2 x2 Hop Hin M1 Hk.
  destruct (value_matches_known _ _ _ _ M1) as (o1 & p1 & a1 & u1 & -> & I1).
  destruct (res_known_is_int _ Hk) as [Hi _].
  rewrite type_single_eq.
  destruct Hop as [-> | ->]; cbn [value_matches get_index_and_field]; cbv zeta;
    rewrite I1, Hi; cbn [res_is_int Bool.eqb];
    rewrite (type_tf_left intcs fam fld _ o2 p2 a2 x2 Hin M1 Hk); reflexivity.
Qed.

(* constant == field / constant != field *)
Theorem type_single_compare_right : forall intcs fam op pos fld v2 o1 p1 a1 x1,
  op = IEq \/ op = INeq ->
  In fld type_fields ->
  value_matches intcs fam fld v2 = true ->
  res_known (is_int_push_ins intcs o1) = true ->
  type_single intcs fam op pos [SKnown o1 p1 a1 x1; v2] =
  match type_expected fld (is_int_push_ins intcs o1) with
  | Some p => type_orient op p
  | None => type_UU
  end.
Proof.
  intros intcs fam op pos fld v2 o1 p1 a1 x1 Hop Hin M2 Hk.
  destruct (value_matches_known _ _ _ _ M2) as (o2 & p2 & a2 & u2 & -> & I2).
  destruct (res_known_is_int _ Hk) as [Hi _].
  rewrite type_single_eq.
  destruct Hop as [-> | ->]; cbn [value_matches get_index_and_field]; cbv zeta;
    rewrite I2, Hi; cbn [res_is_int Bool.eqb];
    rewrite (type_tf_right intcs fam fld _ o1 p1 a1 x1 Hin M2 Hk); reflexivity.
Qed.
Print Assumptions type_single_compare_left.
Print Assumptions type_single_compare_right.

(* the leaf is the ApplicationID read itself (truthy = not a creation) *)
Theorem type_single_applid_leaf : forall intcs fam op pos args,
  value_matches intcs fam "ApplicationID" (SKnown op pos args 0) = true ->
  type_single intcs fam op pos args = (appl_not_creation, appl_creation).
Proof. intros. rewrite type_single_eq, H. reflexivity. Qed.

(* the table, spelled out on examples *)
Example type_ex_typeenum :
  type_single None KSelf IEq 0 [sv0 (ITxn ("TypeEnum", None)) []; sv0 (IInt (IAName "appl")) []]
  = (["Appl"], ["Pay"; "KeyReg"; "Acfg"; "Axfer"; "Afrz"]).
Proof. vm_compute. reflexivity. Qed.
Example type_ex_oncompletion :
  type_single None (KAbs 1) INeq 0 [sv0 (IInt (IANum 5)) []; sv0 (IGtxn 1 ("OnCompletion", None)) []]
  = (["ApplNoOp"; "ApplOptIn"; "ApplCloseOut"; "ApplClearState"; "ApplUpdateApplication"; "ApplCreation"],
     ["ApplDeleteApplication"]).
Proof. vm_compute. reflexivity. Qed.
Example type_ex_applid :
  type_single None KSelf IEq 0 [sv0 (ITxn ("ApplicationID", None)) []; sv0 (IInt (IANum 0)) []]
  = (["ApplCreation"], ["ApplNoOp"; "ApplOptIn"; "ApplCloseOut"; "ApplClearState"; "ApplUpdateApplication"; "ApplDeleteApplication"]).
Proof. vm_compute. reflexivity. Qed.

(* ====================================================================== *)
(* Complements: totality.  Under mild well-formedness of the operand trees, a read that matches a key
   whose family denotes a member of the group does evaluate; hence every leaf the tool extracts
   information from has a truth value, and the soundness theorems extend to all leaves:
   "for every b not contradicted by the semantics".                                                  *)
(* ====================================================================== *)
(* no array-field reads (txna-style immediates), gtxns has exactly its one operand *)
Definition op_wf (op : instr) (nargs : nat) : bool :=
  match op with
  | ITxn (_, oi) | IGtxn _ (_, oi) => match oi with None => true | Some _ => false end
  | IGtxns (_, oi) => match oi with None => Nat.eqb nargs 1 | Some _ => false end
  | _ => true
  end.
Fixpoint tree_wf (v : sval) : bool :=
  match v with
  | SUnknown => true
  | SKnown op _ args _ => op_wf op (length args) && forallb tree_wf args
  end.

Lemma member_of_N : forall e n, (n < e_size e)%N -> member e (Z.of_N n) = Some n.
Proof.
  intros e n H. unfold member.
  destruct (Z.leb_spec 0 (Z.of_N n)); [| lia].
  destruct (Z.ltb_spec (Z.of_N n) (Z.of_N (e_size e))); [| lia].
  cbn [andb]. rewrite N2Z.id. reflexivity.
Qed.

Lemma groupindex_eval_total : forall e v,
  is_txn_groupindex v = true -> tree_wf v = true -> sv_eval e v = Some (VInt (Z.of_N (e_own e))).
Proof.
  intros e v Hg Hw. destruct v as [| op pos args out]; [discriminate|].
  destruct op; try discriminate. destruct f as [f oi]. cbn [is_txn_groupindex] in Hg.
  cbn [tree_wf op_wf] in Hw. destruct oi; [discriminate|].
  rewrite sv_eval_known. cbn [eval_op]. unfold field_of. rewrite Hg. reflexivity.
Qed.

Lemma fam_index_unknown : forall fam, fam_index_ok fam XUnknown = false.
Proof. destruct fam; reflexivity. Qed.

Lemma get_index_total : forall e fam a t,
  env_ok e -> tree_wf a = true ->
  fam_index_ok fam (get_index (e_intcs e) a) = true ->
  key_txn e fam = Some t ->
  exists j, sv_eval e a = Some (VInt j) /\ member e j = Some t.
Proof.
  intros e fam a t [Hsz Hown] Hw Hok Hk.
  destruct a as [| op pos args out]; [rewrite fam_index_unknown in Hok; discriminate|].
  unfold get_index in Hok.
  destruct (is_txn_groupindex (SKnown op pos args out)) eqn:Hg.
  { exists (Z.of_N (e_own e)). split; [apply groupindex_eval_total; assumption|].
    destruct fam; try discriminate. cbn in Hk. inversion Hk. subst. apply member_of_N. exact Hown. }
  destruct (is_int_push_ins (e_intcs e) op) as [| | n | s] eqn:Hi;
    try (rewrite fam_index_unknown in Hok; discriminate).
  2:{ exists (Z.of_N n). split; [apply int_push_eval; exact Hi|].
      destruct fam; try discriminate; cbn [fam_index_ok] in Hok; apply N.eqb_eq in Hok; subst n; cbn [key_txn] in Hk.
      - destruct (N.eqb_spec (e_own e) i); inversion Hk. subst. apply member_of_N. exact Hown.
      - destruct (N.ltb_spec i (e_size e)); inversion Hk. subst. apply member_of_N. assumption. }
  cbn [tree_wf] in Hw. apply andb_true_iff in Hw. destruct Hw as [_ Hw].
  destruct op; try (rewrite fam_index_unknown in Hok; discriminate).
  - (* IAdd *)
    destruct args as [| a1 [| a2 [| a3 rest]]]; try (rewrite fam_index_unknown in Hok; discriminate).
    destruct a1 as [| o1 p1 r1 u1]; [rewrite fam_index_unknown in Hok; discriminate|].
    destruct a2 as [| o2 p2 r2 u2]; [rewrite fam_index_unknown in Hok; discriminate|].
    cbn [forallb] in Hw. apply andb_true_iff in Hw. destruct Hw as [W1 Hw].
    apply andb_true_iff in Hw. destruct Hw as [W2 _].
    rewrite sv_eval_known. cbn [map eval_op].
    destruct (is_txn_groupindex (SKnown o1 p1 r1 u1)) eqn:G1.
    + destruct (is_int_push_ins (e_intcs e) o2) as [| | n | s] eqn:I2;
        try (rewrite fam_index_unknown in Hok; discriminate).
      destruct fam; try discriminate. cbn [fam_index_ok] in Hok. apply Z.eqb_eq in Hok. subst off.
      cbn [key_txn] in Hk. pose proof (member_some _ _ _ Hk) as [Hr _].
      rewrite (groupindex_eval_total e _ G1 W1), (int_push_eval e o2 p2 r2 u2 n I2).
      exists (Z.of_N (e_own e) + Z.of_N n)%Z. split; [| exact Hk].
      destruct (Z.ltb_spec (Z.of_N (e_own e) + Z.of_N n) two64); [reflexivity | unfold two64 in *; lia].
    + destruct (is_txn_groupindex (SKnown o2 p2 r2 u2)) eqn:G2;
        [| rewrite fam_index_unknown in Hok; discriminate].
      destruct (is_int_push_ins (e_intcs e) o1) as [| | n | s] eqn:I1;
        try (rewrite fam_index_unknown in Hok; discriminate).
      destruct fam; try discriminate. cbn [fam_index_ok] in Hok. apply Z.eqb_eq in Hok. subst off.
      cbn [key_txn] in Hk. pose proof (member_some _ _ _ Hk) as [Hr _].
      rewrite (groupindex_eval_total e _ G2 W2), (int_push_eval e o1 p1 r1 u1 n I1).
      exists (Z.of_N n + Z.of_N (e_own e))%Z. split; [| rewrite Z.add_comm; exact Hk].
      destruct (Z.ltb_spec (Z.of_N n + Z.of_N (e_own e)) two64); [reflexivity | unfold two64 in *; lia].
  - (* ISub *)
    destruct args as [| a1 [| a2 [| a3 rest]]]; try (rewrite fam_index_unknown in Hok; discriminate).
    destruct a1 as [| o1 p1 r1 u1]; [rewrite fam_index_unknown in Hok; discriminate|].
    destruct a2 as [| o2 p2 r2 u2]; [rewrite fam_index_unknown in Hok; discriminate|].
    cbn [forallb] in Hw. apply andb_true_iff in Hw. destruct Hw as [W1 Hw].
    rewrite sv_eval_known. cbn [map eval_op].
    destruct (is_txn_groupindex (SKnown o1 p1 r1 u1)) eqn:G1;
      [| rewrite fam_index_unknown in Hok; discriminate].
    destruct (is_int_push_ins (e_intcs e) o2) as [| | n | s] eqn:I2;
      try (rewrite fam_index_unknown in Hok; discriminate).
    destruct fam; try discriminate. cbn [fam_index_ok] in Hok. apply Z.eqb_eq in Hok. subst off.
    cbn [key_txn] in Hk. pose proof (member_some _ _ _ Hk) as [Hr _].
    rewrite (groupindex_eval_total e _ G1 W1), (int_push_eval e o2 p2 r2 u2 n I2).
    exists (Z.of_N (e_own e) - Z.of_N n)%Z. split.
    + destruct (Z.leb_spec (Z.of_N n) (Z.of_N (e_own e))); [reflexivity | lia].
    + replace (Z.of_N (e_own e) - Z.of_N n)%Z with (Z.of_N (e_own e) + - Z.of_N n)%Z by lia. exact Hk.
Qed.

Theorem classify_total : forall e fam fld v t,
  env_ok e -> tree_wf v = true ->
  value_matches (e_intcs e) fam fld v = true ->
  key_txn e fam = Some t ->
  sv_eval e v = Some (field_of e t fld).
Proof.
  intros e fam fld v t Hok Hw Hm Hk.
  assert (Hx : exists x, sv_eval e v = Some x).
  { apply value_matches_inv in Hm. destruct Hm as (ix & fname & oi & Hgf & -> & Hix).
    destruct v as [| op pos args out]; [discriminate|].
    rewrite sv_eval_known. cbn [tree_wf] in Hw. apply andb_true_iff in Hw. destruct Hw as [Hw1 Hw2].
    destruct op; try discriminate; cbn [get_index_and_field] in Hgf.
    - destruct f as [f o]. cbn [op_wf] in Hw1. destruct o; [discriminate|]. cbn [eval_op]. eauto.
    - destruct f as [f o]. cbn [op_wf] in Hw1. destruct o; [discriminate|]. cbn [eval_op].
      inversion Hgf; subst. destruct Hok as [_ Hown].
      destruct fam; try discriminate; cbn [fam_index_ok] in Hix; apply N.eqb_eq in Hix; subst; cbn [key_txn] in Hk.
      + destruct (N.eqb_spec (e_own e) i0); [| discriminate]. subst.
        destruct (N.ltb_spec (e_own e) (e_size e)); [eauto | lia].
      + destruct (i0 <? e_size e)%N; [eauto | discriminate].
    - destruct f as [f o]. cbn [op_wf] in Hw1. destruct o; [discriminate|].
      destruct args as [| a [| b rest]]; try discriminate. inversion Hgf; subst.
      cbn [forallb] in Hw2. apply andb_true_iff in Hw2. destruct Hw2 as [Wa _].
      destruct (get_index_total e fam a t Hok Wa Hix Hk) as (j & Ej & Emj).
      cbn [eval_op map]. rewrite Ej, Emj. cbn [option_map]. eauto. }
  destruct Hx as [x Hx]. rewrite Hx. f_equal. eapply classify_correct; eassumption.
Qed.
Print Assumptions classify_total.

Lemma int_cmp_none : forall op x y, int_cmp op x y = None -> cmp_of op = COther.
Proof. intros op x y H. destruct op; try discriminate; reflexivity. Qed.

Lemma not_neg_some : forall b b' : bool, Some b' <> Some (negb b) -> b' = b.
Proof. intros [|] [|] H; try reflexivity; exfalso; apply H; reflexivity. Qed.

(* ---------------------------------------------------------------- fee, all leaves *)
Lemma fee_leaf_none : forall e fam op pos args t x,
  env_ok e -> forallb tree_wf args = true ->
  key_txn e fam = Some t -> e_field e t "Fee" = VInt x ->
  const_compared (e_intcs e) fam "Fee" args ->
  leaf_truth e op args = None ->
  fee_single (e_intcs e) fam op pos args = (fee_universal_set, fee_universal_set).
Proof.
  intros e fam op pos args t x Hok Hw Hk Hf Hcc Hn. rewrite fee_single_eq.
  assert (Hfld : forall v, tree_wf v = true -> value_matches (e_intcs e) fam "Fee" v = true ->
                           sv_eval e v = Some (VInt x)).
  { intros v Wv Hm. rewrite (classify_total e fam "Fee" v t Hok Wv Hm Hk). unfold field_of. cbn. rewrite Hf. reflexivity. }
  destruct (fee_cv_cases (e_intcs e) fam (cmp_of op) args Hcc) as [-> | [H | H]]; [reflexivity | |].
  - destruct H as (v1 & v2 & n & -> & M1 & (o & p & a & u & -> & Hi) & ->).
    cbn [forallb] in Hw. apply andb_true_iff in Hw. destruct Hw as [W1 _].
    unfold leaf_truth in Hn. rewrite (Hfld v1 W1 M1), (int_push_eval e o p a u n Hi) in Hn.
    rewrite (int_cmp_none _ _ _ Hn). reflexivity.
  - destruct H as (v1 & v2 & n & -> & M2 & (o & p & a & u & -> & Hi) & ->).
    cbn [forallb] in Hw. apply andb_true_iff in Hw. destruct Hw as [_ Hw].
    apply andb_true_iff in Hw. destruct Hw as [W2 _].
    unfold leaf_truth in Hn. rewrite (Hfld v2 W2 M2), (int_push_eval e o p a u n Hi) in Hn.
    rewrite (int_cmp_none _ _ _ Hn). reflexivity.
Qed.

Theorem fee_single_sound_total : forall e fam op pos args t x b,
  env_ok e -> forallb tree_wf args = true ->
  key_txn e fam = Some t ->
  e_field e t "Fee" = VInt x -> (0 <= x <= MAX_UINT64z)%Z ->
  const_compared (e_intcs e) fam "Fee" args ->
  leaf_truth e op args <> Some (negb b) ->
  let r := fee_single (e_intcs e) fam op pos args in
  fee_gamma (if b then fst r else snd r) x.
Proof.
  intros e fam op pos args t x b Hok Hw Hk Hf Hx Hcc Hb r. subst r.
  destruct (leaf_truth e op args) as [b'|] eqn:E.
  - apply not_neg_some in Hb. subst b'. eapply fee_single_sound; eassumption.
  - rewrite (fee_leaf_none e fam op pos args t x Hok Hw Hk Hf Hcc E).
    destruct b; apply fee_universal_gamma; lia.
Qed.
Print Assumptions fee_single_sound_total.

(* ---------------------------------------------------------------- int, all leaves *)
Lemma int_field_eval_total : forall sz e o p a u,
  int_isf sz o = true -> tree_wf (SKnown o p a u) = true ->
  sv_eval e (SKnown o p a u) = Some (VInt (int_value sz e)).
Proof.
  intros sz e o p a u Hf Hw. destruct sz; cbn [int_isf int_value] in *.
  - destruct o; try discriminate. cbn [is_groupsize_read] in Hf. rewrite sv_eval_known.
    cbn [eval_op]. rewrite Hf. reflexivity.
  - apply groupindex_eval_total; [| exact Hw]. destruct o; try discriminate. exact Hf.
Qed.

Lemma int_leaf_none : forall sz e op pos args,
  forallb tree_wf args = true ->
  leaf_truth e op args = None ->
  int_single sz (e_intcs e) op pos args = (int_U sz, int_U sz).
Proof.
  intros sz e op pos args Hw Hn.
  destruct (cmpop_eq_other (cmp_of op)) as [Hc | Hc]; [apply int_single_other; assumption|].
  rewrite int_single_eq by assumption.
  destruct (int_cv sz (e_intcs e) args) as [n|] eqn:Hcv; [| reflexivity]. exfalso.
  unfold int_cv in Hcv.
  destruct args as [| [|o1 p1 a1 u1] [| [|o2 p2 a2 u2] [| v3 rest]]]; try discriminate.
  cbn [forallb] in Hw. apply andb_true_iff in Hw. destruct Hw as [W1 Hw].
  apply andb_true_iff in Hw. destruct Hw as [W2 _].
  unfold leaf_truth in Hn.
  destruct (int_isf sz o1) eqn:F1.
  - destruct (is_int_push_ins (e_intcs e) o2) as [| | n' |] eqn:I2; try discriminate.
    rewrite (int_field_eval_total sz e _ _ _ _ F1 W1), (int_push_eval e o2 p2 a2 u2 n' I2) in Hn.
    exact (Hc (int_cmp_none _ _ _ Hn)).
  - destruct (int_isf sz o2) eqn:F2; [| discriminate].
    destruct (is_int_push_ins (e_intcs e) o1) as [| | n' |] eqn:I1; try discriminate.
    rewrite (int_field_eval_total sz e _ _ _ _ F2 W2), (int_push_eval e o1 p1 a1 u1 n' I1) in Hn.
    exact (Hc (int_cmp_none _ _ _ Hn)).
Qed.

Theorem int_single_sound_partial_total : forall sz e op pos args b,
  env_ok e -> forallb tree_wf args = true ->
  mirrored_ordered sz (e_intcs e) op args = false ->
  leaf_truth e op args <> Some (negb b) ->
  let r := int_single sz (e_intcs e) op pos args in
  In (int_value sz e) (if b then fst r else snd r).
Proof.
  intros sz e op pos args b Hok Hw Hex Hb r. subst r.
  destruct (leaf_truth e op args) as [b'|] eqn:E.
  - apply not_neg_some in Hb. subst b'. apply int_single_sound_partial; assumption.
  - rewrite (int_leaf_none sz e op pos args Hw E). destruct b; apply int_value_in_U; assumption.
Qed.
Print Assumptions int_single_sound_partial_total.

(* exactness with respect to the tool's reading  "field c constant"  of every leaf it extracts a constant
   from (for == and != in either order this is the true reading; for <,<=,>,>= with the field on the
   right it is the D2 misreading) *)
Definition int_det_all (sz : bool) (intcs : option (list N)) (op : instr) (pos : nat) (args : list sval) : option (Z -> bool) :=
  match cmp_of op with
  | COther => None
  | c => match int_cv sz intcs args with
         | Some n => Some (fun x => cmp_holds c x (Z.of_N n))
         | None => None
         end
  end.

Theorem int_single_leaf_exact_all : forall sz intcs op pos args x,
  In x (int_U sz) ->
  match int_det_all sz intcs op pos args with
  | Some f => (In x (fst (int_single sz intcs op pos args)) <-> f x = true) /\
              (In x (snd (int_single sz intcs op pos args)) <-> f x = false)
  | None => In x (fst (int_single sz intcs op pos args)) /\ In x (snd (int_single sz intcs op pos args))
  end.
Proof.
  intros sz intcs op pos args x Hx. unfold int_det_all.
  destruct (cmpop_eq_other (cmp_of op)) as [Hc | Hc].
  { rewrite Hc, int_single_other by assumption. split; exact Hx. }
  rewrite int_single_eq by assumption.
  assert (HS : forall n,
    (In x (int_get_asserted_int_values (cmp_of op) (Z.of_N n) (int_U sz)) <-> cmp_holds (cmp_of op) x (Z.of_N n) = true) /\
    (In x (zdiff (int_U sz) (int_get_asserted_int_values (cmp_of op) (Z.of_N n) (int_U sz))) <-> cmp_holds (cmp_of op) x (Z.of_N n) = false)).
  { intros n. split.
    - destruct (cmp_of op) eqn:E; try congruence;
        try (rewrite int_asserted_exact by (try apply int_U_NoDup; congruence); tauto).
      apply int_asserted_eq_In.
    - rewrite int_asserted_false_exact by (try apply int_U_NoDup; congruence). tauto. }
  destruct (int_cv sz intcs args) as [n|].
  - destruct (cmp_of op); try congruence; cbv zeta; cbn [fst snd]; apply HS.
  - destruct (cmp_of op); cbn [fst snd]; split; exact Hx.
Qed.
Print Assumptions int_single_leaf_exact_all.

(* ---------------------------------------------------------------- addr, all leaves *)
Lemma addr_leaf_none : forall e fam fld op pos args t a,
  env_ok e -> forallb tree_wf args = true ->
  fld <> "GroupIndex" -> key_txn e fam = Some t -> e_field e t fld = VAddr a ->
  addr_const_compared (e_intcs e) fam fld args ->
  leaf_truth e op args = None ->
  addr_single (e_intcs e) fam fld op pos args = (addr_universal_set, addr_universal_set).
Proof.
  intros e fam fld op pos args t a Hok Hw Hfld Hk Hf Hcc Hn. rewrite addr_single_eq.
  assert (Hval : forall v, tree_wf v = true -> value_matches (e_intcs e) fam fld v = true ->
                           sv_eval e v = Some (VAddr a)).
  { intros v Wv Hm. rewrite (classify_total e fam fld v t Hok Wv Hm Hk). unfold field_of.
    apply String.eqb_neq in Hfld. rewrite Hfld, Hf. reflexivity. }
  assert (Hconst : forall o p r u, is_addr_const (SKnown o p r u) = true ->
                                   exists y, sv_eval e (SKnown o p r u) = Some (VAddr y)).
  { intros o p r u Hc. rewrite sv_eval_known. destruct o; try discriminate; cbn [is_addr_const] in Hc.
    - eexists. reflexivity.
    - apply orb_true_iff in Hc. destruct Hc as [Hc | Hc]; apply String.eqb_eq in Hc; subst f; eexists; reflexivity. }
  destruct (addr_asserted_cases (e_intcs e) fam fld args Hcc) as [-> | [H | H]]; [destruct op; reflexivity | |].
  - destruct H as (v1 & o & p & r & u & -> & M1 & Hc & ->).
    cbn [forallb] in Hw. apply andb_true_iff in Hw. destruct Hw as [W1 _].
    destruct (Hconst o p r u Hc) as [y Ey].
    unfold leaf_truth in Hn. rewrite (Hval v1 W1 M1), Ey in Hn.
    destruct op; try reflexivity; discriminate.
  - destruct H as (v2 & o & p & r & u & -> & M2 & Hc & ->).
    cbn [forallb] in Hw. apply andb_true_iff in Hw. destruct Hw as [_ Hw].
    apply andb_true_iff in Hw. destruct Hw as [W2 _].
    destruct (Hconst o p r u Hc) as [y Ey].
    unfold leaf_truth in Hn. rewrite (Hval v2 W2 M2), Ey in Hn.
    destruct op; try reflexivity; discriminate.
Qed.

Theorem addr_single_sound_total : forall e fam fld op pos args t a b,
  env_ok e -> forallb tree_wf args = true ->
  fld <> "GroupIndex" ->
  key_txn e fam = Some t ->
  e_field e t fld = VAddr a -> a <> "ZERO" -> is_marker a = false ->
  addr_const_compared (e_intcs e) fam fld args ->
  zero_literal_ok args ->
  creator_not_literal e args ->
  leaf_truth e op args <> Some (negb b) ->
  let r := addr_single (e_intcs e) fam fld op pos args in
  addr_gamma (if b then fst r else snd r) (abs_name e a).
Proof.
  intros e fam fld op pos args t a b Hok Hw Hfld Hk Hf Ha Hm Hcc Hz Hcr Hb r. subst r.
  destruct (leaf_truth e op args) as [b'|] eqn:E.
  - apply not_neg_some in Hb. subst b'. eapply addr_single_sound; eassumption.
  - rewrite (addr_leaf_none e fam fld op pos args t a Hok Hw Hfld Hk Hf Hcc E).
    destruct b; apply addr_universal_gamma; apply abs_name_not_marker; exact Hm.
Qed.
Print Assumptions addr_single_sound_total.
