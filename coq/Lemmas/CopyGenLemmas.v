(* copy_main_cfg REGENERATED from tealer's Python source (Gen/CopyGen.v: copy_main_cfg_gen, translated statement by
   statement from teal/parse_functions.py by tools/translate_copy.py, calling the regenerated passes of Gen/CfgGen.v and
   the regenerated line parser of Gen/LineGen.v) against the model's initial function state, which Gen/FunctionGen.v
   only ASSUMED (function_blocks0 / heap0 of Lemmas/FunctionGenLemmas.v = Group.fn_state0).

   What copy_main_cfg does (read off the Python text): it concatenates, for the blocks of teal.main in idx order, the
   ORIGINAL source line of every instruction (ins.source_code, preceded by its comment lines; NOT str(ins)), splits the
   text into lines again, runs first_pass .. fourth_pass on them, copies line numbers and callsub targets from the
   originals (zip in order), sorts the new blocks by entry line and copies the block ids (zip in order).

   Results, for EVERY p, t with parse_teal p = Ok t whose line numbers increase (every parsed source: source_attrs)
   and every table `attrs` of source lines that re-parse to the instructions they belong to (attrs_ok; for the
   attributes first_pass stores, CopyInstances.attrs_of_lines: source_attrs; copy_main_cfg_source has no hypothesis left):
   1. copy_main_cfg_state_main : copy_main_cfg_state t attrs = Some (function_blocks0 t, heap0m t): no exception, the
      blocks are the main blocks of t under their own idx in idx order, same instruction positions / classes / line
      numbers, same successor lists in the same order, predecessor lists = those of t RESTRICTED to main (heap0m).
      No hypothesis on labels, on the print/parse round trip or on jumps into subroutines is needed:
      - the re-parsed text is made of the original lines, so parse_line returns the same instruction (determinism);
      - a label a main instruction jumps to is defined in main and its last definition is in main (CopyNext.v);
      - the main blocks are closed under successors, which is all the block construction needs (sub_program_blocks).
   2. copy_main_cfg_state_eq : under main_prev_closed t (no main block has a predecessor outside main; implied by
      GraphWf.struct_ok: main_prev_closed_struct_ok) heap0m t = heap0 t: the assumption of Gen/FunctionGen.v holds.
      copy_main_cfg_state_refuted: it does NOT hold for every parsed contract: when a subroutine jumps into a main
      block the copy has one predecessor less than the model's initial state.
   3. construct_function_from_copy_gen_eq: copy_main_cfg followed by the regenerated construct_function returns the
      model's Group.construct_function (FunctionGenLemmas.construct_function_gen_eq composed with 2). *)
From Coq Require Import String List NArith ZArith Bool Ascii Arith Lia Sorting.Sorted.
From Tealer Require Import Tables LeafPrelude Leaves Syntax Parse Cfg StackAst Keys Analysis Domains Detect Group.
From Tealer Require Import KeysGen CfgGen FunctionGen CopyGen.
From Tealer Require Import CfgLemmas SubLemmas GraphWf GroupLemmas CfgGenLemmas FunctionGenLemmas.
From Tealer Require ParseLemmas.
From Tealer Require Import CopyDefs CopyScan CopyCore CopyNext CopyAux CopyInstances.
Import ListNotations.
Open Scope string_scope.
Open Scope list_scope.

(* ====================================================================== *)
(* 0. The generated function, cut into its loops                           *)
(* ====================================================================== *)
Definition item_body (attrs : ins_attrs) (st2 : string * list nat) (ins : nat) : py (string * list nat) :=
      (let source_code := (fst st2) in
      (let original_instructions := (snd st2) in
      (bind (bind (bind (bind (bind (bind (oi_comments_before_ins attrs ins) (fun tmp3 => (ret (LineGen.str_join CopyGen.nl tmp3)))) (fun tmp4 => (ret (String.append tmp4 CopyGen.nl)))) (fun tmp5 => (bind (oi_source_code attrs ins) (fun tmp6 => (ret (String.append tmp5 tmp6)))))) (fun tmp7 => (ret (String.append tmp7 CopyGen.nl)))) (fun tmp8 => (ret (String.append source_code tmp8)))) (fun source_code =>
      (let original_instructions := (original_instructions ++ [ins]) in
      (ret (source_code, original_instructions))))))).

Definition block_body (t : teal) (attrs : ins_attrs) (st : string * list nat * list nat) (bi : nat) : py (string * list nat * list nat) :=
    (let source_code := (fst (fst st)) in
    (let original_instructions := (snd (fst st)) in
    (let original_blocks := (snd st) in
    (bind (ob_instructions t bi) (fun tmp2 =>
    (bind (fold_left (fun acc2 ins => (bind acc2 (fun st2 => item_body attrs st2 ins)))
      tmp2 (ret (source_code, original_instructions))) (fun tmp9 =>
    (let source_code := (fst tmp9) in
    (let original_instructions := (snd tmp9) in
    (let source_code := (String.append source_code CopyGen.nl) in
    (let original_blocks := (original_blocks ++ [bi]) in
    (ret (source_code, original_instructions, original_blocks))))))))))))).

Definition transfer_body (t : teal) (st : cheap) (tmp15 : nat * nat) : py cheap :=
    (let heap := st in
    (let ins_copy := (fst tmp15) in
    (let ins_orig := (snd tmp15) in
    (bind (bind (oi_line t ins_orig) (fun tmp16 => (set_ci_line heap ins_copy tmp16))) (fun heap =>
    (let kif := (fun (heap : cheap) =>
      (ret heap)) in
    (ifE (bind (ci_class heap ins_copy) (fun tmp17 => (ret (match tmp17 with ICallsub _ => true | _ => false end))))
        (assertC (bind (oi_class t ins_orig) (fun tmp18 => (ret (match tmp18 with ICallsub _ => true | _ => false end))))
        (bind (bind (oi_called_subroutine t ins_orig) (fun tmp19 => (set_ci_called_subroutine heap ins_copy tmp19))) (fun heap =>
        (kif heap))))
        (kif heap)))))))).

Definition idx_body (t : teal) (st : cheap) (tmp22 : nat * nat) : py cheap :=
    (let heap := st in
    (let bb_copy := (fst tmp22) in
    (let bb_orig := (snd tmp22) in
    (bind (bind (ob_idx t bb_orig) (fun tmp23 => (set_cb_idx heap bb_copy tmp23))) (fun heap =>
    (ret heap)))))).

Definition copy_tail (t : teal) (heap : cheap) (source_code : string) (original_instructions original_blocks : list nat) : py (list nat * cheap) :=
  (let instructions := [] in
  (let labels := [] in
  (let subroutine_callsubs := [] in
  (let lines := (str_splitlines source_code) in
  (bind (call_first_pass heap lines labels subroutine_callsubs instructions) (fun tmp11 =>
  (let labels := (fst (fst (fst tmp11))) in
  (let subroutine_callsubs := (snd (fst (fst tmp11))) in
  (let instructions := (snd (fst tmp11)) in
  (let heap := (snd tmp11) in
  (bind (call_second_pass heap instructions labels) (fun tmp12 =>
  (let heap := tmp12 in
  (let all_bbs := [] in
  (bind (call_create_bb heap instructions all_bbs) (fun tmp13 =>
  (let all_bbs := (fst tmp13) in
  (let heap := (snd tmp13) in
  (bind (call_fourth_pass heap all_bbs) (fun tmp14 =>
  (let heap := tmp14 in
  (bind (fold_left (fun acc tmp15 => (bind acc (fun st => transfer_body t st tmp15)))
    (combine instructions original_instructions) (ret heap)) (fun tmp20 =>
  (let heap := tmp20 in
  (bind (sorted_by_key (fun bi => (bind (cb_entry_instr heap bi) (fun tmp21 => (ci_line heap tmp21)))) all_bbs) (fun all_bbs =>
  (bind (fold_left (fun acc tmp22 => (bind acc (fun st => idx_body t st tmp22)))
    (combine all_bbs original_blocks) (ret heap)) (fun tmp24 =>
  (let heap := tmp24 in
  (ret (all_bbs, heap))))))))))))))))))))))))))))))).

Lemma copy_main_cfg_gen_unfold t attrs heap :
  copy_main_cfg_gen t attrs heap =
  bind (sorted_by_key (fun bi => ob_idx t bi) (s_blocks (t_main t))) (fun tmp1 =>
  bind (fold_left (fun acc bi => bind acc (fun st => block_body t attrs st bi)) tmp1 (ret (EmptyString, [], []))) (fun tmp10 =>
  copy_tail t heap (fst (fst tmp10)) (snd (fst tmp10)) (snd tmp10))).
Proof. reflexivity. Qed.

(* ====================================================================== *)
(* 1. Hypotheses on the source attributes; small facts                     *)
(* ====================================================================== *)
(* the attributes of one original instruction: its source line re-parses (with the REGENERATED parse_line) to its own
   class and immediates, is not a comment line, and neither it nor its comment lines contain a line break *)
Definition attr_ok (i : ins) (a : string * list string) : Prop :=
  line_ok (fst a) = true /\ is_comment_line (fst a) = false /\ LineGen.parse_line_top (fst a) = Some (Some (i_op i)) /\
  Forall (fun c => line_ok c = true /\ is_comment_line c = true) (snd a).
Definition attrs_ok (p : prog) (attrs : ins_attrs) : Prop := Forall2 attr_ok p attrs.
Definition lines_increasing (p : prog) : Prop := StronglySorted lt (map i_line p).

Definition main_prev_closed (t : teal) : Prop :=
  forall n b m, In n (s_blocks (t_main t)) -> tblock t n = Some b -> In m (b_prev b) -> In m (s_blocks (t_main t)).

Lemma bind_Some {A B} (a : A) (f : A -> py B) : bind (Some a) f = f a.
Proof. reflexivity. Qed.

Lemma stab_get_set d k v k' : stab_get (stab_set d k v) k' = if Nat.eqb k k' then Some v else stab_get d k'.
Proof.
  induction d as [|[k0 w] d IH]; cbn [stab_set stab_get].
  - destruct (Nat.eqb k k'); reflexivity.
  - destruct (Nat.eqb k0 k) eqn:E; cbn [stab_get].
    + apply Nat.eqb_eq in E. subst k0. destruct (Nat.eqb k k'); reflexivity.
    + destruct (Nat.eqb k0 k') eqn:E'; [|exact IH].
      apply Nat.eqb_eq in E'. subst k0. rewrite Nat.eqb_sym, E. reflexivity.
Qed.

Lemma tab_get_set d k v k' : tab_get (tab_set d k v) k' = if Nat.eqb k k' then Some v else tab_get d k'.
Proof.
  induction d as [|[k0 w] d IH]; cbn [tab_set tab_get].
  - destruct (Nat.eqb k k'); reflexivity.
  - destruct (Nat.eqb k0 k) eqn:E; cbn [tab_get].
    + apply Nat.eqb_eq in E. subst k0. destruct (Nat.eqb k k'); reflexivity.
    + destruct (Nat.eqb k0 k') eqn:E'; [|exact IH].
      apply Nat.eqb_eq in E'. subst k0. rewrite Nat.eqb_sym, E. reflexivity.
Qed.

Lemma nodup_nat_true l : NoDup l -> nodup_nat l = true.
Proof.
  induction 1 as [|x l Hx Hnd IH]; [reflexivity|]. cbn [nodup_nat]. rewrite IH, andb_true_r.
  apply negb_true_iff. destruct (existsb (Nat.eqb x) l) eqn:E; [|reflexivity].
  apply existsb_exists in E. destruct E as (y & Hy & Ey). apply Nat.eqb_eq in Ey. subst y. contradiction.
Qed.

Lemma upd_nth_mid {A} (l1 : list A) x l2 g y : g x = Some y -> upd_nth (l1 ++ x :: l2) (length l1) g = Some (l1 ++ y :: l2).
Proof. intros H. rewrite upd_nth_app, H. reflexivity. Qed.

Lemma foldM_app {S X} (F : S -> X -> py S) l1 l2 s : foldM F (l1 ++ l2) s = bind (foldM F l1 s) (foldM F l2).
Proof.
  revert s. induction l1 as [|x l1 IH]; intros s; [reflexivity|]. cbn [app foldM].
  destruct (F s x) as [s'|]; cbn [bind]; [apply IH | reflexivity].
Qed.

Lemma filter_filter_sub (M R l : list nat) : (forall x, In x M -> In x R) ->
  filter (fun m => nat_mem m M) (filter (fun m => nat_mem m R) l) = filter (fun m => nat_mem m M) l.
Proof.
  intros H. induction l as [|a l IH]; [reflexivity|]. cbn [filter].
  destruct (nat_mem a R) eqn:ER; cbn [filter]; destruct (nat_mem a M) eqn:EM; try rewrite IH; try reflexivity.
  apply nat_mem_In in EM. apply H, nat_mem_In in EM. congruence.
Qed.

Lemma filter_all_true {A} (f : A -> bool) l : (forall x, In x l -> f x = true) -> filter f l = l.
Proof.
  induction l as [|a l IH]; intros H; [reflexivity|]. cbn [filter]. rewrite (H a (or_introl eq_refl)), IH; [reflexivity|].
  intros x Hx. apply H. right. assumption.
Qed.

(* ====================================================================== *)
(* 2. The proof, for a parsed contract                                     *)
(* ====================================================================== *)
Section Copy.
Variables (p : prog) (t : teal) (bs : list block) (attrs : ins_attrs).
Hypothesis Hparse : parse_teal p = Ok t.
Hypothesis Hbs : build_blocks p = Some bs.
Hypothesis Hlines : lines_increasing p.
Hypothesis Hattrs : attrs_ok p attrs.

Let M := s_blocks (t_main t).
Let Sx := sel (length bs) M.
Let K := sel_pos bs M.
Let R := retained_ids t.

(* ---------------------------------------------------------------- the contract *)
Lemma Hprog : t_prog t = p.
Proof. destruct (parse_teal_inv p t Hparse) as (bs0 & subs0 & _ & _ & _ & H & _). exact H. Qed.

Lemma Hp_ne : p <> [].
Proof. destruct (parse_teal_inv p t Hparse) as (bs0 & subs0 & H & _). exact H. Qed.

Lemma M_reach n : In n M <-> Reach bs 0 n.
Proof. apply (main_reach p t bs Hparse Hbs). Qed.

Lemma M_nodup : NoDup M.
Proof. destruct (main_blocks_are_local_reach p t bs Hparse Hbs) as (_ & _ & H). exact H. Qed.

Lemma bs_pos : 0 < length bs.
Proof.
  destruct (build_blocks_spec p bs Hbs) as (rbs & nexts & Hc & _ & _ & Hl & _).
  destruct (create_bb_spec p rbs Hc Hp_ne) as (_ & _ & done & lastb & E & _).
  rewrite Hl, E, app_length. simpl. lia.
Qed.

Lemma M_lt n : In n M -> n < length bs.
Proof.
  intros H. apply M_reach in H. apply (Reach_lt bs (length bs) 0 n); [|exact bs_pos | exact H].
  intros a b Hb. exact (next_of_range p bs a b Hbs Hb).
Qed.

Lemma M_closed : closed bs M.
Proof. intros n m Hn _ Hm. apply M_reach. apply M_reach in Hn. econstructor; eauto. Qed.

Lemma M_zero : In 0 M.
Proof. apply M_reach. constructor. Qed.

Lemma M_nonempty : nonempty_sel bs M.
Proof. exists 0. split; [exact M_zero | exact bs_pos]. Qed.

Lemma Sx_In n : In n Sx <-> In n M.
Proof. unfold Sx. rewrite sel_In. split; [tauto|]. intros H. split; [assumption | apply M_lt; assumption]. Qed.

Lemma M_retained n : In n M -> In n R.
Proof. intros H. apply (tblock_retained_ids p t n Hparse). apply (main_tblock p t Hparse). exact H. Qed.

(* the cell of a main block in the contract: the block of the full graph, pruned *)
Lemma main_cell n : In n M ->
  exists B, nth_error bs n = Some B /\ b_idx B = n /\
            tblock t n = Some (mkBlock n (b_ins B) (b_next B) (filter (fun m => nat_mem m R) (b_prev B))).
Proof.
  intros Hn. destruct (main_tblock p t Hparse n Hn) as (b' & Hb').
  destruct (parse_teal_inv p t Hparse) as (bs0 & subs0 & Hp & Hb0 & Hm & Hpr & Hblocks & Hsubs & Hmain).
  rewrite Hbs in Hb0. inversion Hb0; subst bs0; clear Hb0.
  pose proof (proj1 (tblock_spec p t bs subs0 Hp Hbs Hm Hblocks Hsubs n b') Hb') as (Hr & B & HB & Eb').
  exists B. split; [assumption|]. pose proof (idx_is_position p bs n B Hbs HB) as Ei. split; [assumption|].
  rewrite Hb', Eb'. unfold prune_block. rewrite Ei. f_equal. f_equal.
  unfold R, retained_ids. rewrite (t_blocks_idx p t bs subs0 Hp Hbs Hm Hblocks Hsubs). reflexivity.
Qed.

Lemma ob_idx_main n : In n M -> ob_idx t n = Some n.
Proof. intros H. destruct (main_cell n H) as (B & _ & _ & Ht). unfold ob_idx. rewrite Ht. reflexivity. Qed.

Lemma ob_ins_main n : In n M -> exists B, nth_error bs n = Some B /\ ob_instructions t n = Some (b_ins B).
Proof. intros H. destruct (main_cell n H) as (B & HB & _ & Ht). exists B. split; [assumption|]. unfold ob_instructions. rewrite Ht. reflexivity. Qed.

(* ---------------------------------------------------------------- A. the blocks in idx order *)
Lemma sorted_main : sorted_by_key (fun bi => ob_idx t bi) M = Some Sx.
Proof. apply sorted_by_key_nat; [exact M_nodup | exact ob_idx_main | exact M_lt]. Qed.

(* ---------------------------------------------------------------- B. the text of the main blocks *)
Definition bins (n : nat) : list nat := match nth_error bs n with Some B => b_ins B | None => [] end.
(* the lines one instruction contributes: its comment lines (one empty line when there is none), then its source line *)
Definition ilines (k : nat) : list string :=
  match nth_error attrs k with
  | Some (src, cm) => (match cm with [] => [EmptyString] | _ => cm end) ++ [src]
  | None => []
  end.
Definition blines (n : nat) : list string := flat_map ilines (bins n) ++ [EmptyString].

Lemma attrs_nth k : k < length p ->
  exists i src cm, nth_error p k = Some i /\ nth_error attrs k = Some (src, cm) /\ attr_ok i (src, cm).
Proof.
  intros Hk. destruct (nth_error p k) as [i|] eqn:Ei; [|apply nth_error_None in Ei; lia].
  assert (G : forall (l1 : prog) (l2 : ins_attrs) j i0, Forall2 attr_ok l1 l2 -> nth_error l1 j = Some i0 ->
               exists a, nth_error l2 j = Some a /\ attr_ok i0 a).
  { induction l1 as [|x l1 IH]; intros l2 j i0 HF Hj; [destruct j; discriminate|].
    inversion HF as [|? y ? l2' Hxy HF']; subst. destruct j as [|j]; cbn [nth_error] in *.
    - inversion Hj; subst. eauto.
    - eapply IH; eauto. }
  destruct (G p attrs k i Hattrs Ei) as ([src cm] & Ha & Hok). exists i, src, cm. auto.
Qed.

Lemma pos_lt n B k : nth_error bs n = Some B -> In k (b_ins B) -> k < length p.
Proof.
  intros HB Hk. destruct (build_blocks_spec p bs Hbs) as (rbs & nexts & Hc & _ & _ & _ & Hspec).
  destruct (Hspec n B HB) as (rb & nx & Hrb & _ & _ & E). subst B. cbn [b_ins] in Hk.
  assert (Hin : In k (concat (map rb_ins rbs))).
  { apply in_concat. exists (rb_ins rb). split; [apply in_map; eapply nth_error_In; eauto | assumption]. }
  rewrite (blocks_partition p rbs Hc Hp_ne) in Hin. apply in_seq in Hin. lia.
Qed.

Lemma bins_lt n k : In k (bins n) -> k < length p.
Proof. unfold bins. destruct (nth_error bs n) as [B|] eqn:E; [|intros []]. apply (pos_lt n B k E). Qed.

Lemma item_body_spec txt ois k : k < length p ->
  item_body attrs (txt, ois) k = Some (String.append txt (text_of (ilines k)), ois ++ [k]).
Proof.
  intros Hk. destruct (attrs_nth k Hk) as (i & src & cm & _ & Ha & _).
  unfold item_body, oi_comments_before_ins, oi_source_code, ilines. rewrite Ha. cbn [fst snd option_map bind]. unfold ret. cbn [bind].
  f_equal. f_equal. f_equal. rewrite text_of_app, <- join_text. cbn [text_of fold_right].
  rewrite append_nil_r, !ParseLemmas.sapp_assoc. reflexivity.
Qed.

Lemma items_fold : forall ks txt ois, (forall k, In k ks -> k < length p) ->
  foldM (item_body attrs) ks (txt, ois) = Some (String.append txt (text_of (flat_map ilines ks)), ois ++ ks).
Proof.
  induction ks as [|k ks IH]; intros txt ois H.
  - cbn [foldM flat_map text_of fold_right]. rewrite append_nil_r, app_nil_r. reflexivity.
  - cbn [foldM]. rewrite (item_body_spec txt ois k (H k (or_introl eq_refl))). cbn [bind].
    rewrite IH by (intros k' Hk'; apply H; right; assumption).
    cbn [flat_map]. rewrite text_of_app, ParseLemmas.sapp_assoc, <- app_assoc. reflexivity.
Qed.

Lemma block_body_spec txt ois obs n : In n M ->
  block_body t attrs (txt, ois, obs) n = Some (String.append txt (text_of (blines n)), ois ++ bins n, obs ++ [n]).
Proof.
  intros Hn. destruct (ob_ins_main n Hn) as (B & HB & Hob). unfold block_body. rewrite Hob. cbn [fst snd bind].
  rewrite fold_left_bind, items_fold by (intros k Hk; exact (pos_lt n B k HB Hk)). cbn [bind fst snd ret].
  unfold blines, bins. rewrite HB, text_of_app. cbn [text_of fold_right]. rewrite append_nil_r, ParseLemmas.sapp_assoc. reflexivity.
Qed.

Lemma blocks_fold : forall ns txt ois obs, (forall n, In n ns -> In n M) ->
  foldM (block_body t attrs) ns (txt, ois, obs) =
  Some (String.append txt (text_of (flat_map blines ns)), ois ++ flat_map bins ns, obs ++ ns).
Proof.
  induction ns as [|n ns IH]; intros txt ois obs H.
  - cbn [foldM flat_map text_of fold_right]. rewrite append_nil_r, !app_nil_r. reflexivity.
  - cbn [foldM]. rewrite (block_body_spec txt ois obs n (H n (or_introl eq_refl))). cbn [bind].
    rewrite IH by (intros n' Hn'; apply H; right; assumption).
    cbn [flat_map]. rewrite text_of_app, ParseLemmas.sapp_assoc, <- !app_assoc. reflexivity.
Qed.

Definition lines0 : list string := flat_map blines Sx.

Lemma first_loop :
  fold_left (fun acc bi => bind acc (fun st => block_body t attrs st bi)) Sx (ret (EmptyString, [], [])) =
  Some (text_of lines0, K, Sx).
Proof.
  rewrite fold_left_bind, blocks_fold by (intros n Hn; apply Sx_In; assumption). reflexivity.
Qed.

(* ---------------------------------------------------------------- C. the text splits into its lines again *)
Lemma ilines_ok k : k < length p -> Forall (fun l => line_ok l = true) (ilines k).
Proof.
  intros Hk. destruct (attrs_nth k Hk) as (i & src & cm & _ & Ha & (Hs & _ & _ & Hc)). unfold ilines. rewrite Ha.
  cbn [fst snd] in *. apply Forall_app. split; [|constructor; [assumption | constructor]].
  destruct cm as [|c cm]; [constructor; [reflexivity | constructor]|].
  eapply Forall_impl; [|exact Hc]. intros a [H _]. exact H.
Qed.

Lemma lines0_ok : Forall (fun l => line_ok l = true) lines0.
Proof.
  unfold lines0. apply Forall_forall. intros l Hl. apply in_flat_map in Hl. destruct Hl as (n & Hn & Hl).
  unfold blines in Hl. apply in_app_or in Hl. destruct Hl as [Hl|[<-|[]]]; [|reflexivity].
  apply in_flat_map in Hl. destruct Hl as (k & Hk & Hl).
  pose proof (ilines_ok k (bins_lt n k Hk)) as H. rewrite Forall_forall in H. apply H. assumption.
Qed.

Lemma split_lines0 : str_splitlines (text_of lines0) = lines0.
Proof. apply splitlines_text. exact lines0_ok. Qed.

(* ---------------------------------------------------------------- D. the lines parse to the main instructions *)
Lemma parse_blank : LineGen.parse_line_top EmptyString = Some None.
Proof. vm_compute. reflexivity. Qed.
Lemma comment_blank : is_comment_line EmptyString = false.
Proof. reflexivity. Qed.

Lemma fpl_app : forall a b n,
  first_pass_lines (a ++ b) n =
  bind (first_pass_lines a n) (fun ra => bind (first_pass_lines b (n + length a)) (fun rb => ret (ra ++ rb))).
Proof.
  induction a as [|l a IH]; intros b n.
  - cbn [app first_pass_lines length bind ret]. rewrite Nat.add_0_r. destruct (first_pass_lines b n); reflexivity.
  - cbn [app first_pass_lines length]. replace (n + S (length a)) with (S n + length a) by lia.
    destruct (LineGen.str_startswith (LineGen.str_strip l) "//"); [apply IH|].
    destruct (LineGen.parse_line_top l) as [oi|]; [|reflexivity]. cbn [bind]. rewrite IH.
    destruct (first_pass_lines a (S n)) as [ra|]; [|reflexivity]. cbn [bind].
    destruct (first_pass_lines b (S n + length a)) as [rb|]; [|reflexivity]. cbn [bind ret].
    destruct oi; reflexivity.
Qed.

Lemma fpl_skip : forall ls n,
  Forall (fun l => is_comment_line l = true \/ l = EmptyString) ls -> first_pass_lines ls n = Some [].
Proof.
  induction ls as [|l ls IH]; intros n H; [reflexivity|]. inversion H as [|? ? Hl Hr]; subst.
  cbn [first_pass_lines]. destruct Hl as [Hl| ->].
  - unfold is_comment_line in Hl. rewrite Hl. apply IH. assumption.
  - change (LineGen.str_startswith (LineGen.str_strip EmptyString) "//") with false. cbv iota.
    rewrite parse_blank. cbn [bind]. rewrite (IH (S n) Hr). reflexivity.
Qed.

Lemma fpl_item k n : k < length p ->
  exists c, first_pass_lines (ilines k) n = Some [c] /\ op_at p k = Some (i_op c).
Proof.
  intros Hk. destruct (attrs_nth k Hk) as (i & src & cm & Hi & Ha & (_ & Hnc & Hpl & Hc)). unfold ilines. rewrite Ha.
  cbn [fst snd] in *. rewrite fpl_app, fpl_skip.
  - cbn [bind first_pass_lines]. unfold is_comment_line in Hnc. rewrite Hnc, Hpl. cbn [bind ret app].
    eexists. split; [reflexivity|]. unfold op_at. rewrite Hi. reflexivity.
  - destruct cm as [|c cm]; [constructor; [right; reflexivity | constructor]|].
    eapply Forall_impl; [|exact Hc]. intros a [_ H]. left. exact H.
Qed.

Lemma fpl_items : forall ks n, (forall k, In k ks -> k < length p) ->
  exists pc, first_pass_lines (flat_map ilines ks) n = Some pc /\ copy_of p ks pc.
Proof.
  induction ks as [|k ks IH]; intros n H.
  - exists []. split; [reflexivity | constructor].
  - cbn [flat_map]. rewrite fpl_app. destruct (fpl_item k n (H k (or_introl eq_refl))) as (c & Ec & Hop). rewrite Ec.
    cbn [bind]. destruct (IH (n + length (ilines k)) (fun k' Hk' => H k' (or_intror Hk'))) as (pc & Epc & Hcp). rewrite Epc.
    cbn [bind ret app]. exists (c :: pc). split; [reflexivity|]. constructor; assumption.
Qed.

Lemma fpl_block b n : exists pc, first_pass_lines (blines b) n = Some pc /\ copy_of p (bins b) pc.
Proof.
  unfold blines. rewrite fpl_app. destruct (fpl_items (bins b) n (bins_lt b)) as (pc1 & E1 & H1). rewrite E1. cbn [bind].
  rewrite (fpl_skip [EmptyString]) by (constructor; [right; reflexivity | constructor]). cbn [bind ret].
  rewrite app_nil_r. exists pc1. split; [reflexivity | assumption].
Qed.

Lemma fpl_blocks : forall ns n,
  exists pc, first_pass_lines (flat_map blines ns) n = Some pc /\ copy_of p (flat_map bins ns) pc.
Proof.
  induction ns as [|b ns IH]; intros n.
  - exists []. split; [reflexivity | constructor].
  - cbn [flat_map]. rewrite fpl_app. destruct (fpl_block b n) as (pc1 & E1 & H1). rewrite E1. cbn [bind].
    destruct (IH (n + length (blines b))) as (pc2 & E2 & H2).
    rewrite E2. cbn [bind]. exists (pc1 ++ pc2). split; [reflexivity|]. apply Forall2_app; assumption.
Qed.

Lemma parsed_copy : exists pc, first_pass_lines lines0 1 = Some pc /\ copy_of p K pc.
Proof. exact (fpl_blocks Sx 1). Qed.

(* ---------------------------------------------------------------- E. the four passes on the copy *)
Definition cbs : list block := sel_blocks bs M.

Lemma copy_blocks pc : copy_of p K pc -> build_blocks pc = Some cbs.
Proof. intros H. exact (sub_program_blocks p bs M pc Hbs M_closed M_nonempty H). Qed.

Lemma four_passes pc : first_pass_lines lines0 1 = Some pc -> copy_of p K pc ->
  exists L Sd ih1 ih2 ih3 bh,
    call_first_pass ch_empty lines0 [] [] [] = Some (L, Sd, seq 0 (length pc), mkCH pc ih1 [] [] []) /\
    call_second_pass (mkCH pc ih1 [] [] []) (seq 0 (length pc)) L = Some (mkCH pc ih2 [] [] []) /\
    call_create_bb (mkCH pc ih2 [] [] []) (seq 0 (length pc)) [] = Some (seq 0 (length cbs), mkCH pc ih3 bh [] []) /\
    call_fourth_pass (mkCH pc ih3 bh [] []) (seq 0 (length cbs)) = Some (mkCH pc ih3 cbs [] []).
Proof.
  intros Hfpl Hcopy. pose proof (copy_blocks pc Hcopy) as Hbb. pose proof Hbb as Hbg. rewrite <- build_gen_eq in Hbg.
  unfold build_gen, passes_gen in Hbg.
  destruct (first_pass_gen_spec pc) as (L & Sd & ih1 & E1 & _). rewrite E1 in Hbg. cbn [bind fst snd] in Hbg.
  pose proof (passes_gen_spec pc) as Hps. unfold passes_gen in Hps. rewrite E1 in Hps. cbn [bind fst snd] in Hps.
  destruct (second_pass_gen pc (seq 0 (length pc)) L ih1) as [ih2|] eqn:E2; [|discriminate].
  cbn [bind] in Hbg. destruct Hps as (_ & _ & Hnext).
  rewrite (create_bb_gen_eq pc ih2 Hnext) in Hbg.
  destruct (build_blocks_spec pc cbs Hbb) as (rbs' & nexts & Hc' & _ & _ & Hlen & _).
  rewrite Hc' in Hbg. cbn [option_map bind fst snd] in Hbg.
  exists L, Sd, ih1, ih2, (bb_assign rbs' ih2), (raw_heap rbs').
  split; [|split; [|split]].
  - unfold call_first_pass, ch_empty. cbn [ch_prog]. rewrite Hfpl. cbn [bind]. rewrite E1. reflexivity.
  - unfold call_second_pass. cbn [ch_prog ch_iheap ch_bheap ch_csub ch_idx]. rewrite E2. reflexivity.
  - unfold call_create_bb. cbn [ch_prog ch_iheap ch_bheap ch_csub ch_idx].
    rewrite (create_bb_gen_eq pc ih2 Hnext), Hc'. cbn [option_map bind fst snd ret]. rewrite Hlen. reflexivity.
  - unfold call_fourth_pass. cbn [ch_prog ch_iheap ch_bheap ch_csub ch_idx]. rewrite Hlen, Hbg. reflexivity.
Qed.

(* ---------------------------------------------------------------- F. line numbers and callsub targets *)
Definition dI : ins := mkIns 0 IErr.
Definition pm : prog := map (fun k => nth k p dI) K.

Lemma find_sub_exists l s : In s (t_subs t) -> s_name s = l -> exists s', find_sub t l = Some s'.
Proof.
  intros Hin Hn. unfold find_sub. destruct (find (fun s0 => String.eqb (s_name s0) l) (t_subs t)) as [s'|] eqn:E; [eauto|].
  exfalso. pose proof (find_none _ _ E s Hin) as H. cbn in H. rewrite Hn, String.eqb_refl in H. discriminate.
Qed.

Lemma callsub_sub k l : op_at p k = Some (ICallsub l) -> exists s, find_sub t l = Some s.
Proof.
  intros H. destruct (subs_are_callsub_targets p t Hparse) as (Hn & _).
  destruct (proj2 (Hn l) (ex_intro _ k H)) as (s & Hin & Hname). exact (find_sub_exists l s Hin Hname).
Qed.

Lemma ins_eta (o : ins) : mkIns (i_line o) (i_op o) = o.
Proof. destruct o; reflexivity. Qed.

Lemma transfer_step pre c rest ih bh cs idx k o :
  nth_error p k = Some o -> i_op c = i_op o ->
  transfer_body t (mkCH (pre ++ c :: rest) ih bh cs idx) (length pre, k) =
  Some (mkCH (pre ++ o :: rest) ih bh
             (match i_op o with ICallsub l => stab_set cs (length pre) (TealSub l) | _ => cs end) idx).
Proof.
  intros Ho Hop. unfold transfer_body. cbn [fst snd]. unfold oi_line. rewrite Hprog, Ho. cbn [option_map bind].
  unfold set_ci_line. cbn [ch_prog ch_iheap ch_bheap ch_csub ch_idx].
  rewrite (upd_nth_mid pre c rest _ (mkIns (i_line o) (i_op c))) by reflexivity. cbn [bind ret].
  rewrite Hop, ins_eta. unfold ci_class, op_at at 1. cbn [ch_prog]. rewrite nth_error_app_mid. cbn [option_map bind ret].
  destruct (i_op o) eqn:Eo; try reflexivity.
  cbn [ifE]. unfold oi_class, op_at. rewrite Hprog, Ho. cbn [option_map bind ret]. rewrite Eo. cbn [assertC].
  unfold oi_called_subroutine, op_at. rewrite Hprog, Ho. cbn [option_map bind]. rewrite Eo.
  destruct (callsub_sub k l) as (s & Es); [unfold op_at; rewrite Ho; cbn [option_map]; rewrite Eo; reflexivity|].
  rewrite Es. cbn [bind ret]. unfold set_ci_called_subroutine. cbn [ch_prog ch_iheap ch_bheap ch_csub ch_idx].
  rewrite nth_error_app_mid. reflexivity.
Qed.

Lemma transfer_fold ih bh : forall ks rest pre cs0,
  copy_of p ks rest ->
  exists cs,
    foldM (transfer_body t) (combine (seq (length pre) (length rest)) ks) (mkCH (pre ++ rest) ih bh cs0 []) =
      Some (mkCH (pre ++ map (fun k => nth k p dI) ks) ih bh cs []) /\
    (forall j, j < length pre -> stab_get cs j = stab_get cs0 j) /\
    (forall i k l, nth_error ks i = Some k -> op_at p k = Some (ICallsub l) -> stab_get cs (length pre + i) = Some (TealSub l)).
Proof.
  induction ks as [|k ks IH]; intros rest pre cs0 Hcp.
  - inversion Hcp; subst. exists cs0. cbn [length seq combine foldM map]. split; [reflexivity|]. split; [reflexivity|].
    intros [|i] k l H; discriminate.
  - inversion Hcp as [|c ? rest' ? Hc Hcp']; subst. cbn [length seq combine foldM].
    unfold op_at in Hc. destruct (nth_error p k) as [o|] eqn:Eo; [|discriminate]. cbn [option_map] in Hc.
    inversion Hc as [Hop].
    rewrite (transfer_step pre c rest' ih bh cs0 [] k o Eo (eq_sym Hop)). cbn [bind].
    set (cs1 := match i_op o with ICallsub l => stab_set cs0 (length pre) (TealSub l) | _ => cs0 end).
    specialize (IH rest' (pre ++ [o]) cs1 Hcp'). rewrite app_length in IH. cbn [length] in IH.
    rewrite Nat.add_1_r, <- !app_assoc in IH. cbn [app] in IH.
    destruct IH as (cs & E & H1 & H2). exists cs. cbn [map]. rewrite (nth_error_nth p k dI Eo). split; [exact E|]. split.
    + intros j Hj. rewrite (H1 j) by lia. unfold cs1. destruct (i_op o); try reflexivity.
      rewrite stab_get_set. destruct (Nat.eqb (length pre) j) eqn:En; [apply Nat.eqb_eq in En; lia | reflexivity].
    + intros [|i] k' l Hi Hk'.
      * cbn [nth_error] in Hi. inversion Hi; subst k'. rewrite Nat.add_0_r, (H1 (length pre)) by lia.
        unfold op_at in Hk'. rewrite Eo in Hk'. cbn [option_map] in Hk'. inversion Hk' as [Ek]. unfold cs1. rewrite Ek.
        rewrite stab_get_set, Nat.eqb_refl. reflexivity.
      * cbn [nth_error] in Hi. replace (length pre + S i) with (S (length pre) + i) by lia. exact (H2 i k' l Hi Hk').
Qed.

Lemma K_bound k : In k K -> k < length p.
Proof.
  intros H. destruct (build_blocks_spec p bs Hbs) as (rbs & _ & Hc & _). exact (K_lt p rbs bs M Hc Hbs k H).
Qed.

Lemma pm_nth j k : nth_error K j = Some k -> nth_error pm j = nth_error p k.
Proof.
  intros H. unfold pm. rewrite nth_error_map, H. cbn [option_map].
  assert (Hk : k < length p) by (apply K_bound; eapply nth_error_In; eauto).
  destruct (nth_error p k) as [o|] eqn:Eo; [|apply nth_error_None in Eo; lia]. rewrite (nth_error_nth p k dI Eo). reflexivity.
Qed.

(* ---------------------------------------------------------------- the copy, once parsed *)
Section WithCopy.
Variable pc : prog.
Hypothesis Hfpl : first_pass_lines lines0 1 = Some pc.
Hypothesis Hcopy : copy_of p K pc.

Lemma Hbb : build_blocks pc = Some cbs.
Proof. exact (copy_blocks pc Hcopy). Qed.

Lemma len_pc_K : length pc = length K.
Proof. exact (Forall2_len _ _ _ Hcopy). Qed.

Lemma len_pm : length pm = length K.
Proof. unfold pm. apply map_length. Qed.

Lemma K_sorted' : StronglySorted lt K.
Proof. destruct (build_blocks_spec p bs Hbs) as (rbs & _ & Hc & _). exact (K_sorted p rbs bs M Hc Hbs). Qed.

Lemma cbs_eq : cbs = map (fun n => sel_block bs M (nth n bs dB)) Sx.
Proof.
  unfold cbs, sel_blocks. fold Sx.
  assert (G : forall l, (forall n, In n l -> n < length bs) ->
    flat_map (fun n => match nth_error bs n with Some B => [sel_block bs M B] | None => [] end) l =
    map (fun n => sel_block bs M (nth n bs dB)) l).
  { induction l as [|n l IH]; intros H; [reflexivity|]. cbn [flat_map map].
    destruct (nth_error bs n) as [B|] eqn:E; [|apply nth_error_None in E; pose proof (H n (or_introl eq_refl)); lia].
    rewrite (nth_error_nth bs n dB E), IH; [reflexivity|]. intros x Hx. apply H. right. assumption. }
  apply G. intros n Hn. apply M_lt, Sx_In. assumption.
Qed.

Lemma len_cbs : length cbs = length Sx.
Proof. rewrite cbs_eq. apply map_length. Qed.

(* the instruction lists of the copy's blocks partition 0 .. m-1 and none is empty *)
Lemma cbs_partition : concat (map b_ins cbs) = seq 0 (length pc) /\ (forall c, In c cbs -> b_ins c <> []).
Proof.
  destruct (build_blocks_spec pc cbs Hbb) as (rbs' & nexts & Hc' & _ & _ & Hlen & Hspec).
  assert (Hne : pc <> []) by (intros E; pose proof Hbb as H0; rewrite E, build_blocks_nil in H0; discriminate).
  assert (Em : map b_ins cbs = map rb_ins rbs').
  { apply CopyCore.nth_error_ext. intros j. rewrite !nth_error_map.
    destruct (nth_error cbs j) as [c|] eqn:Ec.
    - destruct (Hspec j c Ec) as (rb & nx & Hrb & _ & _ & E). rewrite Hrb. subst c. reflexivity.
    - apply nth_error_None in Ec. rewrite Hlen in Ec. apply nth_error_None in Ec. rewrite Ec. reflexivity. }
  split.
  - rewrite Em. apply (blocks_partition pc rbs' Hc' Hne).
  - intros c Hc. apply In_nth_error in Hc. destruct Hc as (j & Hj).
    destruct (Hspec j c Hj) as (rb & nx & Hrb & _ & _ & E). subst c. cbn [b_ins].
    apply (blocks_nonempty pc rbs' Hc' Hne rb). eapply nth_error_In; eauto.
Qed.

(* ---------------------------------------------------------------- G. sorting the blocks by entry line changes nothing *)
Lemma concat_hd_sorted : forall ls : list (list nat),
  StronglySorted lt (concat ls) -> (forall l, In l ls -> l <> []) -> StronglySorted lt (map (hd 0) ls).
Proof.
  induction ls as [|l ls IH]; intros Hs Hne; [constructor|]. cbn [concat map] in *.
  destruct (ssorted_app_inv _ _ Hs) as (_ & H2 & H3). constructor.
  - apply IH; [assumption|]. intros l' Hl'. apply Hne. right. assumption.
  - apply Forall_forall. intros y Hy. apply in_map_iff in Hy. destruct Hy as (l' & <- & Hl').
    assert (Hl : l <> []) by (apply Hne; left; reflexivity). assert (Hl'' : l' <> []) by (apply Hne; right; assumption).
    apply H3.
    + destruct l; [congruence | left; reflexivity].
    + apply in_concat. exists l'. split; [assumption|]. destruct l'; [congruence | left; reflexivity].
Qed.

Lemma ssorted_map_mono (f : nat -> nat) : forall l,
  StronglySorted lt l -> (forall x y, In x l -> In y l -> x < y -> f x < f y) -> StronglySorted lt (map f l).
Proof.
  induction l as [|a l IH]; intros Hs Hf; [constructor|]. inversion Hs as [|? ? Hs' Hfa]; subst. cbn [map]. constructor.
  - apply IH; [assumption|]. intros x y Hx Hy. apply Hf; right; assumption.
  - apply Forall_forall. intros y Hy. apply in_map_iff in Hy. destruct Hy as (x & <- & Hx).
    rewrite Forall_forall in Hfa. apply Hf; [left; reflexivity | right; assumption | apply Hfa; assumption].
Qed.

Definition pline (j : nat) : nat := i_line (nth j pm dI).

Lemma pline_mono x y : x < y -> y < length K -> pline x < pline y.
Proof.
  intros Hxy Hy. unfold pline.
  destruct (nth_error K x) as [kx|] eqn:Ex; [|apply nth_error_None in Ex; lia].
  destruct (nth_error K y) as [ky|] eqn:Ey; [|apply nth_error_None in Ey; lia].
  pose proof (ssorted_nth K x y kx ky K_sorted' Hxy Ex Ey) as Hk.
  pose proof (K_bound ky (nth_error_In _ _ Ey)) as Hky.
  pose proof (pm_nth x kx Ex) as Px. pose proof (pm_nth y ky Ey) as Py.
  destruct (nth_error p kx) as [ox|] eqn:Eox; [|apply nth_error_None in Eox; lia].
  destruct (nth_error p ky) as [oy|] eqn:Eoy; [|apply nth_error_None in Eoy; lia].
  rewrite (nth_error_nth pm x dI Px), (nth_error_nth pm y dI Py).
  apply (ssorted_nth (map i_line p) kx ky (i_line ox) (i_line oy) Hlines Hk); rewrite nth_error_map.
  - rewrite Eox. reflexivity.
  - rewrite Eoy. reflexivity.
Qed.

Lemma sort_blocks ih cs :
  sorted_by_key (fun bi => bind (cb_entry_instr (mkCH pm ih cbs cs []) bi) (fun tmp21 => ci_line (mkCH pm ih cbs cs []) tmp21))
                (seq 0 (length cbs)) = Some (seq 0 (length cbs)).
Proof.
  destruct cbs_partition as (Hpart & Hne).
  apply (sorted_by_key_sorted _ _ (map pline (map (hd 0) (map b_ins cbs)))).
  - rewrite <- (map_id (map pline (map (hd 0) (map b_ins cbs)))).
    assert (E : map pline (map (hd 0) (map b_ins cbs)) = map (fun a => pline (hd 0 (b_ins (nth a cbs dB)))) (seq 0 (length cbs))).
    { rewrite !map_map. apply CopyCore.nth_error_ext. intros j. rewrite !nth_error_map, nth_error_seq'.
      destruct (nth_error cbs j) as [c|] eqn:Ec.
      - assert (Hj : j < length cbs) by (apply nth_error_Some; congruence). apply Nat.ltb_lt in Hj. rewrite Hj.
        cbn [option_map plus]. rewrite (nth_error_nth cbs j dB Ec). reflexivity.
      - apply nth_error_None in Ec. destruct (Nat.ltb j (length cbs)) eqn:Hj; [apply Nat.ltb_lt in Hj; lia | reflexivity]. }
    rewrite map_id, E. apply map_opt_all. intros a Ha. apply in_seq in Ha.
    destruct (nth_error cbs a) as [c|] eqn:Ec; [|apply nth_error_None in Ec; lia].
    unfold cb_entry_instr, ci_line. cbn [ch_bheap ch_prog]. rewrite Ec. cbn [bind]. rewrite (nth_error_nth cbs a dB Ec).
    pose proof (Hne c (nth_error_In _ _ Ec)) as Hc. destruct (b_ins c) as [|e l] eqn:Ei; [congruence|]. cbn [nth_error bind hd].
    assert (He : e < length pm).
    { rewrite len_pm, <- len_pc_K. assert (Hin : In e (concat (map b_ins cbs))).
      { apply in_concat. exists (b_ins c). split; [apply in_map; eapply nth_error_In; eauto | rewrite Ei; left; reflexivity]. }
      rewrite Hpart in Hin. apply in_seq in Hin. lia. }
    destruct (nth_error pm e) as [o|] eqn:Eo; [|apply nth_error_None in Eo; lia].
    cbn [option_map]. unfold pline. rewrite (nth_error_nth pm e dI Eo). reflexivity.
  - apply ssorted_map_mono.
    + apply concat_hd_sorted.
      * rewrite Hpart. apply ssorted_seq.
      * intros l Hl. apply in_map_iff in Hl. destruct Hl as (c & <- & Hc). apply Hne. assumption.
    + intros x y Hx Hy Hxy. apply pline_mono; [assumption|].
      apply in_map_iff in Hy. destruct Hy as (l & <- & Hl). apply in_map_iff in Hl. destruct Hl as (c & <- & Hc).
      rewrite <- len_pc_K. assert (Hin : In (hd 0 (b_ins c)) (concat (map b_ins cbs))).
      { apply in_concat. exists (b_ins c). split; [apply in_map; assumption|].
        pose proof (Hne c Hc). destruct (b_ins c); [congruence | left; reflexivity]. }
      rewrite Hpart in Hin. apply in_seq in Hin. lia.
Qed.

(* ---------------------------------------------------------------- H. the block ids *)
Lemma idx_fold pr ih bh cs : forall ns a idx0,
  (forall n, In n ns -> In n M) -> a + length ns <= length bh ->
  exists idx1,
    foldM (idx_body t) (combine (seq a (length ns)) ns) (mkCH pr ih bh cs idx0) = Some (mkCH pr ih bh cs idx1) /\
    (forall j, j < a -> tab_get idx1 j = tab_get idx0 j) /\
    (forall i n, nth_error ns i = Some n -> tab_get idx1 (a + i) = Some n).
Proof.
  induction ns as [|n ns IH]; intros a idx0 HM Hlen.
  - exists idx0. split; [reflexivity|]. split; [reflexivity|]. intros [|i] n H; discriminate.
  - cbn [length seq combine foldM]. unfold idx_body at 1. cbn [fst snd].
    rewrite (ob_idx_main n (HM n (or_introl eq_refl))). cbn [bind]. unfold set_cb_idx. cbn [ch_prog ch_iheap ch_bheap ch_csub ch_idx].
    cbn [length] in Hlen.
    destruct (nth_error bh a) as [c|] eqn:Ec; [|apply nth_error_None in Ec; lia]. cbn [bind ret].
    destruct (IH (S a) (tab_set idx0 a n)) as (idx1 & E & H1 & H2); [intros x Hx; apply HM; right; assumption | lia|].
    exists idx1. split; [exact E|]. split.
    + intros j Hj. rewrite (H1 j) by lia. rewrite tab_get_set.
      destruct (Nat.eqb a j) eqn:En; [apply Nat.eqb_eq in En; lia | reflexivity].
    + intros [|i] n' Hi; cbn [nth_error] in Hi.
      * inversion Hi; subst n'. rewrite Nat.add_0_r, (H1 a) by lia. rewrite tab_get_set, Nat.eqb_refl. reflexivity.
      * replace (a + S i) with (S a + i) by lia. exact (H2 i n' Hi).
Qed.

(* ---------------------------------------------------------------- I. the result read as a function state *)
Definition cell (n : nat) : block :=
  let B := nth n bs dB in mkBlock n (b_ins B) (b_next B) (filter (fun m => nat_mem m M) (b_prev B)).

Lemma copy_positions_eq : copy_positions t = Some K.
Proof.
  unfold copy_positions. change (sorted_by_key (ob_idx t)) with (sorted_by_key (fun bi => ob_idx t bi)). fold M.
  rewrite sorted_main. cbn [bind]. rewrite (map_opt_all (ob_instructions t) bins Sx).
  - cbn [bind ret]. rewrite <- flat_map_concat_map. reflexivity.
  - intros n Hn. destruct (ob_ins_main n (proj1 (Sx_In n) Hn)) as (B & HB & E). rewrite E. unfold bins. rewrite HB. reflexivity.
Qed.

Lemma in_combine_seq {A} : forall (l : list A) a j x, In (j, x) (combine (seq a (length l)) l) -> a <= j /\ nth_error l (j - a) = Some x.
Proof.
  induction l as [|y l IH]; intros a j x H; [destruct H|]. cbn [length seq combine] in H. destruct H as [H|H].
  - inversion H; subst. rewrite Nat.sub_diag. split; [lia | reflexivity].
  - destruct (IH (S a) j x H) as [Hle Hn]. split; [lia|]. replace (j - a) with (S (j - S a)) by lia. exact Hn.
Qed.

Lemma map_nth_seq {A} (l : list A) (f : nat -> A) : (forall a x, nth_error l a = Some x -> f a = x) -> map f (seq 0 (length l)) = l.
Proof.
  intros H. apply CopyCore.nth_error_ext. intros j. rewrite nth_error_map, nth_error_seq'.
  destruct (nth_error l j) as [x|] eqn:E.
  - assert (Hj : j < length l) by (apply nth_error_Some; congruence). apply Nat.ltb_lt in Hj. rewrite Hj. cbn [option_map plus].
    rewrite (H j x E). reflexivity.
  - apply nth_error_None in E. destruct (Nat.ltb j (length l)) eqn:Hj; [apply Nat.ltb_lt in Hj; lia | reflexivity].
Qed.

Lemma len_Sx : length Sx = length M.
Proof.
  apply Nat.le_antisymm.
  - apply NoDup_incl_length; [apply sel_NoDup|]. intros x Hx. apply Sx_In. assumption.
  - apply NoDup_incl_length; [exact M_nodup|]. intros x Hx. apply Sx_In. assumption.
Qed.

Lemma find_cell : forall l n, In n l -> find (fun c => Nat.eqb (b_idx c) n) (map cell l) = Some (cell n).
Proof.
  induction l as [|x l IH]; intros n Hn; [destruct Hn|]. cbn [map find]. cbn [cell b_idx].
  destruct (Nat.eqb x n) eqn:E; [apply Nat.eqb_eq in E; subst; reflexivity|].
  destruct Hn as [->|Hn]; [rewrite Nat.eqb_refl in E; discriminate | apply IH; assumption].
Qed.

Lemma block_main n : In n M -> exists B, nth_error bs n = Some B /\ nth n bs dB = B /\ b_idx B = n /\
  (forall x, In x (b_ins B) -> In x K) /\ (forall m, In m (b_next B) -> In m M).
Proof.
  intros Hn. destruct (main_cell n Hn) as (B & HB & Hi & _). exists B. split; [assumption|].
  split; [apply (nth_error_nth bs n dB HB)|]. split; [assumption|]. split.
  - intros x Hx. unfold K, sel_pos. apply in_flat_map. exists n. split; [apply Sx_In; assumption | rewrite HB; assumption].
  - intros m Hm. apply (M_closed n m Hn (M_lt n Hn)). unfold next_of, get_block. rewrite HB. assumption.
Qed.

Lemma copy_state_eq ih cs idx1 :
  (forall i k l, nth_error K i = Some k -> op_at p k = Some (ICallsub l) -> stab_get cs i = Some (TealSub l)) ->
  (forall i n, nth_error Sx i = Some n -> tab_get idx1 i = Some n) ->
  copy_state t (seq 0 (length cbs), mkCH pm ih cbs cs idx1) =
  Some (Sx, mkFH (map cell M) p (S (max_idx (t_blocks t))) [] []).
Proof.
  intros Pcs Pidx. unfold copy_state. cbn [fst snd]. rewrite copy_positions_eq. cbn [bind].
  set (h := mkCH pm ih cbs cs idx1).
  assert (Hname : forall m, In m Sx -> cb_name h (index_of m Sx) = m).
  { intros m Hm. unfold cb_name, h. cbn [ch_idx]. rewrite (Pidx _ m (index_of_nth_error m Sx Hm)). reflexivity. }
  assert (Hnames : map (cb_name h) (seq 0 (length cbs)) = Sx).
  { rewrite len_cbs. apply map_nth_seq. intros a x Ha. unfold cb_name, h. cbn [ch_idx]. rewrite (Pidx a x Ha). reflexivity. }
  rewrite Hnames. cbn [ch_prog h]. rewrite len_pm, Nat.eqb_refl. cbn [negb].
  rewrite (nodup_nat_true K (ssorted_NoDup K K_sorted')). cbn [negb].
  assert (Hok : forallb (fun jk => copy_ins_ok t h (fst jk) (snd jk)) (combine (seq 0 (length K)) K) = true).
  { apply forallb_forall. intros [j k] Hjk. apply in_combine_seq in Hjk. destruct Hjk as [_ Hj]. rewrite Nat.sub_0_r in Hj.
    cbn [fst snd]. unfold copy_ins_ok, h. cbn [ch_prog ch_csub]. rewrite (pm_nth j k Hj), Hprog.
    pose proof (K_bound k (nth_error_In _ _ Hj)) as Hk.
    destruct (nth_error p k) as [o|] eqn:Eo; [|apply nth_error_None in Eo; lia].
    rewrite Nat.eqb_refl. destruct (instr_eq_dec (i_op o) (i_op o)) as [_|Hne]; [|congruence]. cbn [andb].
    destruct (i_op o) eqn:Eop; try reflexivity.
    assert (Hop : op_at p k = Some (ICallsub l)) by (unfold op_at; rewrite Eo; cbn [option_map]; rewrite Eop; reflexivity).
    rewrite (Pcs j k l Hj Hop). destruct (callsub_sub k l Hop) as (s & Es). rewrite Es. apply String.eqb_refl. }
  rewrite Hok. cbn [negb]. rewrite (nodup_nat_true Sx (sel_NoDup _ _)). cbn [negb ch_bheap].
  rewrite seq_length, Nat.eqb_refl. cbn [negb].
  rewrite (map_opt_all _ (fun a => cell (nth a Sx 0)) (seq 0 (length cbs))).
  2:{ intros a Ha. apply in_seq in Ha. rewrite len_cbs in Ha.
    destruct (nth_error Sx a) as [n|] eqn:En; [|apply nth_error_None in En; lia].
    assert (Hn : In n M) by (apply Sx_In; eapply nth_error_In; eauto).
    destruct (block_main n Hn) as (B & HB & EB & Hi & Hins & Hnx).
    assert (Ec : nth_error cbs a = Some (sel_block bs M B)).
    { rewrite cbs_eq, nth_error_map, En. cbn [option_map]. rewrite EB. reflexivity. }
    change (ch_bheap h) with cbs. rewrite Ec. cbn [bind]. unfold sel_block. cbn [b_ins b_next b_prev b_idx]. fold Sx. fold K.
    rewrite (map_opt_all _ (fun j => nth j K 0) (map (fun k => index_of k K) (b_ins B))).
    - cbn [bind ret]. rewrite (nth_error_nth Sx a 0 En). unfold cell. rewrite EB.
      assert (Ea : cb_name h a = n) by (rewrite <- (nth_error_index_of Sx a n (sel_NoDup _ _) En); apply Hname; eapply nth_error_In; eauto).
      rewrite Ea. unfold ret. f_equal. f_equal.
      + rewrite map_map. rewrite <- (map_id (b_ins B)) at 2. apply map_ext_in. intros x Hx.
        apply (nth_error_nth K _ 0). apply index_of_nth_error. apply Hins. assumption.
      + rewrite map_map. rewrite <- (map_id (b_next B)) at 2. apply map_ext_in. intros m Hm. apply Hname, Sx_In, Hnx. assumption.
      + rewrite map_map. rewrite <- (map_id (filter _ (b_prev B))) at 2. apply map_ext_in. intros m Hm.
        apply filter_In in Hm. destruct Hm as [_ Hm]. apply nat_mem_In in Hm. apply Hname, Sx_In. assumption.
    - intros j Hj. apply in_map_iff in Hj. destruct Hj as (x & <- & Hx).
      pose proof (index_of_nth_error x K (Hins x Hx)) as E. rewrite E. f_equal. symmetry. apply (nth_error_nth K _ 0 E). }
  assert (Ecells : map (fun a => cell (nth a Sx 0)) (seq 0 (length cbs)) = map cell Sx).
  { rewrite <- (map_map (fun a => nth a Sx 0) cell). f_equal. rewrite len_cbs. apply map_nth_seq.
    intros a x Ha. apply (nth_error_nth Sx a 0 Ha). }
  cbn [bind]. rewrite Ecells, map_length, len_Sx. fold M. rewrite Nat.eqb_refl. cbn [negb].
  rewrite (map_opt_all _ cell M).
  - cbn [bind ret]. rewrite Hprog. reflexivity.
  - intros n Hn. apply find_cell. apply Sx_In. assumption.
Qed.

(* ---------------------------------------------------------------- the tail of the function, then the whole *)
Lemma copy_tail_eq :
  bind (copy_tail t ch_empty (text_of lines0) K Sx) (copy_state t) =
  Some (Sx, mkFH (map cell M) p (S (max_idx (t_blocks t))) [] []).
Proof.
  unfold copy_tail. cbv zeta. rewrite split_lines0.
  destruct (four_passes pc Hfpl Hcopy) as (L & Sd & ih1 & ih2 & ih3 & bh & E1 & E2 & E3 & E4).
  rewrite E1. cbn [bind fst snd]. rewrite E2. cbn [bind]. rewrite E3. cbn [bind fst snd]. rewrite E4. cbn [bind].
  rewrite fold_left_bind.
  destruct (transfer_fold ih3 cbs K pc [] [] Hcopy) as (cs & Et & _ & Pcs). cbn [length app] in Et. rewrite Et. cbn [bind].
  fold pm. rewrite (sort_blocks ih3 cs). cbn [bind]. rewrite fold_left_bind.
  destruct (idx_fold pm ih3 cbs cs Sx 0 []) as (idx1 & Ei & _ & Pidx).
  { intros n Hn. apply Sx_In. assumption. }
  { rewrite len_cbs. lia. }
  rewrite len_cbs, Ei. cbn [bind ret]. rewrite <- len_cbs.
  apply copy_state_eq.
  - intros i k l Hi Hop. exact (Pcs i k l Hi Hop).
  - intros i n Hi. exact (Pidx i n Hi).
Qed.

End WithCopy.

Theorem copy_main_cfg_state_cells :
  copy_main_cfg_state t attrs = Some (Sx, mkFH (map cell M) p (S (max_idx (t_blocks t))) [] []).
Proof.
  destruct parsed_copy as (pc & Hfpl & Hcopy).
  unfold copy_main_cfg_state. rewrite copy_main_cfg_gen_unfold. fold M. rewrite sorted_main. cbn [bind].
  rewrite first_loop. cbn [bind fst snd]. exact (copy_tail_eq pc Hfpl Hcopy).
Qed.

(* ---------------------------------------------------------------- against the model's initial state *)
Lemma Sx_function_blocks0 : Sx = function_blocks0 t.
Proof.
  unfold Sx, sel, function_blocks0. fold M. apply filter_seq_bound. intros x Hx. split; [apply M_lt; assumption|].
  pose proof (M_retained x Hx) as Hr. unfold R, retained_ids in Hr. apply in_map_iff in Hr. destruct Hr as (b & <- & Hb).
  pose proof (max_idx_ge _ _ Hb). lia.
Qed.

Lemma cells_heap0m : map cell M = map (main_only t) (fs_blocks (fn_state0 t)).
Proof.
  unfold fn_state0. cbn [fs_blocks]. unfold lookup_blocks. fold M.
  assert (G : forall l, (forall n, In n l -> In n M) ->
    map cell l = map (main_only t) (flat_map (fun n => match tblock t n with Some b => [b] | None => [] end) l)).
  { induction l as [|n l IH]; intros H; [reflexivity|]. cbn [map flat_map].
    destruct (main_cell n (H n (or_introl eq_refl))) as (B & HB & Hi & Ht). rewrite Ht. cbn [app map].
    rewrite <- IH by (intros x Hx; apply H; right; assumption). f_equal.
    unfold cell, main_only. cbn [b_idx b_ins b_next b_prev]. rewrite (nth_error_nth bs n dB HB). fold M. f_equal.
    symmetry. apply filter_filter_sub. exact M_retained. }
  apply G. auto.
Qed.

Theorem copy_main_cfg_state_main_sec : copy_main_cfg_state t attrs = Some (function_blocks0 t, heap0m t).
Proof.
  rewrite copy_main_cfg_state_cells, Sx_function_blocks0, cells_heap0m. unfold heap0m. rewrite Hprog. reflexivity.
Qed.

End Copy.

(* ====================================================================== *)
(* 3. The theorems                                                         *)
(* ====================================================================== *)
(* THEOREM 1: for EVERY parsed contract whose line numbers increase and EVERY attribute table whose source lines re-parse
   to the instructions they belong to, the generated copy_main_cfg raises no exception and returns -- read as the
   (function_blocks, heap) of Gen/FunctionGen.v -- the main blocks of the contract in idx order, in a heap whose cells are
   the model's initial cells with the predecessor lists restricted to main *)
Theorem copy_main_cfg_state_main p t attrs :
  parse_teal p = Ok t -> lines_increasing p -> attrs_ok p attrs ->
  copy_main_cfg_state t attrs = Some (function_blocks0 t, heap0m t).
Proof.
  intros Hp Hl Ha. destruct (parse_teal_blocks p t Hp) as (bs & Hbs).
  exact (copy_main_cfg_state_main_sec p t bs attrs Hp Hbs Hl Ha).
Qed.

Lemma block_eta' c : mkBlock (b_idx c) (b_ins c) (b_next c) (b_prev c) = c.
Proof. destruct c; reflexivity. Qed.

(* when no main block has a predecessor outside main, that heap IS the model's initial state *)
Lemma heap0m_heap0 t : main_prev_closed t -> heap0m t = heap0 t.
Proof.
  intros H. unfold heap0m, heap0, heap_of_state, fn_state0. cbn [fs_blocks fs_prog fs_next_id]. f_equal.
  rewrite <- (map_id (lookup_blocks t (s_blocks (t_main t)))) at 2. apply map_ext_in. intros c Hc.
  unfold lookup_blocks in Hc. apply in_flat_map in Hc. destruct Hc as (n & Hn & Hc).
  destruct (tblock t n) as [b|] eqn:Eb; [|destruct Hc]. destruct Hc as [<-|[]].
  unfold main_only. rewrite filter_all_true; [apply block_eta'|].
  intros m Hm. apply nat_mem_In. exact (H n b m Hn Eb Hm).
Qed.

Lemma main_prev_closed_struct_ok p t : parse_teal p = Ok t -> struct_ok t -> main_prev_closed t.
Proof. intros Hp Hok n b m Hn Hb Hm. exact (struct_ok_main_prev p t Hp Hok n b m Hn Hb Hm). Qed.

(* THEOREM 2: under main_prev_closed (in particular for every structured contract) the ASSUMPTION of Gen/FunctionGen.v
   about copy_main_cfg is a theorem *)
Theorem copy_main_cfg_state_eq p t attrs :
  parse_teal p = Ok t -> lines_increasing p -> attrs_ok p attrs -> main_prev_closed t ->
  copy_main_cfg_state t attrs = Some (function_blocks0 t, heap0 t).
Proof. intros Hp Hl Ha Hc. rewrite (copy_main_cfg_state_main p t attrs Hp Hl Ha), (heap0m_heap0 t Hc). reflexivity. Qed.

(* THEOREM 3: copy_main_cfg followed by the regenerated construct_function = the model's Group.construct_function *)
Theorem construct_function_from_copy_gen_eq p t attrs path fmn f errs :
  parse_teal p = Ok t -> lines_increasing p -> attrs_ok p attrs -> main_prev_closed t ->
  construct_function t path = Ok (f, errs) ->
  exists h,
    construct_function_from_copy_gen (dfs_budget t path) (subs_budget t) t attrs fmn path = Some (Some (Ok (f, h))) /\
    fh_prog h = fn_prog f /\ fh_next_id h = fs_next_id (cut_path (fn_state0 t) path) /\
    fh_idx h = map err_idx errs /\ fh_line h = map (err_line t) (enumerate errs).
Proof.
  intros Hp Hl Ha Hc Hcf. unfold construct_function_from_copy_gen.
  rewrite (copy_main_cfg_state_eq p t attrs Hp Hl Ha Hc). cbn [bind fst snd].
  exact (construct_function_gen_eq p t path fmn f errs Hp Hcf).
Qed.

Theorem construct_function_from_copy_gen_rejected p t attrs path fmn e f1 f2 :
  parse_teal p = Ok t -> lines_increasing p -> attrs_ok p attrs -> main_prev_closed t ->
  construct_function t path = Err e -> path <> [] ->
  construct_function_from_copy_gen f1 f2 t attrs fmn path = Some (Some (Err e)).
Proof.
  intros Hp Hl Ha Hc Hcf Hne. unfold construct_function_from_copy_gen.
  rewrite (copy_main_cfg_state_eq p t attrs Hp Hl Ha Hc). cbn [bind fst snd].
  exact (construct_function_gen_rejected p t path fmn e f1 f2 Hp Hcf Hne).
Qed.

Corollary construct_function_from_copy_gen_struct_ok p t attrs path fmn f errs :
  parse_teal p = Ok t -> lines_increasing p -> attrs_ok p attrs -> struct_ok t ->
  construct_function t path = Ok (f, errs) ->
  exists h, construct_function_from_copy_gen (dfs_budget t path) (subs_budget t) t attrs fmn path = Some (Some (Ok (f, h))).
Proof.
  intros Hp Hl Ha Hok Hcf.
  destruct (construct_function_from_copy_gen_eq p t attrs path fmn f errs Hp Hl Ha (main_prev_closed_struct_ok p t Hp Hok) Hcf) as (h & H & _).
  eauto.
Qed.

(* ====================================================================== *)
(* 4. The hypotheses discharged for a contract parsed from its source      *)
(* ====================================================================== *)
Lemma source_attrs : forall ls n cm p attrs,
  Forall (fun l => line_ok l = true) ls -> Forall (fun c => line_ok c = true /\ is_comment_line c = true) cm ->
  first_pass_lines ls n = Some p -> attrs_of_lines ls cm = Some attrs ->
  attrs_ok p attrs /\ StronglySorted lt (map i_line p) /\ Forall (fun i => n <= i_line i) p.
Proof.
  induction ls as [|l ls IH]; intros n cm p attrs Hok Hcm Hp Ha.
  - cbn in Hp, Ha. inversion Hp; inversion Ha; subst. split; [constructor|]. split; constructor.
  - inversion Hok as [|? ? Hl Hok']; subst. cbn [first_pass_lines attrs_of_lines] in Hp, Ha.
    unfold is_comment_line in Ha at 1. destruct (LineGen.str_startswith (LineGen.str_strip l) "//") eqn:Ec.
    + destruct (IH (S n) (cm ++ [l]) p attrs Hok') as (H1 & H2 & H3); try assumption.
      { apply Forall_app. split; [assumption|]. constructor; [split; [assumption | exact Ec] | constructor]. }
      split; [assumption|]. split; [assumption|]. eapply Forall_impl; [|exact H3]. cbn. intros; lia.
    + destruct (LineGen.parse_line_top l) as [oi|] eqn:Epl; [|discriminate]. cbn [bind] in Hp, Ha.
      destruct (first_pass_lines ls (S n)) as [rest|] eqn:Er; [|discriminate]. cbn [bind ret] in Hp.
      destruct oi as [i|].
      * destruct (attrs_of_lines ls []) as [arest|] eqn:Ea; [|discriminate]. cbn [bind ret] in Ha.
        inversion Hp; inversion Ha; subst. destruct (IH (S n) [] rest arest Hok' (Forall_nil _) Er Ea) as (H1 & H2 & H3).
        split; [|split].
        -- constructor; [|assumption]. unfold attr_ok. cbn [fst snd i_op]. unfold is_comment_line. auto.
        -- cbn [map i_line]. constructor; [assumption|]. apply Forall_forall. intros x Hx. apply in_map_iff in Hx.
           destruct Hx as (i' & <- & Hi'). rewrite Forall_forall in H3. pose proof (H3 i' Hi'). lia.
        -- constructor; [cbn; lia|]. eapply Forall_impl; [|exact H3]. cbn. intros; lia.
      * inversion Hp; subst. destruct (IH (S n) cm p attrs Hok' Hcm Er Ha) as (H1 & H2 & H3).
        split; [assumption|]. split; [assumption|]. eapply Forall_impl; [|exact H3]. cbn. intros; lia.
Qed.

(* THEOREM 4: for a contract parsed from a source text (the regenerated line parser applied to the lines of the text,
   the attributes first_pass stores) NO hypothesis is left but parse_teal p = Ok t *)
Theorem copy_main_cfg_source src p attrs t :
  first_pass_lines (splitlines src) 1 = Some p -> attrs_of_lines (splitlines src) [] = Some attrs ->
  parse_teal p = Ok t ->
  copy_main_cfg_state t attrs = Some (function_blocks0 t, heap0m t) /\
  (main_prev_closed t -> copy_main_cfg_state t attrs = Some (function_blocks0 t, heap0 t)).
Proof.
  intros Hp Ha Ht. destruct (source_attrs (splitlines src) 1 [] p attrs (splitlines_ok src) (Forall_nil _) Hp Ha) as (H1 & H2 & _).
  split; [exact (copy_main_cfg_state_main p t attrs Ht H2 H1)|].
  intros Hc. exact (copy_main_cfg_state_eq p t attrs Ht H2 H1 Hc).
Qed.

Theorem construct_function_source src p attrs t path fmn f errs :
  first_pass_lines (splitlines src) 1 = Some p -> attrs_of_lines (splitlines src) [] = Some attrs ->
  parse_teal p = Ok t -> struct_ok t -> construct_function t path = Ok (f, errs) ->
  exists h, construct_function_from_copy_gen (dfs_budget t path) (subs_budget t) t attrs fmn path = Some (Some (Ok (f, h))).
Proof.
  intros Hp Ha Ht Hok Hcf.
  destruct (source_attrs (splitlines src) 1 [] p attrs (splitlines_ok src) (Forall_nil _) Hp Ha) as (H1 & H2 & _).
  exact (construct_function_from_copy_gen_struct_ok p t attrs path fmn f errs Ht H2 H1 Hok Hcf).
Qed.

(* ====================================================================== *)
(* 5. The refutation of the unrestricted claim (instances: CopyInstances.v) *)
(* ====================================================================== *)
(* REFUTED: the assumption of Gen/FunctionGen.v does not hold for every parsed contract *)
Theorem copy_main_cfg_state_refuted :
  exists ls p attrs t,
    first_pass_lines ls 1 = Some p /\ attrs_of_lines ls [] = Some attrs /\ parse_teal p = Ok t /\
    copy_main_cfg_state t attrs <> Some (function_blocks0 t, heap0 t) /\ ~ main_prev_closed t.
Proof.
  exists ex_shared.
  destruct (first_pass_lines ex_shared 1) as [p|] eqn:Ep; [|vm_compute in Ep; discriminate].
  destruct (attrs_of_lines ex_shared []) as [attrs|] eqn:Ea; [|vm_compute in Ea; discriminate].
  destruct (parse_teal p) as [t|e] eqn:Et.
  2:{ vm_compute in Ep. inversion Ep; subst p. vm_compute in Et. discriminate. }
  exists p, attrs, t. split; [reflexivity|]. split; [reflexivity|]. split; [exact Et|].
  assert (Hne : copy_main_cfg_state t attrs <> Some (function_blocks0 t, heap0 t)).
  { vm_compute in Ep. inversion Ep; subst p. vm_compute in Ea. inversion Ea; subst attrs.
    vm_compute in Et. inversion Et; subst t. vm_compute. discriminate. }
  split; [exact Hne|]. intros Hc. apply Hne.
  assert (Hl : lines_increasing p /\ attrs_ok p attrs).
  { destruct (source_attrs ex_shared 1 [] p attrs) as (H1 & H2 & _); auto.
    repeat constructor. }
  destruct Hl as [Hl Hat]. exact (copy_main_cfg_state_eq p t attrs Et Hl Hat Hc).
Qed.

Print Assumptions copy_main_cfg_state_main.
Print Assumptions copy_main_cfg_state_eq.
Print Assumptions main_prev_closed_struct_ok.
Print Assumptions construct_function_from_copy_gen_eq.
Print Assumptions construct_function_from_copy_gen_rejected.
Print Assumptions construct_function_from_copy_gen_struct_ok.
Print Assumptions source_attrs.
Print Assumptions copy_main_cfg_source.
Print Assumptions construct_function_source.
Print Assumptions copy_main_cfg_state_refuted.
