(* Totality of the worklist solvers of Model/Analysis.v (generic part of property C17):
   - an executable definedness check [defined_okb] on function graphs under which no lookup of the two
     passes can fail (no [Exn] outcome, for every fuel);
   - fuel monotonicity;
   - termination: under an abstract finite-height structure [TLaws] on the domain, an explicit fuel bound
     [solve_bound] beyond which the passes return [Done]. *)
From Coq Require Import String List NArith ZArith Bool Arith Lia.
From Tealer Require Import Tables Syntax Parse Cfg StackAst Keys Analysis SolverLemmas.
From Tealer Require Domains.
Import ListNotations.
Open Scope list_scope.

(* ================================================================== the definedness check *)
Definition idsb (f : func) (n : nat) : bool := nat_mem n (ids f).

(* what the forward pass re-enqueues besides next_global / the backward pass besides prev_global *)
Definition next_rp (f : func) (b : block) : list nat :=
  if f_is_callsub f b then match sub_return_point b with Some r => [r] | None => [] end else [].
Definition prev_cs (f : func) (b : block) : list nat :=
  if is_sub_return_point f b then match callsub_block_of f b with Some c => [c] | None => [] end else [].

Definition defined_block_b (f : func) (b : block) : bool :=
  match next_global f b with Some nx => forallb (idsb f) (nx ++ next_rp f b) | None => false end &&
  match prev_global f b with Some ps => forallb (idsb f) ps | None => false end &&
  match emulate (fn_prog f) (b_ins b) [] with Some _ => true | None => false end.

Definition defined_okb (f : func) : bool :=
  forallb (defined_block_b f) (fn_blocks f) &&
  forallb (idsb f) (forward_worklist f) && forallb (idsb f) (backward_worklist f).

Lemma idsb_In f n : idsb f n = true <-> In n (ids f).
Proof. apply nat_mem_In. Qed.

Lemma existsb_find {A} (p : A -> bool) l : existsb p l = true -> exists x, find p l = Some x.
Proof.
  induction l as [|a l IH]; simpl; [discriminate|].
  destruct (p a); [eauto|]. simpl. exact IH.
Qed.

Section Defined.
  Variable f : func.
  Hypothesis Hdef : defined_okb f = true.

  Lemma def_block b : In b (fn_blocks f) -> defined_block_b f b = true.
  Proof.
    intros Hin. unfold defined_okb in Hdef. rewrite !andb_true_iff in Hdef.
    destruct Hdef as [[H _] _]. rewrite forallb_forall in H. auto.
  Qed.

  Lemma def_next b : In b (fn_blocks f) ->
    exists nx, next_global f b = Some nx /\ forall x, In x (nx ++ next_rp f b) -> In x (ids f).
  Proof.
    intros Hin. pose proof (def_block b Hin) as H. unfold defined_block_b in H.
    rewrite !andb_true_iff in H. destruct H as [[H _] _].
    destruct (next_global f b) as [nx|]; [|discriminate]. exists nx. split; [reflexivity|].
    rewrite forallb_forall in H. intros x Hx. apply idsb_In. auto.
  Qed.

  Lemma def_prev b : In b (fn_blocks f) ->
    exists ps, prev_global f b = Some ps /\ forall x, In x ps -> In x (ids f).
  Proof.
    intros Hin. pose proof (def_block b Hin) as H. unfold defined_block_b in H.
    rewrite !andb_true_iff in H. destruct H as [[_ H] _].
    destruct (prev_global f b) as [ps|]; [|discriminate]. exists ps. split; [reflexivity|].
    rewrite forallb_forall in H. intros x Hx. apply idsb_In. auto.
  Qed.

  Lemma def_emulate b : In b (fn_blocks f) -> exists ast, emulate (fn_prog f) (b_ins b) [] = Some ast.
  Proof.
    intros Hin. pose proof (def_block b Hin) as H. unfold defined_block_b in H.
    rewrite !andb_true_iff in H. destruct H as [_ H].
    destruct (emulate (fn_prog f) (b_ins b) []) as [ast|]; [eauto|discriminate].
  Qed.

  Lemma def_fwl x : In x (forward_worklist f) -> In x (ids f).
  Proof.
    intros Hin. unfold defined_okb in Hdef. rewrite !andb_true_iff in Hdef.
    destruct Hdef as [[_ H] _]. rewrite forallb_forall in H. apply idsb_In. auto.
  Qed.

  Lemma def_bwl x : In x (backward_worklist f) -> In x (ids f).
  Proof.
    intros Hin. unfold defined_okb in Hdef. rewrite !andb_true_iff in Hdef.
    destruct Hdef as [_ H]. rewrite forallb_forall in H. apply idsb_In. auto.
  Qed.
End Defined.

Lemma def_cs f b c : callsub_block_of f b = Some c -> In c (ids f).
Proof.
  unfold callsub_block_of. intros H. apply find_some in H. destruct H as [_ H].
  destruct (fblock f c) as [pb|] eqn:E; [|discriminate]. apply fblock_ids. eauto.
Qed.

Lemma rp_callsub_some f b : is_sub_return_point f b = true -> exists c, callsub_block_of f b = Some c.
Proof. unfold is_sub_return_point, callsub_block_of. apply existsb_find. Qed.

Lemma next_global_branch f b l :
  fexit_op f b = Some (IBZ l) \/ fexit_op f b = Some (IBNZ l) -> next_global f b = Some (b_next b).
Proof. intros [H|H]; unfold next_global, f_is_retsub; rewrite H; reflexivity. Qed.

Lemma next_global_callsub_inv f b l nx :
  fexit_op f b = Some (ICallsub l) -> next_global f b = Some nx -> exists s, f_find_sub f l = Some s.
Proof.
  intros Hop. unfold next_global, f_is_retsub. rewrite Hop.
  destruct (f_find_sub f l) as [s|]; [eauto|discriminate].
Qed.

Lemma append_new_length xs : forall wl, length (append_new wl xs) <= length wl + length xs.
Proof.
  induction xs as [|x xs IH]; intros wl; simpl; [lia|].
  destruct (nat_mem x wl).
  - specialize (IH wl). lia.
  - specialize (IH (wl ++ [x])). rewrite app_length in IH. simpl in IH. lia.
Qed.

(* degrees: how many blocks one re-enqueue can add *)
Definition out_deg (f : func) (b : block) : nat :=
  match next_global f b with Some nx => length (nx ++ next_rp f b) | None => 0 end.
Definition in_deg (f : func) (b : block) : nat :=
  match prev_global f b with Some ps => length (ps ++ prev_cs f b) | None => 0 end.
Definition Kdeg (f : func) : nat :=
  fold_right (fun b acc => Nat.max (Nat.max (out_deg f b) (in_deg f b)) acc) 1 (fn_blocks f).

Lemma Kdeg_ge f b : In b (fn_blocks f) -> out_deg f b <= Kdeg f /\ in_deg f b <= Kdeg f.
Proof.
  unfold Kdeg. induction (fn_blocks f) as [|a l IH]; intros Hin; [destruct Hin|].
  simpl. destruct Hin as [->|Hin]; [lia|]. specialize (IH Hin). lia.
Qed.

(* the explicit fuel bound for one run of Domains.solve over a domain of height H *)
Definition solve_bound (f : func) (H : nat) : nat :=
  S (length (forward_worklist f) + length (backward_worklist f) + Kdeg f * (length (fn_blocks f) * H)).

(* ================================================================== finite-height structure on a domain *)
Record TLaws (T : Type) (t_eqb : T -> T -> bool) (univ null : T) (union inter : T -> T -> T) : Type := mkTLaws {
  tl_ok : T -> Prop;          (* values stored in solver states *)
  tl_okc : T -> Prop;         (* constraint values (block / edge constraints) *)
  tl_leq : T -> T -> Prop;
  tl_mu : T -> nat;
  tl_H : nat;
  tl_ok_c : forall a, tl_ok a -> tl_okc a;
  tl_ok_univ : tl_ok univ;
  tl_ok_null : tl_ok null;
  tl_ok_union : forall a b, tl_ok a -> tl_ok b -> tl_ok (union a b);
  tl_ok_inter : forall a c, tl_ok a -> tl_okc c -> tl_ok (inter a c);
  tl_refl : forall a, tl_okc a -> tl_leq a a;
  tl_trans : forall a b c, tl_ok a -> tl_ok b -> tl_ok c -> tl_leq a b -> tl_leq b c -> tl_leq a c;
  tl_union_mono : forall a a' b b', tl_ok a -> tl_ok a' -> tl_ok b -> tl_ok b' ->
                  tl_leq a a' -> tl_leq b b' -> tl_leq (union a b) (union a' b');
  tl_inter_mono : forall a a' c c', tl_ok a -> tl_ok a' -> tl_okc c -> tl_okc c' ->
                  tl_leq a a' -> tl_leq c c' -> tl_leq (inter a c) (inter a' c');
  tl_null_least : forall a, tl_ok a -> tl_leq null a;
  tl_mu_strict : forall a b, tl_ok a -> tl_ok b -> tl_leq a b -> t_eqb b a = false -> tl_mu a < tl_mu b;
  tl_mu_bound : forall a, tl_ok a -> tl_mu a <= tl_H }.

Section Total.
  Variable T : Type.
  Variable t_eqb : T -> T -> bool.
  Variable univ null : T.
  Variable union inter : T -> T -> T.
  Variable single : instr -> nat -> list sval -> T * T.
  Variable f : func.

  Notation state := (Analysis.state T).
  Notation lookup := (Analysis.lookup T).
  Notation update := (Analysis.update T).
  Notation reachin := (Analysis.reachin T univ null union inter single f).
  Notation livein := (Analysis.livein T null union inter f).
  Notation edgec := (edge_constraint T univ null union inter single f).
  Notation rstep := (SolverLemmas.rstep T univ null union inter single f).
  Notation lstep := (SolverLemmas.lstep T union).

  Hypothesis Hdef : defined_okb f = true.
  Hypothesis Hcp : cover_prev_P f.

  (* every block id has a value *)
  Definition covers (st : state) : Prop := forall b, In b (ids f) -> exists v, lookup st b = Some v.

  Lemma covers_update st b v : covers st -> covers (update st b v).
  Proof.
    intros Hc x Hx. apply lookup_in_keys. rewrite update_keys.
    destruct (Hc x Hx) as [w Hw]. eapply lookup_some_in_keys; eauto.
  Qed.

  Lemma covers_keys st : (forall b, In b (ids f) -> In b (map fst st)) -> covers st.
  Proof. intros H b Hb. apply lookup_in_keys. auto. Qed.

  Lemma covers_map_blocks (g : block -> T) : covers (map (fun b => (b_idx b, g b)) (fn_blocks f)).
  Proof.
    intros b Hb. rewrite lookup_map_blocks. apply fblock_ids in Hb. destruct Hb as [xb ->]. simpl. eauto.
  Qed.

  (* ---------------------------------------------------------------- edge constraints are defined on edges *)
  Lemma edge_defined pb s nx :
    In pb (fn_blocks f) -> next_global f pb = Some nx -> In s nx -> exists ec, edgec pb s = Some ec.
  Proof.
    intros Hin Hnx Hs. unfold edge_constraint. rewrite Hnx.
    assert (Hm : nat_mem s nx = true) by (apply nat_mem_In; exact Hs). rewrite Hm. cbn [negb].
    destruct (def_emulate f Hdef pb Hin) as [ast Hast].
    destruct (fexit_op f pb) as [op|] eqn:Hop; [|eexists; reflexivity].
    destruct op; try (eexists; reflexivity).
    - (* bz *)
      rewrite Hast.
      assert (Hn : nx = b_next pb).
      { rewrite (next_global_branch f pb l (or_introl Hop)) in Hnx. congruence. }
      destruct (args_of ast (last (b_ins pb) 0)) as [[|a r]|]; try (eexists; reflexivity).
      destruct a as [|aop apos aargs aout]; [eexists; reflexivity|].
      destruct (asserted T univ null union inter single (cond_of (SKnown aop apos aargs aout))) as [tv fv].
      subst nx. destruct (b_next pb) as [|d [|j r']]; [destruct Hs| |].
      + destruct (branch_to_next (fn_prog f) _ (last (b_ins pb) 0));
          try (eexists; reflexivity); destruct (Nat.eqb s d); eexists; reflexivity.
      + destruct (Nat.eqb s d); [eexists; reflexivity|]. destruct (Nat.eqb s j); eexists; reflexivity.
    - (* bnz *)
      rewrite Hast.
      assert (Hn : nx = b_next pb).
      { rewrite (next_global_branch f pb l (or_intror Hop)) in Hnx. congruence. }
      destruct (args_of ast (last (b_ins pb) 0)) as [[|a r]|]; try (eexists; reflexivity).
      destruct a as [|aop apos aargs aout]; [eexists; reflexivity|].
      destruct (asserted T univ null union inter single (cond_of (SKnown aop apos aargs aout))) as [tv fv].
      subst nx. destruct (b_next pb) as [|d [|j r']]; [destruct Hs| |].
      + destruct (branch_to_next (fn_prog f) _ (last (b_ins pb) 0));
          try (eexists; reflexivity); destruct (Nat.eqb s d); eexists; reflexivity.
      + destruct (Nat.eqb s d); [eexists; reflexivity|]. destruct (Nat.eqb s j); eexists; reflexivity.
  Qed.

  (* an edge constraint exists only on an edge *)
  Lemma edge_some_inv pb s ec : edgec pb s = Some ec -> exists nx, next_global f pb = Some nx /\ In s nx.
  Proof.
    unfold edge_constraint. destruct (next_global f pb) as [nx|]; [|discriminate].
    destruct (nat_mem s nx) eqn:E; [|discriminate]. intros _. exists nx. split; [reflexivity|].
    apply nat_mem_In. exact E.
  Qed.

  (* ---------------------------------------------------------------- reachin / livein are defined *)
  Lemma rfold_defined st xb x : covers st -> forall ps,
    (forall p, In p ps -> exists bb nx, fblock f p = Some bb /\ next_global f bb = Some nx /\ In x nx) ->
    b_idx xb = x ->
    forall a, exists r, fold_left (rstep st xb) ps (Some a) = Some r.
  Proof.
    intros Hc. induction ps as [|p ps IH]; intros Hps Hx a; [simpl; eauto|].
    cbn [fold_left]. unfold SolverLemmas.rstep at 2.
    destruct (Hps p (or_introl eq_refl)) as [bb [nx [Hbb [Hnx Hin]]]].
    assert (Hp : In p (ids f)) by (apply fblock_ids; eauto).
    destruct (Hc p Hp) as [ro Hro]. rewrite Hro, Hbb.
    destruct (edge_defined bb x nx (fblock_In f p bb Hbb) Hnx Hin) as [ec Hec].
    rewrite Hx, Hec. apply IH; auto. intros q Hq. apply Hps. right. exact Hq.
  Qed.

  Lemma reachin_defined st x xb : fblock f x = Some xb -> covers st -> exists ri, reachin st xb = Some ri.
  Proof.
    intros Hx Hc. rewrite reachin_unfold.
    destruct (def_prev f Hdef xb (fblock_In f x xb Hx)) as [ps [Hps Hin]]. rewrite Hps.
    destruct (rfold_defined st xb x Hc ps) with (a := if Nat.eqb (b_idx xb) (fn_entry f) then univ else null)
      as [acc Hacc].
    { intros p Hp. exact (Hcp p x xb ps Hx Hps Hp). }
    { eapply fblock_idx; eauto. }
    rewrite Hacc. destruct (is_sub_return_point f xb) eqn:Hrp; [|eauto].
    destruct (rp_callsub_some f xb Hrp) as [c Hcs]. rewrite Hcs.
    destruct (Hc c (def_cs f xb c Hcs)) as [rc Hrc]. rewrite Hrc. eauto.
  Qed.

  Lemma lfold_defined st : covers st -> forall nx, (forall s, In s nx -> In s (ids f)) ->
    forall a, exists r, fold_left (lstep st) nx (Some a) = Some r.
  Proof.
    intros Hc. induction nx as [|s nx IH]; intros Hnx a; [simpl; eauto|].
    cbn [fold_left]. unfold SolverLemmas.lstep at 2.
    destruct (Hc s (Hnx s (or_introl eq_refl))) as [lo Hlo]. rewrite Hlo.
    apply IH. intros q Hq. apply Hnx. right. exact Hq.
  Qed.

  Lemma livein_defined st x xb : fblock f x = Some xb -> covers st -> exists li, livein st xb = Some li.
  Proof.
    intros Hx Hc. rewrite livein_unfold.
    destruct (def_next f Hdef xb (fblock_In f x xb Hx)) as [nx [Hnx Hin]]. rewrite Hnx.
    destruct (lfold_defined st Hc nx) with (a := null) as [acc Hacc].
    { intros s Hs. apply Hin. apply in_or_app. left. exact Hs. }
    rewrite Hacc.
    destruct (fexit_op f xb) as [op|] eqn:Hop; [|eauto].
    destruct op; eauto.
    destruct (sub_return_point xb) as [rp|] eqn:Hrp; [|eauto].
    destruct (next_global_callsub_inv f xb l nx Hop Hnx) as [s Hs]. rewrite Hs.
    destruct (sub_retsub_blocks f s); [eauto|].
    assert (Hr : In rp (ids f)).
    { apply Hin. apply in_or_app. right. unfold next_rp, f_is_callsub. rewrite Hop, Hrp. left. reflexivity. }
    destruct (Hc rp Hr) as [lr Hlr]. rewrite Hlr. eauto.
  Qed.

  (* ================================================================ one iteration of each pass *)
  Section Passes.
  Variable blockc : nat -> option T.
  Notation forward := (Analysis.forward T t_eqb univ null union inter single f blockc).
  Notation backward := (Analysis.backward T t_eqb null union inter f blockc).
  Hypothesis Hbc : forall b, In b (ids f) -> exists v, blockc b = Some v.

  Lemma forward_step fu bid wl st :
    In bid (ids f) -> covers st ->
    exists xb ri bc old nx,
      fblock f bid = Some xb /\ reachin st xb = Some ri /\ blockc bid = Some bc /\ lookup st bid = Some old /\
      next_global f xb = Some nx /\ (forall x, In x (nx ++ next_rp f xb) -> In x (ids f)) /\
      forward (S fu) (bid :: wl) st =
        if t_eqb (inter ri bc) old then forward fu wl st
        else forward fu (append_new wl (nx ++ next_rp f xb)) (update st bid (inter ri bc)).
  Proof.
    intros Hb Hc.
    destruct (proj1 (fblock_ids f bid) Hb) as [xb Hxb].
    destruct (reachin_defined st bid xb Hxb Hc) as [ri Hri].
    destruct (Hbc bid Hb) as [bc Hbcv]. destruct (Hc bid Hb) as [old Hold].
    destruct (def_next f Hdef xb (fblock_In f bid xb Hxb)) as [nx [Hnx Hin]].
    exists xb, ri, bc, old, nx. repeat (split; [assumption|]).
    cbn [Analysis.forward]. rewrite Hxb, Hri, Hbcv, Hold, Hnx. reflexivity.
  Qed.

  Lemma backward_step fu bid wl st :
    In bid (ids f) -> covers st ->
    exists xb,
      fblock f bid = Some xb /\
      ((leaf_global f xb = true /\ backward (S fu) (bid :: wl) st = backward fu wl st) \/
       (leaf_global f xb = false /\
        exists li bc old ps,
          livein st xb = Some li /\ blockc bid = Some bc /\ lookup st bid = Some old /\
          prev_global f xb = Some ps /\ (forall x, In x (ps ++ prev_cs f xb) -> In x (ids f)) /\
          backward (S fu) (bid :: wl) st =
            if t_eqb (inter li bc) old then backward fu wl st
            else backward fu (append_new wl (ps ++ prev_cs f xb)) (update st bid (inter li bc)))).
  Proof.
    intros Hb Hc.
    destruct (proj1 (fblock_ids f bid) Hb) as [xb Hxb]. exists xb. split; [assumption|].
    destruct (leaf_global f xb) eqn:Hleaf.
    - left. split; [reflexivity|]. cbn [Analysis.backward]. rewrite Hxb, Hleaf. reflexivity.
    - right. split; [reflexivity|].
      destruct (livein_defined st bid xb Hxb Hc) as [li Hli].
      destruct (Hbc bid Hb) as [bc Hbcv]. destruct (Hc bid Hb) as [old Hold].
      destruct (def_prev f Hdef xb (fblock_In f bid xb Hxb)) as [ps [Hps Hin]].
      exists li, bc, old, ps. repeat (split; [assumption|]). split.
      + intros x Hx. apply in_app_or in Hx. destruct Hx as [Hx|Hx]; [auto|].
        unfold prev_cs in Hx. destruct (is_sub_return_point f xb); [|destruct Hx].
        destruct (callsub_block_of f xb) as [c|] eqn:Hcs; [|destruct Hx].
        destruct Hx as [<-|[]]. eapply def_cs; eauto.
      + cbn [Analysis.backward]. rewrite Hxb, Hleaf, Hli, Hbcv, Hold, Hps. reflexivity.
  Qed.

  (* ================================================================ 1. no exception, for every fuel *)
  Theorem forward_no_exn : forall fuel wl st,
    (forall x, In x wl -> In x (ids f)) -> covers st -> forall e, forward fuel wl st <> Exn e.
  Proof.
    induction fuel as [|fu IH]; intros wl st Hwl Hc e; [discriminate|].
    destruct wl as [|bid wl]; [discriminate|].
    destruct (forward_step fu bid wl st (Hwl bid (or_introl eq_refl)) Hc)
      as (xb & ri & bc & old & nx & _ & _ & _ & _ & _ & Hin & ->).
    destruct (t_eqb (inter ri bc) old).
    - apply IH; auto. intros x Hx. apply Hwl. right. exact Hx.
    - apply IH; [|apply covers_update; assumption].
      intros x Hx. apply append_new_In in Hx. destruct Hx as [Hx|Hx]; [apply Hwl; right; exact Hx|auto].
  Qed.

  Theorem backward_no_exn : forall fuel wl st,
    (forall x, In x wl -> In x (ids f)) -> covers st -> forall e, backward fuel wl st <> Exn e.
  Proof.
    induction fuel as [|fu IH]; intros wl st Hwl Hc e; [discriminate|].
    destruct wl as [|bid wl]; [discriminate|].
    assert (Htl : forall x, In x wl -> In x (ids f)) by (intros x Hx; apply Hwl; right; exact Hx).
    destruct (backward_step fu bid wl st (Hwl bid (or_introl eq_refl)) Hc)
      as (xb & _ & [[_ ->]|[_ (li & bc & old & ps & _ & _ & _ & _ & Hin & ->)]]).
    - apply IH; auto.
    - destruct (t_eqb (inter li bc) old).
      + apply IH; auto.
      + apply IH; [|apply covers_update; assumption].
        intros x Hx. apply append_new_In in Hx. destruct Hx as [Hx|Hx]; auto.
  Qed.

  (* the states reached keep covering the block ids *)
  Lemma forward_covers fuel wl st st' : covers st -> forward fuel wl st = Done st' -> covers st'.
  Proof.
    intros Hc Hrun. apply covers_keys. rewrite (forward_keys T t_eqb univ null union inter single f blockc _ _ _ _ Hrun).
    intros b Hb. destruct (Hc b Hb) as [v Hv]. eapply lookup_some_in_keys; eauto.
  Qed.
  End Passes.

  (* ================================================================ 3. fuel monotonicity *)
  Theorem forward_fuel_mono blockc : forall fuel fuel' wl st r,
    Analysis.forward T t_eqb univ null union inter single f blockc fuel wl st = Done r -> fuel <= fuel' ->
    Analysis.forward T t_eqb univ null union inter single f blockc fuel' wl st = Done r.
  Proof.
    induction fuel as [|fu IH]; intros fuel' wl st r Hrun Hle; [discriminate|].
    destruct fuel' as [|fu']; [lia|]. assert (Hle' : fu <= fu') by lia.
    cbn [Analysis.forward] in *. destruct wl as [|bid wl]; [assumption|].
    destruct (fblock f bid) as [xb|]; [|discriminate].
    destruct (reachin st xb) as [ri|]; [|discriminate].
    destruct (blockc bid) as [bc|]; [|discriminate].
    destruct (lookup st bid) as [old|]; [|discriminate].
    destruct (t_eqb (inter ri bc) old); [apply IH; assumption|].
    destruct (next_global f xb) as [nx|]; [|discriminate]. apply IH; assumption.
  Qed.

  Theorem backward_fuel_mono blockc : forall fuel fuel' wl st r,
    Analysis.backward T t_eqb null union inter f blockc fuel wl st = Done r -> fuel <= fuel' ->
    Analysis.backward T t_eqb null union inter f blockc fuel' wl st = Done r.
  Proof.
    induction fuel as [|fu IH]; intros fuel' wl st r Hrun Hle; [discriminate|].
    destruct fuel' as [|fu']; [lia|]. assert (Hle' : fu <= fu') by lia.
    cbn [Analysis.backward] in *. destruct wl as [|bid wl]; [assumption|].
    destruct (fblock f bid) as [xb|]; [|discriminate].
    destruct (leaf_global f xb); [apply IH; assumption|].
    destruct (livein st xb) as [li|]; [|discriminate].
    destruct (blockc bid) as [bc|]; [|discriminate].
    destruct (lookup st bid) as [old|]; [|discriminate].
    destruct (t_eqb (inter li bc) old); [apply IH; assumption|].
    destruct (prev_global f xb) as [ps|]; [|discriminate]. apply IH; assumption.
  Qed.

  Theorem solve_fuel_mono bc fuel fuel' r :
    Domains.solve T t_eqb univ null union inter single f fuel bc = Done r -> fuel <= fuel' ->
    Domains.solve T t_eqb univ null union inter single f fuel' bc = Done r.
  Proof.
    intros Hrun Hle. apply solve_passes in Hrun. destruct Hrun as [ro [H1 H2]].
    apply solve_passes. exists ro. split.
    - eapply forward_fuel_mono; eauto.
    - eapply backward_fuel_mono; eauto.
  Qed.

  (* ================================================================ solve: no exception *)
  Definition bc_covers (bc : list (nat * T)) : Prop := forall b, In b (ids f) -> exists v, lookup bc b = Some v.

  Theorem solve_no_exn bc fuel :
    bc_covers bc -> forall e, Domains.solve T t_eqb univ null union inter single f fuel bc <> Exn e.
  Proof.
    intros Hbc e. unfold Domains.solve.
    destruct (Analysis.forward T t_eqb univ null union inter single f (lookup bc) fuel (forward_worklist f) _)
      as [ro|e'|] eqn:Hf.
    - apply backward_no_exn.
      + intros b Hb. eapply forward_covers in Hf; [exact (Hf b Hb)|]. apply covers_map_blocks.
      + apply (def_bwl f Hdef).
      + apply covers_map_blocks.
    - exfalso. revert Hf. apply forward_no_exn; auto.
      + apply (def_fwl f Hdef).
      + apply covers_map_blocks.
    - discriminate.
  Qed.

  (* the result of solve has a value for every block *)
  Lemma solve_covers bc fuel lo :
    Domains.solve T t_eqb univ null union inter single f fuel bc = Done lo -> covers lo.
  Proof.
    intros H. apply solve_passes in H. destruct H as [ro [_ H2]].
    apply covers_keys. rewrite (backward_keys _ _ _ _ _ _ _ _ _ _ _ H2).
    unfold bwd_st0. rewrite map_map. simpl. intros b Hb. exact Hb.
  Qed.

  (* ================================================================ 2. termination *)
  Section Term.
  Variable L : TLaws T t_eqb univ null union inter.
  Notation ok := (tl_ok _ _ _ _ _ _ L).
  Notation okc := (tl_okc _ _ _ _ _ _ L).
  Notation leq := (tl_leq _ _ _ _ _ _ L).
  Notation mu := (tl_mu _ _ _ _ _ _ L).
  Notation HH := (tl_H _ _ _ _ _ _ L).

  (* edge constraints are constraint values *)
  Hypothesis Hec : forall pb s ec, In pb (fn_blocks f) -> edgec pb s = Some ec -> okc ec.

  Definition okst (st : state) : Prop := forall b v, lookup st b = Some v -> ok v.
  Definition ple (st st' : state) : Prop :=
    forall b v, lookup st b = Some v -> exists w, lookup st' b = Some w /\ leq v w.

  Lemma okst_update st b v : okst st -> ok v -> okst (update st b v).
  Proof.
    intros Hs Hv k u Hk. destruct (Nat.eq_dec b k) as [<-|Hne].
    - destruct (lookup st b) as [old|] eqn:E.
      + rewrite (lookup_update_same T st b v old E) in Hk. inversion Hk; subst; assumption.
      + exfalso. apply lookup_some_in_keys in Hk. rewrite update_keys in Hk.
        apply lookup_in_keys in Hk. destruct Hk as [x Hx]. congruence.
    - rewrite lookup_update_other in Hk by exact Hne. eauto.
  Qed.

  (* ---------------------------------------------------------------- the measure *)
  Definition defect (st : state) : nat := fold_right (fun kv acc => (HH - mu (snd kv)) + acc) 0 st.

  Lemma defect_bound st : defect st <= length st * HH.
  Proof. induction st as [|[k v] st IH]; simpl; [lia|]. lia. Qed.

  Lemma defect_update st b old new :
    lookup st b = Some old -> mu old < mu new -> mu new <= HH -> defect (update st b new) < defect st.
  Proof.
    induction st as [|[k w] st IH]; simpl; [discriminate|].
    destruct (Nat.eqb k b) eqn:E; intros Hl Hlt Hle.
    - inversion Hl; subst w. simpl. lia.
    - simpl. specialize (IH Hl Hlt Hle). lia.
  Qed.

  (* ---------------------------------------------------------------- reachin / livein: ok and monotone *)
  Lemma rfold_ok st xb : okst st -> forall ps a r,
    ok a -> fold_left (rstep st xb) ps (Some a) = Some r -> ok r.
  Proof.
    intros Hs. induction ps as [|p ps IH]; intros a r Ha H.
    - simpl in H. inversion H; subst; assumption.
    - cbn [fold_left] in H. unfold SolverLemmas.rstep at 2 in H.
      destruct (lookup st p) as [ro|] eqn:E1; [|rewrite rfold_none in H; discriminate].
      destruct (fblock f p) as [pb|] eqn:E2; [|rewrite rfold_none in H; discriminate].
      destruct (edgec pb (b_idx xb)) as [ec|] eqn:E3; [|rewrite rfold_none in H; discriminate].
      eapply IH; [|exact H]. apply (tl_ok_union _ _ _ _ _ _ L); [assumption|].
      apply (tl_ok_inter _ _ _ _ _ _ L); [eapply Hs; eauto|]. eapply Hec; [eapply fblock_In|]; eauto.
  Qed.

  Lemma reachin_ok st xb ri : okst st -> reachin st xb = Some ri -> ok ri.
  Proof.
    intros Hs. rewrite reachin_unfold.
    destruct (prev_global f xb) as [ps|]; [|discriminate].
    destruct (fold_left (rstep st xb) ps _) as [a|] eqn:F; [|discriminate].
    assert (Ha : ok a).
    { eapply rfold_ok; [exact Hs| |exact F].
      destruct (Nat.eqb (b_idx xb) (fn_entry f)); [apply (tl_ok_univ _ _ _ _ _ _ L)|apply (tl_ok_null _ _ _ _ _ _ L)]. }
    destruct (is_sub_return_point f xb).
    - destruct (callsub_block_of f xb) as [c|]; [|discriminate].
      destruct (lookup st c) as [rc|] eqn:E; [|discriminate].
      intros H; inversion H; subst. apply (tl_ok_inter _ _ _ _ _ _ L); [assumption|].
      apply (tl_ok_c _ _ _ _ _ _ L). eapply Hs; eauto.
    - intros H; inversion H; subst; assumption.
  Qed.

  Lemma rfold_mono st st' xb : okst st -> okst st' -> ple st st' -> forall ps a a' r r',
    ok a -> ok a' -> leq a a' ->
    fold_left (rstep st xb) ps (Some a) = Some r -> fold_left (rstep st' xb) ps (Some a') = Some r' -> leq r r'.
  Proof.
    intros Hs Hs' Hple. induction ps as [|p ps IH]; intros a a' r r' Ha Ha' Hl H1 H2.
    - simpl in *. inversion H1; inversion H2; subst; assumption.
    - cbn [fold_left] in H1, H2. unfold SolverLemmas.rstep at 2 in H1. unfold SolverLemmas.rstep at 2 in H2.
      destruct (lookup st p) as [ro|] eqn:E1; [|rewrite rfold_none in H1; discriminate].
      destruct (Hple _ _ E1) as [ro' [E2 Hro]]. rewrite E2 in H2.
      destruct (fblock f p) as [pb|] eqn:E3; [|rewrite rfold_none in H1; discriminate].
      destruct (edgec pb (b_idx xb)) as [ec|] eqn:E4; [|rewrite rfold_none in H1; discriminate].
      assert (Hokc : okc ec) by (eapply Hec; [eapply fblock_In|]; eauto).
      assert (Hro1 : ok ro) by (eapply Hs; eauto). assert (Hro2 : ok ro') by (eapply Hs'; eauto).
      eapply IH; [| | |exact H1|exact H2].
      + apply (tl_ok_union _ _ _ _ _ _ L); [assumption|]. apply (tl_ok_inter _ _ _ _ _ _ L); assumption.
      + apply (tl_ok_union _ _ _ _ _ _ L); [assumption|]. apply (tl_ok_inter _ _ _ _ _ _ L); assumption.
      + apply (tl_union_mono _ _ _ _ _ _ L); try assumption;
          try (apply (tl_ok_inter _ _ _ _ _ _ L); assumption).
        apply (tl_inter_mono _ _ _ _ _ _ L); try assumption. apply (tl_refl _ _ _ _ _ _ L). assumption.
  Qed.

  Lemma reachin_mono st st' xb r r' :
    okst st -> okst st' -> ple st st' -> reachin st xb = Some r -> reachin st' xb = Some r' -> leq r r'.
  Proof.
    intros Hs Hs' Hple. rewrite !reachin_unfold.
    destruct (prev_global f xb) as [ps|]; [|discriminate].
    destruct (fold_left (rstep st xb) ps _) as [a|] eqn:F1; [|discriminate].
    destruct (fold_left (rstep st' xb) ps _) as [a'|] eqn:F2; [|discriminate].
    assert (Hi : ok (if Nat.eqb (b_idx xb) (fn_entry f) then univ else null)).
    { destruct (Nat.eqb (b_idx xb) (fn_entry f)); [apply (tl_ok_univ _ _ _ _ _ _ L)|apply (tl_ok_null _ _ _ _ _ _ L)]. }
    assert (Ha : ok a) by (eapply rfold_ok; [exact Hs|exact Hi|exact F1]).
    assert (Ha' : ok a') by (eapply rfold_ok; [exact Hs'|exact Hi|exact F2]).
    assert (La : leq a a').
    { eapply rfold_mono; [exact Hs|exact Hs'|exact Hple|exact Hi|exact Hi| |exact F1|exact F2].
      apply (tl_refl _ _ _ _ _ _ L). apply (tl_ok_c _ _ _ _ _ _ L). exact Hi. }
    destruct (is_sub_return_point f xb).
    - destruct (callsub_block_of f xb) as [c|]; [|discriminate].
      destruct (lookup st c) as [rc|] eqn:E1; [|discriminate].
      destruct (Hple _ _ E1) as [rc' [E2 Hrc]]. rewrite E2.
      intros H1 H2. inversion H1; inversion H2; subst.
      apply (tl_inter_mono _ _ _ _ _ _ L); try assumption; apply (tl_ok_c _ _ _ _ _ _ L); [eapply Hs|eapply Hs']; eauto.
    - intros H1 H2. inversion H1; inversion H2; subst. assumption.
  Qed.

  Lemma lfold_ok st : okst st -> forall nx a r, ok a -> fold_left (lstep st) nx (Some a) = Some r -> ok r.
  Proof.
    intros Hs. induction nx as [|p nx IH]; intros a r Ha H.
    - simpl in H. inversion H; subst; assumption.
    - cbn [fold_left] in H. unfold SolverLemmas.lstep at 2 in H.
      destruct (lookup st p) as [lo|] eqn:E1; [|rewrite lfold_none in H; discriminate].
      eapply IH; [|exact H]. apply (tl_ok_union _ _ _ _ _ _ L); [assumption|eapply Hs; eauto].
  Qed.

  Lemma livein_ok st xb li : okst st -> livein st xb = Some li -> ok li.
  Proof.
    intros Hs. rewrite livein_unfold.
    destruct (next_global f xb) as [nx|]; [|discriminate].
    destruct (fold_left (lstep st) nx _) as [a|] eqn:F; [|discriminate].
    assert (Ha : ok a) by (eapply lfold_ok; [exact Hs|apply (tl_ok_null _ _ _ _ _ _ L)|exact F]).
    assert (Hdefault : Some a = Some li -> ok li) by (intros H; inversion H; subst; assumption).
    destruct (fexit_op f xb) as [[]|]; auto.
    destruct (sub_return_point xb) as [rp|]; auto.
    destruct (f_find_sub f _) as [s|]; [|discriminate].
    destruct (sub_retsub_blocks f s); auto.
    destruct (lookup st rp) as [lr|] eqn:E; [|discriminate].
    intros H; inversion H; subst. apply (tl_ok_inter _ _ _ _ _ _ L); [assumption|].
    apply (tl_ok_c _ _ _ _ _ _ L). eapply Hs; eauto.
  Qed.

  Lemma lfold_mono st st' : okst st -> okst st' -> ple st st' -> forall nx a a' r r',
    ok a -> ok a' -> leq a a' ->
    fold_left (lstep st) nx (Some a) = Some r -> fold_left (lstep st') nx (Some a') = Some r' -> leq r r'.
  Proof.
    intros Hs Hs' Hple. induction nx as [|p nx IH]; intros a a' r r' Ha Ha' Hl H1 H2.
    - simpl in *. inversion H1; inversion H2; subst; assumption.
    - cbn [fold_left] in H1, H2. unfold SolverLemmas.lstep at 2 in H1. unfold SolverLemmas.lstep at 2 in H2.
      destruct (lookup st p) as [lo|] eqn:E1; [|rewrite lfold_none in H1; discriminate].
      destruct (Hple _ _ E1) as [lo' [E2 Hlo]]. rewrite E2 in H2.
      assert (H1o : ok lo) by (eapply Hs; eauto). assert (H2o : ok lo') by (eapply Hs'; eauto).
      eapply IH; [| | |exact H1|exact H2].
      + apply (tl_ok_union _ _ _ _ _ _ L); assumption.
      + apply (tl_ok_union _ _ _ _ _ _ L); assumption.
      + apply (tl_union_mono _ _ _ _ _ _ L); assumption.
  Qed.

  Lemma livein_mono st st' xb r r' :
    okst st -> okst st' -> ple st st' -> livein st xb = Some r -> livein st' xb = Some r' -> leq r r'.
  Proof.
    intros Hs Hs' Hple. rewrite !livein_unfold.
    destruct (next_global f xb) as [nx|]; [|discriminate].
    destruct (fold_left (lstep st) nx _) as [a|] eqn:F1; [|discriminate].
    destruct (fold_left (lstep st') nx _) as [a'|] eqn:F2; [|discriminate].
    pose proof (tl_ok_null _ _ _ _ _ _ L) as Hn.
    assert (Ha : ok a) by (eapply lfold_ok; [exact Hs|exact Hn|exact F1]).
    assert (Ha' : ok a') by (eapply lfold_ok; [exact Hs'|exact Hn|exact F2]).
    assert (La : leq a a').
    { eapply lfold_mono; [exact Hs|exact Hs'|exact Hple|exact Hn|exact Hn| |exact F1|exact F2].
      apply (tl_refl _ _ _ _ _ _ L). apply (tl_ok_c _ _ _ _ _ _ L). exact Hn. }
    assert (Hdefault : Some a = Some r -> Some a' = Some r' -> leq r r').
    { intros H1 H2. inversion H1; inversion H2; subst. assumption. }
    destruct (fexit_op f xb) as [[]|]; auto.
    destruct (sub_return_point xb) as [rp|]; auto.
    destruct (f_find_sub f _) as [s|]; [|discriminate].
    destruct (sub_retsub_blocks f s); auto.
    destruct (lookup st rp) as [lr|] eqn:E1; [|discriminate].
    destruct (Hple _ _ E1) as [lr' [E2 Hlr]]. rewrite E2.
    intros H1 H2. inversion H1; inversion H2; subst.
    apply (tl_inter_mono _ _ _ _ _ _ L); try assumption; apply (tl_ok_c _ _ _ _ _ _ L); [eapply Hs|eapply Hs']; eauto.
  Qed.

  (* ---------------------------------------------------------------- storing a larger value *)
  Lemma ple_update st b old new :
    okst st -> lookup st b = Some old -> leq old new -> ple st (update st b new).
  Proof.
    intros Hs Hold Hl k v Hk. destruct (Nat.eq_dec b k) as [<-|Hne].
    - rewrite Hold in Hk. inversion Hk; subst v. exists new. split; [eapply lookup_update_same; eauto|assumption].
    - exists v. split; [rewrite lookup_update_other by exact Hne; exact Hk|].
      apply (tl_refl _ _ _ _ _ _ L). apply (tl_ok_c _ _ _ _ _ _ L). eapply Hs; eauto.
  Qed.

  Section TermPasses.
  Variable blockc : nat -> option T.
  Notation forward := (Analysis.forward T t_eqb univ null union inter single f blockc).
  Notation backward := (Analysis.backward T t_eqb null union inter f blockc).
  Hypothesis Hbc : forall b, In b (ids f) -> exists v, blockc b = Some v.
  Hypothesis Hbc_ok : forall b v, blockc b = Some v -> okc v.

  (* every stored value is below its equation's right-hand side *)
  Definition asc_fwd (st : state) : Prop :=
    forall b xb ri bc old, fblock f b = Some xb -> reachin st xb = Some ri -> blockc b = Some bc ->
      lookup st b = Some old -> leq old (inter ri bc).
  Definition asc_bwd (st : state) : Prop :=
    forall b xb li bc old, fblock f b = Some xb -> leaf_global f xb = false -> livein st xb = Some li ->
      blockc b = Some bc -> lookup st b = Some old -> leq old (inter li bc).

  Lemma asc_fwd_update st b xb ri bc old :
    covers st -> okst st -> asc_fwd st ->
    fblock f b = Some xb -> reachin st xb = Some ri -> blockc b = Some bc -> lookup st b = Some old ->
    asc_fwd (update st b (inter ri bc)).
  Proof.
    intros Hc Hs Hasc Hxb Hri Hbcv Hold.
    assert (Hri_ok : ok ri) by (eapply reachin_ok; [exact Hs|exact Hri]).
    assert (Hbc_c : okc bc) by (eapply Hbc_ok; eauto).
    assert (Hnew : ok (inter ri bc)) by (apply (tl_ok_inter _ _ _ _ _ _ L); assumption).
    assert (Hs' : okst (update st b (inter ri bc))) by (apply okst_update; assumption).
    assert (Hple : ple st (update st b (inter ri bc))).
    { eapply ple_update; eauto. }
    intros b' xb' ri' bc' old' Hxb' Hri' Hbc' Hold'.
    destruct (reachin_defined st b' xb' Hxb' Hc) as [ri0 Hri0].
    assert (Hri0_ok : ok ri0) by (eapply reachin_ok; [exact Hs|exact Hri0]).
    assert (Hri'_ok : ok ri') by (eapply reachin_ok; [exact Hs'|exact Hri']).
    assert (Hbc'_c : okc bc') by (eapply Hbc_ok; eauto).
    assert (Hm : leq ri0 ri') by (eapply reachin_mono; [exact Hs|exact Hs'|exact Hple|exact Hri0|exact Hri']).
    assert (Hstep : leq (inter ri0 bc') (inter ri' bc')).
    { apply (tl_inter_mono _ _ _ _ _ _ L); try assumption. apply (tl_refl _ _ _ _ _ _ L). assumption. }
    destruct (Nat.eq_dec b b') as [<-|Hne].
    - rewrite (lookup_update_same T st b _ old Hold) in Hold'. inversion Hold'; subst old'.
      rewrite Hxb in Hxb'. inversion Hxb'; subst xb'. rewrite Hbcv in Hbc'. inversion Hbc'; subst bc'.
      rewrite Hri in Hri0. inversion Hri0; subst ri0. exact Hstep.
    - rewrite lookup_update_other in Hold' by exact Hne.
      apply (tl_trans _ _ _ _ _ _ L) with (b := inter ri0 bc'); try assumption.
      + eapply Hs; eauto.
      + apply (tl_ok_inter _ _ _ _ _ _ L); assumption.
      + apply (tl_ok_inter _ _ _ _ _ _ L); assumption.
      + eapply Hasc; eauto.
  Qed.

  Lemma asc_bwd_update st b xb li bc old :
    covers st -> okst st -> asc_bwd st ->
    fblock f b = Some xb -> leaf_global f xb = false -> livein st xb = Some li -> blockc b = Some bc ->
    lookup st b = Some old ->
    asc_bwd (update st b (inter li bc)).
  Proof.
    intros Hc Hs Hasc Hxb Hleaf Hli Hbcv Hold.
    assert (Hli_ok : ok li) by (eapply livein_ok; [exact Hs|exact Hli]).
    assert (Hbc_c : okc bc) by (eapply Hbc_ok; eauto).
    assert (Hnew : ok (inter li bc)) by (apply (tl_ok_inter _ _ _ _ _ _ L); assumption).
    assert (Hs' : okst (update st b (inter li bc))) by (apply okst_update; assumption).
    assert (Hple : ple st (update st b (inter li bc))).
    { eapply ple_update; eauto. }
    intros b' xb' li' bc' old' Hxb' Hleaf' Hli' Hbc' Hold'.
    destruct (livein_defined st b' xb' Hxb' Hc) as [li0 Hli0].
    assert (Hli0_ok : ok li0) by (eapply livein_ok; [exact Hs|exact Hli0]).
    assert (Hli'_ok : ok li') by (eapply livein_ok; [exact Hs'|exact Hli']).
    assert (Hbc'_c : okc bc') by (eapply Hbc_ok; eauto).
    assert (Hm : leq li0 li') by (eapply livein_mono; [exact Hs|exact Hs'|exact Hple|exact Hli0|exact Hli']).
    assert (Hstep : leq (inter li0 bc') (inter li' bc')).
    { apply (tl_inter_mono _ _ _ _ _ _ L); try assumption. apply (tl_refl _ _ _ _ _ _ L). assumption. }
    destruct (Nat.eq_dec b b') as [<-|Hne].
    - rewrite (lookup_update_same T st b _ old Hold) in Hold'. inversion Hold'; subst old'.
      rewrite Hxb in Hxb'. inversion Hxb'; subst xb'. rewrite Hbcv in Hbc'. inversion Hbc'; subst bc'.
      rewrite Hli in Hli0. inversion Hli0; subst li0. exact Hstep.
    - rewrite lookup_update_other in Hold' by exact Hne.
      apply (tl_trans _ _ _ _ _ _ L) with (b := inter li0 bc'); try assumption.
      + eapply Hs; eauto.
      + apply (tl_ok_inter _ _ _ _ _ _ L); assumption.
      + apply (tl_ok_inter _ _ _ _ _ _ L); assumption.
      + eapply Hasc; eauto.
  Qed.

  (* ---------------------------------------------------------------- the fuelled loops terminate *)
  Theorem forward_terminates : forall fuel wl st,
    (forall x, In x wl -> In x (ids f)) -> covers st -> okst st -> asc_fwd st ->
    length wl + Kdeg f * defect st < fuel ->
    exists st', forward fuel wl st = Done st' /\ covers st' /\ okst st'.
  Proof.
    induction fuel as [|fu IH]; intros wl st Hwl Hc Hs Hasc Hfuel; [lia|].
    destruct wl as [|bid wl]; [exists st; auto|].
    assert (Htl : forall x, In x wl -> In x (ids f)) by (intros x Hx; apply Hwl; right; exact Hx).
    destruct (forward_step blockc Hbc fu bid wl st (Hwl bid (or_introl eq_refl)) Hc)
      as (xb & ri & bc & old & nx & Hxb & Hri & Hbcv & Hold & Hnx & Hin & ->).
    destruct (t_eqb (inter ri bc) old) eqn:Heq.
    - apply IH; auto. simpl in Hfuel. lia.
    - assert (Hri_ok : ok ri) by (eapply reachin_ok; [exact Hs|exact Hri]).
      assert (Hnew : ok (inter ri bc)).
      { apply (tl_ok_inter _ _ _ _ _ _ L); [assumption|eapply Hbc_ok; eauto]. }
      assert (Hold_ok : ok old) by (eapply Hs; eauto).
      assert (Hlt : mu old < mu (inter ri bc)).
      { apply (tl_mu_strict _ _ _ _ _ _ L); try assumption. eapply Hasc; eauto. }
      pose proof (defect_update st bid old (inter ri bc) Hold Hlt (tl_mu_bound _ _ _ _ _ _ L _ Hnew)) as Hd.
      apply IH.
      + intros x Hx. apply append_new_In in Hx. destruct Hx as [Hx|Hx]; auto.
      + apply covers_update; assumption.
      + apply okst_update; assumption.
      + eapply asc_fwd_update; eauto.
      + pose proof (append_new_length (nx ++ next_rp f xb) wl) as Hlen.
        assert (Hk : length (nx ++ next_rp f xb) <= Kdeg f).
        { pose proof (proj1 (Kdeg_ge f xb (fblock_In f bid xb Hxb))) as Ho.
          unfold out_deg in Ho. rewrite Hnx in Ho. exact Ho. }
        simpl in Hfuel. nia.
  Qed.

  Theorem backward_terminates : forall fuel wl st,
    (forall x, In x wl -> In x (ids f)) -> covers st -> okst st -> asc_bwd st ->
    length wl + Kdeg f * defect st < fuel ->
    exists st', backward fuel wl st = Done st' /\ covers st' /\ okst st'.
  Proof.
    induction fuel as [|fu IH]; intros wl st Hwl Hc Hs Hasc Hfuel; [lia|].
    destruct wl as [|bid wl]; [exists st; auto|].
    assert (Htl : forall x, In x wl -> In x (ids f)) by (intros x Hx; apply Hwl; right; exact Hx).
    destruct (backward_step blockc Hbc fu bid wl st (Hwl bid (or_introl eq_refl)) Hc)
      as (xb & Hxb & [[_ ->]|[Hleaf (li & bc & old & ps & Hli & Hbcv & Hold & Hps & Hin & ->)]]).
    - apply IH; auto. simpl in Hfuel. lia.
    - destruct (t_eqb (inter li bc) old) eqn:Heq.
      + apply IH; auto. simpl in Hfuel. lia.
      + assert (Hli_ok : ok li) by (eapply livein_ok; [exact Hs|exact Hli]).
        assert (Hnew : ok (inter li bc)).
        { apply (tl_ok_inter _ _ _ _ _ _ L); [assumption|eapply Hbc_ok; eauto]. }
        assert (Hold_ok : ok old) by (eapply Hs; eauto).
        assert (Hlt : mu old < mu (inter li bc)).
        { apply (tl_mu_strict _ _ _ _ _ _ L); try assumption. eapply Hasc; eauto. }
        pose proof (defect_update st bid old (inter li bc) Hold Hlt (tl_mu_bound _ _ _ _ _ _ L _ Hnew)) as Hd.
        apply IH.
        * intros x Hx. apply append_new_In in Hx. destruct Hx as [Hx|Hx]; auto.
        * apply covers_update; assumption.
        * apply okst_update; assumption.
        * eapply asc_bwd_update; eauto.
        * pose proof (append_new_length (ps ++ prev_cs f xb) wl) as Hlen.
          assert (Hk : length (ps ++ prev_cs f xb) <= Kdeg f).
          { pose proof (proj2 (Kdeg_ge f xb (fblock_In f bid xb Hxb))) as Ho.
            unfold in_deg in Ho. rewrite Hps in Ho. exact Ho. }
          simpl in Hfuel. nia.
  Qed.
  End TermPasses.

  (* ---------------------------------------------------------------- Domains.solve terminates *)
  Lemma lookup_okst (st : state) : (forall b v, In (b, v) st -> ok v) -> okst st.
  Proof.
    intros H. induction st as [|[k w] st IH]; intros b v Hl; simpl in Hl; [discriminate|].
    destruct (Nat.eqb k b).
    - inversion Hl; subst. eapply H. left. reflexivity.
    - eapply IH; eauto. intros b' v' Hin. eapply H. right. exact Hin.
  Qed.

  Theorem solve_terminates bc fuel :
    bc_covers bc -> (forall b v, lookup bc b = Some v -> okc v) ->
    solve_bound f HH <= fuel ->
    exists lo, Domains.solve T t_eqb univ null union inter single f fuel bc = Done lo /\ covers lo /\ okst lo.
  Proof.
    intros Hbc Hbc_ok Hfuel. unfold solve_bound in Hfuel.
    pose proof (tl_ok_null _ _ _ _ _ _ L) as Hn.
    (* forward *)
    destruct (forward_terminates (lookup bc) Hbc Hbc_ok fuel (forward_worklist f)
                (map (fun b => (b_idx b, null)) (fn_blocks f))) as [ro [Hro [Hcro Hsro]]].
    { apply (def_fwl f Hdef). }
    { apply covers_map_blocks. }
    { apply lookup_okst. intros b v Hin. apply in_map_iff in Hin. destruct Hin as [xb [E _]].
      inversion E; subst. exact Hn. }
    { intros b xb ri bcv old Hxb Hri Hbcv Hold.
      rewrite lookup_map_blocks, Hxb in Hold. simpl in Hold. inversion Hold; subst old.
      apply (tl_null_least _ _ _ _ _ _ L). apply (tl_ok_inter _ _ _ _ _ _ L); [|eapply Hbc_ok; eauto].
      eapply reachin_ok; [|exact Hri]. apply lookup_okst. intros b' v Hin. apply in_map_iff in Hin.
      destruct Hin as [xb' [E _]]. inversion E; subst. exact Hn. }
    { pose proof (defect_bound (map (fun b => (b_idx b, null)) (fn_blocks f))) as Hd.
      rewrite map_length in Hd.
      assert (Kdeg f * defect (map (fun b => (b_idx b, null)) (fn_blocks f)) <= Kdeg f * (length (fn_blocks f) * HH))
        by (apply Nat.mul_le_mono_l; exact Hd). lia. }
    (* backward *)
    set (lo0 := map (fun b => (b_idx b, if leaf_global f b then match lookup ro (b_idx b) with Some v => v | None => null end else null)) (fn_blocks f)).
    assert (Hlo0 : okst lo0).
    { apply lookup_okst. intros b v Hin. apply in_map_iff in Hin. destruct Hin as [xb [E _]].
      inversion E; subst. destruct (leaf_global f xb); [|exact Hn].
      destruct (lookup ro (b_idx xb)) as [w|] eqn:Ew; [eapply Hsro; eauto|exact Hn]. }
    destruct (backward_terminates (lookup ro) Hcro (fun b v Hv => tl_ok_c _ _ _ _ _ _ L v (Hsro b v Hv))
                fuel (backward_worklist f) lo0) as [lo [Hlo [Hclo Hslo]]].
    { apply (def_bwl f Hdef). }
    { apply covers_map_blocks. }
    { exact Hlo0. }
    { intros b xb li bcv old Hxb Hleaf Hli Hbcv Hold. unfold lo0 in Hold.
      rewrite lookup_map_blocks, Hxb in Hold. simpl in Hold. rewrite Hleaf in Hold. inversion Hold; subst old.
      apply (tl_null_least _ _ _ _ _ _ L). apply (tl_ok_inter _ _ _ _ _ _ L).
      - eapply livein_ok; [exact Hlo0|exact Hli].
      - apply (tl_ok_c _ _ _ _ _ _ L). eapply Hsro; eauto. }
    { pose proof (defect_bound lo0) as Hd. unfold lo0 in Hd at 2. rewrite map_length in Hd.
      assert (Kdeg f * defect lo0 <= Kdeg f * (length (fn_blocks f) * HH))
        by (apply Nat.mul_le_mono_l; exact Hd). lia. }
    exists lo. split; [|split; assumption].
    unfold Domains.solve. rewrite Hro. exact Hlo.
  Qed.
  End Term.
End Total.

Print Assumptions forward_no_exn.
Print Assumptions backward_no_exn.
Print Assumptions solve_no_exn.
Print Assumptions solve_fuel_mono.
Print Assumptions solve_terminates.
