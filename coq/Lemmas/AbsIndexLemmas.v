(* Lemmas/AbsIndexLemmas.v -- `absolute_index` values outside 0 .. MAX_GROUP_SIZE-1 in a group configuration.

   What tealer does.  GroupConfigTransaction.from_yaml and init_tealer_from_config accept ANY integer
   (FromYamlLemmas.txn_from_yaml_total, GroupCfgOk.group_cfg_ok: no range test; the only test is that no two entries
   carry the same integer).  The verdict consumes txn.absoulte_index in exactly three places (detectors/utils.py
   detect_missing_tx_field_validations_group_complete): contract_checks_its_field(txn.logic_sig / txn.application, .., i)
   -> validated_in_block -> gtxn_context(i), and contract_checks_txn_at_absolute_index(other contracts, .., i) ->
   absolute_context(i).  Both index a MAX_GROUP_SIZE-entry Python list after the test `i >= MAX_GROUP_SIZE: raise`:
       absolute_index: -1   is silently read as index 15 (list[-1]); generally -16 <= i < 0 is read as 16 + i
       absolute_index: 16   (any i >= 16) raises a bare TealerException at detection time -- unless every leaf block is
                            already validated by its `txn` context, in which case the index is never looked at
       absolute_index: -17  (any i < -16) raises IndexError under the same condition.
   All of this is in the regenerated Gen/SearchGen.v (gtxn_context) and Gen/GroupGen.v (absolute_context), which take the
   index as Z; the model's record gtxn and GroupGen's transaction glue hold it as N.  Gen/GroupInitGen.v (prelude)
   therefore views the integer i of a Transaction object as the natural number abs_slot i.

   Proved here, for EVERY integer i, function table, analysis result and predicate:
     gtxn_context_slot / validated_in_block_gen_slot / contract_checks_its_field_gen_slot /
     absolute_context_slot / contract_checks_txn_at_absolute_index_gen_slot
         each of the three consumers returns the same value or raises on i exactly as on Z.of_N (abs_slot i): the view
         loses nothing (py has one exception value: TealerException and IndexError are both `None`);
     validated_negative_wraps, validated_minus_one_is_fifteen, validated_out_of_range: the three observations above;
     view_abs_is_slot: the view of an object reads abs_slot of its integer; init_keeps_absolute_indexes: the objects
         carry exactly the configured integers;
     abs_to_N_view_refuted: the earlier view through Z.to_N (absolute_index -1 read as index 0) was NOT faithful;
     abs_alias_witness: -1 and 15 pass the "same absolute index" test of init although both denote slot 15;
     init_then_verdict_negative_index: regenerated init + regenerated verdict on a configuration with index -1 =
         the model's verdict on the group with index 15 (instance of init_then_verdict_eq, by computation). *)
From Coq Require Import String List NArith ZArith Bool Arith Lia.
From Tealer Require Import Tables LeafPrelude Syntax Parse Cfg StackAst Keys KeysGen Analysis Domains Detect SearchGen Group GroupGen GroupInitGen.
From Tealer Require Import SearchGenLemmas GroupLemmas GroupGenLemmas GroupInitGenLemmas GroupCfgOk.
Import ListNotations.
Open Scope string_scope.
Open Scope list_scope.

(* ====================================================================== *)
(* 1. abs_slot                                                              *)
(* ====================================================================== *)
Lemma abs_slot_cases i :
  let m := Z.of_N MAX_GROUP_SIZE in
  ((0 <= i < m)%Z -> Z.of_N (abs_slot i) = i) /\
  ((- m <= i < 0)%Z -> Z.of_N (abs_slot i) = (m + i)%Z) /\
  ((m <= i)%Z -> Z.of_N (abs_slot i) = i) /\
  ((i < - m)%Z -> Z.of_N (abs_slot i) = m).
Proof.
  cbv zeta. pose proof (N2Z.is_nonneg MAX_GROUP_SIZE) as Hm. unfold abs_slot. cbv zeta.
  destruct (Z.ltb_spec i (- Z.of_N MAX_GROUP_SIZE)) as [H1|H1]; [repeat split; intros; try lia|].
  destruct (Z.ltb_spec i 0) as [H2|H2]; repeat split; intros; try lia; apply Z2N.id; lia.
Qed.

Lemma abs_slot_in_range i : (0 <= i < Z.of_N MAX_GROUP_SIZE)%Z -> abs_slot i = Z.to_N i.
Proof. intros H. apply N2Z.inj. rewrite (proj1 (abs_slot_cases i) H). rewrite Z2N.id by lia. reflexivity. Qed.

Example abs_slot_examples :
  abs_slot 0 = 0%N /\ abs_slot 15 = 15%N /\ abs_slot (-1) = 15%N /\ abs_slot (-16) = 0%N /\
  abs_slot 16 = 16%N /\ abs_slot 99 = 99%N /\ abs_slot (-17) = 16%N.
Proof. repeat split; vm_compute; reflexivity. Qed.

(* ====================================================================== *)
(* 2. The three consumers of the index agree on i and on its slot          *)
(* ====================================================================== *)
Section Consumers.
  Variable funcs : list (func * fn_result).
  Variable checks : bctx -> bool.

  (* transaction_context(block).gtxn_context(i) *)
  Theorem gtxn_context_slot r b i : gtxn_context r b i = gtxn_context r b (Z.of_N (abs_slot i)).
  Proof.
    pose proof (N2Z.is_nonneg MAX_GROUP_SIZE) as Hm. destruct (abs_slot_cases i) as (C1 & C2 & C3 & C4). cbv zeta in *.
    destruct (Z_lt_le_dec i (- Z.of_N MAX_GROUP_SIZE)) as [H1|H1].
    - rewrite (C4 H1). unfold gtxn_context. cbv zeta.
      destruct (Z.leb_spec (Z.of_N MAX_GROUP_SIZE) i) as [X|X]; [lia|].
      destruct (Z.leb_spec 0 i) as [Y|Y]; [lia|].
      destruct (Z.leb_spec (- Z.of_N MAX_GROUP_SIZE) i) as [W|W]; [lia|].
      destruct (Z.leb_spec (Z.of_N MAX_GROUP_SIZE) (Z.of_N MAX_GROUP_SIZE)) as [V|V]; [reflexivity | lia].
    - destruct (Z_lt_le_dec i 0) as [H2|H2].
      + rewrite (C2 (conj H1 H2)). unfold gtxn_context. cbv zeta.
        destruct (Z.leb_spec (Z.of_N MAX_GROUP_SIZE) i) as [X|X]; [lia|].
        destruct (Z.leb_spec 0 i) as [Y|Y]; [lia|].
        destruct (Z.leb_spec (- Z.of_N MAX_GROUP_SIZE) i) as [W|W]; [|lia].
        destruct (Z.leb_spec (Z.of_N MAX_GROUP_SIZE) (Z.of_N MAX_GROUP_SIZE + i)) as [V|V]; [lia|].
        destruct (Z.leb_spec 0 (Z.of_N MAX_GROUP_SIZE + i)) as [U|U]; [reflexivity | lia].
      + destruct (Z_lt_le_dec i (Z.of_N MAX_GROUP_SIZE)) as [H3|H3].
        * rewrite (C1 (conj H2 H3)). reflexivity.
        * rewrite (C3 H3). reflexivity.
  Qed.

  (* validated_in_block(block, function, checks_field, i) *)
  Theorem validated_in_block_gen_slot r b i :
    validated_in_block_gen r checks b (Some i) = validated_in_block_gen r checks b (Some (Z.of_N (abs_slot i))).
  Proof. unfold validated_in_block_gen. rewrite (gtxn_context_slot r b i). reflexivity. Qed.

  (* -16 <= i < 0: read as 16 + i *)
  Theorem validated_negative_wraps r b i :
    (- Z.of_N MAX_GROUP_SIZE <= i < 0)%Z ->
    validated_in_block_gen r checks b (Some i) = validated_in_block_gen r checks b (Some (Z.of_N MAX_GROUP_SIZE + i)%Z).
  Proof. intros H. rewrite validated_in_block_gen_slot. rewrite (proj1 (proj2 (abs_slot_cases i)) H). reflexivity. Qed.

  Corollary validated_minus_one_is_fifteen r b :
    validated_in_block_gen r checks b (Some (-1)%Z) = validated_in_block_gen r checks b (Some 15%Z).
  Proof. apply (validated_negative_wraps r b (-1)%Z). unfold MAX_GROUP_SIZE. lia. Qed.

  (* i >= 16 or i < -16: an exception, unless the block is validated by its `txn` context (the index is not looked at) *)
  Theorem validated_out_of_range r b i :
    (Z.of_N MAX_GROUP_SIZE <= i \/ i < - Z.of_N MAX_GROUP_SIZE)%Z ->
    validated_in_block_gen r checks b (Some i) = if checks (ctx_of r b KSelf) then Some true else None.
  Proof.
    intros H. pose proof (N2Z.is_nonneg MAX_GROUP_SIZE) as Hm. unfold validated_in_block_gen, SearchGen.transaction_context.
    destruct (checks (ctx_of r b KSelf)); [reflexivity|].
    assert (E : gtxn_context r b i = None).
    { unfold gtxn_context. cbv zeta. destruct (Z.leb_spec (Z.of_N MAX_GROUP_SIZE) i) as [X|X]; [reflexivity|].
      destruct (Z.leb_spec 0 i) as [Y|Y]; [lia|]. destruct (Z.leb_spec (- Z.of_N MAX_GROUP_SIZE) i) as [W|W]; [lia | reflexivity]. }
    rewrite E. reflexivity.
  Qed.

  (* contract_checks_its_field(function, checks_field, i): txn.logic_sig / txn.application of the transaction itself *)
  Theorem contract_checks_its_field_gen_slot k i :
    contract_checks_its_field_gen funcs checks k (Some i) = contract_checks_its_field_gen funcs checks k (Some (Z.of_N (abs_slot i))).
  Proof.
    unfold contract_checks_its_field_gen.
    assert (E : forall blk, call_validated_in_block funcs checks k blk (Some i) =
                            call_validated_in_block funcs checks k blk (Some (Z.of_N (abs_slot i)))).
    { intros blk. unfold call_validated_in_block. destruct (nth_error funcs k) as [fr|]; [|reflexivity]. cbn [bind].
      apply validated_in_block_gen_slot. }
    destruct (bind (attr_blocks funcs k) (fun tmp1 => filterE (fun block => call_leaf_block_global funcs k block) tmp1)) as [leaf|]; [|reflexivity].
    cbn [bind]. f_equal. apply fold_left_ext_in. intros a blk _. rewrite E. reflexivity.
  Qed.

  (* transaction_context(block).absolute_context(i) *)
  Theorem absolute_context_slot k blk i : absolute_context funcs k blk i = absolute_context funcs k blk (Z.of_N (abs_slot i)).
  Proof.
    unfold absolute_context. destruct (nth_error funcs k) as [fr|]; [|reflexivity]. cbn [bind]. cbv zeta.
    pose proof (N2Z.is_nonneg MAX_GROUP_SIZE) as Hm. destruct (abs_slot_cases i) as (C1 & C2 & C3 & C4). cbv zeta in *.
    destruct (Z_lt_le_dec i (- Z.of_N MAX_GROUP_SIZE)) as [H1|H1].
    - rewrite (C4 H1).
      destruct (Z.leb_spec (Z.of_N MAX_GROUP_SIZE) i) as [X|X]; [lia|].
      destruct (Z.leb_spec 0 i) as [Y|Y]; [lia|].
      destruct (Z.leb_spec (- Z.of_N MAX_GROUP_SIZE) i) as [W|W]; [lia|].
      destruct (Z.leb_spec (Z.of_N MAX_GROUP_SIZE) (Z.of_N MAX_GROUP_SIZE)) as [V|V]; [reflexivity | lia].
    - destruct (Z_lt_le_dec i 0) as [H2|H2].
      + rewrite (C2 (conj H1 H2)).
        destruct (Z.leb_spec (Z.of_N MAX_GROUP_SIZE) i) as [X|X]; [lia|].
        destruct (Z.leb_spec 0 i) as [Y|Y]; [lia|].
        destruct (Z.leb_spec (- Z.of_N MAX_GROUP_SIZE) i) as [W|W]; [|lia].
        destruct (Z.leb_spec (Z.of_N MAX_GROUP_SIZE) (Z.of_N MAX_GROUP_SIZE + i)) as [V|V]; [lia|].
        destruct (Z.leb_spec 0 (Z.of_N MAX_GROUP_SIZE + i)) as [U|U]; [reflexivity | lia].
      + destruct (Z_lt_le_dec i (Z.of_N MAX_GROUP_SIZE)) as [H3|H3].
        * rewrite (C1 (conj H2 H3)). reflexivity.
        * rewrite (C3 H3). reflexivity.
  Qed.

  (* contract_checks_txn_at_absolute_index(function, checks_field, i): the contracts of the OTHER transactions *)
  Theorem contract_checks_txn_at_absolute_index_gen_slot k i :
    contract_checks_txn_at_absolute_index_gen funcs checks k i =
    contract_checks_txn_at_absolute_index_gen funcs checks k (Z.of_N (abs_slot i)).
  Proof.
    unfold contract_checks_txn_at_absolute_index_gen.
    destruct (bind (attr_blocks funcs k) (fun tmp1 => filterE (fun block => call_leaf_block_global funcs k block) tmp1)) as [leaf|]; [|reflexivity].
    cbn [bind]. f_equal. apply fold_left_ext_in. intros a blk _. rewrite (absolute_context_slot k blk i). reflexivity.
  Qed.
End Consumers.

(* ====================================================================== *)
(* 3. The view of the Transaction objects                                   *)
(* ====================================================================== *)
Lemma view_abs_is_slot heap i : g_abs (view_txn heap i) = option_map abs_slot (o_absoulte_index (hread heap i)).
Proof. reflexivity. Qed.

(* what Gen/GroupGen.v does with the index it reads from the view = what it does with the object's own integer *)
Theorem view_consumers_faithful funcs checks heap i k :
  let t := view_txn heap i in
  let a := o_absoulte_index (hread heap i) in
  contract_checks_its_field_gen funcs checks k (attr_absoulte_index t) = contract_checks_its_field_gen funcs checks k a /\
  (forall z, attr_absoulte_index t = Some z ->
     exists z0, a = Some z0 /\
       contract_checks_txn_at_absolute_index_gen funcs checks k z = contract_checks_txn_at_absolute_index_gen funcs checks k z0) /\
  (attr_absoulte_index t = None <-> a = None).
Proof.
  cbv zeta. unfold attr_absoulte_index. rewrite view_abs_is_slot. destruct (o_absoulte_index (hread heap i)) as [z0|]; cbn [option_map].
  - split; [symmetry; apply contract_checks_its_field_gen_slot|]. split.
    + intros z Hz. inversion Hz; subst z. exists z0. split; [reflexivity|]. symmetry. apply contract_checks_txn_at_absolute_index_gen_slot.
    + split; discriminate.
  - split; [reflexivity|]. split; [discriminate | split; reflexivity].
Qed.

(* the objects carry exactly the configured integers: nothing is validated or normalised by init_tealer_from_config *)
Lemma phase2_abs D : forall es todo i g os' g',
  Forall2 (fun e o => o_absoulte_index o = ct_absolute_index e) es todo ->
  phase2 D i es todo g = Ok (os', g') ->
  Forall2 (fun e o => o_absoulte_index o = ct_absolute_index e) es os'.
Proof.
  induction es as [|e es IH]; intros todo i g os' g' HF H; inversion HF as [|e0 o es0 todo' Ha HF']; subst; cbn [phase2] in H.
  - inversion H. constructor.
  - destruct (rbind_ok_inv _ _ _ H) as (rel & _ & H1). destruct (rbind_ok_inv _ _ _ H1) as (g1 & _ & H2).
    destruct (rbind_ok_inv _ _ _ H2) as ([os1 g2] & H3 & H4). cbn [fst snd] in H4. inversion H4; subst os' g'.
    constructor; [|exact (IH _ _ _ _ _ HF' H3)]. destruct o; exact Ha.
Qed.

Lemma forall2_abs_map es os :
  Forall2 (fun e o => o_absoulte_index o = ct_absolute_index e) es os -> map o_absoulte_index os = map ct_absolute_index es.
Proof. intros HF. induction HF as [|e o es' os' Ho HF IH]; [reflexivity|]. cbn [map]. rewrite Ho, IH. reflexivity. Qed.

Theorem init_keeps_absolute_indexes cs grp heap g :
  init_group_gen cs grp = Ok (heap, g) ->
  map o_absoulte_index heap = map ct_absolute_index (cg_transactions grp).
Proof.
  rewrite init_group_gen_spec. unfold init_group_spec. intros H.
  destruct (rbind_ok_inv _ _ _ H) as (os & H1 & H2). destruct (rbind_ok_inv _ _ _ H2) as ([os' g1] & H3 & H4).
  cbn [fst snd] in H4. destruct (rbind_ok_inv _ _ _ H4) as (g2 & _ & H6). inversion H6; subst heap g.
  exact (forall2_abs_map _ _ (phase2_abs _ _ _ _ _ _ _ (phase1_abs _ _ _ _ H1) H3)).
Qed.
Print Assumptions init_keeps_absolute_indexes.

(* ====================================================================== *)
(* 4. Witnesses                                                             *)
(* ====================================================================== *)
(* an analysis result that knows "the transaction is a payment" only for the context "own index = 15" *)
Definition r_pay15 : fn_result := mkRes [] [] [(KAtIndex 15, [(0, ["Pay"])])] [] [].
Definition checks_pay (c : bctx) : bool := match ctx_transaction_types c with ["Pay"] => true | _ => false end.

(* the earlier view (Z.to_N: -1 read as index 0) was not faithful: tealer reads index 15 *)
Theorem abs_to_N_view_refuted :
  validated_in_block_gen r_pay15 checks_pay 0 (Some (-1)%Z) = Some true /\
  validated_in_block_gen r_pay15 checks_pay 0 (Some (Z.of_N (Z.to_N (-1)))) = Some false /\
  validated_in_block_gen r_pay15 checks_pay 0 (Some (Z.of_N (abs_slot (-1)))) = Some true.
Proof. repeat split; vm_compute; reflexivity. Qed.

Definition ai_contracts : list (string * tcontract) := [("ls", mkContract "ls" "LogicSig" [("f", 0)])].
Definition ai_entry (id : string) (a : Z) : GroupConfigTransaction :=
  mkGroupConfigTransaction id "pay" None None (Some (mkGroupConfigFunctionCall "ls" "f")) (Some a) None.
Definition ai_funcs : list (func * fn_result) := [(f_leaf, r_pay15)].

(* absolute_index: -1 -- accepted, kept as -1 in the object, the verdict reads slot 15: the transaction is cleared by the
   check the contract makes "at index 15"; the model verdict on the group with index 15 is the same; had the index been
   read as 0 the transaction would have been reported *)
Theorem init_then_verdict_negative_index :
  exists heap g,
    init_group_gen ai_contracts (mkGroupConfigGroup "op" [ai_entry "t" (-1)]) = Ok (heap, g) /\
    map o_absoulte_index heap = [Some (-1)%Z] /\ gr_absolute_indexes g = [((-1)%Z, 0)] /\
    view_group heap g = [mkTxn "t" "Pay" true (Some 0) None (Some 15%N) []] /\
    group_verdict_gen ai_funcs checks_pay "STATELESS" None (view_group heap g) = Some [] /\
    group_verdict ai_funcs checks_pay "STATELESS" None [mkTxn "t" "Pay" true (Some 0) None (Some 15%N) []] = [] /\
    group_verdict ai_funcs checks_pay "STATELESS" None [mkTxn "t" "Pay" true (Some 0) None (Some 0%N) []] = ["t"].
Proof. eexists. eexists. split; [vm_compute; reflexivity|]. repeat split; vm_compute; reflexivity. Qed.

(* absolute_index: 16 and -17 -- accepted by the reading; the verdict raises (TealerException resp. IndexError) as soon as
   a leaf block is not validated by its `txn` context *)
Theorem init_then_verdict_out_of_range :
  (exists heap g, init_group_gen ai_contracts (mkGroupConfigGroup "op" [ai_entry "t" 16]) = Ok (heap, g) /\
                  map o_absoulte_index heap = [Some 16%Z] /\
                  group_verdict_gen ai_funcs checks_pay "STATELESS" None (view_group heap g) = None) /\
  (exists heap g, init_group_gen ai_contracts (mkGroupConfigGroup "op" [ai_entry "t" (-17)]) = Ok (heap, g) /\
                  map o_absoulte_index heap = [Some (-17)%Z] /\
                  group_verdict_gen ai_funcs checks_pay "STATELESS" None (view_group heap g) = None) /\
  contract_checks_its_field_gen ai_funcs checks_pay 0 (Some 16%Z) = None /\
  contract_checks_its_field_gen ai_funcs checks_pay 0 (Some (-17)%Z) = None /\
  contract_checks_its_field_gen ai_funcs (fun _ => true) 0 (Some 16%Z) = Some true.
Proof.
  split; [eexists; eexists; split; [vm_compute; reflexivity|]; split; vm_compute; reflexivity|].
  split; [eexists; eexists; split; [vm_compute; reflexivity|]; split; vm_compute; reflexivity|].
  repeat split; vm_compute; reflexivity.
Qed.

(* -1 and 15 are different keys of group_obj.absolute_indexes, so the "Two transactions have same absolute index" test
   lets them pass although both denote slot 15; 15 twice is refused *)
Theorem abs_alias_witness :
  group_cfg_ok ai_contracts [ai_entry "a" (-1); ai_entry "b" 15] = true /\
  (exists heap g, init_group_gen ai_contracts (mkGroupConfigGroup "op" [ai_entry "a" (-1); ai_entry "b" 15]) = Ok (heap, g) /\
                  gr_absolute_indexes g = [((-1)%Z, 0); (15%Z, 1)] /\
                  map g_abs (view_group heap g) = [Some 15%N; Some 15%N]) /\
  init_group_gen ai_contracts (mkGroupConfigGroup "op" [ai_entry "a" 15; ai_entry "b" 15]) = Raise E_same_abs.
Proof.
  split; [vm_compute; reflexivity|]. split; [|vm_compute; reflexivity].
  eexists. eexists. split; [vm_compute; reflexivity|]. split; vm_compute; reflexivity.
Qed.

(* the range of the index plays no role in whether the reading returns: group_cfg_ok is invariant under any injective
   renumbering of the configured absolute indexes (e.g. a shift by 1000) *)
Lemma zmem_map_inj (f : Z -> Z) a l : (forall x y, f x = f y -> x = y) -> zmem (f a) (map f l) = zmem a l.
Proof.
  intros Hinj. unfold zmem. rewrite existsb_map. apply existsb_ext_in. intros k _.
  destruct (Z.eqb_spec (f k) (f a)) as [E|E]; destruct (Z.eqb_spec k a) as [E'|E']; try reflexivity.
  - exfalso. apply E'. apply Hinj. exact E.
  - exfalso. apply E. rewrite E'. reflexivity.
Qed.

Lemma fresh_zb_map_inj (f : Z -> Z) : (forall x y, f x = f y -> x = y) ->
  forall l seen, fresh_zb (map f seen) (map f l) = fresh_zb seen l.
Proof.
  intros Hinj. induction l as [|a l IH]; intros seen; [reflexivity|]. cbn [map fresh_zb].
  rewrite (zmem_map_inj f a seen Hinj). f_equal. rewrite <- IH, map_app. reflexivity.
Qed.

Definition renumber (f : Z -> Z) (e : GroupConfigTransaction) : GroupConfigTransaction :=
  mkGroupConfigTransaction (ct_txn_id e) (ct_txn_type e) (ct_application e) (ct_has_logic_sig e) (ct_logic_sig e)
                           (option_map f (ct_absolute_index e)) (ct_relative_indexes e).

Theorem group_cfg_ok_ignores_index_range cs es f :
  (forall x y, f x = f y -> x = y) -> group_cfg_ok cs (map (renumber f) es) = group_cfg_ok cs es.
Proof.
  intros Hinj.
  assert (Ha : abs_list (map (renumber f) es) = map f (abs_list es)).
  { induction es as [|e es IH]; [reflexivity|]. cbn [map]. rewrite !abs_list_cons, IH, map_app. f_equal.
    unfold renumber. cbn [ct_absolute_index]. destruct (ct_absolute_index e); reflexivity. }
  assert (Hid : map ct_txn_id (map (renumber f) es) = map ct_txn_id es) by (rewrite map_map; reflexivity).
  unfold group_cfg_ok, phase1_okb, phase2_okb. rewrite Hid, Ha, !forallb_map.
  change (@nil Z) with (map f (@nil Z)) at 1. rewrite (fresh_zb_map_inj f Hinj). reflexivity.
Qed.

Example group_cfg_ok_shifted :
  group_cfg_ok ex_contracts (map (renumber (fun z => (z - 1000)%Z)) (cg_transactions ex_group)) = true.
Proof. vm_compute. reflexivity. Qed.
Print Assumptions group_cfg_ok_ignores_index_range.
